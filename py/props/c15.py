"""C15 — Waveform capture records exactly what the wires carried, once per cycle; the WaveDrom rendering decodes back.

Proof : Properties/C15.v over the hand-written Model/Waveform.v (+ Model/SimKernel.v) and the independent Spec/C15.v.
Tie   : (A) the REAL Waveform inside real simulated designs (poked inputs, registers, inverters; wires / ports /
            repeated entries in the watch list; n = 0; clear(); optional gated recorder) against the model evaluated in
            Coq on the same histories: getDict() and get_wavedrom() after every operation;
        (B) random netlists of library blocks with a real Waveform attached: the recorder as a leaf of the kernel model
            (Model.Waveform.recorder_leaf inside SimKernel, generated leaf functions for the other blocks) against the
            real getDict() after every step.
Spec  : an independent Python reference simulation + an independent Python reader of WaveDrom rows (impl vs spec), the
        Coq reader Spec.C15.decode / hist applied to the REAL rows, and in (B) a simulator listener that reads the wires
        after each cycle.  The same sweep is the search oracle when a proof or the tie breaks."""
import random, json, os
import common, netlist, designs
from common import quiet, zlit, zlist

NEEDED = ['Wire_put', 'Wire_prepare', 'Reg_clock']
PRELUDE_A = 'From V Require Import Base.PyInt Model.SimKernel Model.Waveform Spec.C15.\n'
PRELUDE_B = ('From V Require Import Base.PyInt Gen.WireOps Gen.Helpers Gen.Prims Gen.Seq Model.SimKernel Model.Trace '
             'Model.Waveform Spec.C15.\n')


def _imp():
    py4hw = common.quiet_import()
    from py4hw.logic.simulation import Waveform
    return py4hw, Waveform


# ------------------------------------------------------------------------------------------- scenario A
WIDTHS = [1, 1, 1, 2, 3, 4, 7, 8, 8, 12, 16, 32, 33, 64, 100]
SENTINELS = [0, 1, 2, 10, 0xA, 0x10, 46, 50, 80, 120, 0x2E, 0x78, 0xAB, 0xFFFF]      # '.', '2', 'P', 'x' codes, 'A', '10', ...


def layout(sc):
    """wire table of a scenario: inputs, register outputs, inverter outputs, (enable)."""
    ws = []
    for i, inp in enumerate(sc['inputs']):
        ws.append({'name': 'in%d' % i, 'w': inp['w'], 'kind': 'in', 'src': i})
    for i, inp in enumerate(sc['inputs']):
        if inp['reg']: ws.append({'name': 'q%d' % i, 'w': inp['w'], 'kind': 'q', 'src': i})
    for i, inp in enumerate(sc['inputs']):
        if inp['inv']: ws.append({'name': 'n%d' % i, 'w': inp['w'], 'kind': 'n', 'src': i})
    for i, inp in enumerate(sc['inputs']):
        if inp.get('cmp'): ws.append({'name': 'c%d' % i, 'w': 1, 'kind': 'c', 'src': i})
    if sc.get('gate'):
        ws.append({'name': 'en', 'w': 1, 'kind': 'en', 'src': len(sc['inputs'])})
    return ws


# behavioural blocks of the harness: a 1-bit flag written with the RESULT OF A COMPARISON (a Python bool), either from
# propagate() via put or from clock() via prepare, as testbenches and behavioural models do
CMP = {'eq': lambda a, k: a == k, 'ne': lambda a, k: a != k, 'gt': lambda a, k: a > k, 'lt': lambda a, k: a < k}
_cmp_classes = {}
def cmp_classes():
    if not _cmp_classes:
        py4hw, _ = _imp()
        class CmpComb(py4hw.Logic):
            def __init__(self, parent, name, a, z, op, k):
                super().__init__(parent, name)
                self.a = self.addIn('a', a); self.z = self.addOut('z', z); self.op = CMP[op]; self.k = k
            def propagate(self):
                self.z.put(self.op(self.a.get(), self.k))
        class CmpSeq(py4hw.Logic):
            def __init__(self, parent, name, a, z, op, k):
                super().__init__(parent, name)
                self.a = self.addIn('a', a); self.z = self.addOut('z', z); self.op = CMP[op]; self.k = k
            def clock(self):
                self.z.prepare(self.op(self.a.get(), self.k))
        _cmp_classes.update(comb=CmpComb, seq=CmpSeq)
    return _cmp_classes


def typed(v, ptype, w):
    """the Python object handed to wire.put for the raw integer v: an int, a bool (1-bit inputs), or a numpy integer."""
    if ptype == 'bool' and w == 1: return bool(v & 1)
    if ptype == 'np' and w <= 32 and -(1 << 62) < v < (1 << 62):
        import numpy as np
        return np.int64(v)
    return v


def forms_of(sc, lay, k):
    x = lay[k]; inp = sc['inputs'][x['src']] if x['kind'] != 'en' else None
    if x['kind'] == 'in':
        return ['wire'] + (['inport_reg'] if inp['reg'] else []) + (['inport_inv'] if inp['inv'] else []) + (['inport_cmp'] if inp.get('cmp') else [])
    if x['kind'] in ('q', 'n', 'c'): return ['wire', 'outport']
    return ['wire']


def gen_values(rng, w, n):
    """adversarial value sequence of length n for a w-bit input (raw: may be negative / oversized, put() masks)."""
    m = (1 << w) - 1
    mode = rng.choice(['runs', 'alt', 'rand', 'sentinel', 'hold', 'mixed'])
    out = []
    a, b = rng.randrange(1 << w), rng.randrange(1 << w)
    while len(out) < n:
        if mode == 'runs': out += [rng.randrange(1 << w)] * rng.randint(1, 6)
        elif mode == 'alt': out += [a, b]
        elif mode == 'rand': out.append(rng.randrange(1 << w))
        elif mode == 'sentinel': out += [rng.choice(SENTINELS + [m, m - 1, 1 << (w - 1)])] * rng.randint(1, 3)
        elif mode == 'hold': out += [a] * n
        else: out.append(rng.choice([a, a, b, 0, m, -1, (1 << w) + 2, rng.randrange(1 << w), rng.choice(SENTINELS)]))
    return out[:n]


def gen_scenario(rng, big=False):
    nin = rng.randint(1, 4)
    inputs = [{'w': rng.choice(WIDTHS), 'reg': rng.random() < .6, 'inv': rng.random() < .4} for _ in range(nin)]
    for inp in inputs:                         # power-up value of the register (no reset wire: it only shows before the first edge)
        if inp['reg'] and rng.random() < .5:
            inp['rv'] = rng.choice([1, (1 << inp['w']) - 1, rng.randrange(1 << inp['w']), -1, (1 << inp['w']) + 5])
    for inp in inputs:
        # what kind of Python object the testbench pokes (bool for 1-bit flags, numpy integers), and an optional behavioural
        # block that writes a 1-bit flag with the result of a comparison on this input
        inp['ptype'] = rng.choice(['int', 'int', 'bool', 'np']) if inp['w'] == 1 else rng.choice(['int', 'int', 'np'])
        if rng.random() < .4:
            inp['cmp'] = {'kind': rng.choice(['comb', 'seq']), 'op': rng.choice(sorted(CMP)),
                          'k': rng.choice([0, 1, (1 << inp['w']) - 1, rng.randrange(1 << inp['w'])])}
    sc = {'inputs': inputs, 'gate': rng.random() < .2}
    sc['en_bool'] = rng.random() < .5            # the gating enable poked as a Python bool
    lay = layout(sc)
    ents = []
    for _ in range(rng.randint(1, 8)):
        if ents and rng.random() < .45: k = rng.choice(ents)[0]          # same wire again (maybe in another form)
        else: k = rng.randrange(len(lay))
        ents.append([k, rng.choice(forms_of(sc, lay, k))])
    sc['entries'] = ents
    nops = rng.randint(1, 7)
    ops = []
    ncyc = [rng.choice([0, 1, 1, 2, 3, 5, 9] + ([30] if big else [])) for _ in range(nops)]
    seqs = [gen_values(rng, inp['w'], sum(ncyc) + nops) for inp in inputs]
    ens = [rng.choice([1, 1, 1, 0]) for _ in range(sum(ncyc) + nops)]
    pos = 0
    for n in ncyc:
        if rng.random() < .25: ops.append(['clear'])
        if n <= 1 or rng.random() < .4:
            pokes = {str(i): seqs[i][pos] for i in range(nin) if rng.random() < .85}
            if sc['gate']: pokes[str(nin)] = ens[pos]
            ops.append(['clk', n, pokes]); pos += 1
        else:                                  # cycle by cycle with fresh pokes (long adversarial sequences)
            for _ in range(n):
                pokes = {str(i): seqs[i][pos] for i in range(nin)}
                if sc['gate']: pokes[str(nin)] = ens[pos]
                ops.append(['clk', 1, pokes]); pos += 1
    if rng.random() < .3: ops.append(['clear'])
    sc['ops'] = ops
    # recorders added AFTER the simulator was obtained (and usually after some cycles were run): at top level (one more leaf),
    # as the first child of a so far empty container block, in place of an existing leaf, or in place of the first recorder
    # (the last three keep the NUMBER of leaves constant).  hw.getSimulator() is called again after every change.
    late = []
    if rng.random() < .4:
        places = ['top', 'container', 'replace_leaf', 'replace_main']
        for j in range(rng.randint(1, 2)):
            pl = rng.choice(places)
            if pl == 'replace_main': places.remove(pl)
            ents2 = []
            for _ in range(rng.randint(1, 4)):
                k = rng.choice(ents2)[0] if ents2 and rng.random() < .4 else rng.randrange(len(lay))
                ents2.append([k, rng.choice(forms_of(sc, lay, k))])
            late.append({'at': rng.randrange(len(ops)), 'place': pl, 'entries': ents2})
        late.sort(key=lambda r: r['at'])
    sc['late'] = late
    return sc


def recorders(sc):
    """every recorder of a scenario as (key, view): view is a scenario restricted to the recorder's life
    (ops[at:dead], its own watch list); 'skip' = number of operations before it exists."""
    nops = len(sc['ops'])
    dead = min([r['at'] for r in sc.get('late', []) if r['place'] == 'replace_main'] + [nops])
    out = [('main', dict(sc, ops=sc['ops'][:dead], skip=0, rec_gated=bool(sc.get('gate'))))]
    for j, r in enumerate(sc.get('late', [])):
        out.append(('late%d' % j, dict(sc, entries=r['entries'], ops=sc['ops'][r['at']:], skip=r['at'], rec_gated=False, place=r['place'])))
    return [(k, v) for k, v in out if v['ops']]


def ref_run(sc, view=None):
    """independent reference: per operation of the recorder's life the list of recorder operations (with the wire values
    going into each edge) and the expected sample list per wire after the operation.  The whole scenario is simulated;
    the recorder described by `view` (default: the first one) exists for operations skip .. skip+len(view.ops)-1."""
    view = view or recorders(sc)[0][1]
    first, last_op = view['skip'], view['skip'] + len(view['ops'])
    gated = view['rec_gated']
    lay = layout(sc); nin = len(sc['inputs'])
    mask = lambda i: (1 << sc['inputs'][i]['w']) - 1
    inv = [0] * nin; en = 0
    # Reg.__init__ puts the masked initial value on q (repo fix 1f058fe); older trees leave q at 0 until the first edge
    q = [((sc['inputs'][i].get('rv') or 0) & mask(i)) if netlist.POWERUP_Q else 0 for i in range(nin)]
    cs = [0] * nin                                # flags written from clock(): 0 until the first edge
    def flag(i): c = sc['inputs'][i]['cmp']; return int(CMP[c['op']](inv[i], c['k']))
    def vals():
        out = []
        for x in lay:
            i = x['src']
            out.append(inv[i] if x['kind'] == 'in' else q[i] if x['kind'] == 'q' else (~inv[i]) & mask(i) if x['kind'] == 'n' else
                       (flag(i) if sc['inputs'][i]['cmp']['kind'] == 'comb' else cs[i]) if x['kind'] == 'c' else en)
        return out
    uniq = []
    for k, _ in view['entries']:
        if k not in uniq: uniq.append(k)
    data = {k: [] for k in uniq}
    groups, checkpoints = [], []
    for t, op in enumerate(sc['ops']):
        g = []
        alive = first <= t < last_op
        if op[0] == 'clear':
            for k in data: data[k] = []
            g.append(None)
        else:
            _, n, pokes = op
            for i, v in pokes.items():
                i = int(i)
                if i < nin: inv[i] = v & mask(i)
                else: en = v & 1
            for _ in range(n):
                vs = vals()
                if alive and (not gated or en != 0):
                    g.append(vs)
                    for k in uniq: data[k].append(vs[k])
                q = list(inv)                     # Reg: q <= d at the edge
                cs = [flag(i) if sc['inputs'][i].get('cmp') else 0 for i in range(nin)]
        if alive:
            groups.append(g)
            checkpoints.append([(k, list(data[k])) for k in uniq])
    return groups, checkpoints


def build_real(sc):
    py4hw, Waveform = _imp()
    lay = layout(sc)
    with quiet():
        hw = py4hw.HWSystem()
        wires = [hw.wire(x['name'], x['w']) for x in lay]
        byname = {x['name']: w for x, w in zip(lay, wires)}
        regs, invs = {}, {}
        for i, inp in enumerate(sc['inputs']):
            if inp['reg']: regs[i] = py4hw.Reg(hw, 'r%d' % i, byname['in%d' % i], byname['q%d' % i], reset_value=inp.get('rv'))
            if inp['inv']: invs[i] = py4hw.Not(hw, 'inv%d' % i, byname['in%d' % i], byname['n%d' % i])
        cmps = {}
        for i, inp in enumerate(sc['inputs']):
            if inp.get('cmp'):
                c = inp['cmp']
                cmps[i] = cmp_classes()[c['kind']](hw, 'cmp%d' % i, byname['in%d' % i], byname['c%d' % i], c['op'], c['k'])
        def watch(entries):
            objs = []
            for k, form in entries:
                x = lay[k]; i = x['src']
                if form == 'wire': objs.append(wires[k])
                elif form == 'inport_reg': objs.append(regs[i].inPorts[0])
                elif form == 'inport_inv': objs.append(invs[i].inPorts[0])
                elif form == 'inport_cmp': objs.append(cmps[i].inPorts[0])
                elif form == 'outport': objs.append((regs if x['kind'] == 'q' else invs if x['kind'] == 'n' else cmps)[i].outPorts[0])
                else: raise ValueError(form)
                assert objs[-1] is wires[k] or objs[-1].wire is wires[k]
            return objs
        objs = watch(sc['entries'])
        wf = Waveform(hw, 'wf', objs)
        if sc.get('gate'):
            wf.clockDriver = py4hw.ClockDriver('gclk', base=hw.clockDriver, enable=byname['en'])
        # blocks that exist from the start and later receive / are replaced by a recorder
        for j, r in enumerate(sc.get('late', [])):
            if r['place'] == 'container': py4hw.Logic(hw, 'box%d' % j)
            elif r['place'] == 'replace_leaf': py4hw.Logic(hw, 'dum%d' % j)
        sim = hw.getSimulator()
    return hw, sim, wf, wires, objs, watch


def add_late(hw, j, r, watch):
    """change the hierarchy after the simulator exists; the caller obtains the simulator again."""
    py4hw, Waveform = _imp()
    objs = watch(r['entries'])
    if r['place'] == 'top': return Waveform(hw, 'late%d' % j, objs), objs
    if r['place'] == 'container': return Waveform(hw.children['box%d' % j], 'wv', objs), objs
    name = 'dum%d' % j if r['place'] == 'replace_leaf' else 'wf'
    del hw.children[name]
    return Waveform(hw, name, objs), objs


def impl_run(sc):
    """the real class.  returns {recorder key: (snaps, names)}: after every operation of the recorder's life
    (getDict as [(wire index, samples)], get_wavedrom(), get_wavedrom(True))."""
    hw, sim, wf, wires, objs, watch = build_real(sc)
    idx = {id(w): k for k, w in enumerate(wires)}
    inwire = {x['src']: k for k, x in enumerate(layout(sc)) if x['kind'] in ('in', 'en')}
    live = {'main': (wf, objs)}
    snaps = {'main': []}
    for t, op in enumerate(sc['ops']):
        for j, r in enumerate(sc.get('late', [])):
            if r['at'] == t:
                with quiet():
                    live['late%d' % j] = add_late(hw, j, r, watch)
                    if r['place'] == 'replace_main': live.pop('main', None)
                    sim = hw.getSimulator()            # the documented way to refresh the schedule after a change
                snaps['late%d' % j] = []
        if op[0] == 'clear':
            for rec, _ in live.values(): rec.clear()
        else:
            _, n, pokes = op
            for i, v in pokes.items():
                inp = sc['inputs'][int(i)] if int(i) < len(sc['inputs']) else {'w': 1, 'ptype': 'bool' if sc.get('en_bool') else 'int'}
                wires[inwire[int(i)]].put(typed(v, inp.get('ptype', 'int'), inp['w']))
            with quiet(): sim = hw.getSimulator(); sim.clk(n)
        for key, (rec, _) in live.items():
            d = rec.getDict()
            snaps[key].append({'dict': [(idx[id(w)], list(v)) for w, v in d.items()],
                               'wd': json.loads(json.dumps(rec.get_wavedrom())), 'wd_short': json.loads(json.dumps(rec.get_wavedrom(True)))})
    out = {}
    allrec = dict(live); allrec.setdefault('main', (wf, objs))
    for key, (rec, ob) in allrec.items():
        out[key] = (snaps[key], {'short': ['clk'] + [o.name for o in ob], 'full': ['clk'] + [o.getFullPath() for o in ob], 'wf': rec.name})
    return out


def py_decode(ww, wave, labels):
    """independent reader of one WaveDrom signal: returns the sample list or raises ValueError.  Canonical: a value
    character that merely repeats the previous sample is rejected (repeats are dots)."""
    if len(wave) < 2 or wave[0] != 'x' or wave[-1] != 'x': raise ValueError('row must be x...x: %r' % wave)
    out, last, labels = [], None, list(labels)
    for c in wave[1:-1]:
        if c == '.':
            if last is None: raise ValueError('dot without a previous value')
            v = last
        elif ww == 1:
            if c not in '01': raise ValueError('1-bit row carries %r' % c)
            v = int(c)
        else:
            if c != '2': raise ValueError('data row carries %r' % c)
            if not labels: raise ValueError('missing label')
            lb = labels.pop(0)
            if not lb or any(ch not in '0123456789ABCDEF' for ch in lb): raise ValueError('label %r' % lb)
            v = int(lb, 16)
        if c != '.' and v == last: raise ValueError('a repeated value must be run-length encoded as a dot')
        out.append(v); last = v
    if labels: raise ValueError('unused labels %r' % labels)
    return out


def check_py(sc, snaps, names, checkpoints):
    """impl vs spec (Python side).  returns None or a description of the first discrepancy."""
    lay = layout(sc)
    if len(snaps) != len(checkpoints):
        return {'what': 'harness: %d snapshots for %d operations' % (len(snaps), len(checkpoints))}
    for t, (snap, exp) in enumerate(zip(snaps, checkpoints)):
        where = 'after operation %d %r' % (t + sc.get('skip', 0), sc['ops'][t][:2])
        if snap['dict'] != exp:
            return {'what': 'getDict() differs from the values the wires carried going into each edge', 'where': where,
                    'impl': snap['dict'], 'expected': exp}
        smp = dict(exp); n = len(exp[0][1])
        for key, nm in (('wd', 'full'), ('wd_short', 'short')):
            wd = snap[key]; sig = wd.get('signal', [])
            if [s.get('name') for s in sig] != names[nm]:
                return {'what': 'get_wavedrom() signal names', 'where': where, 'impl': [s.get('name') for s in sig], 'expected': names[nm]}
            if wd.get('head') != {'text': names['wf'], 'tock': 0}:
                return {'what': 'get_wavedrom() head', 'where': where, 'impl': wd.get('head')}
            if sig[0].get('wave') != 'P' + '.' * n + 'x':
                return {'what': 'clock row does not span the recorded cycles', 'where': where, 'impl': sig[0].get('wave'), 'cycles': n}
            for j, (k, _) in enumerate(sc['entries']):
                s = sig[j + 1]
                try:
                    got = py_decode(lay[k]['w'], s['wave'], s.get('data', []))
                except ValueError as ex:
                    return {'what': 'row does not decode: %s' % ex, 'where': where, 'entry': j, 'row': s, 'samples': smp[k]}
                if got != smp[k]:
                    return {'what': 'row decodes to other samples', 'where': where, 'entry': j, 'row': s, 'decoded': got, 'samples': smp[k]}
                if len(s['wave']) != n + 2:
                    return {'what': 'row does not span n+2 characters', 'where': where, 'entry': j, 'row': s, 'cycles': n}
    return None


def codes(s): return zlist([ord(c) for c in s])
def zll(xs): return '[' + '; '.join(zlist(x) for x in xs) + ']'
def dict_term(d): return '[' + '; '.join('(%d%%nat, %s)' % (k, zlist(v)) for k, v in d) + ']'
def row_term(s): return '(%s, [%s])' % (codes(s['wave']), '; '.join(codes(x) for x in s.get('data', [])))
def entries_term(sc): return '[' + '; '.join('%s %d%%nat' % ('EWire' if f == 'wire' else 'EPort', k) for k, f in sc['entries']) + ']'
def groups_term(groups):
    return '[' + '; '.join('[' + '; '.join('WClear' if g is None else 'WClock ' + zlist(g) for g in grp) + ']' for grp in groups) + ']'


def coq_A(tag, batch):
    """batch: list of (sc, groups, snaps).  returns per scenario (model_vs_impl, decode_vs_impl, hist_vs_impl):
    None or the index of the first mismatch."""
    items = []
    helper = ('Definition dec_ok (c : Z * (list Z * list (list Z)) * list Z) : bool :=\n'
              '  match decode (fst (fst c)) (snd (fst c)) with Some l => zl_eqb l (snd c) | None => false end.\n'
              'Definition hist_ok (ops : list wop) (c : nat * list Z) : bool := zl_eqb (hist (fst c) [] ops) (snd c).\n'
              'Definition clk_ok (c : list Z * nat) : bool := match decode_clock (fst c) with Some n => Nat.eqb n (snd c) | None => false end.\n')
    for i, (sc, groups, snaps) in enumerate(batch):
        lay = layout(sc)
        ws = zlist([x['w'] for x in lay])
        # checkpoints compared inside Coq: first, last, just before and just after every clear() (the recorder state is
        # cumulative between clears, so a difference at any operation is still visible at the next selected checkpoint);
        # the Python oracle above has already looked at EVERY checkpoint
        nops = len(sc['ops'])
        sel = sorted(set([0, nops - 1] + [t for t in range(nops) if sc['ops'][t][0] == 'clear'] +
                         [t - 1 for t in range(1, nops) if sc['ops'][t][0] == 'clear']))
        mgroups, msnaps, cum, acc, flatlen = [], [], [], [], 0
        for t in range(nops):
            acc += groups[t]; flatlen += len(groups[t])
            if t in sel:
                mgroups.append(acc); msnaps.append(snaps[t]); cum.append(flatlen); acc = []
        impl = '[' + '; '.join('(%s, (%s, [%s]))' % (dict_term(s['dict']), codes(s['wd']['signal'][0]['wave']),
                                                    '; '.join(row_term(r) for r in s['wd']['signal'][1:])) for s in msnaps) + ']'
        items.append(('m%d' % i, 'model_vs_impl %s %s %s %s' % (ws, entries_term(sc), groups_term(mgroups), impl)))
        dec, hst, clk = [], [], []
        allops = groups_term([[g for grp in groups for g in grp]])[1:-1]
        for s, c in zip(msnaps, cum):
            smp = dict(s['dict'])
            for j, (k, _) in enumerate(sc['entries']):
                if k in smp and j + 1 < len(s['wd']['signal']):
                    dec.append('(%d, %s, %s)' % (lay[k]['w'], row_term(s['wd']['signal'][j + 1]), zlist(smp[k])))
            n = len(s['dict'][0][1]) if s['dict'] else 0
            clk.append('(%s, %d%%nat)' % (codes(s['wd']['signal'][0]['wave']), n))
            hst.append('forallb (hist_ok (firstn %d ops)) %s' % (c, dict_term(s['dict'])))
        items.append(('d%d' % i, 'first_false (map dec_ok [%s])' % '; '.join(dec)))
        items.append(('c%d' % i, 'first_false (map clk_ok [%s])' % '; '.join(clk)))
        items.append(('h%d' % i, 'let ops := %s in first_false [%s]' % (allops, '; '.join(hst))))
    res = common.coq_eval(tag, PRELUDE_A + helper, items)
    return [(res['m%d' % i], res['d%d' % i], res['c%d' % i], res['h%d' % i]) for i in range(len(batch))]


def unopt(v):
    return None if v is None else (v[1] if isinstance(v, tuple) and v[0] == 'Some' else v)


def sweep_A(ctx, n, seed_base, with_coq, big=False):
    """returns (ok, tie_ok).  Python impl-vs-spec first (that is the search oracle), then the Coq comparisons."""
    batch = []
    for i in range(n):
        seed = seed_base + i
        sc = gen_scenario(random.Random(seed), big=big)
        try:
            impl = impl_run(sc)
        except Exception as ex:
            ctx.violation({'what': 'the real Waveform / simulator raised %s: %s on a legal watch list / history' % (type(ex).__name__, ex),
                           'scenario': sc, 'scenario_seed': seed})
            return False, True
        for key, view in recorders(sc):
            groups, checkpoints = ref_run(sc, view)
            snaps, names = impl[key]
            bad = check_py(view, snaps, names, checkpoints)
            ctx.count(('A', tuple(x['w'] for x in layout(sc)), tuple(map(tuple, view['entries'])), len(view['ops']), view['rec_gated'],
                       view.get('place', 'initial'), view['skip'] > 0),
                      n=sum(len(s['wd']['signal']) for s in snaps))
            if bad:
                bad.update({'recorder': key, 'added': ('before the simulator was obtained' if key == 'main' else
                                                      'after the simulator was obtained, before operation %d, place=%s' % (view['skip'], view.get('place'))),
                            'scenario': sc, 'scenario_seed': seed,
                            'replay_hint': 'props.c15.replay rebuilds the design from "scenario" and reruns the real Waveform'})
                ctx.violation(bad)
                return False, True
            if i < 2 and key == 'main':
                ctx.sample({'scenario': {'widths': [x['w'] for x in layout(sc)], 'entries': sc['entries'], 'ops': sc['ops'][:4], 'late': sc.get('late')},
                            'last_getDict': snaps[-1]['dict'], 'last_rows': snaps[-1]['wd_short']['signal'][:4]})
            batch.append((view, groups, snaps))
    if not with_coq:
        return True, True
    tie_ok = True
    for b0 in range(0, len(batch), 150):
        part = batch[b0:b0 + 150]
        res = coq_A('C15_A_%d' % b0, part)
        for (sc, groups, snaps), (m, dcd, ck, h) in zip(part, res):
            m, dcd, ck, h = unopt(m), unopt(dcd), unopt(ck), unopt(h)
            if dcd is not None or ck is not None or h is not None:
                ctx.violation({'what': 'Spec.C15.%s disagrees with the real Waveform' % ('decode' if dcd is not None else 'decode_clock' if ck is not None else 'hist'),
                               'first_bad_case': dcd if dcd is not None else ck if ck is not None else h, 'scenario': sc})
                return False, True
            if m is not None:
                ctx.notes.setdefault('tie_mismatch', {'kind': 'A', 'selected_checkpoint': m, 'scenario': sc})
                tie_ok = False
    return True, tie_ok


# ------------------------------------------------------------------------------------------- kernel level (B)
class Dump15(netlist.Dump):
    """netlist.Dump with the Waveform leaf mapped to Model.Waveform.recorder_leaf; state type AnySt + dict."""
    def leaf_term(self, obj, method):
        if type(obj).__name__ == 'Waveform' and method == 'clock':
            uq = [self.w(x) for x in obj.uniqueWires]
            self.rec_index = len(self.seqs)
            self.rec_uq = uq
            ids = '[' + '; '.join('%d%%nat' % u for u in uq) + ']'
            return ('recorder_leaf getR_sum setR_sum %s' % ids, 'inr (map (fun w => (w, @nil Z)) %s)' % ids)
        r = super().leaf_term(obj, method)
        if method == 'clock':
            return ('lift_leaf (%s)' % r[0], 'inl (%s)' % r[1])
        return r

    def coq_design(self, name='d'):
        return super().coq_design(name).replace('design AnySt', 'design (AnySt + dict)').replace('list AnySt', 'list (AnySt + dict)')


class Listener:
    def __init__(self, wires): self.wires = wires; self.rows = []
    def simulatorUpdated(self): self.rows.append([w.get() for w in self.wires])


def ports_of(hw, wire):
    out = []
    for o in netlist.all_objects(hw):
        if type(o).__name__ == 'Waveform': continue
        for p in o.inPorts + o.outPorts:
            if p.wire is wire: out.append(p)
    return out


def sweep_B(ctx, n, seed_base, n_steps):
    py4hw, Waveform = _imp()
    batch = []
    for i in range(n):
        seed = seed_base + i
        rng = random.Random(seed)
        hw, ins, info = designs.build_random(rng, n_blocks=rng.randint(3, 10), n_inputs=rng.randint(1, 3))
        ws = netlist.all_wires(hw)
        objs, kinds = [], []
        for _ in range(rng.randint(1, 6)):
            w = rng.choice(ws) if not objs or rng.random() < .6 else (objs[-1] if hasattr(objs[-1], 'getWidth') else objs[-1].wire)
            ps = ports_of(hw, w)
            if ps and rng.random() < .5: objs.append(rng.choice(ps)); kinds.append('port')
            else: objs.append(w); kinds.append('wire')
        gate = None
        with quiet():
            wf = Waveform(hw, 'wf', objs)
            if rng.random() < .3:
                ones = [w for w in ws if w.getWidth() == 1 and w.name != 'clk']
                if ones:
                    gate = rng.choice(ones)
                    wf.clockDriver = py4hw.ClockDriver('gclk', base=hw.clockDriver, enable=gate)
        try:
            dp = Dump15(hw)
        except netlist.NotDumpable as ex:
            ctx.log('B design %d not dumpable: %s' % (i, ex)); continue
        uniq = list(wf.uniqueWires)
        lis = Listener(uniq)
        dp.sim.addListener(lis)
        iv = dp.values()
        steps = []
        for t in range(n_steps):
            st = designs.random_steps(rng, dp, ins, 1)[0]
            steps.append((st[0], rng.choice([0, 1, 1, 2, 3])))
        trace, recs = [], []
        exp = {id(w): [] for w in uniq}          # listener oracle (None = edge 0 of a clk() call: not observable without perturbing)
        for st in steps:
            r0 = len(lis.rows)
            trace += dp.run_impl([st])
            recs.append([(dp.w(w), list(v)) for w, v in wf.getDict().items()])
            rows = lis.rows[r0:]
            for t in range(len(rows)):
                for j, w in enumerate(uniq):
                    exp[id(w)].append(None if t == 0 else rows[t - 1][j])
        ctx.count(('B', tuple(info['blocks']), tuple(kinds), gate is not None), n=len(steps))
        if gate is None:
            for w in uniq:
                got = wf.getDict()[w]; e = exp[id(w)]
                if len(got) != len(e) or any(x is not None and x != y for x, y in zip(e, got)):
                    ctx.violation({'what': 'recorder sample differs from the wire value read after the previous cycle (listener)',
                                   'design_seed': seed, 'blocks': info['blocks'], 'wire': w.getFullPath(), 'recorded': got, 'expected(None=unchecked)': e,
                                   'steps': steps})
                    return False, True
        batch.append((dp, steps, iv, trace, recs, seed, info))
    if not batch: return True, True
    items, body = [], [PRELUDE_B,
                       'Definition rec_at (k : nat) (s : state (AnySt + dict)) : dict := getR_sum (nth k (sts s) (inl St_none)).\n']
    for i, (dp, steps, iv, trace, recs, seed, info) in enumerate(batch):
        body.append(dp.coq_design('d%d' % i))
        exp = '[' + '; '.join(zlist(v) for v in [iv] + trace) + ']'
        pk = '[' + '; '.join('(%d%%nat, %s)' % (w, zlit(v)) for w, v in getattr(dp, 'init_pokes', [])) + ']'
        body.append('Definition run%d := run_states d%d (init_poked d%d d%d_st0 %s) %s.\n' % (i, i, i, i, pk, netlist.steps_term(steps)))
        items.append(('v%d' % i, 'first_diff %s (map vals run%d)' % (exp, i)))
        items.append(('r%d' % i, 'first_false (map2 dict_eqb (map (rec_at %d%%nat) (tl run%d)) [%s])' % (dp.rec_index, i, '; '.join(dict_term(r) for r in recs))))
    res = common.coq_eval('C15_B', '\n'.join(body), items)
    tie_ok = True
    for i, (dp, steps, iv, trace, recs, seed, info) in enumerate(batch):
        v, r = unopt(res['v%d' % i]), unopt(res['r%d' % i])
        if r is not None or v is not None:
            ctx.notes.setdefault('tie_mismatch', {'kind': 'B', 'design_seed': seed, 'blocks': info['blocks'], 'recorder_step': r,
                                                  'wire_trace_diff': v, 'steps': steps, 'impl_getDict': recs[r] if r is not None and r < len(recs) else None})
            tie_ok = False
    ctx.notes['kernel_recorder_designs_compared'] = len(batch)
    return True, tie_ok


# ------------------------------------------------------------------------------------------- driver
def run(ctx):
    ctx.cov['rule'] = ('obligations: theorems of Properties/C15.v.  Correspondence cases: one per (scenario, operation, signal row) of the real '
                       'Waveform (A: distinct by wire widths + watch list + history length + gating) and per (random netlist, step) for the recorder '
                       'inside the kernel model (B: distinct by block list + watch-list forms + gating).  Every case records at least one wire.')
    missing = ctx.regen(NEEDED)
    r = ctx.prove(['Properties/C15.v'])
    ctx.log('proof build: ok=%s' % r['ok'])
    nA, nB, steps = (120, 8, 6) if ctx.quick else (1500, 80, 10)
    if os.environ.get('C15_ONLY') == 'B': nA = 0          # debugging aid: look at what the kernel-level part alone sees
    ok, tieA = sweep_A(ctx, nA, ctx.seed * 1000003, with_coq=True)
    ctx.log('sweep A done: ok=%s tie=%s' % (ok, tieA))
    tieB = True
    if ok and not missing:
        ok, tieB = sweep_B(ctx, nB, ctx.seed * 7919, steps)
        ctx.log('sweep B done: ok=%s tie=%s' % (ok, tieB))
    if ok and not ctx.quick:
        ok, t2 = sweep_A(ctx, 300, ctx.seed * 1000003 + 500000, with_coq=True, big=True); tieA = tieA and t2
    if ok and (not r['ok'] or not tieA or not tieB or missing):
        # proof or tie broken and the sweep above found no impl-vs-spec discrepancy: widen the search
        ok2, _ = sweep_A(ctx, 600 if ctx.quick else 3000, ctx.seed * 1000003 + 10 ** 6, with_coq=False, big=True)
        if ok2:
            what = ('proof obligation no longer checks: %s in %s' % (r.get('lemma'), r.get('file')) if not r['ok'] else
                    'translator rejected %s' % missing if missing else
                    'model and real Waveform disagree (correspondence broken): %s' % json.dumps(ctx.notes.get('tie_mismatch'), default=str)[:1500])
            ctx.violation({'what': what, 'theorem': r.get('lemma'), 'file': r.get('file'), 'coq_error': r.get('msg'),
                           'tie_mismatch': ctx.notes.get('tie_mismatch')}, found_input=False)
    ctx.assumptions += ['Model/Waveform.v is hand-written; it is compared with the real class on every run (getDict and get_wavedrom after every operation)',
                        'wire values fit their width (C06) - hypothesis in_range / fits of the rendering theorems',
                        'clock() methods write wires only through prepare (C05/C06): the kernel model keeps vals unchanged during the clock phase',
                        'FieldInspector / ValueFormatter entries and draw()/gui() are outside the model']


def replay(rp):
    sc = rp.get('scenario')
    if not sc:
        print('C15 replay: no scenario in the file; it describes the failure:'); print(json.dumps(rp, indent=1)[:4000]); return 0
    sc.setdefault('late', [])
    impl = impl_run(sc)
    bad = None
    for key, view in recorders(sc):
        groups, checkpoints = ref_run(sc, view)
        bad = check_py(view, impl[key][0], impl[key][1], checkpoints)
        if bad: bad['recorder'] = key; break
    if bad:
        print('C15 replay: STILL FAILING'); print(json.dumps(bad, indent=1, default=str)[:3000]); return 1
    print('C15 replay: the scenario passes now'); return 0
