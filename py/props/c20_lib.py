"""C20 helpers: drivers for the real CMDRequest / CMDResponse blocks, the Python copy of the spec (search oracle),
Coq term builders for the case files, structured generators, replay."""
import random
import common, netlist
from common import quiet, zlit, zlist

SPECIAL = [73, 61, 79, 75, 33, 63, 59]                # I = O K ! ? ;
DIGITS = [ord(ch) for ch in '0123456789ABCDEF']
# order of Spec.C20.rq_obs / Model.Cmd.rq_w fields
REQ_WIRES = ['ready', 'index_in', 'v_in', 'index_out', 'set_index_in', 'set_v_in', 'set_index_out', 'clk_pulse', 'start_resp']
STROBES = ['set_index_in', 'set_v_in', 'set_index_out', 'clk_pulse', 'start_resp']
REQ_CTOR = ['ready', 'valid', 'c', 'index_in', 'v_in', 'index_out', 'set_index_in', 'set_v_in', 'set_index_out', 'clk_pulse', 'start_resp']
MIN_K = 0          # smallest response size exercised by the sweeps (size 0 answers '=!' since /repo c870d83)
REQ_STATE = ['state', 'cur_type', 'new_c', 'temp']
RESP_STATE = ['state', 'temp', 'temp_size', 'aux']

PRELUDE = 'From V Require Import Base.PyInt Base.Bits Gen.WireOps Gen.Seq Model.SimKernel Model.Trace Spec.C20 Model.Cmd.\n'
CASE_DEFS = '''
Definition obs_l (o : rq_obs) : list Z := [q_ready o; q_index_in o; q_v_in o; q_index_out o; q_set_index_in o; q_set_v_in o; q_set_index_out o; q_clk_pulse o; q_start_resp o].
Definition mk_obs (l : list Z) : rq_obs := match l with [a; b; c; d; e; f; g; h; i] => Build_rq_obs a b c d e f g h i | _ => Build_rq_obs 0 0 0 0 0 0 0 0 0 end.
Definition ev_code (e : ev) : Z * Z := match e with EvI n => (1, n) | EvV v => (2, v) | EvO n => (3, n) | EvK => (4, 0) | EvS => (5, 0) end.
Definition req_case (W : rq_w) (p : sched) (impl : list (list Z)) (cmds : list cmd) :=
  let n := length impl in
  (first_diff impl (map obs_l (sys_trace W n (rq_reset, p))),
   map ev_code (events (map mk_obs impl)),
   map ev_code (flat_map (expected (ww_index_in W) (ww_v_in W) (ww_index_out W)) cmds),
   Z.of_nat (length (snd (sys_iter W n (rq_reset, p))))).
Definition resp_case (wvalid wv : Z) (ins : list rs_in) (impl : list (list Z)) (reqs : list (Z * Z)) :=
  (first_diff impl (map (fun c => [r_valid (rs_o c); r_v (rs_o c)]) (rs_run wvalid wv rs_reset ins)),
   rs_xfers wvalid wv rs_reset ins,
   flat_map (fun vk => response (fst vk) (Z.to_nat (snd vk))) reqs).
Definition show_req (x : CMDRequest_state * CMDRequest_out) :=
  let '(s, o) := x in
  ([CMDRequest_s_state s; CMDRequest_s_cur_type s; CMDRequest_s_new_c s; CMDRequest_s_temp s],
   [CMDRequest_o_ready o; CMDRequest_o_index_in o; CMDRequest_o_v_in o; CMDRequest_o_index_out o; CMDRequest_o_set_index_in o;
    CMDRequest_o_set_v_in o; CMDRequest_o_set_index_out o; CMDRequest_o_clk_pulse o; CMDRequest_o_start_resp o]).
Definition show_resp (x : CMDResponse_state * CMDResponse_out) :=
  let '(s, o) := x in
  ([CMDResponse_s_state s; CMDResponse_s_temp s; CMDResponse_s_temp_size s; CMDResponse_s_aux s], [CMDResponse_o_valid o; CMDResponse_o_v o]).
'''
PRELUDE = PRELUDE + CASE_DEFS
CASE_DEFS = ''


def norm(x):
    if isinstance(x, (list, tuple)):
        if len(x) == 2 and x[0] == 'Some': return ['Some', norm(x[1])]
        return [norm(y) for y in x]
    return x


def wire_base(py4hw):
    import py4hw.base as B
    return B.Wire


# ------------------------------------------------------------------ Python copy of Spec/C20.v
def hexval(ds):
    v = 0
    for d in ds:
        v = 16 * v + (d - 48 if 48 <= d <= 57 else d - 55)
    return v


def py_expected(cmds, W):
    ev = []
    for kind, arg in cmds:
        if kind == 'I': ev.append((1, hexval(arg) % (1 << W['index_in'])))
        elif kind == 'V': ev.append((2, hexval(arg) % (1 << W['v_in'])))
        elif kind == 'O': ev += [(3, hexval(arg) % (1 << W['index_out'])), (5, 0)]
        elif kind == 'K': ev += [(4, 0)] * hexval(arg)
    return ev


def encode(cmds):
    out = []
    for kind, arg in cmds:
        if kind == 'I': out += [73] + list(arg) + [61]
        elif kind == 'V': out += list(arg) + [33]
        elif kind == 'O': out += [79] + list(arg) + [63]
        elif kind == 'K': out += [75] + list(arg) + [59]
        else: out += [arg]
    return out


def py_response(value, k):
    return [61] + [ord('0123456789ABCDEF'[(value >> (4 * i)) & 15]) for i in range(k - 1, -1, -1)] + [33]


def py_responses(reqs):
    out = []
    for v, k in reqs: out += py_response(v, k)
    return out


def cmds_text(cmds):
    return ''.join(chr(c) if 32 <= c < 127 else '\\x%02x' % c for c in encode(cmds))


def ev_of_row(row):
    o = dict(zip(REQ_WIRES, row)); ev = []
    if o['set_index_in']: ev.append((1, o['index_in']))
    if o['set_v_in']: ev.append((2, o['v_in']))
    if o['set_index_out']: ev.append((3, o['index_out']))
    if o['clk_pulse']: ev.append((4, 0))
    if o['start_resp']: ev.append((5, 0))
    return ev


# ------------------------------------------------------------------ generators
def random_widths(rng):
    return {'ready': rng.choice([1, 1, 1, 2]), 'index_in': rng.choice([1, 2, 3, 4, 8]), 'v_in': rng.choice([1, 8, 16, 32, 32, 40]),
            'index_out': rng.choice([1, 2, 3, 5]), 'set_index_in': rng.choice([1, 1, 1, 2]), 'set_v_in': rng.choice([1, 1, 1, 3]),
            'set_index_out': rng.choice([1, 1, 1, 2]), 'clk_pulse': rng.choice([1, 1, 1, 2]), 'start_resp': rng.choice([1, 1, 1, 2])}


def random_digits(rng, maxlen=12):
    n = rng.choice([0, 1, 1, 2, 2, 3, 4, 8, rng.randint(0, maxlen)])
    return [rng.choice(DIGITS) for _ in range(n)]


SEPARATORS = [10, 13, 32, 97, 102, 71, 47, 58, 64, 0, 255, 105, 111]     # \n \r space a f G / : @ NUL 0xFF i o


def random_cmds(rng, idx, maxk=40):
    cmds = []
    for _ in range(rng.randint(1, 6)):
        kind = rng.choice('IVOKIVOKX')
        if kind == 'X': cmds.append(('X', rng.choice(SEPARATORS)))
        elif kind == 'K':
            n = rng.choice([0, 1, 2, 3, rng.randint(0, maxk)])
            cmds.append(('K', [ord(ch) for ch in ('0' * rng.randint(0, 2) + '%X' % n)] if rng.random() < .9 else []))
        else: cmds.append((kind, random_digits(rng)))
    return cmds


def random_sched(rng, cmds):
    junk = SPECIAL + DIGITS + SEPARATORS
    style = rng.choice(['tight', 'loose', 'mixed'])
    out = []
    for ch in encode(cmds):
        g = 0 if style == 'tight' else rng.randint(0, 6) if style == 'loose' else rng.choice([0, 0, 1, 2, 5])
        out.append(([rng.choice(junk) for _ in range(g)], ch))
    return out


# consumer pacings (all independent of what the encoder does, except 'onvalid', which stalls exactly on the cycles in
# which a character is offered): name -> rough percentage of ready cycles (only used for the cycle budget)
PACINGS = [('toggle', 0), ('toggle', 1), ('onvalid', 1), ('1ink', 2, 0), ('1ink', 3, 1), ('onvalid', 2), ('rand', 50), ('1ink', 4, 2),
           ('rand', 30), ('stall', 7), ('1ink', 5, 3), ('rand', 70), ('onvalid', 5), ('stall', 19), ('1ink', 3, 0), ('1ink', 2, 1),
           ('rand', 100), ('rand', 10), ('rand', 90), ('1ink', 4, 0), ('1ink', 5, 0)]


def pace_percent(pat):
    return {'toggle': 50, '1ink': 100 // pat[1] if pat[0] == '1ink' else 0, 'onvalid': 30, 'stall': 25, 'rand': pat[1]}[pat[0]] or 10


def ready_source(pat, rng, valid_wire):
    """a function () -> ready for the next cycle, called once per cycle."""
    st = {'t': 0, 'held': 0}
    def nxt():
        t = st['t']; st['t'] += 1
        st['held'] = st['held'] + 1 if valid_wire.get() else 0
        if pat[0] == 'rand': return 1 if rng.randint(1, 100) <= pat[1] else 0
        if pat[0] == 'toggle': return (t + pat[1]) % 2
        if pat[0] == '1ink': return 1 if (t + pat[2]) % pat[1] == 0 else 0
        if pat[0] == 'stall': return 0 if (t % (pat[1] + 3)) < pat[1] else 1           # long stalls, 3 ready cycles in between
        if pat[0] == 'onvalid': return 0 if 0 < st['held'] <= pat[1] else 1            # drop ready right when a character is offered
        raise ValueError(pat)
    return nxt


def with_pacing(cfg, pat):
    cfg = dict(cfg, pattern=list(pat)); cfg['pace'] = pace_percent(pat)
    return cfg


def random_resp_cfg(rng, idx):
    wvin = rng.choice([32, 32, 8, 16, 40, 4, 1])
    reqs = []
    for _ in range(rng.randint(1, 3)):
        v = rng.choice([0, (1 << wvin) - 1, rng.randint(0, (1 << wvin) - 1), 0xA5F09C36E7 & ((1 << wvin) - 1)])
        reqs.append((v, 0 if (MIN_K == 0 and rng.random() < .2) else rng.choice([1, 2, 8, rng.randint(1, 12)])))
    if idx % 3 == 0 and all(k < 3 for _, k in reqs):      # make sure multi-digit responses meet every pacing
        reqs[0] = (reqs[0][0], rng.choice([4, 8, 6]))
    return with_pacing({'wvin': wvin, 'wvalid': rng.choice([1, 1, 2]), 'wv': rng.choice([8, 8, 7, 9]), 'requests': reqs,
                        'junk': rng.random() < .7}, PACINGS[idx % len(PACINGS)])


def structured_req_cases(rng, budget):
    """(W, cmds, sched) triples: exhaustive 1- and 2-digit strings per command on narrow and wide wires, boundaries, long strings."""
    Wn = {'ready': 1, 'index_in': 3, 'v_in': 32, 'index_out': 2, 'set_index_in': 1, 'set_v_in': 1, 'set_index_out': 1, 'clk_pulse': 1, 'start_resp': 1}
    Ww = dict(Wn, index_in=8, v_in=8, index_out=8)
    cases = []
    for kind in 'IVOK':
        for d in DIGITS: cases.append((Ww, [(kind, [d])]))
        cases.append((Wn, [(kind, [])]))
    for kind in 'IVO':
        for a in DIGITS:
            for b in DIGITS: cases.append((Ww, [(kind, [a, b])]))
    for kind in 'IVO':
        for s in ('FFFFFFFF', '100000000', '123456789ABCDEF0', '00000001', '80000000', 'FFFFFFFFFF'):
            cases.append((Wn, [(kind, [ord(ch) for ch in s])])); cases.append((dict(Wn, v_in=40, index_in=4, index_out=5), [(kind, [ord(ch) for ch in s])]))
    for n in (0, 1, 2, 9, 10, 15, 16, 17, 31, 32, 33, 100):
        cases.append((Wn, [('K', [ord(ch) for ch in '%X' % n])]))
    cases.append((Wn, [('I', [49]), ('V', [50, 65]), ('X', 10), ('O', [49]), ('K', [50]), ('I', [48]), ('V', [70, 70])]))
    for sep in SEPARATORS:
        cases.append((Wn, [('I', [49]), ('X', sep), ('V', [55]), ('X', sep), ('K', [50])]))
    rng.shuffle(cases)
    out = []
    for W, cmds in cases[:budget]:
        out.append((W, cmds, random_sched(rng, cmds)))
    i = 0
    while len(out) < budget:
        W = random_widths(rng); cmds = random_cmds(rng, i, maxk=70); i += 1
        out.append((W, cmds, random_sched(rng, cmds)))
    return out


def structured_resp_cases(rng, budget):
    """every pacing pattern on multi-digit values first (these expose pacing-dependent defects), then every k / nibble value."""
    base = {'wvin': 32, 'wvalid': 1, 'wv': 8, 'junk': False}
    out = []
    for pat in PACINGS:
        for v, k in ((0x89ABCDEF, 8), (0x01234567, 8), (0xA5, 2), (0xF, 1), (0x1234, 5)) + (((0x5, 0),) if MIN_K == 0 else ()):
            out.append(with_pacing(dict(base, requests=[(v, k)]), pat))
    rest = []
    for k in range(1, 13):
        for v in (0, 0xFFFFFFFF, 0x01234567, 0x89ABCDEF, 0xA, 0x9, 0x10):
            rest.append(with_pacing(dict(base, requests=[(v, k)], junk=True), rng.choice(PACINGS)))
    for d in range(16):
        rest.append(with_pacing(dict(base, wvin=4, requests=[(d, 1), (d, 2)], junk=True), rng.choice(PACINGS)))
    rng.shuffle(rest)
    out = (out + rest)[:max(budget, len(out))]
    i = 0
    while len(out) < budget // 2:
        out.append(random_resp_cfg(rng, i)); i += 1
    return out


# ------------------------------------------------------------------ real blocks
def build_request(py4hw, W):
    with quiet():
        import py4hw.emulation.HILWrapperUART as H
        hw = py4hw.HWSystem()
        ws = dict(W, valid=1, c=8)
        w = {n: hw.wire(n, ws[n]) for n in REQ_CTOR}
        blk = H.CMDRequest(hw, 'cmd_req', *[w[n] for n in REQ_CTOR])
    return hw, w, blk


def build_response(py4hw, wvin, wvalid, wv):
    with quiet():
        import py4hw.emulation.HILWrapperUART as H
        hw = py4hw.HWSystem()
        w = {'vin': hw.wire('vin', wvin), 'size': hw.wire('size', 8), 'start_resp': hw.wire('start_resp', 1), 'ready': hw.wire('ready', 1),
             'valid': hw.wire('valid', wvalid), 'v': hw.wire('v', wv)}
        blk = H.CMDResponse(hw, 'cmd_resp', w['vin'], w['size'], w['start_resp'], w['ready'], w['valid'], w['v'])
    return hw, w, blk


def req_clock_once(py4hw, W, st, valid, c):
    Wire = wire_base(py4hw)
    hw, w, blk = build_request(py4hw, W)
    for a in REQ_STATE: setattr(blk, a, st[a])
    w['valid'].put(valid); w['c'].put(c)
    del Wire.prepared[:]
    with quiet():
        blk.clock()
    prepared = [id(x) for x in Wire.prepared]
    outs = [('Some', w[n].next) if id(w[n]) in prepared else None for n in REQ_WIRES]
    del Wire.prepared[:]
    return {'case': {'widths': W, 'state': st, 'valid': valid, 'c': c},
            'model_form': ([getattr(blk, a) for a in REQ_STATE], outs)}


def resp_clock_once(py4hw, wvalid, wv, st, ins):
    Wire = wire_base(py4hw)
    hw, w, blk = build_response(py4hw, 32, wvalid, wv)
    for a in RESP_STATE: setattr(blk, a, st[a])
    for n in ('vin', 'size', 'start_resp', 'ready'): w[n].put(ins[n])
    del Wire.prepared[:]
    with quiet():
        blk.clock()
    prepared = [id(x) for x in Wire.prepared]
    outs = [('Some', w[n].next) if id(w[n]) in prepared else None for n in ('valid', 'v')]
    del Wire.prepared[:]
    return {'case': {'wvalid': wvalid, 'wv': wv, 'state': st, 'inputs': ins},
            'model_form': ([getattr(blk, a) for a in RESP_STATE], outs)}


def coq_W(W):
    return '(Build_rq_w %s)' % ' '.join(zlit(W[n]) for n in REQ_WIRES)


def coq_req_clock(W, st, valid, c):
    return 'show_req (rq_clock %s {| CMDRequest_s_state := %s; CMDRequest_s_cur_type := %s; CMDRequest_s_new_c := %s; CMDRequest_s_temp := %s |} %s %s)' % (
        coq_W(W), zlit(st['state']), zlit(st['cur_type']), zlit(st['new_c']), zlit(st['temp']), zlit(valid), zlit(c))


def coq_resp_clock(wvalid, wv, st, ins):
    return ('show_resp (CMDResponse_clock %s %s {| CMDResponse_s_state := %s; CMDResponse_s_temp := %s; CMDResponse_s_temp_size := %s; '
            'CMDResponse_s_aux := %s |} %s %s %s %s)') % (zlit(wvalid), zlit(wv), zlit(st['state']), zlit(st['temp']), zlit(st['temp_size']),
                                                        zlit(st['aux']), zlit(ins['vin']), zlit(ins['size']), zlit(ins['start_resp']), zlit(ins['ready']))


def run_request(py4hw, W, sched, want_dump=False):
    """drive the real decoder with the handshaking producer of Model/Cmd.v (prod_out / prod_step)."""
    hw, w, blk = build_request(py4hw, W)
    dp = None
    if want_dump:
        try:
            dp = netlist.Dump(hw)
        except netlist.NotDumpable:
            dp = None
    with quiet():
        sim = dp.sim if dp is not None else hw.getSimulator()
    init = dp.values() if dp is not None else None
    p = [(list(g), ch) for g, ch in sched]
    chars = [ch for _, ch in sched]
    nk = sum(1 for e in py_expected_from_chars(chars) if e == 4)
    cap = 60 + sum(len(g) for g, _ in sched) + 8 * len(sched) + 2 * nk
    trace, steps, full, extra, raised = [], [], [], 0, None
    while len(trace) < cap:
        if not p: v, ch = 0, 0
        elif p[0][0]: v, ch = 0, p[0][0][0]
        else: v, ch = 1, p[0][1]
        rdy = w['ready'].get()
        w['valid'].put(v); w['c'].put(ch)
        try:
            with quiet():
                sim.clk(1)
        except Exception as ex:                       # an exception inside clock() on a legal run is a failing input
            raised = '%s: %s' % (type(ex).__name__, ex); del wire_base(py4hw).prepared[:]
            trace.append([w[n].get() for n in REQ_WIRES]); break
        if dp is not None:
            steps.append(([(dp.wid[id(w['valid'])], v), (dp.wid[id(w['c'])], ch)], 1)); full.append(dp.values())
        if p:
            if p[0][0]: p[0] = (p[0][0][1:], p[0][1])
            elif rdy: p.pop(0)
        trace.append([w[n].get() for n in REQ_WIRES])
        if not p and blk.state == 1:
            extra += 1
            if extra >= 4: break
    events = []
    for row in trace: events += ev_of_row(row)
    return {'trace': trace, 'events': events, 'left': len(p), 'final_state': blk.state, 'final_temp': blk.temp, 'capped': len(trace) >= cap, 'raised': raised,
            'dump': dp, 'steps': steps, 'init': init, 'full_trace': full}


def py_expected_from_chars(chars):
    """event tags of an arbitrary character string (reference parser, widths irrelevant for the tags)."""
    a, out = 0, []
    for c in chars:
        if c in (73, 79, 75): a = 0
        elif c == 61: out.append(1); a = 0
        elif c == 33: out.append(2); a = 0
        elif c == 63: out += [3, 5]; a = 0
        elif c == 59: out += [4] * a; a = 0
        elif 48 <= c <= 57: a = 16 * a + c - 48
        elif 65 <= c <= 70: a = 16 * a + c - 55
        else: a = 0
    return out


def judge_request(run):
    exp = py_expected(run['cmds'], run['W'])
    if run.get('raised'): return 'clock() raised %s in cycle %d of a legal run' % (run['raised'], len(run['trace']) - 1)
    if run['capped']: return 'the decoder did not return to its waiting state with all characters consumed within the cycle budget'
    if [list(e) for e in run['events']] != [list(e) for e in exp]: return 'event sequence differs from the expected one'
    prev = [0] * 9
    for t, row in enumerate(run['trace']):
        for n in STROBES:
            k = REQ_WIRES.index(n)
            if row[k] and prev[k]: return 'enable %s is high in two consecutive cycles (%d, %d)' % (n, t - 1, t)
        prev = row
    last = dict(zip(REQ_WIRES, run['trace'][-1]))
    if run['left'] or run['final_state'] != 1 or run['final_temp'] != 0 or last['ready'] != 1 or any(last[n] for n in STROBES):
        return 'the decoder is not back between commands at the end (state/temp/ready/enables)'
    return None


def req_replay(run, why):
    return {'what': 'CMDRequest: ' + why, 'block': 'CMDRequest', 'kind_of_case': 'request',
            'stream': cmds_text(run['cmds']), 'widths': run['W'],
            'expected_events': [list(e) for e in py_expected(run['cmds'], run['W'])], 'observed_events': [list(e) for e in run['events']],
            'event_legend': '1=set_index_in(index_in) 2=set_v_in(v_in) 3=set_index_out(index_out) 4=clk_pulse 5=start_resp',
            'cycles': len(run['trace']), 'final_state': run['final_state'], 'final_temp': run['final_temp'], 'producer_items_left': run['left'],
            'cmds': [[k, a] for k, a in run['cmds']], 'sched': [[g, ch] for g, ch in run['sched']]}


def coq_req_case(run):
    sched = '[' + '; '.join('(%s, %s)' % (zlist(g), zlit(ch)) for g, ch in run['sched']) + ']'
    impl = '[' + '; '.join(zlist(r) for r in run['trace']) + ']'
    cm = {'I': 'CmdI', 'V': 'CmdV', 'O': 'CmdO', 'K': 'CmdK'}
    cmds = '[' + '; '.join(('CmdX %s' % zlit(a)) if k == 'X' else '%s %s' % (cm[k], zlist(a)) for k, a in run['cmds']) + ']'
    return 'req_case %s %s %s %s' % (coq_W(run['W']), sched, impl, cmds)


def run_response(py4hw, cfg, rng, want_dump=False):
    Wire = wire_base(py4hw)
    hw, w, blk = build_response(py4hw, cfg['wvin'], cfg['wvalid'], cfg['wv'])
    dp = None
    if want_dump:
        try: dp = netlist.Dump(hw)
        except netlist.NotDumpable: dp = None
    with quiet():
        sim = dp.sim if dp is not None else hw.getSimulator()
    init = dp.values() if dp is not None else None
    ins, trace, xfers, steps, full = [], [], [], [], []
    capped, raised = False, [None]
    mvin = (1 << cfg['wvin']) - 1
    def cycle(vin, size, start, ready):
        if w['valid'].get() and ready: xfers.append(w['v'].get())
        for n, x in (('vin', vin), ('size', size), ('start_resp', start), ('ready', ready)): w[n].put(x)
        ins.append([vin, size, start, ready])
        try:
            with quiet():
                sim.clk(1)
        except Exception as ex:                       # an exception inside clock() on a legal run is a failing input
            raised[0] = '%s: %s' % (type(ex).__name__, ex); del Wire.prepared[:]
            return False
        trace.append([w['valid'].get(), w['v'].get()])
        if dp is not None:
            steps.append(([(dp.wid[id(w[n])], x) for n, x in (('vin', vin), ('size', size), ('start_resp', start), ('ready', ready))], 1))
            full.append(dp.values())
        return True
    rdy = ready_source(tuple(cfg.get('pattern') or ('rand', cfg['pace'])), rng, w['valid'])
    ok = True
    for value, k in cfg['requests']:
        for _ in range(rng.randint(0, 3)):
            ok = ok and cycle(rng.randint(0, mvin), rng.randint(0, 255), 0, rdy())
        ok = ok and cycle(value, k, 1, rdy())
        n = 0
        while ok and blk.state != 0:
            j = cfg['junk']
            ok = cycle(rng.randint(0, mvin) if j else value, rng.randint(0, 255) if j else k, rng.randint(0, 1) if j else 0, rdy())
            n += 1
            if n > 400 + 40 * k * (100 // max(cfg['pace'], 1) + 1): capped = True; break
        if capped or not ok: break
    for _ in range(3):
        if ok and not capped: ok = cycle(rng.randint(0, mvin), rng.randint(0, 255), 0, rdy())
    return {'cfg': cfg, 'ins': ins, 'trace': trace, 'xfers': xfers, 'capped': capped, 'raised': raised[0], 'final_state': blk.state,
            'dump': dp, 'steps': steps, 'init': init, 'full_trace': full}


def judge_response(run):
    if run.get('raised'): return 'clock() raised %s in cycle %d of a legal run (size >= 1)' % (run['raised'], len(run['ins']) - 1)
    if run['capped']: return 'the encoder did not return to idle within the cycle budget'
    if run['xfers'] != py_responses(run['cfg']['requests']): return 'transferred characters differ from "=" + hex digits + "!"'
    if run['final_state'] != 0 or run['trace'][-1][0] != 0: return 'the encoder is not idle (state 0, valid low) at the end'
    return None


def resp_replay(run, why):
    return {'what': 'CMDResponse: ' + why, 'block': 'CMDResponse', 'kind_of_case': 'response',
            'requests(value,nibbles)': [list(x) for x in run['cfg']['requests']],
            'expected_chars': ''.join(chr(c) for c in py_responses(run['cfg']['requests'])),
            'observed_chars': ''.join(chr(c) if 32 <= c < 127 else '\\x%02x' % c for c in run['xfers']), 'raised': run.get('raised'),
            'consumer_pacing': run['cfg'].get('pattern'), 'final_state': run['final_state'],
            'cfg': run['cfg'], 'inputs(vin,size,start_resp,ready)': run['ins']}


def coq_resp_case(run):
    ins = '[' + '; '.join('Build_rs_in %s %s %s %s' % tuple(zlit(x) for x in r) for r in run['ins']) + ']'
    impl = '[' + '; '.join(zlist(r) for r in run['trace']) + ']'
    reqs = '[' + '; '.join('(%s, %s)' % (zlit(v), zlit(k)) for v, k in run['cfg']['requests']) + ']'
    return 'resp_case %s %s %s %s %s' % (zlit(run['cfg']['wvalid']), zlit(run['cfg']['wv']), ins, impl, reqs)


def size0_probe(py4hw):
    Wire = wire_base(py4hw)
    hw, w, blk = build_response(py4hw, 32, 1, 8)
    with quiet():
        sim = hw.getSimulator()
    xf = []
    try:
        for t in range(14):
            if w['valid'].get() and w['ready'].get(): xf.append(w['v'].get())
            w['vin'].put(5); w['size'].put(0); w['start_resp'].put(1 if t == 0 else 0); w['ready'].put(1)
            with quiet():
                sim.clk(1)
    except ValueError as ex:
        del Wire.prepared[:]
        return {'outcome': 'exception', 'detail': 'ValueError(%s) at cycle %d after %r' % (ex, t, ''.join(map(chr, xf)))}
    finally:
        del Wire.prepared[:]
    s = ''.join(map(chr, xf))
    return {'outcome': 'ok' if s == '=!' and blk.state == 0 else 'wrong', 'detail': 'transferred %r, state %d' % (s, blk.state)}




# ------------------------------------------------------------------ composed codec under construction histories
# The decoder and the encoder share the start_resp wire (as in createHILUART); the bench plays the output multiplexer
# (on a set_index_out cycle it puts the selected value / size on the encoder's vin / size).  What varies is HOW the
# circuit came to be: where the blocks live (directly under the HWSystem, inside a wrapper Logic, two levels deep),
# in which order they are instantiated, and at which points of that history the simulator was already obtained and
# run (hw.getSimulator() re-sorts the schedule on every call: a block added later must be simulated like any other).
CONTAINERS = ['top', 'wrap', 'wrap2', 'split']          # split: decoder in one wrapper, encoder in another
ORDERS = ['dec-enc', 'enc-dec']
SIM_POINTS = ['none', 'empty', 'between', 'empty+between']   # when the simulator is obtained (and used) before the circuit is complete
# clock domains: 'sys' = everything on the system clock; 'dut_gated' = a DUT (py4hw.Counter) in a derived clock domain enabled by the
# decoder's clk_pulse (createHILUART / tb_VitisKernelPlatform pattern): K<n>; must advance it by exactly n, O0? reads it back;
# 'codec_gated' = the codec itself in a derived domain with an enable schedule, producer / consumer / observer act on enabled cycles only
# and nothing of the codec may change in a disabled cycle.  drv_wire: the derived ClockDriver is created with / without a clock wire.
CLOCKINGS = ['sys', 'dut_gated', 'codec_gated', 'dut_gated', 'sys', 'codec_gated']


class SpecViolation(Exception):
    pass


def history_cases(rng, n):
    """n histories: the cross product first (shuffled deterministically by rng), each with a pacing pattern."""
    base = [(c, o, s) for c in CONTAINERS for o in ORDERS for s in SIM_POINTS]
    rng.shuffle(base)
    out = []
    for i in range(n):
        c, o, s = base[i % len(base)]
        out.append({'container': c, 'order': o, 'sim_points': s, 'pattern': list(PACINGS[(i * 5 + 2) % len(PACINGS)]),
                    'clocking': CLOCKINGS[i % len(CLOCKINGS)], 'drv_wire': (i // 3) % 2 == 1, 'drv_when': ['early', 'late'][(i // 2) % 2],
                    'seed': rng.randint(0, 1 << 30)})
    return out


def run_codec_history(py4hw, hist):
    """builds the codec along the history, exercises it after every construction step; returns a dict with 'bad' (None = agrees with the spec)."""
    Wire = wire_base(py4hw)
    rng = random.Random(hist['seed'])
    log = []
    try:
        with quiet():
            import py4hw.emulation.HILWrapperUART as H
            hw = py4hw.HWSystem()
            cont = hist['container']
            clocking = hist.get('clocking', 'sys')
            if clocking == 'codec_gated' and cont == 'top': cont = 'wrap'      # the HWSystem itself owns the system clock
            if cont == 'top': cd = ce = cw = hw
            elif cont == 'wrap': cd = ce = cw = py4hw.Logic(hw, 'hil')
            elif cont == 'wrap2': cd = ce = cw = py4hw.Logic(py4hw.Logic(hw, 'board'), 'hil')
            else:
                cw = hw; cd = py4hw.Logic(hw, 'rx_side'); ce = py4hw.Logic(hw, 'tx_side')
        W = {'ready': 1, 'index_in': rng.choice([2, 3, 4]), 'v_in': rng.choice([8, 32]), 'index_out': 3, 'set_index_in': 1, 'set_v_in': 1,
             'set_index_out': 1, 'clk_pulse': 1, 'start_resp': 1}
        wvin = rng.choice([16, 32])
        with quiet():
            w = {n: cw.wire(n, dict(W, valid=1, c=8)[n]) for n in REQ_CTOR}
            w.update(vin=cw.wire('resp_v', wvin), size=cw.wire('resp_size', 8), ser_ready=cw.wire('ser_ready', 1),
                     ser_valid=cw.wire('ser_valid', 1), ser_v=cw.wire('ser_v', 8))
        outputs = [(rng.randint(0, (1 << wvin) - 1), rng.choice([1, 2, 4, 8, rng.randint(MIN_K, 10)])) for _ in range(8)]
        st = {'dec': None, 'enc': None, 'events': [], 'rx': [], 'cycles': 0, 'count': None, 'exp_count': 0}
        rdy = ready_source(tuple(hist['pattern']), rng, w['ser_valid'])
        CNT_W = 16
        en = None

        def derived(name, enable):
            with quiet():
                clkw = hw.wire(name + '_net', 1) if hist.get('drv_wire') else None
                return py4hw.ClockDriver(name, base=hw.clockDriver, enable=enable, wire=clkw)

        def gate_codec():
            drv = derived('uart_clk', en)
            for box in {id(cd): cd, id(ce): ce}.values(): box.clockDriver = drv

        def add_dut():
            with quiet():
                st['count'] = hw.wire('dut_count', CNT_W)
                rst, inc = hw.wire('dut_rst', 1), hw.wire('dut_inc', 1)
                inc.put(1)
                dut = py4hw.Logic(hw, 'dut')
                py4hw.Counter(dut, 'counter', rst, inc, st['count'])
            dut.clockDriver = derived('dut_clk', w['clk_pulse'])

        codec_obs = REQ_WIRES + ['ser_valid', 'ser_v']

        def step():
            if en is not None:
                while rng.random() < 0.45:                      # system cycles in which the codec's domain is disabled
                    before = [w[n].get() for n in codec_obs]
                    en.put(0)
                    with quiet():
                        hw.getSimulator().clk(1)
                    st['cycles'] += 1
                    after = [w[n].get() for n in codec_obs]
                    if after != before:
                        raise SpecViolation('an output of the codec changed in a cycle in which its clock domain was disabled: %s -> %s (wires %s)'
                                            % (before, after, codec_obs))
                en.put(1)
            r = rdy()
            if w['ser_valid'].get() and r: st['rx'].append(w['ser_v'].get())
            w['ser_ready'].put(r)
            with quiet():
                hw.getSimulator().clk(1)
            st['cycles'] += 1
            row = [w[n].get() for n in REQ_WIRES]
            st['events'] += ev_of_row(row)
            if w['set_index_out'].get():
                v, k = outputs[w['index_out'].get()]
                if st['count'] is not None and w['index_out'].get() == 0: v, k = st['count'].get(), 4     # output 0 is the DUT
                w['vin'].put(v); w['size'].put(k)

        def send(chars):
            for ch in chars:
                for g in range(rng.choice([0, 0, 1, 3])):
                    w['valid'].put(0); w['c'].put(rng.choice(SPECIAL + DIGITS)); step()
                w['valid'].put(1); w['c'].put(ch)
                for _ in range(40):
                    taken = w['ready'].get() == 1
                    step()
                    if taken: break
                else:
                    return 'the decoder never raised ready for character %r' % chr(ch)
                w['valid'].put(0)
            return None

        def settle(n_resp_chars):
            budget = 60 + 40 * (n_resp_chars + 2) * (100 // max(pace_percent(tuple(hist['pattern'])), 1) + 1)
            while budget > 0 and (len(st['rx']) < n_resp_chars or (st['dec'] is not None and st['dec'].state != 1)
                                  or (st['enc'] is not None and st['enc'].state != 0)):
                step(); budget -= 1
            for _ in range(5): step()

        def exercise(tag, cmds):
            """send the commands one by one; after each, wait for the decoder (and the response, for O) to finish; judge."""
            for kind, arg in cmds:
                del st['events'][:]; del st['rx'][:]
                bad = send(encode([(kind, arg)]))
                exp_ev = py_expected([(kind, arg)], W)
                exp_rx = []
                if kind == 'K' and st['count'] is not None:
                    st['exp_count'] = (st['exp_count'] + hexval(arg)) % (1 << CNT_W)
                if kind == 'O' and st['enc'] is not None:
                    v, k = outputs[hexval(arg) % (1 << W['index_out'])]
                    if st['count'] is not None and hexval(arg) % (1 << W['index_out']) == 0: v, k = st['exp_count'], 4
                    exp_rx = py_response(v, k)
                settle(len(exp_rx))
                log.append({'phase': tag, 'cmd': cmds_text([(kind, arg)]), 'events': [list(e) for e in st['events']],
                            'received': ''.join(chr(x) for x in st['rx'])})
                if st['count'] is not None: log[-1]['dut_count'] = st['count'].get()
                if bad: return '%s: %s' % (tag, bad)
                if st['count'] is not None and st['count'].get() != st['exp_count']:
                    return '%s: after %s the DUT in the clk_pulse-gated domain counted %d clock edges in total, expected %d' % (
                        tag, cmds_text([(kind, arg)]), st['count'].get(), st['exp_count'])
                if [list(e) for e in st['events']] != [list(e) for e in exp_ev]:
                    return '%s: command %s decoded as %s, expected %s' % (tag, cmds_text([(kind, arg)]), st['events'], exp_ev)
                if st['rx'] != exp_rx:
                    return '%s: response to %s is %r, expected %r' % (tag, cmds_text([(kind, arg)]), ''.join(chr(x) for x in st['rx']),
                                                                     ''.join(chr(x) for x in exp_rx))
            return None

        def direct_response(tag):
            """encoder alone: the bench pulses start_resp itself."""
            v, k = outputs[rng.randrange(8)]
            del st['rx'][:]
            w['vin'].put(v); w['size'].put(k); w['start_resp'].put(1); step(); w['start_resp'].put(0)
            settle(k + 2)
            log.append({'phase': tag, 'cmd': 'start_resp pulse (%d, %d)' % (v, k), 'received': ''.join(chr(x) for x in st['rx'])})
            if st['rx'] != py_response(v, k):
                return '%s: response is %r, expected %r' % (tag, ''.join(chr(x) for x in st['rx']), ''.join(chr(x) for x in py_response(v, k)))
            return None

        def add(which):
            with quiet():
                if which == 'dec':
                    st['dec'] = H.CMDRequest(cd, 'cmd_req', *[w[n] for n in REQ_CTOR])
                else:
                    st['enc'] = H.CMDResponse(ce, 'cmd_resp', w['vin'], w['size'], w['start_resp'], w['ser_ready'], w['ser_valid'], w['ser_v'])

        def some_cmds(with_o):
            cmds = []
            for _ in range(rng.randint(2, 4)):
                kind = rng.choice('IVK' + ('OOO' if with_o else '') + ('KK' if st['count'] is not None else ''))
                if kind == 'K': cmds.append(('K', [ord(ch) for ch in '%X' % rng.randint(0, 9 if st['count'] is not None else 5)]))
                elif kind == 'O': cmds.append(('O', [ord(ch) for ch in '%X' % (0 if (st['count'] is not None and rng.random() < .5) else rng.randint(0, 7))]))
                else: cmds.append((kind, random_digits(rng, 6)))
            if with_o and not any(k == 'O' for k, _ in cmds): cmds.append(('O', [ord('%X' % rng.randint(0, 7))]))
            return cmds

        sp = hist['sim_points']
        first, second = ('dec', 'enc') if hist['order'] == 'dec-enc' else ('enc', 'dec')
        bad = None
        late = hist.get('drv_when') == 'late'
        if clocking == 'codec_gated':
            with quiet():
                en = hw.wire('uart_en', 1)
            if not late: gate_codec()
        if clocking == 'dut_gated' and not late: add_dut()
        if 'empty' in sp and not (clocking == 'codec_gated' and late):
            for _ in range(2): step()                         # the simulator exists before any block does
        add(first)
        if clocking == 'codec_gated' and late: gate_codec()   # the domain is assigned after the first block exists
        if 'between' in sp:
            bad = exercise('after the first block', some_cmds(False)) if first == 'dec' else direct_response('after the first block')
        if bad is None:
            add(second)
            if clocking == 'dut_gated' and late: add_dut()
            bad = exercise('complete circuit', some_cmds(True))
        return {'hist': hist, 'bad': bad, 'log': log, 'cycles': st['cycles'], 'outputs': outputs, 'widths': W}
    except SpecViolation as ex:
        del Wire.prepared[:]
        return {'hist': hist, 'bad': str(ex), 'log': log, 'cycles': 0, 'outputs': [], 'widths': {}}
    except Exception as ex:
        del Wire.prepared[:]
        return {'hist': hist, 'bad': 'the simulation raised %s: %s' % (type(ex).__name__, ex), 'log': log, 'cycles': 0, 'outputs': [], 'widths': {}}


def hist_replay(res):
    return {'what': 'codec built along a construction history: ' + res['bad'], 'block': 'CMDRequest+CMDResponse', 'kind_of_case': 'history',
            'history': res['hist'],
            'history_legend': 'container: where the blocks are instantiated (top = HWSystem, wrap = Logic under it, wrap2 = two levels, split = one wrapper each); '
                              'order: instantiation order; sim_points: when hw.getSimulator().clk() was already used (empty = before any block, between = after the '
                              'first block, which is then exercised); the simulator is re-obtained with hw.getSimulator() for every clock edge',
            'outputs(value,nibbles)': [list(x) for x in res['outputs']], 'widths': res['widths'], 'log': res['log'][-8:]}


# ------------------------------------------------------------------ several command channels in one system
# One HWSystem holding 2-3 independent codecs, each in its own wrapper, every decoder named 'cmd_req' and every encoder
# 'cmd_resp' (the names createHILUART uses; instance names are unique among siblings only).  The channels share the system
# clock, or one derived clock domain, or have one derived domain each.  All channels run concurrently, each with its own
# command list, producer gaps and consumer pacing, and each is judged by the same oracle as a single codec.
MULTI_DOMAINS = ['sys', 'shared', 'own', 'mixed']
MULTI_LAYOUTS = ['flat', 'board']            # wrappers directly under the HWSystem / under a common board Logic


def multi_cases(rng, n):
    out = []
    for i in range(n):
        out.append({'channels': 2 + (i % 2), 'domains': MULTI_DOMAINS[i % len(MULTI_DOMAINS)], 'layout': MULTI_LAYOUTS[(i // 2) % 2],
                    'drv_wire': (i // 4) % 2 == 1, 'seed': rng.randint(0, 1 << 30)})
    return out


class _Channel:
    def __init__(self, py4hw, H, box, idx, rng, pattern):
        self.idx, self.rng = idx, rng
        self.W = {'ready': 1, 'index_in': rng.choice([2, 3, 4]), 'v_in': rng.choice([8, 32]), 'index_out': 3, 'set_index_in': 1, 'set_v_in': 1,
                  'set_index_out': 1, 'clk_pulse': 1, 'start_resp': 1}
        wvin = rng.choice([16, 32])
        w = {n: box.wire(n, dict(self.W, valid=1, c=8)[n]) for n in REQ_CTOR}
        w.update(vin=box.wire('resp_v', wvin), size=box.wire('resp_size', 8), ser_ready=box.wire('ser_ready', 1),
                 ser_valid=box.wire('ser_valid', 1), ser_v=box.wire('ser_v', 8))
        self.w = w
        self.dec = H.CMDRequest(box, 'cmd_req', *[w[n] for n in REQ_CTOR])
        self.enc = H.CMDResponse(box, 'cmd_resp', w['vin'], w['size'], w['start_resp'], w['ser_ready'], w['ser_valid'], w['ser_v'])
        self.outputs = [(rng.randint(0, (1 << wvin) - 1), rng.choice([1, 2, 4, 8, rng.randint(MIN_K, 10)])) for _ in range(8)]
        self.cmds = []
        for _ in range(rng.randint(3, 5)):
            kind = rng.choice('IVKOO')
            if kind == 'K': self.cmds.append(('K', [ord(ch) for ch in '%X' % rng.randint(0, 5)]))
            elif kind == 'O': self.cmds.append(('O', [ord(ch) for ch in '%X' % rng.randint(0, 7)]))
            else: self.cmds.append((kind, random_digits(rng, 6)))
        self.cmds.append(('O', [ord('%X' % rng.randint(0, 7))]))
        self.exp_events = [list(e) for e in py_expected(self.cmds, self.W)]
        self.exp_rx = []
        self.rdy = ready_source(tuple(pattern), rng, w['ser_valid'])
        self.events, self.rx = [], []
        self.todo = list(self.cmds)          # commands not yet started
        self.chars, self.gap, self.need_rx, self.taken = [], 0, 0, False

    def done(self):
        return not self.todo and not self.chars and self.dec.state == 1 and self.enc.state == 0 and len(self.rx) >= self.need_rx

    def pre(self):
        w = self.w
        r = self.rdy()
        if w['ser_valid'].get() and r: self.rx.append(w['ser_v'].get())
        w['ser_ready'].put(r)
        if not self.chars and self.todo and self.dec.state == 1 and self.enc.state == 0 and len(self.rx) >= self.need_rx:
            kind, arg = self.todo.pop(0)                     # next command once the channel is quiet
            self.chars = encode([(kind, arg)]); self.gap = self.rng.choice([0, 1, 3])
            if kind == 'O':
                v, k = self.outputs[hexval(arg) % (1 << self.W['index_out'])]
                self.exp_rx += py_response(v, k); self.need_rx = len(self.exp_rx)
        self.taken = False
        if self.chars and self.gap == 0:
            w['valid'].put(1); w['c'].put(self.chars[0]); self.taken = w['ready'].get() == 1
        else:
            w['valid'].put(0); w['c'].put(self.rng.choice(SPECIAL + DIGITS))
            if self.gap: self.gap -= 1

    def post(self):
        w = self.w
        if self.taken:
            self.chars.pop(0); self.gap = self.rng.choice([0, 0, 1, 2])
        self.events += [list(e) for e in ev_of_row([w[n].get() for n in REQ_WIRES])]
        if w['set_index_out'].get():
            v, k = self.outputs[w['index_out'].get()]
            w['vin'].put(v); w['size'].put(k)

    def verdict(self):
        name = 'channel %d (%s)' % (self.idx, cmds_text(self.cmds))
        if self.events != self.exp_events: return '%s: decoded events %s, expected %s' % (name, self.events, self.exp_events)
        if self.rx != self.exp_rx:
            return '%s: responses %r, expected %r' % (name, ''.join(chr(x) for x in self.rx), ''.join(chr(x) for x in self.exp_rx))
        if not self.done(): return '%s: did not finish its command list within the cycle budget' % name
        return None


def run_multi(py4hw, case):
    Wire = wire_base(py4hw)
    rng = random.Random(case['seed'])
    try:
        with quiet():
            import py4hw.emulation.HILWrapperUART as H
            hw = py4hw.HWSystem()
            root = py4hw.Logic(hw, 'board') if case['layout'] == 'board' else hw
            def derived(name):
                en = hw.wire(name + '_en', 1); en.put(1)
                return py4hw.ClockDriver(name, base=hw.clockDriver, enable=en, wire=hw.wire(name + '_net', 1) if case['drv_wire'] else None)
            shared = derived('link_clk') if case['domains'] in ('shared', 'mixed') else None
            chans = []
            for i in range(case['channels']):
                box = py4hw.Logic(root, 'ch%d' % i)
                dom = case['domains']
                if dom == 'shared' or (dom == 'mixed' and i > 0): box.clockDriver = shared
                elif dom == 'own': box.clockDriver = derived('ch%d_clk' % i)
                chans.append(_Channel(py4hw, H, box, i, random.Random(rng.randint(0, 1 << 30)), PACINGS[rng.randrange(len(PACINGS))]))
        cycles = 0
        cap = 400 + 250 * max(len(c.cmds) for c in chans)
        while cycles < cap and not all(c.done() for c in chans):
            for c in chans: c.pre()
            with quiet():
                hw.getSimulator().clk(1)
            cycles += 1
            for c in chans: c.post()
        for _ in range(4):
            for c in chans: c.pre()
            with quiet():
                hw.getSimulator().clk(1)
            for c in chans: c.post()
        bad = None
        for c in chans:
            bad = bad or c.verdict()
        return {'case': case, 'bad': bad, 'cycles': cycles,
                'channels': [{'stream': cmds_text(c.cmds), 'events': c.events, 'received': ''.join(chr(x) for x in c.rx),
                              'expected_received': ''.join(chr(x) for x in c.exp_rx)} for c in chans]}
    except Exception as ex:
        del Wire.prepared[:]
        return {'case': case, 'bad': 'the simulation raised %s: %s' % (type(ex).__name__, ex), 'cycles': 0, 'channels': []}


def multi_replay(res):
    return {'what': 'several command channels in one system: ' + res['bad'], 'block': 'CMDRequest+CMDResponse', 'kind_of_case': 'multi',
            'case': res['case'],
            'case_legend': 'channels: number of codecs, each in its own wrapper ch<i>, every decoder named cmd_req and every encoder cmd_resp; domains: sys = system clock, '
                           'shared = one derived ClockDriver for all, own = one derived driver each, mixed = channel 0 on the system clock and the others shared '
                           '(enables held at 1); layout: wrappers under the HWSystem or under a board Logic',
            'channels': res['channels']}

# ------------------------------------------------------------------ shrinking a failing case
def shrink_request(py4hw, run):
    """smallest failing variant found: a single command of the stream, tight schedule, shorter digit string."""
    W = run['W']
    def fails(cmds, sched=None):
        sched = sched if sched is not None else [([], ch) for ch in encode(cmds)]
        r = run_request(py4hw, W, sched); r.update(W=W, cmds=cmds, sched=sched)
        bad = judge_request(r)
        return (r, bad) if bad else None
    best = None
    for c in run['cmds']:
        f = fails([c])
        if f: best = f; break
    if best is None:
        f = fails(run['cmds'])
        if f: best = f
    if best is None: return None
    changed = True
    while changed:
        changed = False
        cmds = best[0]['cmds']
        for i, (k, a) in enumerate(cmds):
            if k == 'X': continue
            for j in range(len(a)):
                cand = cmds[:i] + [(k, a[:j] + a[j + 1:])] + cmds[i + 1:]
                f = fails(cand)
                if f: best = f; changed = True; break
            if changed: break
    return best


def shrink_response(py4hw, run):
    for v, k in run['cfg']['requests']:
        cfg = dict(run['cfg'], requests=[(v, k)], junk=False)
        r = run_response(py4hw, cfg, random.Random(1)); r['idx'] = -1
        bad = judge_response(r)
        if bad: return r, bad
    return None

# ------------------------------------------------------------------ replay
def replay(py4hw, rp):
    if rp.get('kind_of_case') == 'request':
        cmds = [(k, a) for k, a in rp['cmds']]
        sched = [(g, ch) for g, ch in rp['sched']]
        run = run_request(py4hw, rp['widths'], sched); run.update(W=rp['widths'], cmds=cmds, sched=sched)
        bad = judge_request(run)
        print('stream   :', cmds_text(cmds)); print('expected :', py_expected(cmds, rp['widths'])); print('observed :', run['events'])
        print('verdict  :', bad or 'agrees with the specification now')
        return 1 if bad else 0
    if rp.get('kind_of_case') == 'response':
        cfg = rp['cfg']; cfg['requests'] = [tuple(x) for x in cfg['requests']]
        hw, w, blk = build_response(py4hw, cfg['wvin'], cfg['wvalid'], cfg['wv'])
        with quiet():
            sim = hw.getSimulator()
        xf = []; raised = None
        for vin, size, start, ready in rp['inputs(vin,size,start_resp,ready)']:
            if w['valid'].get() and ready: xf.append(w['v'].get())
            for n, x in (('vin', vin), ('size', size), ('start_resp', start), ('ready', ready)): w[n].put(x)
            try:
                with quiet():
                    sim.clk(1)
            except Exception as ex:
                raised = '%s: %s' % (type(ex).__name__, ex); del wire_base(py4hw).prepared[:]; break
        exp = py_responses(cfg['requests'])
        print('expected :', ''.join(map(chr, exp))); print('observed :', ''.join(map(chr, xf)) + (('  then clock() raised ' + raised) if raised else ''))
        bad = xf != exp or raised is not None
        print('verdict  :', 'differs' if bad else 'agrees with the specification now')
        return 1 if bad else 0
    if rp.get('kind_of_case') == 'multi':
        res = run_multi(py4hw, rp['case'])
        for c in res['channels']: print(c)
        print('verdict  :', res['bad'] or 'agrees with the specification now')
        return 1 if res['bad'] else 0
    if rp.get('kind_of_case') == 'history':
        res = run_codec_history(py4hw, rp['history'])
        for e in res['log']: print(e)
        print('verdict  :', res['bad'] or 'agrees with the specification now')
        return 1 if res['bad'] else 0
    import json
    print(json.dumps(rp, indent=1)[:4000])
    return 0
