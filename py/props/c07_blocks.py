"""C07 — catalogue of the arithmetic blocks: how to build the REAL py4hw object for a width configuration,
which configurations the constructors accept, which inputs are unspecified, and the names of the Coq model /
spec wrappers (Model/StructArithTab.v: mt_<name>,  Spec/C07Tab.v: st_<name>) that take the same (W, I)."""
import itertools
import common
from common import quiet


class Blk:
    def __init__(self, name, wparams, ins, nout, build, legal=None, skip=None, gen=(), func=None, anchor=''):
        self.name = name            # also the suffix of the Coq wrappers mt_/st_
        self.wparams = wparams      # names of the entries of W, in order
        self.ins = ins              # [(port name, W key giving its width)]
        self.nout = nout
        self.build = build          # (py4hw, hw, W, inwires) -> [output wires]
        self.legal = legal or (lambda W: True)
        self.skip = skip or (lambda W, I: False)       # input outside the property (divisor 0)
        self.gen = gen              # Gen definitions the model of this block uses
        self.func = func            # pure helper function instead of a circuit: (py4hw, W, I) -> [values]
        self.anchor = anchor

    def wlist(self, W):
        return [W[k] for k in self.wparams]

    def in_widths(self, W):
        return [W[k] for _, k in self.ins]


class Inst:
    """one real block instance; eval(I) pokes the inputs through Wire.put and reads the outputs after propagateAll"""
    def __init__(self, blk, W):
        self.blk, self.W = blk, W
        p = common.quiet_import()
        self.p = p
        if blk.func is None:
            with quiet():
                self.hw = p.HWSystem()
                self.inw = [self.hw.wire(n, W[k]) for n, k in blk.ins]
                self.outw = blk.build(p, self.hw, W, self.inw)
                self.sim = self.hw.getSimulator()

    def eval(self, I):
        if self.blk.func is not None:
            return [int(x) for x in self.blk.func(self.p, self.W, I)]
        with quiet():
            for w, v in zip(self.inw, I): w.put(v)
            self.sim.propagateAll()
        return [w.get() for w in self.outw]


def _o(hw, name, w):
    return hw.wire(name, w)


def _add(ci, co, signed):
    def build(p, hw, W, iw):
        r = _o(hw, 'r', W['wr'])
        cow = _o(hw, 'co', 1) if co else None
        cls = p.SignedAdd if signed else p.Add
        kw = {} if signed else {'width_check': False}
        cls(hw, 'dut', iw[0], iw[1], r, iw[2] if ci else None, cow, **kw)
        return [r, cow] if co else [r]
    return build


def _bin(clsname, **kw):
    def build(p, hw, W, iw):
        r = _o(hw, 'r', W['wr'])
        getattr(p, clsname)(hw, 'dut', iw[0], iw[1], r, **kw)
        return [r]
    return build


def _un(clsname):
    def build(p, hw, W, iw):
        r = _o(hw, 'r', W['wr'])
        getattr(p, clsname)(hw, 'dut', iw[0], r)
        return [r]
    return build


def _constshift(clsname):
    def build(p, hw, W, iw):
        r = _o(hw, 'r', W['wr'])
        getattr(p, clsname)(hw, 'dut', iw[0], W['n'], r)
        return [r]
    return build


def _sign(p, hw, W, iw):
    r = _o(hw, 'r', 1); p.Sign(hw, 'dut', iw[0], r); return [r]

def _abs_inv(p, hw, W, iw):
    r = _o(hw, 'r', W['wr']); s = _o(hw, 'inv', 1); p.Abs(hw, 'dut', iw[0], r, s); return [r, s]

def _shr_wire(p, hw, W, iw):
    r = _o(hw, 'r', W['wr']); p.ShiftRight(hw, 'dut', iw[0], iw[1], r, arithmetic=iw[2]); return [r]

def _addcarryin(p, hw, W, iw):
    r = _o(hw, 'r', W['wr']); p.AddCarryIn(hw, 'dut', iw[0], iw[1], r, iw[2]); return [r]

def _subborrowin(p, hw, W, iw):
    r = _o(hw, 'r', W['wr']); p.SubBorrowIn(hw, 'dut', iw[0], iw[1], r, iw[2]); return [r]

def _clz(p, hw, W, iw):
    r = _o(hw, 'r', W['wr']); z = _o(hw, 'z', 1); p.CountLeadingZeros(hw, 'dut', iw[0], r, z); return [r, z]


AB = [('a', 'wa'), ('b', 'wb')]
ABC = AB + [('ci', 'wci')]
A = [('a', 'wa')]
W4 = ['wa', 'wb', 'wci', 'wr']
W3 = ['wa', 'wb', 'wr']
W2 = ['wa', 'wr']
WN = ['wa', 'n', 'wr']
ADD = ('AddCarryIn_propagate', 'Constant_propagate', 'Range_propagate', 'Bit_propagate')
SADD = ADD + ('SignExtend_propagate',)
STG = ('Bit_propagate', 'Mux2_propagate', 'Buf_propagate')
NEG = ('Constant_propagate', 'Sub_propagate')
ABS = NEG + ('Bit_propagate', 'Mux2_propagate')
ARITH = 'py4hw/logic/arithmetic.py'
rot_ok = lambda W: (1 << (W['wb'] - 1)) <= W['wa']          # every stage rotates by at most the data width
sadd_ok = lambda W: W['wr'] >= W['wa'] and W['wr'] >= W['wb']
bzero = lambda W, I: I[1] == 0

BLOCKS = [
    Blk('AddCarryIn', W4, ABC, 1, _addcarryin, legal=lambda W: W['wr'] >= W['wa'], gen=ADD[:1], anchor=ARITH + ':AddCarryIn'),
    Blk('Add', W4, AB, 1, _add(False, False, False), legal=lambda W: W['wr'] >= W['wa'], gen=ADD, anchor=ARITH + ':Add'),
    Blk('Add_ci', W4, ABC, 1, _add(True, False, False), legal=lambda W: W['wr'] >= W['wa'], gen=ADD, anchor=ARITH + ':Add'),
    Blk('Add_co', W4, AB, 2, _add(False, True, False), legal=lambda W: W['wr'] + 1 >= W['wa'], gen=ADD, anchor=ARITH + ':Add'),
    Blk('Add_ci_co', W4, ABC, 2, _add(True, True, False), legal=lambda W: W['wr'] + 1 >= W['wa'], gen=ADD, anchor=ARITH + ':Add'),
    Blk('SignedAdd', W4, AB, 1, _add(False, False, True), legal=sadd_ok, gen=SADD, anchor=ARITH + ':SignedAdd'),
    Blk('SignedAdd_ci', W4, ABC, 1, _add(True, False, True), legal=sadd_ok, gen=SADD, anchor=ARITH + ':SignedAdd'),
    Blk('SignedAdd_co', W4, AB, 2, _add(False, True, True), legal=sadd_ok, gen=SADD, anchor=ARITH + ':SignedAdd'),
    Blk('SignedAdd_ci_co', W4, ABC, 2, _add(True, True, True), legal=sadd_ok, gen=SADD, anchor=ARITH + ':SignedAdd'),
    Blk('SubBorrowIn', W4, AB + [('bi', 'wci')], 1, _subborrowin, legal=lambda W: W['wr'] >= W['wa'], gen=('SubBorrowIn_propagate',), anchor=ARITH + ':SubBorrowIn'),
    Blk('Sub', W3, AB, 1, _bin('Sub'), gen=('Sub_propagate',), anchor=ARITH + ':Sub'),
    Blk('SignedSub', W3, AB, 1, _bin('SignedSub'), legal=sadd_ok, gen=SADD + ('Not_propagate',), anchor=ARITH + ':SignedSub'),
    Blk('Mul', W3, AB, 1, _bin('Mul'), gen=('Mul_propagate',), anchor=ARITH + ':Mul'),
    Blk('SignedMul', W3, AB, 1, _bin('SignedMul'), gen=('SignedMul_propagate', 'IntegerHelper_c2_to_signed'), anchor=ARITH + ':SignedMul'),
    Blk('Div', W3, AB, 1, _bin('Div'), skip=bzero, gen=('Div_propagate',), anchor=ARITH + ':Div'),
    Blk('Mod', W3, AB, 1, _bin('Mod'), skip=bzero, gen=('Mod_propagate',), anchor=ARITH + ':Mod'),
    Blk('SignedDiv', W3, AB, 1, _bin('SignedDiv'), skip=bzero,
        gen=ABS + ('Div_propagate', 'And2_propagate', 'Not_propagate'), anchor=ARITH + ':SignedDiv'),
    Blk('ShiftRightL', W3, AB, 1, _bin('ShiftRight'), gen=STG + ('ShiftRightConstant_propagate',), anchor=ARITH + ':ShiftRight'),
    Blk('ShiftRightA', W3, AB, 1, _bin('ShiftRight', arithmetic=True),
        gen=STG + ('ShiftRightConstant_propagate', 'SignExtend_propagate'), anchor=ARITH + ':ShiftRight'),
    Blk('ShiftRightW', W3, AB + [('ar', 'one')], 1, _shr_wire,
        gen=STG + ('ShiftRightConstant_propagate', 'SignExtend_propagate', 'ZeroExtend_propagate'), anchor=ARITH + ':ShiftRight'),
    Blk('ShiftLeft', W3, AB, 1, _bin('ShiftLeft'), gen=STG + ('ShiftLeftConstant_propagate',), anchor=ARITH + ':ShiftLeft'),
    Blk('RotateRight', W3, AB, 1, _bin('RotateRight'), legal=rot_ok, gen=STG + ('RotateRightConstant_propagate',), anchor=ARITH + ':RotateRight'),
    Blk('RotateLeft', W3, AB, 1, _bin('RotateLeft'), legal=rot_ok, gen=STG + ('RotateLeftConstant_propagate',), anchor=ARITH + ':RotateLeft'),
    Blk('Neg', W2, A, 1, _un('Neg'), gen=NEG, anchor=ARITH + ':Neg'),
    Blk('Abs', W2, A, 1, _un('Abs'), gen=ABS, anchor=ARITH + ':Abs'),
    Blk('Abs_inv', W2, A, 2, _abs_inv, gen=ABS, anchor=ARITH + ':Abs'),
    Blk('Sign', W2, A, 1, _sign, gen=('Bit_propagate',), anchor=ARITH + ':Sign'),
    Blk('SignExtend', W2, A, 1, _un('SignExtend'), gen=('SignExtend_propagate',), anchor=ARITH + ':SignExtend'),
    Blk('ZeroExtend', W2, A, 1, _un('ZeroExtend'), gen=('ZeroExtend_propagate',), anchor=ARITH + ':ZeroExtend'),
    Blk('CountLeadingZeros', W2, A, 2, _clz, legal=lambda W: (W['wa'] - 1).bit_length() <= W['wr'],
        gen=('ZeroExtend_propagate', 'BitsLSBF_propagate', 'ConcatenateLSBF_propagate', 'Not_propagate', 'Or2_propagate', 'And2_propagate',
             'Buf_propagate', 'Constant_propagate', 'Sub_propagate', 'Mux2_propagate'), anchor=ARITH + ':CountLeadingZeros,_FFunction'),
    Blk('BinaryToBCD', W2, A, 1, _un('BinaryToBCD'), legal=lambda W: W['wr'] % 4 == 0,
        gen=('Mod_propagate', 'Div_propagate', 'Constant_propagate', 'ConcatenateLSBF_propagate'), anchor=ARITH + ':BinaryToBCD'),
    Blk('ShiftLeftConstant', WN, A, 1, _constshift('ShiftLeftConstant'), gen=('ShiftLeftConstant_propagate',), anchor='py4hw/logic/bitwise.py:ShiftLeftConstant'),
    Blk('ShiftRightConstant', WN, A, 1, _constshift('ShiftRightConstant'), gen=('ShiftRightConstant_propagate',), anchor='py4hw/logic/bitwise.py:ShiftRightConstant'),
    Blk('RotateLeftConstant', WN, A, 1, _constshift('RotateLeftConstant'), legal=lambda W: W['n'] <= W['wa'],
        gen=('RotateLeftConstant_propagate',), anchor='py4hw/logic/bitwise.py:RotateLeftConstant'),
    Blk('RotateRightConstant', WN, A, 1, _constshift('RotateRightConstant'), legal=lambda W: W['n'] <= W['wa'],
        gen=('RotateRightConstant_propagate',), anchor='py4hw/logic/bitwise.py:RotateRightConstant'),
    Blk('c2_to_signed', ['w'], [('v', None)], 1, None, gen=('IntegerHelper_c2_to_signed',), anchor='py4hw/helper.py:IntegerHelper.c2_to_signed',
        func=lambda p, W, I: [p.helper.IntegerHelper.c2_to_signed(I[0], W['w'])]),
    Blk('signed_to_c2', ['w'], [('v', None)], 1, None, gen=('IntegerHelper_signed_to_c2',), anchor='py4hw/helper.py:IntegerHelper.signed_to_c2',
        func=lambda p, W, I: [p.helper.IntegerHelper.signed_to_c2(I[0], W['w'])]),
]
BY_NAME = {b.name: b for b in BLOCKS}
ALL_GEN = sorted({g for b in BLOCKS for g in b.gen})


def small_configs(blk, maxw, maxr):
    """every mixed width combination the constructor accepts, operands up to maxw bits, results up to maxr bits"""
    rng = {'wa': range(1, maxw + 1), 'wb': range(1, maxw + 1), 'wr': range(1, maxr + 1), 'wci': [1], 'w': range(1, maxw + 2),
           'n': range(0, maxw + 3)}
    if blk.name == 'BinaryToBCD':
        rng['wr'] = [4, 8, 12]; rng['wa'] = range(1, max(maxw, 7) + 1)
    if blk.name == 'CountLeadingZeros':
        rng['wa'] = range(1, 2 * maxw + 2)
    out = []
    for vals in itertools.product(*[rng[k] for k in blk.wparams]):
        W = dict(zip(blk.wparams, vals)); W['one'] = 1
        if blk.legal(W): out.append(W)
    return out


def all_inputs(blk, W):
    if blk.func is not None:
        w = W['w']
        return [[v] for v in range(-(1 << (w + 1)) - 1, (1 << (w + 1)) + 2)]
    return [list(t) for t in itertools.product(*[range(1 << w) for w in blk.in_widths(W)])]


def boundary(w):
    s = {0, 1, 2, 3, (1 << w) - 1, (1 << w) - 2, 1 << (w - 1), (1 << (w - 1)) - 1, (1 << (w - 1)) + 1, (1 << w) // 3, 9, 10, 99, 100}
    return sorted(v for v in s if 0 <= v < (1 << w))


BIG = [1, 2, 3, 5, 8, 13, 16, 31, 32, 33, 63, 64, 65, 100, 127, 128]
CLZ_W = [1, 2, 3, 4, 5, 6, 7, 8, 9, 13, 15, 16, 17, 24, 31, 32, 33, 40]     # the real CLZ has O(w^2) gates: 100 bits take ~10 s to build
CLZ_W_HEAVY = CLZ_W + [48, 63, 64, 65]
HEAVY = False


def big_config(blk, rng):
    """a random legal configuration with widths up to 128 bits (shift-amount ports up to 7 bits)"""
    for _ in range(200):
        W = {'one': 1, 'wci': rng.choice([1, 1, 1, 2, 5])}
        W['wa'] = rng.choice(BIG); W['wb'] = rng.choice(BIG); W['wr'] = rng.choice(BIG); W['w'] = rng.choice(BIG)
        if blk.name.startswith(('Shift', 'Rotate')) and 'Constant' not in blk.name:
            W['wb'] = rng.choice([1, 2, 3, 4, 5, 6, 7])
        if blk.name == 'BinaryToBCD':
            W['wr'] = 4 * rng.randint(1, 40)
        if blk.name == 'CountLeadingZeros':
            W['wa'] = rng.choice(CLZ_W_HEAVY if (HEAVY and rng.random() < 0.25) else CLZ_W); W['wr'] = max(rng.choice([1, 2, 3, 5, 8]), (W['wa'] - 1).bit_length() + rng.choice([0, 0, 1, 3]))
        if rng.random() < 0.35:
            W['wb'] = W['wa'] if 'Shift' not in blk.name and 'Rotate' not in blk.name else W['wb']
            W['wr'] = W['wa']
        if rng.random() < 0.3 and blk.name.startswith('Signed'):
            W['wr'] = max(W['wa'], W['wb']) + rng.choice([0, 1, 2])
        W['n'] = rng.choice([0, 1, 2, W['wa'] - 1, W['wa'], W['wa'] + 1, W['wr'], rng.randint(0, 140)])
        if W['n'] < 0: W['n'] = 0
        if blk.legal(W): return W
    return None


def big_inputs(blk, W, rng, n):
    if blk.func is not None:
        w = W['w']
        c = [0, 1, -1, (1 << (w - 1)) - 1, 1 << (w - 1), -(1 << (w - 1)), -(1 << (w - 1)) - 1, (1 << w) - 1, 1 << w, -(1 << w), (1 << w) + 1]
        c += [rng.randint(-(1 << (w + 3)), 1 << (w + 3)) for _ in range(n)]
        return [[v] for v in c]
    ws = blk.in_widths(W)
    out = []
    bs = [boundary(w) for w in ws]
    for _ in range(n):
        I = []
        for w, b in zip(ws, bs):
            r = rng.random()
            if r < 0.55: I.append(rng.choice(b))
            elif r < 0.7: I.append(rng.getrandbits(w) | (1 << (w - 1)))        # negative in two's complement
            elif r < 0.8: I.append(rng.getrandbits(max(1, w // 2)) % (1 << w))  # small
            else: I.append(rng.getrandbits(w))
        out.append(I)
    # shift / rotate amounts around the data width
    if blk.name.startswith(('Shift', 'Rotate')) and len(ws) >= 2:
        for amt in (W['wa'] - 1, W['wa'], W['wa'] + 1, W['wr'], (1 << W['wb']) - 1):
            if 0 <= amt < (1 << ws[1]):
                for a in (bs[0][-1], 1 << (ws[0] - 1), rng.getrandbits(ws[0])):
                    out.append([a, amt] + [rng.getrandbits(w) for w in ws[2:]])
    return out
