"""C17 — the UART link delivers every byte once, unchanged and in order; the line is 8N1.
Proof:  Properties/C17.v over the REGENERATED UARTSerializer_clock / UARTDeserializer_clock / ClockSyncFSM_clock / Reg_clock and gate
        functions (Gen/Seq.v, Gen/Prims.v) wrapped in the cycle semantics of Model/Uart.v.
Tie:    the real link (UARTSerializer -> ClockGenerationAndRecovery -> UARTDeserializer, wired as in HILWrapperUART.py) is driven with
        closed-loop producer / consumer stimulus and compared cycle by cycle (a) with the hand model Model/Uart.v (link_step) evaluated in Coq,
        (b) with the kernel model (netlist.Dump: every leaf = its generated function) and (c) each block alone on random inputs.
Oracle: impl vs spec — delivered bytes == accepted bytes (same values, same order, once each) and an independent software 8N1 receiver
        (falling edge, mid-bit samples at the nominal period P = 2*floor(ratio/2)) on the tx wire recovers the accepted bytes;
        Spec.C17.sw_rx is also evaluated in Coq on the recorded line.  The same sweep is the search when a proof or tie breaks."""
import random
import common, netlist
from common import quiet

NEEDED = ['UARTSerializer_clock', 'UARTDeserializer_clock', 'ClockSyncFSM_clock', 'Reg_clock',
          'And2_propagate', 'Or2_propagate', 'Not_propagate', 'Mux2_propagate', 'Wire_put', 'Wire_prepare']
KF = 'C17-consumer-stall'
OBS = ('tx', 's_ready', 'pulse', 'sample', 'desync', 'd_valid', 'd_v')


# ------------------------------------------------------------------ the real link
def half_period(sys_f, uart_f):
    """ClockDivider: n = int(freq_in / (2*freq_out)); the bit period is 2n system clocks (odd ratios are truncated)."""
    return int(sys_f / (2 * uart_f))


def build_link(sys_f, uart_f=1, hist=None):
    """the link, built along a construction history:
    hist = {'depth': 0|1|2 (flat in the HWSystem / inside a structural container block / inside two nested ones),
            'order': a permutation of 'scd' (serializer, clock generation+recovery, deserializer),
            'events': {position 0..3: [kinds]}  what happens before the first / after the j-th block is constructed:
                      'sim' = hw.getSimulator(); 'scope' = py4hw.Scope on tx (its constructor obtains the simulator);
                      'wave' = a Waveform probe on tx; 'clk' = getSimulator().clk(2) on the partially built design}
    None = the flat link, built completely before the first getSimulator()."""
    py4hw = common.quiet_import()
    from py4hw.logic.protocol.uart.serdes import UARTSerializer, UARTDeserializer
    from py4hw.logic.protocol.uart.clock import ClockGenerationAndRecovery
    hist = hist or {'depth': 0, 'order': 'cds', 'events': {}}
    events = {int(k): v for k, v in hist.get('events', {}).items()}
    with quiet():
        hw = py4hw.HWSystem()
        W = {'s_ready': hw.wire('s_ready'), 's_valid': hw.wire('s_valid'), 's_v': hw.wire('s_v', 8), 'tx': hw.wire('tx'),
             'd_ready': hw.wire('d_ready'), 'd_valid': hw.wire('d_valid'), 'd_v': hw.wire('d_v', 8)}
        nprobe = [0]

        def event(parent, j):
            for kind in events.get(j, []):
                nprobe[0] += 1
                if kind == 'sim': hw.getSimulator()
                elif kind == 'clk': hw.getSimulator().clk(2)
                elif kind == 'scope': py4hw.Scope(parent, 'probe%d' % nprobe[0], [W['tx']])
                elif kind == 'wave': py4hw.Waveform(parent, 'wave%d' % nprobe[0], [W['tx']])
                else: raise ValueError(kind)

        def populate(parent):
            for nm in ('pulse', 'sample', 'desync'):
                W[nm] = parent.wire(nm)
            event(parent, 0)
            for j, ch in enumerate(hist.get('order', 'cds')):
                if ch == 'c': ClockGenerationAndRecovery(parent, 'uart_clock', W['tx'], W['desync'], W['pulse'], W['sample'], sys_f, uart_f)
                elif ch == 'd': UARTDeserializer(parent, 'des', W['tx'], W['sample'], W['d_ready'], W['d_valid'], W['d_v'], W['desync'])
                elif ch == 's': UARTSerializer(parent, 'ser', W['s_ready'], W['s_valid'], W['s_v'], W['pulse'], W['tx'])
                else: raise ValueError(ch)
                event(parent, j + 1)

        class Box(py4hw.Logic):                    # a structural container: the link (or another container) lives inside it
            def __init__(self, parent, name, depth):
                super().__init__(parent, name)
                self.addOut('s_ready', W['s_ready']); self.addIn('s_valid', W['s_valid']); self.addIn('s_v', W['s_v'])
                self.addIn('d_ready', W['d_ready']); self.addOut('d_valid', W['d_valid']); self.addOut('d_v', W['d_v']); self.addOut('tx', W['tx'])
                if depth > 1: Box(self, 'inner', depth - 1)
                else: populate(self)

        if hist.get('depth', 0) == 0: populate(hw)
        else: Box(hw, 'loop', hist['depth'])
        sim = hw.getSimulator()
    return hw, W, sim


def ready_fn(pacing, P, rng):
    """consumer's ready as a function of the cycle number"""
    kind = pacing[0]
    if kind == 'always': return lambda t: 1
    if kind == 'every':                         # one ready cycle every k clocks
        k, ph = pacing[1], pacing[2]
        return lambda t: int(t % k == ph % k)
    if kind == 'burst':                         # ready for `on` clocks out of every k
        k, on, ph = pacing[1], pacing[2], pacing[3]
        return lambda t: int((t + ph) % k < on)
    if kind == 'random':
        p = pacing[1]; memo = {}
        def f(t):
            if t not in memo: memo[t] = int(rng.random() < p)
            return memo[t]
        return f
    if kind == 'stall':                         # not ready for the first `until` clocks, then always
        until = pacing[1]
        return lambda t: int(t >= until)
    raise ValueError(pacing)


def drive(scen, with_dump=False):
    """closed-loop run of the real link.  scen: sys_f, uart_f, bytes, gaps, early (valid before ready), pacing, seed, tail.
    Returns per-cycle inputs and observations, accepted / delivered bytes with their edge numbers, completion edges."""
    sys_f, uart_f = scen['sys_f'], scen.get('uart_f', 1)
    n = half_period(sys_f, uart_f); P = 2 * n
    rng = random.Random(scen.get('seed', 0))
    hw, W, sim = build_link(sys_f, uart_f, scen.get('hist'))
    dp = netlist.Dump(hw) if with_dump else None
    rdy = ready_fn(scen['pacing'], P, rng)
    data, gaps = scen['bytes'], scen['gaps']
    res = {'n': n, 'P': P, 'ins': [], 'obs': [], 'accepted': [], 'delivered': [], 'completions': [], 'dp': dp, 'W': W,
           'init': dp.values() if dp else None, 'trace': [], 'steps': []}
    i = g = 0
    t = 0
    budget = scen.get('max_cycles') or (len(data) * 12 * P + sum(gaps) + 14 * P + scen.get('tail', 0) + 8)
    done_at = None
    while t < budget:
        va = 0
        if i < len(data):
            if W['s_ready'].get():
                if g >= gaps[i]: va = 1
                else: g += 1
            elif scen.get('early') and gaps[i] == 0: va = 1
        v = data[i] if va else rng.randrange(256)          # v is garbage while valid is low
        rd = rdy(t)
        # what happens AT this edge (wire values before it)
        if va and W['s_ready'].get():
            res['accepted'].append((t, v)); i += 1; g = 0
        if rd and W['d_valid'].get():
            res['delivered'].append((t, W['d_v'].get()))
        if dp:
            pokes = [(dp.w(W['s_valid']), va), (dp.w(W['s_v']), v), (dp.w(W['d_ready']), rd)]
            res['steps'].append((pokes, 1))
            res['trace'] += dp.run_impl([(pokes, 1)])
        else:
            W['s_valid'].put(va); W['s_v'].put(v); W['d_ready'].put(rd)
            with quiet(): sim.clk(1)
        res['ins'].append((va, v, rd))
        res['obs'].append([W[k].get() for k in OBS])
        if W['desync'].get(): res['completions'].append(t)
        t += 1
        if done_at is None and i == len(data) and len(res['delivered']) >= len(data): done_at = t
        if done_at is not None and t >= done_at + 2 * P + scen.get('tail', 0): break
    return res


# ------------------------------------------------------------------ oracles (spec side, independent of the implementation)
def sw_receiver(tx, P):
    """independent software 8N1 receiver on the recorded tx wire (value after each clock edge; the line idles high before the record):
    wait for a falling edge, sample mid-bit every P clocks: start must be 0, then 8 data bits LSB first, stop must be 1."""
    out, errs = [], []
    prev, t = 1, 0
    while t < len(tx):
        if prev == 1 and tx[t] == 0:
            idx = [t + P // 2 + k * P for k in range(10)]
            if idx[-1] >= len(tx): break                    # frame not complete inside the record
            s = [tx[j] for j in idx]
            if s[0] != 0 or s[9] != 1:
                errs.append(('framing', t, s))
            else:
                out.append((t, sum(b << k for k, b in enumerate(s[1:9]))))
            t = idx[-1]; prev = tx[t]; t += 1
            continue
        prev = tx[t]; t += 1
    return out, errs


def expected_delivery(acc_bytes, completions, ins):
    """reference hand-over (des_frame / des_all_pacings_refuted): the byte completed at edge t_k is transferred iff the consumer is ready at
    two edges in [t_k, t_(k+1)]; otherwise it is overwritten by the next frame (known finding) or still pending at the end."""
    exp, lost, pending = [], [], []
    for k, b in enumerate(acc_bytes[:len(completions)]):
        lo = completions[k]
        hi = completions[k + 1] if k + 1 < len(completions) else len(ins) - 1
        nr = sum(1 for t in range(lo, hi + 1) if ins[t][2])
        if nr >= 2: exp.append(b)
        elif k + 1 < len(completions): lost.append((k, b, lo, hi, nr))
        else: pending.append(b)
    return exp, lost, pending


def drive_checked(ctx, scen, with_dump=False):
    """drive(); a legal configuration (ratio >= 4) that cannot be constructed or simulated is itself a failing input"""
    try:
        return drive(scen, with_dump)
    except Exception as ex:
        import traceback
        ctx.violation(dict({k: scen[k] for k in ('sys_f', 'uart_f', 'bytes', 'gaps', 'early', 'pacing', 'seed', 'tail', 'max_cycles', 'hist') if k in scen},
                           what='the link cannot be built / simulated at this legal ratio: %s: %s' % (type(ex).__name__, ex),
                           traceback=traceback.format_exc()[-1500:], stage='build'))
        return None


def judge(ctx, scen, res):
    """impl vs spec on one run.  returns True when the run is fine (possibly a known finding)."""
    P = res['P']
    acc = [b for _, b in res['accepted']]; dlv = [b for _, b in res['delivered']]
    tx = [o[0] for o in res['obs']]
    key = {k: scen[k] for k in ('sys_f', 'uart_f', 'bytes', 'gaps', 'early', 'pacing', 'seed', 'tail', 'max_cycles', 'hist') if k in scen}
    # (1) the line is 8N1: the independent receiver sees exactly the accepted bytes (those whose frame ended inside the record)
    rx, errs = sw_receiver(tx, P)
    rxb = [b for _, b in rx]
    cut = bool(res['accepted']) and res['accepted'][-1][0] + 12 * P + 4 > len(tx)      # last frame may be cut off by the end of the record
    if errs or (rxb != acc and not (cut and rxb == acc[:-1])):
        ctx.violation(dict(key, what='independent 8N1 software receiver on the tx wire does not recover the accepted bytes',
                           accepted=acc, sw_received=rxb, framing_errors=errs[:3], bit_period=P, stage='line'))
        return False
    if len(acc) != len(scen['bytes']):
        ctx.violation(dict(key, what='the serializer did not accept all offered bytes within the cycle budget', accepted=acc, offered=scen['bytes'], stage='accept'))
        return False
    # (2) every accepted byte is delivered once, unchanged, in order
    if dlv == acc:
        return True
    exp, lost, pending = expected_delivery(acc, res['completions'], res['ins'])
    frame = 10 * P
    stalled = bool(lost) and all(nr < 2 and hi - lo >= frame for (_, _, lo, hi, nr) in lost)
    if dlv == exp and stalled and len(res['completions']) == len(acc) and not pending:
        kf = [k for k in ctx.known if k['id'] == KF and k.get('status') == 'known']
        if kf:
            ctx.known_finding(KF, kf[0]['text'])
            ctx.notes.setdefault('known_finding_cases', []).append({'pacing': scen['pacing'], 'sys_f': scen['sys_f'], 'accepted': acc, 'delivered': dlv,
                                                                     'lost': [(k, b) for k, b, _, _, _ in lost]})
            return True
    if dlv == exp and pending and not lost:
        # the consumer simply has not been ready twice since the last frame ended and the record stops: nothing is lost
        return True
    ctx.violation(dict(key, what='bytes delivered on the deserializer ready/valid port differ from the bytes accepted by the serializer',
                       accepted=acc, delivered=dlv, completion_edges=res['completions'], stage='deliver'))
    return False


# ------------------------------------------------------------------ model side
PRELUDE = ('From V Require Import Base.PyInt Gen.WireOps Gen.Prims Gen.Seq Model.SimKernel Model.Trace Model.Uart Spec.C17.\n'
           'Definition dec (c : Z) : link_in := {| li_valid := c mod 2; li_ready := (c / 2) mod 2; li_v := c / 4 |}.\n'
           'Definition enc (o : list Z) : Z := match o with [a; b; c; d; e; f; g] => a + 2*b + 4*c + 8*d + 16*e + 32*f + 64*g | _ => -1 end.\n'
           'Definition link_cmp (n : Z) (ins exp : list Z) := diff_row 0 exp (map (fun l => enc (link_obs l)) (runs (link_step n) link_init (map dec ins))).\n'
           'Definition link_io (n : Z) (ins : list Z) := (link_accepted n link_init (map dec ins), link_delivered n link_init (map dec ins)).\n'
           'Definition line_of (n : Z) (ins : list Z) := map (fun l => s_tx (l_ser l)) (runs (link_step n) link_init (map dec ins)).\n')


def enc_in(i): return i[0] + 2 * i[2] + 4 * i[1]
def enc_obs(o): return sum(x << k for x, k in zip(o, (0, 1, 2, 3, 4, 5, 6)))


def model_compare(ctx, tag, runs):
    """hand model (Model/Uart.v) against the real link, cycle by cycle, inside Coq; and the model's accepted/delivered lists."""
    items, defs = [], []
    for k, (scen, res) in enumerate(runs):
        defs.append('Definition ins%d : list Z := %s.' % (k, common.zlist([enc_in(i) for i in res['ins']])))
        defs.append('Definition exp%d : list Z := %s.' % (k, common.zlist([enc_obs(o) for o in res['obs']])))
        items.append(('c%d' % k, 'link_cmp %d ins%d exp%d' % (res['n'], k, k)))
        items.append(('io%d' % k, 'link_io %d ins%d' % (res['n'], k)))
    out = common.coq_eval(tag, PRELUDE + '\n'.join(defs) + '\n', items, timeout=900)
    for k, (scen, res) in enumerate(runs):
        d = out['c%d' % k]
        if d is not None:
            t, imp, mod = d[1]
            return ({'what': 'hand model of the link (Model/Uart.v link_step) and the real blocks disagree (correspondence broken)',
                           'cycle': t, 'impl_obs': dict(zip(OBS, [(imp >> j) & 1 for j in range(6)] + [imp >> 6])),
                           'model_obs': dict(zip(OBS, [(mod >> j) & 1 for j in range(6)] + [mod >> 6])),
                           'scenario': {kk: scen[kk] for kk in scen if kk != 'label'}})
        a, dl = out['io%d' % k]
        if a != [b for _, b in res['accepted']] or dl != [b for _, b in res['delivered']]:
            return ({'what': 'accepted/delivered byte lists of the model and of the real link differ', 'model': [a, dl],
                           'impl': [res['accepted'], res['delivered']], 'scenario': {kk: scen[kk] for kk in scen if kk != 'label'}})
    return None


def spec_rx_compare(ctx, tag, runs):
    """Spec.C17.sw_rx (the Coq statement of the software receiver) on the recorded line of single-byte runs: impl vs spec inside Coq."""
    items = []
    for k, (scen, res) in enumerate(runs):
        tx = [o[0] for o in res['obs']]
        items.append(('s%d' % k, 'sw_rx %d%%nat %s' % (res['P'], common.zlist(tx))))
    out = common.coq_eval(tag, 'From V Require Import Base.PyInt Spec.C17.\n', items, timeout=600)
    for k, (scen, res) in enumerate(runs):
        got = out['s%d' % k]
        want = ('Some', scen['bytes'][0])
        if got != want:
            ctx.violation(dict({kk: scen[kk] for kk in scen if kk != 'label'}, what='Spec.C17.sw_rx on the recorded tx wire does not return the accepted byte',
                               spec_result=str(got), accepted=scen['bytes'][:1], stage='line'))
            return False
    return True


def kernel_compare(ctx, tag, scens):
    """kernel model (Model/SimKernel.v with every leaf = its generated function) against the real simulator on the full link, all wires."""
    batch = []
    for scen in scens:
        res = drive_checked(ctx, scen, with_dump=True)
        if res is None or not judge(ctx, scen, res): return 'spec'
        batch.append((res['dp'], res['steps'], res['init'], res['trace']))
        ctx.count(('kernel', scen['sys_f'], tuple(scen['bytes']), scen['pacing']), n=len(res['steps']))
    diffs = netlist.compare(tag, batch, timeout=900)
    for scen, (dp, steps, iv, trace), df in zip(scens, batch, diffs):
        if df is not None:
            return {'what': 'kernel model (generated leaf functions) and the real simulator disagree on the UART link (correspondence broken)',
                    'diff(step,(wire,impl,model))': df, 'wire_name': dp.wires[df[1][0]].getFullPath() if df[1][0] < len(dp.wires) else None,
                    'scenario': {kk: scen[kk] for kk in scen if kk != 'label'}}
    ctx.notes['kernel_model_link_runs'] = ctx.notes.get('kernel_model_link_runs', 0) + len(batch)
    return None


# ---- each block alone on random inputs (states the closed link never reaches, e.g. pulses on consecutive clocks, desync while idle)
def block_ties(ctx, ncyc):
    py4hw = common.quiet_import()
    from py4hw.logic.protocol.uart.serdes import UARTSerializer, UARTDeserializer
    from py4hw.logic.protocol.uart.clock import ClockGenerationAndRecovery
    from py4hw.logic.clock import ClockDivider, EdgeDetector
    rng = random.Random(ctx.seed * 7919 + 17)
    items, exps, descr = [], [], []

    def bits(p): return int(rng.random() < p)
    # serializer
    for p_pulse in (0.15, 0.5, 1.0):
        with quiet():
            hw = py4hw.HWSystem(); rdy, va, v, pu, tx = hw.wire('rdy'), hw.wire('va'), hw.wire('v', 8), hw.wire('pu'), hw.wire('tx')
            UARTSerializer(hw, 'ser', rdy, va, v, pu, tx); sim = hw.getSimulator()
        ins, obs = [], []
        for t in range(ncyc):
            i = (bits(0.3), rng.randrange(256), bits(p_pulse)); va.put(i[0]); v.put(i[1]); pu.put(i[2])
            with quiet(): sim.clk(1)
            ins.append(i); obs.append(tx.get() + 2 * rdy.get())
        items.append('map (fun s => s_tx s + 2 * s_ready s) (runs ser_step ser_init [%s])' % '; '.join('{| si_valid := %d; si_v := %d; si_pulse := %d |}' % i for i in ins))
        exps.append(obs); descr.append(('UARTSerializer', p_pulse, ins)); ctx.count(('block', 'ser', p_pulse), n=ncyc)
    # deserializer
    for p_s in (0.2, 0.6, 1.0):
        with quiet():
            hw = py4hw.HWSystem(); rx, smp, rdy, va, v, ds = hw.wire('rx'), hw.wire('smp'), hw.wire('rdy'), hw.wire('va'), hw.wire('v', 8), hw.wire('ds')
            UARTDeserializer(hw, 'des', rx, smp, rdy, va, v, ds); sim = hw.getSimulator()
        ins, obs = [], []
        for t in range(ncyc):
            i = (bits(0.5), bits(0.4), bits(p_s)); rx.put(i[0]); rdy.put(i[1]); smp.put(i[2])
            with quiet(): sim.clk(1)
            ins.append(i); obs.append(va.get() + 2 * ds.get() + 4 * v.get())
        items.append('map (fun s => d_valid s + 2 * d_desync s + 4 * d_v s) (runs des_step des_init [%s])' % '; '.join('{| di_rx := %d; di_ready := %d; di_sample := %d |}' % i for i in ins))
        exps.append(obs); descr.append(('UARTDeserializer', p_s, ins)); ctx.count(('block', 'des', p_s), n=ncyc)
    # clock generation and recovery alone: random rx / desync
    for ratio in (4, 5, 7, 10, 12, 18, 33, 36):        # legal ratios only (>= 4); n = 5, 9, 18 sit just above a power of two (counter width bands)
        with quiet():
            hw = py4hw.HWSystem(); rx, ds, pu, smp = hw.wire('rx'), hw.wire('ds'), hw.wire('pu'), hw.wire('smp')
            ClockGenerationAndRecovery(hw, 'cgr', rx, ds, pu, smp, ratio, 1); sim = hw.getSimulator()
        ins, obs = [], []
        lvl = 1
        for t in range(ncyc):
            if rng.random() < 0.2: lvl ^= 1
            i = (lvl, bits(0.05)); rx.put(i[0]); ds.put(i[1])
            with quiet(): sim.clk(1)
            ins.append(i); obs.append(pu.get() + 2 * smp.get())
        n = half_period(ratio, 1)
        # the combinational outputs depend on the rx input of the NEXT cycle only through start (not observed); pulse / sample are functions of the state
        items.append('map (fun c => cgr_pulse c + 2 * cgr_sample c) (runs (fun c (i : Z * Z) => cgr_step %d c (fst i) (snd i)) cgr_init [%s])' % (
            n, '; '.join('(%d, %d)' % i for i in ins)))
        exps.append(obs); descr.append(('ClockGenerationAndRecovery', ratio, ins)); ctx.count(('block', 'cgr', ratio), n=ncyc)
    # clock divider with a random reset; edge detectors
    for ratio in (4, 6, 9, 10, 20, 22, 34):
        with quiet():
            hw = py4hw.HWSystem(); rs, ck = hw.wire('rs'), hw.wire('ck')
            ClockDivider(hw, 'div', ratio, 1, ck, reset=rs); sim = hw.getSimulator()
        ins, obs = [], []
        for t in range(ncyc):
            r = bits(0.08); rs.put(r)
            with quiet(): sim.clk(1)
            ins.append(r); obs.append(ck.get())
        items.append('map cd_clk (runs (cdiv_step %d) {| cd_q := 0; cd_clk := 0 |} %s)' % (half_period(ratio, 1), common.zlist(ins)))
        exps.append(obs); descr.append(('ClockDivider', ratio, ins)); ctx.count(('block', 'div', ratio), n=ncyc)
    for direction, fn in (('pos', 'edge_pos'), ('neg', 'edge_neg')):
        with quiet():
            hw = py4hw.HWSystem(); a, r = hw.wire('a'), hw.wire('r')
            EdgeDetector(hw, 'ed', a, r, direction); sim = hw.getSimulator()
        ins, obs = [], []
        for t in range(ncyc):
            x = bits(0.5); a.put(x)
            with quiet(): sim.propagateAll()
            obs.append(r.get())                           # combinational output for the current input
            with quiet(): sim.clk(1)
            ins.append(x)
        items.append('(fix go (z : Z) (l : list Z) : list Z := match l with [] => [] | a :: r => %s a z :: go (edge_step a z) r end) 0 %s' % (fn, common.zlist(ins)))
        exps.append(obs); descr.append(('EdgeDetector', direction, ins)); ctx.count(('block', 'edge', direction), n=ncyc)
    out = common.coq_eval('C17_blocks', PRELUDE, [('all', '[' + ';\n '.join(items) + ']')], timeout=600)['all']
    for (blk, par, ins), e, m in zip(descr, exps, out):
        if e != m:
            t = next((k for k, (x, y) in enumerate(zip(e, m)) if x != y), min(len(e), len(m)))
            return {'what': 'model of %s (Model/Uart.v) and the real block disagree on a random input history (correspondence broken)' % blk,
                    'parameter': par, 'cycle': t, 'impl': e[t] if t < len(e) else None, 'model': m[t] if t < len(m) else None,
                    'inputs_up_to_cycle': ins[-40:] if False else ins[max(0, t - 40):t + 1]}
    return None


# ------------------------------------------------------------------ scenarios
def scenarios(ctx, rng, ratios, n_bytes_each, gap_kinds, full_bytes_ratio=None):
    out = []
    for ratio in ratios:
        n = half_period(ratio, 1); P = 2 * n
        pacings = [('always',), ('every', max(2, P), 1), ('every', 4 * P, 3), ('burst', 5 * P, 2, rng.randrange(5 * P)),
                   ('random', 0.5), ('random', max(0.08, 2.5 / P))]
        for gk in gap_kinds:
            data = [rng.randrange(256) for _ in range(n_bytes_each)]
            data[0] = rng.choice([0x00, 0xFF, 0x55, 0xAA, 0x01, 0x80])
            if gk == 'b2b': gaps = [0] * len(data)
            elif gk == 'small': gaps = [rng.randrange(0, 4) for _ in data]
            elif gk == 'upto3P': gaps = [rng.randrange(0, 3 * P + 1) for _ in data]
            else: gaps = [rng.randrange(0, 8 * P) for _ in data]
            pc = pacings[len(out) % len(pacings)]
            out.append({'sys_f': ratio, 'uart_f': 1, 'bytes': data, 'gaps': gaps, 'early': gk == 'b2b' and len(out) % 2 == 0,
                        'pacing': pc, 'seed': rng.randrange(1 << 30), 'tail': 6 * P})
    if full_bytes_ratio:
        for ratio in full_bytes_ratio:                      # all 256 byte values through one link
            P = 2 * half_period(ratio, 1)
            data = list(range(256)); rng.shuffle(data)
            out.append({'sys_f': ratio, 'uart_f': 1, 'bytes': data, 'gaps': [rng.choice([0, 0, 1, P, 3 * P]) for _ in data], 'early': True,
                        'pacing': ('random', 0.6), 'seed': rng.randrange(1 << 30), 'tail': 4 * P})
    return out


def history_scenarios(rng, ratios, count):
    """construction-history families: container depth x order of the three blocks x what happens between their constructions"""
    import itertools
    orders = [''.join(p) for p in itertools.permutations('scd')]
    out = []
    for j in range(count):
        ratio = ratios[j % len(ratios)]; P = 2 * half_period(ratio, 1)
        depth = (j + j // 3) % 3
        order = orders[(j * 5 + j // 6) % 6]
        kinds = ['scope', 'sim', 'wave', 'clk']
        events = {}
        for pos in rng.sample([0, 1, 2, 3], rng.choice([1, 1, 2])):
            events[str(pos)] = [kinds[(j + pos) % 4]] if rng.random() < 0.8 else [rng.choice(kinds), rng.choice(kinds)]
        data = [rng.randrange(256) for _ in range(3)]
        out.append({'sys_f': ratio, 'uart_f': 1, 'bytes': data, 'gaps': [rng.choice([0, 1, P]) for _ in data], 'early': bool(j % 2),
                    'pacing': [('always',), ('random', 0.5), ('every', max(2, P), 1)][j % 3], 'seed': rng.randrange(1 << 30), 'tail': 4 * P,
                    'hist': {'depth': depth, 'order': order, 'events': events}})
    return out


def has_preclk(scen):
    return any('clk' in v for v in (scen.get('hist') or {}).get('events', {}).values())


def sweep(ctx, scens, tag, ties, with_model=True, chunk=40):
    """run the real link on every scenario; oracle per run (False = a spec violation with its input was reported);
    then the hand model in Coq on the same inputs (in chunks); a model mismatch is appended to `ties`."""
    done = []
    for scen in scens:
        res = drive_checked(ctx, scen)
        if res is None or not judge(ctx, scen, res): return False
        P = res['P']
        for (t, b), g in zip(res['accepted'], scen['gaps']):
            ctx.count(('byte', scen['sys_f'], b, min(g, 3 * P + 1), scen['pacing'][0]))
        ctx.count(None, n=len(res['ins']) - len(res['accepted']), nontrivial=False)
        if not has_preclk(scen): done.append((scen, res))       # the model starts at power-up: runs clocked while half built are oracle-only
        if len(done) <= 2:
            ctx.sample({'sys_clocks_per_bit': scen['sys_f'], 'bit_period_P': P, 'bytes': scen['bytes'][:6], 'gaps': scen['gaps'][:6], 'pacing': scen['pacing'],
                        'accepted': res['accepted'][:4], 'delivered': res['delivered'][:4], 'tx_first_60': ''.join(str(o[0]) for o in res['obs'][:60])})
    if with_model and not ties:
        for c in range(0, len(done), chunk):
            try:
                tf = model_compare(ctx, '%s_m%d' % (tag, c // chunk), done[c:c + chunk])
            except RuntimeError as ex:
                tf = {'what': 'correspondence case file cannot be evaluated in Coq (regenerated definitions changed shape)', 'coq_error': str(ex)[-1500:]}
            if tf:
                ties.append(tf); break
        ctx.notes['hand_model_link_runs'] = ctx.notes.get('hand_model_link_runs', 0) + len(done)
        ctx.notes['hand_model_link_cycles'] = ctx.notes.get('hand_model_link_cycles', 0) + sum(len(r['ins']) for _, r in done)
    return True


def stall_cases(ctx):
    """the documented exception: a consumer that is not ready for longer than one frame loses a byte.  Real blocks; must match the
    narrow signature (every lost byte had < 2 ready edges in a window of at least one frame) to be reported as KNOWN-FINDING."""
    ok = True
    for ratio, until in ((4, 100), (9, 260)):
        P = 2 * half_period(ratio, 1)
        scen = {'sys_f': ratio, 'uart_f': 1, 'bytes': [0x55, 0xA3], 'gaps': [0, 0], 'early': True, 'pacing': ('stall', until), 'seed': 5, 'tail': 4 * P,
                'max_cycles': until + 8 * P}
        res = drive_checked(ctx, scen)
        if res is None: return False
        ctx.count(('stall', ratio, until), n=len(res['ins']))
        ok = judge(ctx, scen, res) and ok
        ctx.sample({'known_finding_witness': {'sys_clocks_per_bit': ratio, 'consumer_not_ready_until': until, 'accepted': res['accepted'], 'delivered': res['delivered']}}, limit=9)
    return ok


# ------------------------------------------------------------------ entry points
def run(ctx):
    ctx.cov['rule'] = ('obligations: theorems of Properties/C17.v over the regenerated FSM functions; correspondence cases: one case = one byte sent through the '
                       'REAL link, distinct by (clocks per bit, byte value, gap before it capped at 3P+1, consumer pacing kind); every such case is non-trivial '
                       '(a full frame is serialised, sampled and handed over); block-level cases = (block, parameter) random histories; idle cycles are counted as '
                       'evaluations only')
    missing = ctx.regen(NEEDED)
    r = ctx.prove(['Properties/C17.v'])
    tie_ok = not missing and r['ok']
    rng = random.Random(ctx.seed * 1000003 + 17)
    if ctx.quick:
        # a spread over the bands of the divider's counter width: n = ratio//2 just above / well above / just below each power of two
        ratios = [4, 5, 6, 7, 8, 10, 11, 13, 16, 18, 20, 22, 23, 29, 34, 40, 47]
        scens = scenarios(ctx, rng, [4, 5, 6, 7, 8], 3, ['b2b', 'small', 'upto3P'], full_bytes_ratio=[4])
        scens += scenarios(ctx, rng, [10, 11, 13, 16], 2, ['b2b', 'small', 'upto3P'])
        big = [18, 20, 22, 23, 29, 34, 40, 47]
        for j, ra in enumerate(big):                      # the slow ratios: two bytes, one gap family each (rotating with the seed)
            scens += scenarios(ctx, rng, [ra], 2, [['b2b', 'small', 'upto3P'][(j + ctx.seed) % 3]])
        scens += history_scenarios(rng, [4, 10, 16], 18)
        kern = [{'sys_f': 4, 'uart_f': 1, 'bytes': [0xA5, 0x3C], 'gaps': [0, 2], 'early': True, 'pacing': ('every', 3, 1), 'seed': 1, 'tail': 8},
                {'sys_f': 7, 'uart_f': 1, 'bytes': [0x81], 'gaps': [3], 'early': False, 'pacing': ('random', 0.4), 'seed': 2, 'tail': 8}]
        nblk = 300
    else:
        ratios = list(range(4, 49)) + [63, 64, 65, 66, 70, 96, 130]
        scens = scenarios(ctx, rng, ratios, 10, ['b2b', 'small', 'upto3P', 'long'], full_bytes_ratio=[4, 5, 6, 7, 8, 13, 21, 40])
        scens += history_scenarios(rng, [4, 5, 7, 10, 16, 22], 144)
        scens.append({'sys_f': 50e6, 'uart_f': 115200, 'bytes': [0x5A, 0xC3], 'gaps': [0, 100], 'early': True, 'pacing': ('random', 0.01), 'seed': 3, 'tail': 500})
        kern = [{'sys_f': ra, 'uart_f': 1, 'bytes': [rng.randrange(256) for _ in range(2)], 'gaps': [0, rng.randrange(3 * ra)], 'early': bool(ra % 2),
                 'pacing': pc, 'seed': ra, 'tail': 8} for ra, pc in ((4, ('always',)), (5, ('every', 3, 1)), (6, ('random', 0.3)), (9, ('burst', 40, 2, 7)), (16, ('random', 0.2)))]
        nblk = 1500
    ties = []                      # broken correspondences (model != implementation); reported only if the search finds no failing input
    def coq_side(f, *a):
        try:
            return f(*a)
        except RuntimeError as ex:  # the case file no longer compiles against the regenerated definitions
            return {'what': 'correspondence case file cannot be evaluated in Coq (regenerated definitions changed shape)', 'coq_error': str(ex)[-1500:]}
        except Exception as ex:     # a real block refuses a legal configuration / crashes: the sweep below looks for the failing input
            import traceback
            return {'what': 'a real block raised %s: %s while being driven for the correspondence check' % (type(ex).__name__, ex), 'traceback': traceback.format_exc()[-1500:]}
    if not missing:
        tf = coq_side(block_ties, ctx, nblk)
        if tf: ties.append(tf)
    ok = sweep(ctx, scens, 'C17_link', ties, with_model=not missing)
    if ok:
        singles = [s for s in scenarios(ctx, rng, [4, 6, 10, 18, 35] if ctx.quick else [4, 5, 6, 7, 9, 10, 12, 16, 18, 22, 25, 34, 40, 44, 66], 1, ['small'])]
        runs1 = []
        for s in singles:
            res = drive_checked(ctx, s); ok = ok and res is not None and judge(ctx, s, res)
            if not ok: break
            runs1.append((s, res))
            ctx.count(('swrx', s['sys_f'], s['bytes'][0]))
        if ok:
            ok = spec_rx_compare(ctx, 'C17_swrx', runs1)
    if ok and not missing and not ties:
        tf = coq_side(kernel_compare, ctx, 'C17_kernel', kern)
        if tf == 'spec': ok = False
        elif tf: ties.append(tf)
    if ok:
        ok = stall_cases(ctx)
    if ok and (ties or not tie_ok):
        # a proof obligation, the translation or a correspondence broke and the sweep above found no failing input: widen the search, then report
        wide = scenarios(ctx, random.Random(ctx.seed + 99), list(range(4, 49)) + [66, 70, 90, 130], 2, ['b2b', 'upto3P'], full_bytes_ratio=[6])
        wide += history_scenarios(random.Random(ctx.seed + 77), [4, 6, 10, 16], 48)
        if not sweep(ctx, wide, 'C17_wide', ties, with_model=False): return
        if missing:
            ctx.violation({'what': 'translator rejected %s: %s' % (missing, {k: ctx.gen['errors'].get(k) for k in missing})}, found_input=False)
        elif not r['ok']:
            ctx.violation({'what': 'proof obligation no longer checks: %s in %s' % (r.get('lemma'), r.get('file')), 'theorem': r.get('lemma'), 'file': r.get('file'),
                           'coq_error': r.get('msg')}, found_input=False)
        else:
            ctx.violation(ties[0], found_input=False)
    ctx.assumptions += [
        'Model/Uart.v wraps the generated clock() functions in the kernel cycle semantics and models ClockGenerationAndRecovery by hand; both are compared with the real blocks cycle by cycle on every run',
        'UART wires are 1 bit wide, data wires 8 bits (as in HILWrapperUART.py); bit period P = 2*int(sysFreq/(2*uartFreq)) system clocks (ClockDivider truncates odd ratios)',
        'link_delivers / link_never_loses / link_delivers_always_ready are about Model/Uart.v link_step (generated FSM functions + hand-composed ClockGenerationAndRecovery) from power-up; the real link is compared with that model cycle by cycle on every run',
        'consumer pacing: a byte is guaranteed only if the consumer is ready at two edges before the next frame ends (known finding %s otherwise)' % KF]


def replay(rp):
    if 'bytes' not in rp or 'pacing' not in rp:
        print('replay: this file records a broken proof obligation / correspondence, not a link stimulus:')
        print({k: rp[k] for k in rp if k in ('what', 'theorem', 'file', 'coq_error', 'cycle', 'parameter', 'scenario')})
        return 0
    scen = {k: rp[k] for k in ('sys_f', 'uart_f', 'bytes', 'gaps', 'early', 'pacing', 'seed', 'tail', 'max_cycles', 'hist') if k in rp}
    scen['pacing'] = tuple(scen['pacing'])
    res = drive(scen)
    acc = [b for _, b in res['accepted']]; dlv = [b for _, b in res['delivered']]
    rx, errs = sw_receiver([o[0] for o in res['obs']], res['P'])
    print('replay C17: clocks/bit=%s P=%d pacing=%s' % (scen['sys_f'], res['P'], scen['pacing']))
    print('  offered   %s\n  accepted  %s\n  sw 8N1 rx %s framing errors %s\n  delivered %s' % (scen['bytes'], acc, [b for _, b in rx], errs[:3], dlv))
    bad = acc != scen['bytes'] or [b for _, b in rx] != acc or errs or dlv != acc
    print('  ->', 'DISAGREE with the specification' if bad else 'AGREE')
    return 1 if bad else 0
