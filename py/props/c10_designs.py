"""Random hierarchies with 1-4 extra ClockDrivers at random depths for the C10 check.
Deterministic in the seed (same call -> identical fresh design)."""
import random
from common import quiet, quiet_import
from props import c05_designs as D


def fam_hier(rng, domains=2):
    """a random tree of structural boxes (depth <= 4); `domains` of them carry their own ClockDriver (plain, or gated
    by a poked wire, by the output of a register INSIDE the gated subtree, by a register of another domain, or by
    an OR of an inside register and a poked wake-up wire); boxes below inherit.  Registers forming a ring with
    multiplexer / subtractor feedback, a memory and an AutoReset are dropped into random boxes."""
    py4hw = quiet_import()
    from py4hw.logic.clock import AutoReset
    hw = D.new_hw()
    late = rng.random() < .5        # history: the drivers are placed AFTER the hierarchy has been looked up / simulated once
    W = rng.randint(2, 6)
    din, sel = hw.wire('din', W), hw.wire('sel', 1)
    ins = [din, sel]
    # ---- boxes
    boxes = [hw]; depth = {id(hw): 0}
    for i in range(rng.randint(3, 8)):
        par = rng.choice([b for b in boxes if depth[id(b)] < 4])
        b = py4hw.Logic(par, 'bx%d' % i); boxes.append(b); depth[id(b)] = depth[id(par)] + 1
    # ---- registers (created later, once enables exist): decide their boxes now
    N = rng.randint(3, 8)
    q = [hw.wire('q%d' % i, W) for i in range(N)]
    home = [rng.choice(boxes) for _ in range(N)]
    def below(box, root):
        o = box
        while o is not None:
            if o is root: return True
            o = o.parent
        return False
    # ---- drivers
    doms = {}
    placements = []
    cand = [b for b in boxes if b is not hw]
    rng.shuffle(cand)
    recipe = []
    for k, bx in enumerate(cand[:domains]):
        kind = rng.choice(['plain', 'poked', 'poked', 'poked_wide', 'inside', 'inside_not', 'inside_not', 'inside_wide', 'inside_or_wake', 'other', 'other_wide'])
        inside = [i for i in range(N) if below(home[i], bx)]
        outside = [i for i in range(N) if not below(home[i], bx)]
        en = None
        if kind in ('inside_wide', 'other_wide') and (inside if kind == 'inside_wide' else outside):
            en = q[rng.choice(inside if kind == 'inside_wide' else outside)]        # a multi-bit enable: any non-zero value enables
        elif kind in ('poked_wide', 'inside_wide', 'other_wide'):
            en = hw.wire('gate%d' % k, rng.randint(2, 3)); ins.append(en); kind = 'poked_wide'
        elif kind == 'inside_not' and inside:
            src = q[rng.choice(inside)]                 # enabled until a register INSIDE the domain sets the bit: the domain stops itself
            b1, en = hw.wire('enb%d' % k, 1), hw.wire('en%d' % k, 1); i = rng.randrange(W)
            recipe.append(lambda src=src, i=i, b1=b1, k=k: py4hw.Bit(hw, 'enbit%d' % k, src, i, b1))
            recipe.append(lambda b1=b1, en=en, k=k: py4hw.Not(hw, 'ennot%d' % k, b1, en))
        elif kind == 'poked' or kind == 'inside_not' or (kind == 'inside' and not inside) or (kind == 'other' and not outside) or (kind == 'inside_or_wake' and not inside):
            if kind != 'plain':
                en = hw.wire('gate%d' % k, 1); ins.append(en); kind = 'poked'
        elif kind == 'inside' or kind == 'other':
            src = q[rng.choice(inside if kind == 'inside' else outside)]
            en = hw.wire('en%d' % k, 1); i = rng.randrange(W)
            recipe.append(lambda src=src, i=i, en=en, k=k: py4hw.Bit(hw, 'enbit%d' % k, src, i, en))
        elif kind == 'inside_or_wake':
            src = q[rng.choice(inside)]
            b1, wake, en = hw.wire('enb%d' % k, 1), hw.wire('gate%d' % k, 1), hw.wire('en%d' % k, 1)
            ins.append(wake); i = rng.randrange(W)
            recipe.append(lambda src=src, i=i, b1=b1, k=k: py4hw.Bit(hw, 'enbit%d' % k, src, i, b1))
            recipe.append(lambda b1=b1, wake=wake, en=en, k=k: py4hw.Or2(hw, 'enor%d' % k, b1, wake, en))
        drv = py4hw.ClockDriver(rng.choice(D.DRIVER_NAMES), base=hw.clockDriver, enable=en)
        placements.append((bx, drv))
        doms[bx.name] = (drv, en, kind)
    # ---- datapath
    d0, dm = hw.wire('d0', W), hw.wire('dm', W)
    recipe.append(lambda: py4hw.Mux2(hw, 'ring', sel, din, q[N - 1], d0))
    recipe.append(lambda: py4hw.Sub(hw, 'mix', q[0], q[N // 2], dm))
    for i in range(N):
        src = d0 if i == 0 else (dm if i == N // 2 + 1 and i < N else q[i - 1])
        rv = rng.choice([None, 0, 1, (1 << W) - 1, rng.randrange(1 << W)])
        recipe.append(lambda i=i, src=src, rv=rv: py4hw.Reg(home[i], 'r%d' % i, src, q[i], reset_value=rv))
    if rng.random() < .6:
        AW = rng.randint(1, 3)
        ra, wa, rdata = hw.wire('ra', AW), hw.wire('wa', AW), hw.wire('rdata', W)
        recipe.append(lambda: py4hw.Range(hw, 'ra', q[0], AW - 1, 0, ra) if W >= AW else py4hw.ZeroExtend(hw, 'ra', q[0], ra))
        recipe.append(lambda: py4hw.Range(hw, 'wa', q[1], AW - 1, 0, wa) if W >= AW else py4hw.ZeroExtend(hw, 'wa', q[1], wa))
        mb = rng.choice(boxes)
        recipe.append(lambda: py4hw.logic.storage.SynchronousMemory(mb, 'mem', ra, wa, sel, rdata, q[2]))
    if rng.random() < .5:
        ar = hw.wire('arst', 1); ab = rng.choice(boxes)
        recipe.append(lambda: AutoReset(ab, 'arst', ar))
    rng.shuffle(recipe)
    if not late:
        for bx, drv in placements: D.assign(bx, drv)
    for mk in recipe: mk()
    if late:
        # a first life in the system domain: simulator obtained, every object's driver looked up, a few edges run ...
        sim = hw.getSimulator()
        for o in boxes: py4hw.getObjectClockDriver(o)
        sim.clk(0)                  # (no edge: the Coq model of the design starts from power-up)
        # ... then the domains are configured (one of them twice: a driver is placed, looked up, and replaced)
        for j, (bx, drv) in enumerate(placements):
            if j == 0 and rng.random() < .5:
                D.assign(bx, py4hw.ClockDriver('tmp', base=hw.clockDriver)); hw.getSimulator()
            D.assign(bx, drv)
    return D.Built(hw, ins, {'family': 'hier', 'late_drivers': late, 'W': W, 'N': N, 'boxes': len(boxes), 'domains': domains,
                             'enables': {k: v[2] for k, v in doms.items()}}, {k: (v[0], v[1]) for k, v in doms.items()})


D.FAMILIES['hier'] = fam_hier


def random_tree(rng, with_top_driver=True, n_drivers=None):
    """a bare hierarchy for the lookup tie: returns (root, all objects in creation order, drivers list).
    Root is an HWSystem (default driver, possibly removed) or a plain Logic without any driver."""
    py4hw = quiet_import()
    from py4hw.logic.clock import AutoReset
    with quiet():
        if with_top_driver is None:
            root = py4hw.Logic(None, 'top')             # not an HWSystem: no driver at the top
        else:
            root = py4hw.HWSystem()
        objs = [root]; depth = {id(root): 0}
        for i in range(rng.randint(2, 14)):
            par = rng.choice([b for b in objs if depth[id(b)] < 5 and not getattr(b, '_leaf', False)])
            if rng.random() < .45:
                w = root.wire('w%d' % i, 1) if hasattr(root, 'wire') else None
                if rng.random() < .6 and w is not None:
                    o = AutoReset(par, 'leaf%d' % i, w); o._leaf = True           # clockable leaf
                else:
                    o = py4hw.Logic(par, 'leaf%d' % i); o._leaf = True            # childless non-clockable object
            else:
                o = py4hw.Logic(par, 'box%d' % i)
            objs.append(o); depth[id(o)] = depth[id(par)] + 1
        nd = rng.randint(0, 4) if n_drivers is None else n_drivers
        drivers = []
        if isinstance(root, py4hw.HWSystem):
            root._vf_driver = root.clockDriver
            drivers.append(root.clockDriver)
        targets = rng.sample(objs[1:], min(nd, len(objs) - 1))
        n_first = rng.randint(0, len(targets))
        def place(k, o):
            drv = py4hw.ClockDriver(rng.choice(D.DRIVER_NAMES), base=drivers[0] if drivers and rng.random() < .7 else None)
            D.assign(o, drv); drivers.append(drv)
        for k, o in enumerate(targets[:n_first]): place(k, o)
        # history: some lookups happen now (every object, or the simulator), the rest of the drivers is placed afterwards,
        # and one already placed driver may be taken away again
        hist = rng.choice(['none', 'lookups', 'simulator', 'both'])
        if hist in ('lookups', 'both'):
            for o in rng.sample(objs, len(objs)):
                try: py4hw.getObjectClockDriver(o)
                except Exception: pass
        if hist in ('simulator', 'both') and isinstance(root, py4hw.HWSystem):
            try: root.getSimulator()
            except Exception: pass
        for k, o in enumerate(targets[n_first:]): place(n_first + k, o)
        if n_first and hist != 'none' and rng.random() < .4:
            D.assign(targets[0], None)
    return root, objs, drivers
