"""C19 — Verilog generation is a pure, repeatable function of the circuit.
Proof : Properties/C19.v over the hand-written state machine Model/GenState.v (module-global one-entry wire-name cache,
        created_structures list objects, generator objects) and the cache-free reference generator Spec/C19.v.
Tie   : (a) AST scan: the state the real code keeps between calls is exactly the state the model has;
        (b) the model is run inside Coq on the same request histories as the real generator: answers (module names,
            header, declarations, instance connections), cache object + contents, created_structures, miss trace.
Oracle/search (same sweep): random request histories on the REAL generator — same or new generator objects, whole
        hierarchy or single module, sub-blocks, several circuits interleaved, clk() steps or circuit edits in between:
        every answer canon-equal to the same request on a new generator in a cleared process state and on a freshly
        built, never simulated copy; deep snapshot of every circuit identical before/after; simulation traces identical
        with and without generation; every cache hit equal to recomputation; module text of a block identical
        whatever object the request started from."""
import ast, os, random, re, json, sys
import common
from common import REPO, quiet
from props import c19_lib as L

EXPECTED_GLOBALS = {'wire_names_cache_obj', 'wire_names_cache'}
EXPECTED_SELF = {'obj', 'ast_tree', 'inlinablePrimitives', 'providingBody', 'created_structures'}


# ------------------------------------------------------------------ (a) the state the real code keeps
IMMUTABLE_CALLS = {'frozenset', 'tuple', 'int', 'str', 'float', 'bool', 'bytes', 'len', 'range'}


def immutable_expr(n):
    """the value can never change once bound: literals, names of classes / functions / constants, tuples and frozensets of such,
    arithmetic on such.  Lists, dicts, sets, comprehensions, calls that build objects are NOT."""
    if isinstance(n, ast.Constant) or isinstance(n, (ast.Name, ast.Attribute, ast.JoinedStr)):
        return True
    if isinstance(n, ast.Tuple):
        return all(immutable_expr(e) for e in n.elts)
    if isinstance(n, ast.UnaryOp):
        return immutable_expr(n.operand)
    if isinstance(n, ast.BinOp):
        return immutable_expr(n.left) and immutable_expr(n.right)
    if isinstance(n, ast.IfExp):
        return immutable_expr(n.body) and immutable_expr(n.orelse)
    if isinstance(n, ast.Call) and isinstance(n.func, ast.Name) and n.func.id in IMMUTABLE_CALLS and not n.keywords:
        return all(immutable_expr(x) or (isinstance(x, (ast.List, ast.Set, ast.Tuple)) and all(immutable_expr(e) for e in x.elts)) for x in n.args)
    return False


def scan_file(rel, allowed_globals=()):
    """process-lifetime MUTABLE state a source file can keep (a constant table is not state):
      * module-level names bound to something mutable, or re-bound later (`global` in a function, second module-level assignment),
        other than the ones the model has;
      * class attributes bound to something mutable, or re-bound through the class (`Cls.x = ...`, `type(self).x = ...`);
      * mutable default arguments."""
    bad = []
    try:
        tree = ast.parse(open(os.path.join(REPO, rel), encoding='utf-8').read())
    except OSError:
        return ['%s is missing' % rel]
    classes = {n.name for n in ast.walk(tree) if isinstance(n, ast.ClassDef)}
    rebound = set()
    for n in ast.walk(tree):
        if isinstance(n, ast.Global): rebound |= set(n.names)
    counts = {}
    for n in tree.body:
        if isinstance(n, (ast.Assign, ast.AnnAssign, ast.AugAssign)):
            for t in (n.targets if isinstance(n, ast.Assign) else [n.target]):
                for x in ast.walk(t):
                    if isinstance(x, ast.Name):
                        counts[x.id] = counts.get(x.id, 0) + (2 if isinstance(n, ast.AugAssign) else 1)
                        val = getattr(n, 'value', None)
                        if x.id not in allowed_globals and val is not None and not immutable_expr(val):
                            bad.append('module-level name bound to a mutable object in %s: %s' % (rel, ast.unparse(n)[:80]))
    for name in sorted(rebound | {k for k, c in counts.items() if c > 1}):
        if name not in allowed_globals:
            bad.append('module-level name %s of %s is re-bound at run time (global statement / assigned more than once)' % (name, rel))
    for cls in [n for n in ast.walk(tree) if isinstance(n, ast.ClassDef)]:
        for stmt in cls.body:
            if isinstance(stmt, (ast.Assign, ast.AnnAssign)) and getattr(stmt, 'value', None) is not None and not immutable_expr(stmt.value):
                bad.append('class attribute bound to a mutable object in %s: %s.%s' % (rel, cls.name, ast.unparse(stmt)[:60]))
    for n in ast.walk(tree):
        tg = n.targets if isinstance(n, ast.Assign) else [n.target] if isinstance(n, (ast.AugAssign, ast.AnnAssign)) else []
        for t in tg:
            for x in ast.walk(t):
                if isinstance(x, ast.Attribute) and isinstance(x.ctx, ast.Store):
                    v = x.value
                    through_class = (isinstance(v, ast.Name) and v.id in classes) or \
                                    (isinstance(v, ast.Call) and isinstance(v.func, ast.Name) and v.func.id == 'type') or \
                                    (isinstance(v, ast.Attribute) and v.attr == '__class__')
                    if through_class:
                        bad.append('class attribute re-bound at run time in %s: %s' % (rel, ast.unparse(n)[:80]))
    for fn in ast.walk(tree):
        if isinstance(fn, (ast.FunctionDef, ast.AsyncFunctionDef, ast.Lambda)):
            for d in fn.args.defaults + [k for k in fn.args.kw_defaults if k is not None]:
                if not immutable_expr(d):
                    bad.append('mutable default argument %s in %s of %s' % (ast.unparse(d)[:40], getattr(fn, 'name', 'lambda'), rel))
    return bad


def scan_state():
    """fail-closed on process-lifetime MUTABLE state only (constant tables are fine): rtl_generation.py may keep exactly the two
    cache globals of the model; VerilogGenerator exactly the attributes of the model; the transpiler and astutils nothing.
    The live containers are in addition watched at run time (ProcState)."""
    bad = scan_file('py4hw/rtl_generation.py', EXPECTED_GLOBALS)
    tree = ast.parse(open(os.path.join(REPO, 'py4hw', 'rtl_generation.py'), encoding='utf-8').read())
    glob = set()
    for n in ast.walk(tree):
        if isinstance(n, ast.Global): glob |= set(n.names)
    if glob != EXPECTED_GLOBALS:
        bad.append('rtl_generation.py re-binds the module-level names %s, the model has %s' % (sorted(glob), sorted(EXPECTED_GLOBALS)))
    selfattrs = set()
    for cls in [n for n in tree.body if isinstance(n, ast.ClassDef) and n.name == 'VerilogGenerator']:
        for fn in [m for m in cls.body if isinstance(m, ast.FunctionDef)]:
            for n in ast.walk(fn):
                tg = n.targets if isinstance(n, ast.Assign) else [n.target] if isinstance(n, (ast.AugAssign, ast.AnnAssign)) else []
                for t in tg:
                    for x in ast.walk(t):
                        if isinstance(x, ast.Attribute) and isinstance(x.value, ast.Name) and x.value.id == 'self' and isinstance(x.ctx, ast.Store):
                            selfattrs.add(x.attr)
    if selfattrs != EXPECTED_SELF:
        bad.append('VerilogGenerator keeps %s on self, the model has %s' % (sorted(selfattrs), sorted(EXPECTED_SELF)))
    bad += scan_file('py4hw/transpilation/python2verilog_transpilation.py')
    bad += scan_file('py4hw/transpilation/astutils.py')
    return bad


# ------------------------------------------------------------------ instrumented view of the real cache
class Probe:
    """wraps rtl_generation.getWireNames (module functions look it up by name at call time): logs hit/miss and
    checks every hit against recomputation.  Harness-side only; /repo is not touched."""
    def __init__(self, R):
        self.R, self.orig, self.log, self.bad = R, R.getWireNames, [], []

    def __enter__(self):
        self.R.getWireNames = self.wrapper
        return self

    def __exit__(self, *a):
        self.R.getWireNames = self.orig

    def wrapper(self, obj):
        R = self.R
        if obj is None:
            return self.orig(obj)
        hit = (obj == R.wire_names_cache_obj)
        self.log.append((id(obj), bool(hit)))
        ret = self.orig(obj)
        # whatever getWireNames returned (hit or miss) must be what a recomputation from an empty cache gives
        saved = (R.wire_names_cache_obj, R.wire_names_cache)
        R.wire_names_cache_obj = None; R.wire_names_cache = None
        try:
            fresh = self.orig(obj)
        finally:
            R.wire_names_cache_obj, R.wire_names_cache = saved
        if ret is None or [(id(k), v) for k, v in ret.items()] != [(id(k), v) for k, v in fresh.items()]:
            self.bad.append({'object': obj.getFullPath(), 'hit': bool(hit), 'returned': None if ret is None else sorted(ret.values())[:40],
                             'recomputed': sorted(fresh.values())[:40]})
        return ret


def call_request(gen, op, obj, cs):
    """returns ('ok', text) or ('exc', 'Type: message')"""
    try:
        with quiet():
            if op['op'] == 'getv':
                t = gen.getVerilog(obj, noInstanceNumber=op['noinst'], forceName=op['force'])
            else:
                if cs is None:        # as users call it: the DEFAULT of createdStructures is part of what is checked
                    t = gen.getVerilogForHierarchy(obj, noInstanceNumberInTopEntity=op['noinst'], forceName=op['force'])
                else:
                    t = gen.getVerilogForHierarchy(obj, noInstanceNumberInTopEntity=op['noinst'], forceName=op['force'], createdStructures=cs)
        return ('ok', t)
    except Exception as ex:           # the generator raises plain Exception / KeyError on ill-formed circuits
        return ('exc', '%s: %s' % (type(ex).__name__, re.sub(r'0x[0-9a-f]+', '0x', str(ex))[:200]))


def fresh_call(py4hw, R, root, op, obj, cs):
    """the same request on a new generator in a pristine process state: the cache globals and every process-lifetime container
    of the py4hw modules (default-argument objects, class attributes) reset to their content before the first generation;
    the history's state is put back afterwards"""
    with ProcState.pristine(R):
        with quiet():
            g2 = py4hw.VerilogGenerator(root)
        return call_request(g2, op, obj, cs)


class ProcState:
    """Every mutable container that lives as long as the process inside the py4hw modules: default-argument objects of functions
    and methods, class attributes, module-level containers.  Snapshot taken before this check generated anything; `pristine()`
    puts all of them (and the two cache globals of rtl_generation) back to that content for the duration of a reference request
    and restores the history's state afterwards; `leaks()` names the ones whose content is no longer the pristine one."""
    slots = None            # [(label, container, pristine shallow copy)]

    @classmethod
    def start(cls):
        if cls.slots is not None: return
        import types
        common.quiet_import()
        out, seen = [], set()
        def add(label, c):
            if isinstance(c, (list, dict, set)) and id(c) not in seen:
                seen.add(id(c)); out.append((label, c, type(c)(c)))
        def fn_slots(label, f):
            f = getattr(f, '__func__', f)
            if isinstance(f, types.FunctionType):
                for i, d in enumerate(f.__defaults__ or ()): add('%s default #%d' % (label, i), d)
                for k, d in (f.__kwdefaults__ or {}).items(): add('%s default %s' % (label, k), d)
        for mname, m in list(sys.modules.items()):
            if m is None or not (mname == 'py4hw' or mname.startswith('py4hw.')): continue
            for name, v in list(vars(m).items()):
                if isinstance(v, type) and getattr(v, '__module__', None) == mname:
                    for an, av in list(vars(v).items()):
                        if an.startswith('__') and an != '__init__': continue
                        add('%s.%s.%s' % (mname, name, an), av)
                        fn_slots('%s.%s.%s' % (mname, name, an), av)
                elif getattr(v, '__module__', None) == mname:
                    fn_slots('%s.%s' % (mname, name), v)
                elif not name.startswith('__'):
                    if isinstance(v, (list, dict, set)) and mname.startswith(('py4hw.rtl_generation', 'py4hw.transpilation')):
                        add('%s.%s' % (mname, name), v)
        cls.slots = out

    @staticmethod
    def _set(c, content):
        if isinstance(c, list): c[:] = content
        else:
            c.clear(); c.update(content)

    @classmethod
    def leaks(cls, only=('py4hw.rtl_generation', 'py4hw.transpilation')):
        return [label for label, c, p0 in (cls.slots or []) if label.startswith(only) and
                (len(c) != len(p0) or (isinstance(c, dict) and list(c.keys()) != list(p0.keys())) or (isinstance(c, list) and any(x is not y for x, y in zip(c, p0))))]

    class pristine:
        def __init__(self, R): self.R = R
        def __enter__(self):
            R = self.R
            self.saved = (R.wire_names_cache_obj, R.wire_names_cache)
            R.wire_names_cache_obj = None; R.wire_names_cache = None
            self.cur = [(c, type(c)(c)) for _, c, _ in (ProcState.slots or [])]
            for _, c, p0 in (ProcState.slots or []): ProcState._set(c, p0)
        def __exit__(self, *a):
            for c, cur in self.cur: ProcState._set(c, cur)
            self.R.wire_names_cache_obj, self.R.wire_names_cache = self.saved


class Pristine:
    """The same request as the FIRST request of a fresh process, on a circuit rebuilt from its recipe: the literal
    `on_fresh_generator` of Spec/C19.v.  A server process is forked before this check has generated anything (py4hw imported,
    nothing called); every job runs in a fork of that server and dies, so no job sees what another one — or the history of the
    main process — left in module globals, class attributes, default arguments or caches of any kind."""
    jobs = results = None
    pid = None
    budget = 0              # forking the imported interpreter costs ~0.5 s: the jobs of a run are rationed

    @classmethod
    def start(cls):
        if cls.pid is not None:
            return
        import pickle, atexit
        common.quiet_import(); L.user_classes()
        rj, wj = os.pipe(); rr, wr = os.pipe()
        pid = os.fork()
        if pid == 0:
            os.close(wj); os.close(rr)
            import gc
            gc.collect(); gc.freeze(); gc.disable()      # children must not walk (and thereby copy) the whole imported heap
            fin, fout = os.fdopen(rj, 'rb'), os.fdopen(wr, 'wb')
            try:
                while True:
                    try:
                        job = pickle.load(fin)
                    except EOFError:
                        break
                    cr, cw = os.pipe()
                    cpid = os.fork()
                    if cpid == 0:
                        os.close(cr)
                        try:
                            out = cls.run_job(job)
                        except BaseException as ex:
                            out = ('harness', '%s: %s' % (type(ex).__name__, str(ex)[:300]))
                        with os.fdopen(cw, 'wb') as f:
                            pickle.dump(out, f)
                        os._exit(0)
                    os.close(cw)
                    with os.fdopen(cr, 'rb') as f:
                        try:
                            out = pickle.load(f)
                        except EOFError:
                            out = ('harness', 'the job process died')
                    os.waitpid(cpid, 0)
                    pickle.dump(out, fout); fout.flush()
            finally:
                os._exit(0)
        os.close(rj); os.close(wr)
        cls.pid, cls.jobs, cls.results = pid, os.fdopen(wj, 'wb'), os.fdopen(rr, 'rb')
        atexit.register(cls.stop)

    @classmethod
    def stop(cls):
        if cls.pid is None: return
        try:
            cls.jobs.close(); cls.results.close()
            os.waitpid(cls.pid, 0)
        except Exception:
            pass
        cls.pid = None

    @classmethod
    def ask(cls, job):
        import pickle
        pickle.dump(job, cls.jobs); cls.jobs.flush()
        return pickle.load(cls.results)

    @staticmethod
    def run_job(job):
        py4hw = common.quiet_import()
        import py4hw.rtl_generation as R
        c = L.build(job['family'], job['seed'])
        for _ in range(job['edits']):
            L.apply_edit(c)
        objs = c.objs()
        with quiet():
            g = py4hw.VerilogGenerator(objs[job['root']])
        cs = None
        if job['pre'] is not None:
            cs = [R.getVerilogModuleName(objs[x[1]]) if x[0] == 'path' else x[1] for x in job['pre']]
        r = call_request(g, job['op'], None if job['path'] is None else objs[job['path']], cs)
        return (r[0], L.canon(r[1]) if r[0] == 'ok' else r[1])


def same(a, b):
    if a[0] != b[0]: return False
    return L.canon(a[1]) == L.canon(b[1]) if a[0] == 'ok' else a[1] == b[1]


def first_diff(a, b):
    la, lb = L.canon(a).split('\n'), L.canon(b).split('\n')
    for i in range(max(len(la), len(lb))):
        x = la[i] if i < len(la) else '<end>'
        y = lb[i] if i < len(lb) else '<end>'
        if x != y: return {'line': i, 'got': x[:160], 'expected': y[:160]}
    return None


def modules_of(text):
    out = []
    for part in text.split(L.HEADER)[1:]:
        m = re.match(r'module (\S+)', part)
        if m: out.append((m.group(1), part.rstrip('\n')))
    return out


# ------------------------------------------------------------------ one history
class History:
    def __init__(self, ctx, seed, mode, n_ops, tie):
        self.ctx, self.seed, self.mode, self.n_ops, self.tie = ctx, seed, mode, n_ops, tie
        self.rng = random.Random(seed)
        self.py4hw = common.quiet_import()
        import py4hw.rtl_generation as R
        self.R = R
        self.ops = []                 # executed operations (replay / evidence)
        self.pending = []
        self.fail = None

    def violation(self, what, extra, found_input=True):
        if self.fail: return
        self.fail = what
        rp = {'what': what, 'history_seed': self.seed, 'mode': self.mode, 'n_ops': self.n_ops, 'tie': self.tie,
              'circuits': [(c.family, c.seed) for c in self.A], 'failing_op_index': len(self.ops) - 1,
              'ops': self.ops[-40:], 'replay_hint': './check --replay <this file> re-runs History(seed, mode, n_ops)'}
        rp.update(extra)
        self.ctx.violation(rp, found_input=found_input)

    # ---- naming of module strings for the model
    def name_term(self, s):
        if s in self.inst_names:
            ty, i = self.inst_names[s]
            return '(%d, Some %d)' % (self.tk(ty), i)
        return '(%d, None)' % self.tk(s)

    def refresh_names(self):
        self.inst_names = {}
        for c in self.A:
            for o in c.objs().values():
                if not self.py4hw.base.has_method(o, 'structureName'):
                    self.inst_names[self.R.getVerilogModuleName(o)] = (type(o).__name__, id(o))

    def run(self):
        rng, py4hw, R, ctx = self.rng, self.py4hw, self.R, self.ctx
        fams = [rng.choice(L.FAMILIES) for _ in range(rng.randint(1, 3))]
        if self.mode == 'exc': fams[0] = 'bad'
        elif self.seed % 3 == 0: fams[0] = 'clk2'          # every third history has a circuit with several clock domains
        elif self.seed % 3 == 1: fams[0] = 'param'         # ... and every third a parameterised hierarchy with bound parameters
        elif self.seed % 6 == 2: fams[0] = 'inout'         # ... and every sixth blocks with inout ports on bidirectional nets
        cseeds = [rng.randrange(10 ** 6) for _ in fams]
        self.A = [L.build(f, s) for f, s in zip(fams, cseeds)]        # the circuits of the history
        self.B = [L.build(f, s) for f, s in zip(fams, cseeds)]        # pristine copies: never simulated, never asked before
        self.C = [L.build(f, s) for f, s in zip(fams, cseeds)] if self.mode == 'sim' else None   # simulated only
        A, B, C = self.A, self.B, self.C
        self.tk = L.Interner()
        gens, lists = [], []          # (generator, circuit index, root path, model handle) ; (list object, initial contents, handle, uses)
        heap_len = 0
        reqs, expect = [], []         # model requests; per request what the real generator did
        modtext = [dict() for _ in A]
        self.refresh_names()
        tie = self.tie and 'bad' not in fams
        env0 = None
        if tie:
            try:
                with quiet():
                    g0 = py4hw.VerilogGenerator(A[0].hw)
                    env0 = [L.dump_node(g0, R, c.hw, self.tk) for c in A]
            except L.NotDumpable:
                tie = False
        for step in range(self.n_ops):
            if self.fail: break
            kinds = ['newgen'] if not gens else (
                ['newgen'] * 2 + ['getv'] * 5 + ['geth'] * 6 + ['geth_cs'] * 2 + ['geth_shared'] * (1 if lists else 0) +
                (['clk'] * 4 if self.mode == 'sim' else []) + (['edit'] * 3 if self.mode == 'edit' else []))
            kind = rng.choice(kinds)
            forced_path = None
            if self.pending:
                kind, forced_path = self.pending.pop(0)
            elif kind == 'edit' and rng.random() < .7:
                # directed: ask for an object, edit it, ask again (what the clearing at the entry points is for)
                ci_ = rng.randrange(len(A))
                pth = L.edit_target(A[ci_])
                gsame = [k for k, gg in enumerate(gens) if gg[1] == ci_]
                if gsame:
                    k1, k2 = rng.choice(['getv', 'geth']), rng.choice(['getv', 'geth'])
                    gsel = rng.choice(gsame)
                    self.pending = [('edit', (ci_, None)), (k2, (gsel, pth))]
                    kind, forced_path = k1, (gsel, pth)
            if kind == 'newgen':
                ci = rng.randrange(len(A)); objs = A[ci].objs()
                path = '' if rng.random() < .6 else rng.choice(list(objs))
                with quiet():
                    g = py4hw.VerilogGenerator(objs[path])
                gens.append([g, ci, path, heap_len]); heap_len += 1
                reqs.append('RNewGen %d %d' % (ci, id(objs[path]))); expect.append(None)
                self.ops.append({'op': 'newgen', 'circuit': ci, 'root': path}); continue
            if kind == 'clk':
                ci = rng.randrange(len(A)); n = rng.randint(1, 3)
                pokes = [rng.randrange(1 << w.getWidth()) for w in A[ci].ins]
                self.ops.append({'op': 'clk', 'circuit': ci, 'n': n, 'pokes': pokes})
                vals = []
                for circ in (A[ci], C[ci]):
                    with quiet():
                        sim = circ.hw.getSimulator()
                        for w, v in zip(circ.ins, pokes): w.put(v)
                        sim.clk(n)
                    vals.append(L.wire_values(circ.hw))
                ctx.count(('clk', fams[ci], cseeds[ci]), nontrivial=False)
                if vals[0] != vals[1]:
                    k = [i for i, (x, y) in enumerate(zip(*vals)) if x != y][0]
                    import netlist
                    self.violation('simulation differs between a circuit with interleaved Verilog generation and an identical circuit without',
                                   {'wire': netlist.all_wires(A[ci].hw)[k].getFullPath(), 'with_generation': vals[0][k], 'without': vals[1][k]})
                continue
            if kind == 'edit':
                ci = forced_path[0] if forced_path else rng.randrange(len(A))
                p = L.apply_edit(A[ci]); L.apply_edit(B[ci])
                modtext[ci] = {}
                self.refresh_names()
                self.ops.append({'op': 'edit', 'circuit': ci, 'parent': p})
                if tie:
                    try:
                        with quiet():
                            reqs.append('REdit %d (%s)' % (ci, L.dump_node(gens[0][0], R, A[ci].hw, self.tk))); expect.append(None)
                    except L.NotDumpable:
                        tie = False
                continue
            # ---- a generation request
            gi = forced_path[0] if forced_path else rng.randrange(len(gens)); g, ci, rootpath, _ = gens[gi]
            objs = A[ci].objs()
            r = rng.random()
            if forced_path: path = forced_path[1]
            elif r < .35: path = None
            else:
                pool = [p for p, o in objs.items() if not g.isInlinable(o)] if rng.random() < .85 else list(objs)
                path = rng.choice(pool)
            op = {'op': 'getv' if kind == 'getv' else 'geth', 'gen': gi, 'circuit': ci, 'obj': path,
                  'noinst': rng.random() < .5, 'force': 'Forced_top' if rng.random() < .08 else None, 'cs': None}
            obj = None if path is None else objs[path]
            target = objs[rootpath] if path is None else obj
            cs = None; shared_entry = None
            if kind == 'geth_cs':
                names = sorted(set(R.getVerilogModuleName(o) for o in objs.values() if not g.isInlinable(o)))
                init = [n for n in names if rng.random() < .25][:4]
                cs = list(init); entry = [cs, list(init), heap_len, 0]; lists.append(entry); heap_len += 1
                reqs.append('RNewList [%s]' % '; '.join(self.name_term(n) for n in init)); expect.append(None)
                op['cs'] = {'handle': entry[2], 'contents': list(init)}; shared_entry = entry
            elif kind == 'geth_shared':
                entry = rng.choice(lists); cs = entry[0]; shared_entry = entry
                op['cs'] = {'handle': entry[2], 'contents': list(cs), 'used_before': entry[3]}
            self.ops.append(op)
            pre = None if cs is None else list(cs)
            before = [L.snapshot(c.hw) for c in A]
            with Probe(R) as pr:
                res = call_request(g, op, obj, cs)
            after = [L.snapshot(c.hw) for c in A]
            real_cache = (-1, []) if R.wire_names_cache_obj is None else (
                id(R.wire_names_cache_obj), [(id(k), v) for k, v in (R.wire_names_cache or {}).items()])
            real_created = list(g.created_structures) if isinstance(g.created_structures, list) else None
            ctx.count(('req', op['op'], fams[ci], path is None, op['noinst'], op['force'] is None, cs is not None,
                       type(target).__name__), nontrivial=(res[0] == 'ok' and len(res[1]) > 0))
            # purity
            for i, (x, y) in enumerate(zip(before, after)):
                if x != y:
                    self.violation('Verilog generation modified a circuit', {'modified_circuit': i, 'diff': L.snap_diff(x, y)}); break
            if self.fail: break
            if pr.bad:
                self.violation('getWireNames returned something else than recomputation from an empty cache', {'call': pr.bad[0]}); break
            # oracle 0 (needs no second generation, hence independent of any process-wide state): the modules DEFINED in the
            # answer are exactly those of the walk: the requested block, then its non-inlinable descendants in pre-order,
            # each module name once, minus the names the caller's list already holds
            if res[0] == 'ok':
                exp_names = self.skeleton(g, target, op, pre)
                got_names = [n for n, _ in modules_of(res[1])]
                if exp_names is not None and got_names != exp_names:
                    missing = [n for n in exp_names if n not in got_names]
                    extra = [n for n in got_names if n not in exp_names]
                    self.violation('the answer does not define the modules of the requested block and its sub-blocks (it depends on earlier requests)',
                                   {'object': target.getFullPath(), 'missing_modules': missing[:12], 'unexpected_modules': extra[:12],
                                    'defined': got_names[:20], 'expected': exp_names[:20], 'text_length': len(res[1])}); break
            attrs = set(vars(g).keys())
            if attrs != EXPECTED_SELF:
                self.violation('the generator object carries state the model does not have', {'attributes': sorted(attrs)}, found_input=False); break
            # oracle 1: new generator, cleared process state, same circuit, list with the same contents
            res2 = fresh_call(py4hw, R, objs[rootpath], op, obj, None if pre is None else list(pre))
            if not same(res, res2):
                self.violation('the answer differs from the same request on a new generator in a cleared process state',
                               {'got': res[1][:300] if res[0] == 'exc' else None, 'expected': res2[1][:300] if res2[0] == 'exc' else None,
                                'first_difference': first_diff(res[1], res2[1]) if res[0] == res2[0] == 'ok' else None,
                                'object': target.getFullPath()}); break
            # oracle 1b: the same explicit object asked from generators built on OTHER roots (the block itself, the top):
            # the generator's own object is only the default argument, it must not enter the text
            for other_root in ([target] if target is not objs[rootpath] else []) + ([objs['']] if objs[''] is not objs[rootpath] else []):
                res5 = fresh_call(py4hw, R, other_root, op, target, None if pre is None else list(pre))
                if not same(res, res5):
                    self.violation('the answer for a block depends on the object the generator was built on',
                                   {'object': target.getFullPath(), 'generator_root': objs[rootpath].getFullPath(), 'other_root': other_root.getFullPath(),
                                    'got': res[1][:300] if res[0] == 'exc' else None, 'expected': res5[1][:300] if res5[0] == 'exc' else None,
                                    'first_difference': first_diff(res[1], res5[1]) if res[0] == res5[0] == 'ok' else None}); break
            if self.fail: break
            # oracle 2: the request as the FIRST request of a fresh process, on the circuit rebuilt from its recipe
            transpiled = res[0] == 'ok' and '// Code generated from' in res[1]
            if Pristine.pid is not None and Pristine.budget > 0 and rng.random() < (.6 if transpiled else .04):
                Pristine.budget -= 1
                names = {R.getVerilogModuleName(o): pth for pth, o in objs.items()}
                job = {'family': fams[ci], 'seed': cseeds[ci], 'edits': A[ci].edits, 'root': rootpath, 'path': path,
                       'op': {k_: op[k_] for k_ in ('op', 'noinst', 'force')},
                       'pre': None if pre is None else [('path', names[n_]) if n_ in self.inst_names and n_ in names else ('name', n_) for n_ in pre]}
                res6 = Pristine.ask(job)
                if res6[0] == 'harness':
                    raise RuntimeError('pristine-process oracle failed: ' + res6[1])
                mine = (res[0], L.canon(res[1]) if res[0] == 'ok' else res[1])
                if mine != tuple(res6):
                    self.violation('the answer differs from the same request made as the first request of a fresh process on the rebuilt circuit',
                                   {'object': target.getFullPath(), 'got': res[1][:300] if res[0] == 'exc' else None,
                                    'expected': res6[1][:300] if res6[0] == 'exc' else None,
                                    'first_difference': first_diff(res[1], res6[1]) if res[0] == res6[0] == 'ok' else None}); break
            # oracle 2b: freshly built, never simulated copy in this process, pristine process state
            objsB = B[ci].objs()
            res3 = fresh_call(py4hw, R, objsB[rootpath], op, None if path is None else objsB[path],
                              None if pre is None else self.rename_list(pre, A[ci], B[ci]))
            if not same(res, res3):
                self.violation('the answer differs from the same request on a freshly built copy of the circuit',
                               {'got': res[1][:300] if res[0] == 'exc' else None, 'expected': res3[1][:300] if res3[0] == 'exc' else None,
                                'first_difference': first_diff(res[1], res3[1]) if res[0] == res3[0] == 'ok' else None,
                                'object': target.getFullPath()}); break
            # oracle 3: a hierarchy answer is the composition of single-module answers over the walk (C19_chunks_local)
            if op['op'] == 'geth' and res[0] == 'ok' and rng.random() < (.4 if self.ctx.quick else .25):
                exp = self.compose(g, target, op, pre)
                if exp is not None:
                    got = [b for b in (x.rstrip('\n') for x in res[1].split(L.HEADER)) if b]
                    if [L.canon(x) for x in got] != [L.canon(x) for x in exp]:
                        k = [i for i in range(max(len(got), len(exp))) if i >= len(got) or i >= len(exp) or L.canon(got[i]) != L.canon(exp[i])][0]
                        self.violation('a hierarchy answer is not the composition of the single-module answers of the blocks it walks',
                                       {'object': target.getFullPath(), 'module_index': k,
                                        'got': (got[k] if k < len(got) else '<missing>')[:400], 'expected': (exp[k] if k < len(exp) else '<missing>')[:400]}); break
            # createdStructures passed again: known finding F1
            if shared_entry is not None:
                shared_entry[3] += 1
                if shared_entry[3] > 1:
                    res4 = fresh_call(py4hw, R, objs[rootpath], op, obj, list(shared_entry[1]))
                    if not same(res, res4):
                        self.finding_f1(op, res, res4)
            # scope: the module text of a block does not depend on where the request started
            if res[0] == 'ok':
                self.scope_check(ci, modtext[ci], res[1], op)
            if self.fail: break
            # bookkeeping for the model
            if op['op'] == 'getv' or cs is None:
                handle = heap_len; heap_len += 1
            else:
                handle = shared_entry[2]
            gens[gi][3] = handle
            oid = 'None' if path is None else 'Some %d' % id(obj)
            force = 'None' if op['force'] is None else 'Some %s' % self.name_term(op['force'])
            if op['op'] == 'getv':
                reqs.append('RGetVerilog %d (%s) %s (%s)' % (gi, oid, common.blit(op['noinst']), force))
            else:
                reqs.append('RGetHier %d (%s) %s (%s) (%s)' % (gi, oid, common.blit(op['noinst']), force,
                                                                'None' if cs is None else 'Some %d%%nat' % handle))
            expect.append({'res': res, 'cache': real_cache, 'created': real_created, 'handle': handle,
                           'misses': [o for o, h in pr.log if not h], 'op_index': len(self.ops) - 1})
        if tie and not self.fail and env0 is not None:
            return {'env': env0, 'reqs': reqs, 'expect': expect, 'strs': self.tk.strs, 'hist': self}
        return None

    def skeleton(self, g, target, op, pre):
        """names of the modules a request must define, in order (module naming and the walk only; no generation)"""
        R = self.R
        created, out = list(pre or []), []
        def inline_top(o):
            return o.isPropagatable() and not g.isProvidingBody(o) and g.isInlinable(o)
        def walk(o, top):
            noinst = op['noinst'] if top else False
            force = op['force'] if top else None
            name = force if force is not None else R.getVerilogModuleName(o, noInstanceNumber=noinst)
            if name not in created and not inline_top(o):
                out.append(name); created.append(name)
            if op['op'] == 'geth':
                for ch in o.children.values():
                    if not g.isInlinable(ch): walk(ch, False)
        try:
            walk(target, True)
        except Exception:
            return None
        return out

    def compose(self, g, target, op, pre):
        """expected modules of getVerilogForHierarchy(target): pre-order walk over non-inlinable children, one getVerilog per
        block on a new generator, a module name only once (names already in the createdStructures list are skipped)"""
        py4hw, R = self.py4hw, self.R
        created, out = list(pre or []), []
        def walk(o, top):
            noinst = op['noinst'] if top else False
            force = op['force'] if top else None
            name = force if force is not None else R.getVerilogModuleName(o, noInstanceNumber=noinst)
            if name not in created:
                r = fresh_call(py4hw, R, o, {'op': 'getv', 'noinst': noinst, 'force': force}, o, None)
                if r[0] != 'ok': raise L.NotDumpable(r[1])
                for b in (x.rstrip('\n') for x in r[1].split(L.HEADER)):
                    if b: out.append(b)
                if not r[1].startswith('// WARNING: inlined out of scope'):
                    created.append(name)
            for ch in o.children.values():
                if not g.isInlinable(ch): walk(ch, False)
        try:
            walk(target, True)
        except L.NotDumpable:
            return None
        return out

    def rename_list(self, names, ca, cb):
        """instance-unique names of circuit A in a createdStructures list -> the names of the same objects in copy B"""
        R = self.R
        oa, ob = ca.objs(), cb.objs()
        m = {R.getVerilogModuleName(o): R.getVerilogModuleName(ob[p]) for p, o in oa.items()}
        return [m.get(n, n) for n in names]

    def finding_f1(self, op, res, res4):
        fid = 'C19-F1'
        k = [f for f in self.ctx.known if f['id'] == fid and f.get('status') == 'known']
        w = k[0]['witness'] if k else {}
        if k and op['op'] == 'geth' and op['cs'] and op['cs'].get('used_before', 0) >= 1:
            self.ctx.known_finding(fid, 'createdStructures list object passed to a second getVerilogForHierarchy: the generator kept the '
                                        'reference and appended to it, modules already named in it are omitted (%d vs %d characters)' % (
                                            len(res[1]) if res[0] == 'ok' else -1, len(res4[1]) if res4[0] == 'ok' else -1))
        else:
            self.violation('a request that passes a createdStructures list answers differently from a new generator given the list\'s original contents',
                           {'first_difference': first_diff(res[1], res4[1]) if res[0] == res4[0] == 'ok' else None})

    def scope_check(self, ci, seen, text, op):
        R = self.R
        circ = self.A[ci]
        objs = circ.objs()
        shared = {}
        for o in objs.values():
            if self.py4hw.base.has_method(o, 'structureName'):
                shared.setdefault(o.structureName(), []).append(o)
        for pos, (name, body) in enumerate(modules_of(text)):
            unique = name in self.inst_names
            if not unique and name not in shared: continue          # top entity without instance number, forced name
            if op['force'] is not None and pos == 0: continue
            if not unique and pos == 0 and op['noinst'] and op['obj'] is not None and type(objs[op['obj']]).__name__ == name: continue
            if name in seen and seen[name][0] != body:
                if L.canon(seen[name][0]) == L.canon(body):
                    continue
                info = {'module': name, 'first_seen_in_op': seen[name][1], 'first_difference': first_diff(body, seen[name][0])}
                aliased = [o.getFullPath() for o in shared.get(name, [])
                           if len(set(id(p.wire) for p in o.inPorts + o.outPorts + o.inOutPorts)) < len(o.inPorts + o.outPorts + o.inOutPorts)]
                k = [f for f in self.ctx.known if f['id'] == 'C19-F2' and f.get('status') == 'known']
                if k and not unique and aliased and len(shared[name]) > 1:
                    self.ctx.known_finding('C19-F2', 'module %s (named by structureName(), shared by %d instances) has a different text depending on the object '
                                                     'the request starts from: instance %s has two ports on one wire and the port-name map of getWireNames keeps the last' % (
                                                         name, len(shared[name]), aliased[0]))
                else:
                    self.violation('the module text of a block depends on the object the request started from', info)
                    return
            seen.setdefault(name, (body, len(self.ops) - 1))


# ------------------------------------------------------------------ (b) model vs real generator, inside Coq
def render_v(strs, v):
    k, t = v
    return 'KeyError' if k < 0 else ['', 'w_', 'reserved_'][k] + strs[t]


def render_s(strs, s):
    t, i = s
    return strs[t] + ('' if i < 0 else '_' + hex(i)[2:])


def compare_with_model(ctx, batch):
    """batch: list of history records.  Returns list of (history, message, detail) mismatches."""
    items = []
    for k, h in enumerate(batch):
        env = '[%s]' % '; '.join(h['env'])
        rq = '[%s]' % '; '.join(h['reqs'])
        items.append(('m%d' % k, 'trace (init %s) %s' % (env, rq)))
        items.append(('r%d' % k, 'ref_trace (init %s) %s' % (env, rq)))
    res = common.coq_eval('C19_model', L.FLAT_PRELUDE, items, timeout=900)
    out = []
    for k, h in enumerate(batch):
        strs = h['strs']
        tr, rf = res['m%d' % k], res['r%d' % k]
        heap_map = {}
        for j, (row, exp) in enumerate(zip(tr, h['expect'])):
            ans, cache, heap, log = (row[0], row[1]), row[2], row[3], row[4]      # Coq prints ((a, b), c, d, e) flat
            if exp is None: continue
            where = {'request_index': j, 'request': h['reqs'][j][:200], 'op_index': exp['op_index']}
            if tuple(rf[j]) != ans:
                out.append((h, 'model answer differs from the reference answer (a theorem says they agree: harness bug?)', where)); break
            if exp['res'][0] != 'ok' or ans[0] != 1:
                out.append((h, 'real generator raised / model gave no answer', dict(where, real=exp['res'][1][:200]))); break
            real = L.parse_text(exp['res'][1])
            model = ans[1]
            msg = None
            if len(real) != len(model):
                msg = 'number of modules: real %d, model %d' % (len(real), len(model))
            else:
                for rc, mc in zip(real, model):
                    tag, name, clk, ports, decls, body = mc
                    if tag == 1:
                        if rc['kind'] != 'inline_top': msg = 'model: inlined out of scope, real: %s' % rc['kind']
                        elif not set(render_v(strs, v) for v in ports) <= rc['idents']:
                            msg = 'inlined-out-of-scope names: model %s, real text has %s' % ([render_v(strs, v) for v in ports], sorted(rc['idents']))
                        if msg: break
                        continue
                    if rc['kind'] != 'module': msg = 'model: module %s, real: %s' % (render_s(strs, name), rc['kind']); break
                    if rc['name'] != render_s(strs, name): msg = 'module name: real %s, model %s' % (rc['name'], render_s(strs, name)); break
                    hdr = ([strs[clk]] if clk >= 0 else []) + [render_v(strs, v) for v in ports]
                    rhdr = rc['header']
                    if rhdr != hdr: msg = 'header of %s: real %s, model %s' % (rc['name'], rhdr, hdr); break
                    if sorted(rc['decls']) != sorted(render_v(strs, v) for v in decls):
                        msg = 'declarations of %s: real %s, model %s' % (rc['name'], sorted(rc['decls']), sorted(render_v(strs, v) for v in decls)); break
                    minst = [(render_s(strs, it[1]), strs[it[2]], [(render_v(strs, (c[0], c[1])), render_v(strs, c[2])) for c in it[4]]) for it in body if it[0] == 1]      # ((a, b), (c, d)) prints (a, b, (c, d))
                    rinst = []
                    for idx, (m_, n_, cs) in enumerate(rc['insts']):
                        if idx < len(minst) and len(cs) == len(minst[idx][2]) + 1: cs = cs[1:]      # implicit clock connection
                        rinst.append((m_, n_, cs))
                    if rinst != minst and not (len(body) == 1 and body[0][0] == 2):
                        msg = 'instances of %s: real %s, model %s' % (rc['name'], rinst[:6], minst[:6]); break
                    inl = set(render_v(strs, v) for it in body if it[0] == 0 for v in it[3])
                    if not inl <= rc['idents']:
                        msg = 'names used by inlined primitives of %s: model %s not all in the real text' % (rc['name'], sorted(inl - rc['idents'])); break
            if msg is None and (cache[0], [(w, render_v(strs, v)) for w, v in cache[1]]) != exp['cache']:
                msg = 'wire-name cache after the request: real (obj %x, %d entries) model (obj %x, %d entries)' % (
                    exp['cache'][0] & (2 ** 64 - 1), len(exp['cache'][1]), cache[0] & (2 ** 64 - 1), len(cache[1]))
            if msg is None:
                mcreated = [render_s(strs, s) for s in heap[exp['handle']]] if exp['handle'] < len(heap) else None
                if mcreated != exp['created']:
                    msg = 'created_structures: real %s, model %s' % (exp['created'], mcreated)
            if msg is None:
                prev = heap_map.get('log', 0)
                if log[prev:] != exp['misses']:
                    msg = 'objects whose names were recomputed (cache misses): real %s, model %s' % (exp['misses'], log[prev:])
            heap_map['log'] = len(log)
            ctx.count(('tie', j), nontrivial=False)
            if msg:
                out.append((h, msg, where)); break
    return out


def canon_crosscheck(ctx, texts):
    """Python canon == Coq canon (Spec/C19.v, vm_compute) on real texts (strings as code lists)"""
    items = [('c%d' % i, 'canon %s' % L.coq_lines(t)) for i, t in enumerate(texts)]
    res = common.coq_eval('C19_canon', 'From Coq Require Import ZArith List.\nFrom V Require Import Spec.C19.\nImport ListNotations.\nOpen Scope Z_scope.\n', items, timeout=600)
    for i, t in enumerate(texts):
        got = L.from_coq_lines(res['c%d' % i])
        if got != L.canon(t):
            return {'text': t[:400], 'coq': got[:400], 'python': L.canon(t)[:400]}
        ctx.count(('canon', i), nontrivial=False)
    return None


# ------------------------------------------------------------------ fixed scenarios
def fixed_scenarios(ctx):
    """the two refuted clauses on the real generator (KNOWN-FINDING when they reproduce, nothing when fixed)"""
    py4hw = common.quiet_import()
    import py4hw.rtl_generation as R
    U = L.user_classes()
    # F1: the witness of C19_shared_list_refuted
    try:
        with quiet():
            c = L.build('lib', 5)
            g = py4hw.VerilogGenerator(c.hw); lst = []
            t1 = g.getVerilogForHierarchy(createdStructures=lst)
            t2 = g.getVerilogForHierarchy(createdStructures=lst)
    except Exception as ex:
        ctx.violation({'what': 'getVerilogForHierarchy raised %s: %s on a legal circuit' % (type(ex).__name__, str(ex)[:200]), 'circuit': ('lib', 5),
                       'request': 'VerilogGenerator(hw).getVerilogForHierarchy(createdStructures=[])'})
        return []
    ctx.count(('fixed', 'F1'))
    k = {f['id']: f for f in ctx.known if f.get('status') == 'known'}
    if L.canon(t1) != L.canon(t2):
        if 'C19-F1' in k and t2 == '':
            ctx.known_finding('C19-F1', 'createdStructures list object passed to a second getVerilogForHierarchy: the generator kept the reference '
                                        'and appended to it, second text is empty (%d vs 0 characters)' % len(t1))
        else:
            ctx.violation({'what': 'two identical getVerilogForHierarchy(createdStructures=lst) calls give different texts', 'circuit': ('lib', 5),
                           'first_len': len(t1), 'second_len': len(t2)})
    # default-argument form of the same defect in the platform classes (build(self, projectDir, createdStructures=[]))
    shared_defaults = []
    for rel in ('py4hw/external/platforms/intel.py', 'py4hw/external/platforms/terasic.py'):
        try:
            tree = ast.parse(open(os.path.join(REPO, rel), encoding='utf-8').read())
        except Exception:
            continue
        for fn in [n for n in ast.walk(tree) if isinstance(n, ast.FunctionDef) and n.name == 'build']:
            for a, d in zip(fn.args.args[-len(fn.args.defaults):], fn.args.defaults):
                if a.arg == 'createdStructures' and isinstance(d, ast.List):
                    shared_defaults.append('%s:%d' % (rel, fn.lineno))
    ctx.notes['createdStructures_mutable_default'] = shared_defaults
    # F2: the witness of C19_scope_shared_name_refuted
    try:
        with quiet():
            hw = py4hw.HWSystem()
            x = hw.wire('x', 8); y = hw.wire('y', 8); z = hw.wire('z', 8); r1 = hw.wire('r1', 8); r2 = hw.wire('r2', 8); l = hw.wire('l')
            py4hw.Add(hw, 'u1', x, x, r1)
            bx = U['Box2'](hw, 'bx', y, z, r2, l)
            g = py4hw.VerilogGenerator(hw)
            ta = dict(modules_of(g.getVerilogForHierarchy()))
            tb = dict(modules_of(g.getVerilogForHierarchy(bx)))
    except Exception as ex:
        ctx.violation({'what': 'getVerilogForHierarchy raised %s: %s on a legal circuit' % (type(ex).__name__, str(ex)[:200]),
                       'circuit': 'HWSystem{u1=Add(x,x,r1); bx=Box2{add=Add(a,b,r)}}'})
        return []
    ctx.count(('fixed', 'F2'))
    if not {'HWSystem', 'Add8', 'Sign9'} <= set(ta) or not {'Box2', 'Add8', 'Sign9'} <= set(tb) or len(ta) != 5 or len(tb) != 4:
        ctx.violation({'what': 'the answer does not define the modules of the requested block and its sub-blocks (it depends on earlier requests)',
                       'circuit': 'HWSystem{u1=Add(x,x,r1); bx=Box2{add=Add(a,b,r), cmp=Comparator}}',
                       'scenario': 'fixed', 'history': ['g=VerilogGenerator(hw)', 'g.getVerilogForHierarchy()', 'g.getVerilogForHierarchy(bx)'],
                       'modules_of_first_answer': sorted(ta), 'modules_of_second_answer': sorted(tb)})
        return []
    if ta.get('Add8') != tb.get('Add8'):
        if 'C19-F2' in k and 'assign r = b + b + w_ci;' in ta['Add8'] and 'assign r = a + b + w_ci;' in tb['Add8']:
            ctx.known_finding('C19-F2', 'module Add8 (named by structureName(), shared by 2 instances) has a different text depending on the object the request '
                                        'starts from: instance u1 = Add(x, x, r1) has two ports on one wire and the port-name map of getWireNames keeps the last')
        else:
            ctx.violation({'what': 'the module text of a block depends on the object the request started from', 'module': 'Add8',
                           'circuit': 'HWSystem{u1=Add(x,x,r1); bx=Box2{add=Add(a,b,r)}}', 'from_top': ta.get('Add8'), 'from_bx': tb.get('Add8')})
    return [t1[:1200], '\n'.join(list(ta.values())[1].split('\n')[:12])]


def platform_builds(ctx):
    """finding C19-F3: IntelPlatform-style build(projectDir, createdStructures=[]) — the default list is shared by all calls.
    Two builds of the same tiny design (two platform objects, one directory); the EDA tool is absent, so build() raises after
    it has written <top>.v: the second file must equal the first.  KNOWN-FINDING while the defect is in /repo, silent once
    repaired (a "fixed" entry suppresses nothing), VIOLATION if it comes back."""
    import shutil, tempfile, importlib
    py4hw = common.quiet_import()
    if shutil.which('quartus_sh'):
        ctx.notes['platform_builds'] = 'skipped: a real quartus_sh is on PATH'; return
    out = {}
    for modname, clsname in (('py4hw.external.platforms.intel', 'C10LP'), ('py4hw.external.platforms.terasic', 'DE0')):
        try:
            with quiet():
                cls = getattr(importlib.import_module(modname), clsname)
        except Exception as ex:
            out[clsname] = 'not importable: %s' % type(ex).__name__; continue
        d = tempfile.mkdtemp(prefix='c19_build_')
        texts = []
        devnull = os.open(os.devnull, os.O_WRONLY); saved = (os.dup(1), os.dup(2))
        try:
            os.dup2(devnull, 1); os.dup2(devnull, 2)          # the make / tool messages of edalize go to the real descriptors
            for k in range(2):
                try:
                    with quiet():
                        hw = cls()
                        a = hw.wire('a', 8); r = hw.wire('r', 8)
                        py4hw.Constant(hw, 'a', 3, a); py4hw.Reg(hw, 'reg', a, r)
                        hw.build(d)
                except Exception:
                    pass                                     # no EDA tool in the sandbox: expected after the files are written
                f = os.path.join(d, hw.name + '.v')
                texts.append(open(f).read() if os.path.exists(f) else None)
        finally:
            os.dup2(saved[0], 1); os.dup2(saved[1], 2)
            for fd in saved + (devnull,): os.close(fd)
            shutil.rmtree(d, ignore_errors=True)
            dflt = getattr(cls.build, '__defaults__', None) or ()
            for x in dflt:
                if isinstance(x, list): x.clear()
        ctx.count(('fixed', 'F3', clsname))
        out[clsname] = [None if t is None else len(t) for t in texts]
        if texts[0] is None or texts[1] is None or not texts[0]:
            continue                                          # build() did not get as far as writing the Verilog: nothing to compare
        if L.canon(texts[0]) != L.canon(texts[1]):
            k = {f['id']: f for f in ctx.known if f.get('status') == 'known'}
            if 'C19-F3' in k and texts[1] == '':
                ctx.known_finding('C19-F3', '%s.build(dir) called twice in one process: the second %s.v is empty (%d vs 0 characters); the default '
                                            'createdStructures=[] of build() is one list shared by all calls' % (clsname, hw.name, len(texts[0])))
            else:
                ctx.violation({'what': 'two builds of the same design in one process write different Verilog', 'platform': modname + '.' + clsname,
                               'scenario': 'platform', 'history': ['%s().build(dir)' % clsname, '%s().build(dir)' % clsname],
                               'first_len': len(texts[0]), 'second_len': len(texts[1]), 'second_text': texts[1][:300]})
    ctx.notes['platform_builds'] = out


# ------------------------------------------------------------------ driver
def plan(ctx):
    q = ctx.quick
    # (mode, number of histories, operations per history, tied to the model)
    return [('sim', 10 if q else 80, 14 if q else 22, True), ('edit', 8 if q else 60, 14 if q else 22, True),
            ('exc', 3 if q else 20, 10, False), ('sim', 6 if q else 60, 30 if q else 40, False)]


def sweep(ctx, modes, with_model):
    records, texts = [], []
    base = ctx.seed * 1000003
    n = 0
    for (mode, nh, nops, tie) in modes:
        for i in range(nh):
            n += 1
            h = History(ctx, base + n, mode, nops, tie and with_model)
            rec = h.run()
            if h.fail: return False, records
            if rec: records.append(rec)
            if len(ctx.cov['samples']) < 4 and h.ops:
                ctx.sample({'history_seed': h.seed, 'mode': mode, 'circuits': [(c.family, c.seed) for c in h.A], 'first_ops': h.ops[:5]})
    return True, records


def run(ctx):
    ctx.cov['rule'] = ('obligations: theorems of Properties/C19.v; correspondence cases: requests of random histories on the real generator. '
                       'A request is distinct by (entry point, circuit family, default/explicit object, flags, createdStructures passed, type of the object); '
                       'non-trivial = it produced a non-empty text.  clk steps, model comparisons and canon cross-checks are counted as evaluations only')
    Pristine.start(); ProcState.start()          # before this process has generated anything
    Pristine.budget = 14 if ctx.quick else 150
    ctx.regen([])
    r = ctx.prove(['Properties/C19.v'])
    state_bad = scan_state()
    ctx.notes['state_scan'] = state_bad or 'module globals %s; self.%s' % (sorted(EXPECTED_GLOBALS), sorted(EXPECTED_SELF))
    ok = True
    samples = fixed_scenarios(ctx)
    platform_builds(ctx)
    if ctx.violations: ok = False
    records = []
    if ok:
        ok, records = sweep(ctx, plan(ctx), with_model=True)
    tie_msg = None
    if ok and records:
        try:
            for i in range(0, len(records), 6):
                mm = compare_with_model(ctx, records[i:i + 6])
                if mm:
                    h, msg, where = mm[0]
                    tie_msg = (msg, where, h['hist'])
                    break
        except RuntimeError as ex:
            tie_msg = ('the model could not be evaluated: %s' % str(ex)[-600:], {}, None)
        ctx.notes['histories_compared_with_model'] = len(records)
        if tie_msg: ctx.log('model/real mismatch:', tie_msg[0], tie_msg[1])
    if ok:
        cm = canon_crosscheck(ctx, [s for s in samples if s] + ['wire w_b;\nwire [3:0] w_a;\nX_7f00aa11bb22 i_x(.a(w_a));\nY_deadbeef i(.a(w_b));\nX_7f00aa11bb22 j();\n'])
        if cm:
            ctx.violation(dict({'what': 'canon of py/props/c19_lib.py and canon of Spec/C19.v disagree'}, **cm), found_input=False); ok = False
    leaks = ProcState.leaks()
    ctx.notes['process_state'] = {'containers_watched': len(ProcState.slots or []), 'changed_by_generation': leaks, 'pristine_process_jobs': (14 if ctx.quick else 150) - Pristine.budget}
    if leaks: state_bad = state_bad + ['generation left content in process-lifetime containers: %s' % leaks]
    if ok and (not r['ok'] or state_bad or tie_msg):
        # obligation or tie broken and the sweep above found no failing request: widen the search, then report
        wide = [('sim', 25, 24, False), ('edit', 25, 24, False)]
        ctx.seed += 17
        ok2, _ = sweep(ctx, wide, with_model=False)
        ctx.seed -= 17
        if ok2:
            if not r['ok']:
                ctx.violation({'what': 'proof obligation no longer checks: %s in %s' % (r.get('lemma'), r.get('file')), 'coq_error': r.get('msg')}, found_input=False)
            elif state_bad:
                ctx.violation({'what': 'the generator keeps state the model does not have (correspondence broken)', 'state': state_bad}, found_input=False)
            else:
                msg, where, hist = tie_msg
                ctx.violation({'what': 'model and real generator disagree (correspondence broken): ' + msg, 'where': where,
                               'history_seed': hist.seed if hist else None, 'mode': hist.mode if hist else None,
                               'n_ops': hist.n_ops if hist else None, 'ops': hist.ops[:where.get('op_index', 0) + 1][-12:] if hist else None},
                              found_input=False)
    ctx.assumptions += ['object identities are unique among live objects (hypothesis uniq_ids of the theorems; Python id())',
                        'Model/GenState.v mirrors rtl_generation.py (checked on every run: state scan + model run against the real generator on the same histories)',
                        'that the real generator does not write to the circuit is NOT a statement about the model: it is established by deep snapshots and '
                        'simulation traces on the sampled histories only']
    ctx.level = 'proof'


def replay(rp):
    """re-run the recorded history (deterministic in its seed) and report"""
    ctx = common.Ctx('C19', 'quick', 1)
    Pristine.start(); ProcState.start(); Pristine.budget = 10 ** 6
    if rp.get('scenario') == 'platform':
        platform_builds(ctx)
        if ctx.violations:
            print('replay: REPRODUCED: %s; history: %s' % (rp.get('what'), rp.get('history'))); return 1
        print('replay: the platform build scenario runs clean now'); return 0
    if rp.get('scenario') == 'fixed':
        fixed_scenarios(ctx)
        if ctx.violations:
            print('replay: REPRODUCED: %s; history: %s' % (rp.get('what'), rp.get('history'))); return 1
        print('replay: the fixed scenario runs clean now'); return 0
    if 'history_seed' not in rp or rp.get('history_seed') is None:
        print('replay: this file describes a broken obligation / correspondence:'); print(json.dumps(rp, indent=1)[:3000]); return 0
    h = History(ctx, rp['history_seed'], rp['mode'], rp['n_ops'], False)
    h.run()
    if h.fail:
        print('replay: REPRODUCED: %s (history seed %d, op %d)' % (h.fail, h.seed, len(h.ops) - 1)); return 1
    print('replay: the history runs clean now (seed %d, %d ops)' % (h.seed, len(h.ops))); return 0
