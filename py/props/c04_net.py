"""C04 helpers: netlist descriptions (JSON-able), construction as REAL py4hw netlists in a chosen instantiation order,
extraction of the leaf dependency graph from the live objects, ground-truth classification, denotational oracle.

A netlist description:
  {'inputs': [w, ...],                       widths of the primary (undriven) input wires        ref ['i', k]
   'nodes':  [{'kind', 'ins': [ref..], 'outs': [w..], 'const': int}, ...]   combinational leaves  ref ['n', j, o]
   'regs':   [{'d': ref, 'w': int}, ...]     py4hw.Reg (clockable, not propagatable)              ref ['q', k]
   'order':  [['n', j] | ['r', k], ...]      INSTANTIATION order of the blocks
   'split':  None | m | [m1, m2, ..]         BUILD - SIMULATE - EXTEND histories: the simulator is requested after the first m1
                                             blocks, again after m2, ..., and at the end (the circuit is extended in between)}
a node may carry 'box': b  -> it is instantiated INSIDE the user-defined structural block box<b> (created at its first member), so
a later member extends an existing structural child and HWSystem.allLeaves() order differs from the instantiation order.
a node / reg may carry 'inherit': True -> the block is an instance of a trivial SUBCLASS of the block class (class Sub(Not): pass),
i.e. propagate / clock are inherited.  Blocks inside a box are named m0, m1, .. per box, so instance names repeat across parents.
kinds: buf not and2 or2 mux2 const catm catl bitsl xor2 add (library blocks; xor2 and add are structural), gate (a user-defined leaf: k inputs, m outputs,
out_o = (xor of the inputs) + o + 1), and isink / isrc: the same function, but the leaf is the sink / source of a py4hw.Interface:
its outputs are the interface's back-channel (sink-to-source) / forward (source-to-sink) wires, and those of its inputs that no
other interface owns are the interface's forward / back-channel wires (ports created by addInterfaceSink / addInterfaceSource)."""
import common
from common import quiet

_gate = [None]


def gate_class():
    if _gate[0] is None:
        py4hw = common.quiet_import()

        class XorGate(py4hw.Logic):
            def __init__(self, parent, name, ins, outs):
                super().__init__(parent, name)
                self.ins = [self.addIn('i%d' % k, w) for k, w in enumerate(ins)]
                self.outs = [self.addOut('o%d' % k, w) for k, w in enumerate(outs)]

            def propagate(self):
                v = 0
                for w in self.ins: v ^= w.get()
                for k, w in enumerate(self.outs): w.put(v + k + 1)
        class IfGate(py4hw.Logic):
            """the same function behind a py4hw.Interface: role 'isink' -> addInterfaceSink, 'isrc' -> addInterfaceSource"""
            def __init__(self, parent, name, role, itf, extra_ins, ins, outs):
                super().__init__(parent, name)
                if role == 'isink': self.addInterfaceSink('p', itf)
                else: self.addInterfaceSource('p', itf)
                for k, w in enumerate(extra_ins): self.addIn('x%d' % k, w)
                self.ins, self.outs = list(ins), list(outs)

            def propagate(self):
                v = 0
                for w in self.ins: v ^= w.get()
                for k, w in enumerate(self.outs): w.put(v + k + 1)

        class Box(py4hw.Logic):
            """a structural block that only contains other blocks"""
            def __init__(self, parent, name):
                super().__init__(parent, name)
        class PortsOnly(py4hw.Logic):
            """a base class that only declares ports (no behaviour): as a block it is a legal black box that is never evaluated"""
            def __init__(self, parent, name, ins, outs):
                super().__init__(parent, name)
                self.ins = [self.addIn('i%d' % k, w) for k, w in enumerate(ins)]
                self.outs = [self.addOut('o%d' % k, w) for k, w in enumerate(outs)]

        class StagedGate(PortsOnly):
            """the behaviour is added by the subclass"""
            def propagate(self):
                v = 0
                for w in self.ins: v ^= w.get()
                for k, w in enumerate(self.outs): w.put(v + k + 1)
        _gate[0] = XorGate; _gate.append(IfGate); _gate.append(Box); _gate.append(PortsOnly); _gate.append(StagedGate)
    return _gate[0]


IF_KINDS = ('isink', 'isrc')
STRUCT_KINDS = ('xor2', 'add')
_sub = {}


def cls_of(cls, inherit):
    """the class itself, or a subclass that defines nothing (behaviour inherited from the base class)"""
    if not inherit: return cls
    if cls not in _sub: _sub[cls] = type('Sub' + cls.__name__, (cls,), {})
    return _sub[cls]


def is_comb_leaf(o):
    """a block without children that has a propagate method, however it got it (own or inherited)"""
    return len(o.children) == 0 and callable(getattr(o, 'propagate', None))


def ownership(spec):
    """which py4hw.Interface creates which wire: {wire key: (owner node, 'fwd' | 'back')}.  An interface node owns its outputs
    (back channel for a sink, forward wires for a source) and those of its inputs nobody claimed before (in node order)."""
    own = {}
    for j, nd in enumerate(spec['nodes']):
        if nd['kind'] in IF_KINDS:
            for o in range(len(nd['outs'])): own[('n', j, o)] = (j, 'back' if nd['kind'] == 'isink' else 'fwd')
    for j, nd in enumerate(spec['nodes']):
        if nd['kind'] in IF_KINDS:
            for r in nd['ins']:
                if rkey(r) not in own: own[rkey(r)] = (j, 'fwd' if nd['kind'] == 'isink' else 'back')
    return own


def rkey(ref):
    return tuple(ref)


class Net:
    """a live py4hw netlist built from a description, block by block in the description's order"""

    def __init__(self, spec):
        py4hw = common.quiet_import()
        self.py4hw, self.spec = py4hw, spec
        with quiet():
            self.hw = py4hw.HWSystem()
        self.wire = {}
        gate_class()
        self.own = ownership(spec); self.itf = {}
        def mk(key, name, w):
            if key in self.own:
                j, d = self.own[key]
                if j not in self.itf: self.itf[j] = py4hw.Interface(self.hw, 'itf%d' % j)
                return (self.itf[j].addSourceToSink if d == 'fwd' else self.itf[j].addSinkToSource)(name, w)
            return self.hw.wire(name, w)
        for k, w in enumerate(spec['inputs']):
            self.wire[('i', k)] = mk(('i', k), 'in%d' % k, w)
        for j, nd in enumerate(spec['nodes']):
            if nd['kind'] in IF_KINDS and j not in self.itf: self.itf[j] = py4hw.Interface(self.hw, 'itf%d' % j)
            for o, w in enumerate(nd['outs']):
                self.wire[('n', j, o)] = mk(('n', j, o), 'n%d_%d' % (j, o), w)
        for k, rg in enumerate(spec['regs']):
            self.wire[('q', k)] = mk(('q', k), 'q%d' % k, rg['w'])
        self.box = {}
        # 'preamble': blocks without behaviour instantiated BEFORE everything else (what a process instantiates first matters
        # when an implementation remembers per-class facts): a bare py4hw.Logic container with a port, a ports-only stub
        pre = spec.get('preamble')
        with quiet():
            if pre in ('logic_port', 'both'):
                g = py4hw.Logic(self.hw, 'grp'); g.addIn('x', self.wire[('i', 0)])
            if pre in ('stub_first', 'both'):
                _gate[3](self.hw, 'stub', [self.wire[('i', 0)]], [self.hw.wire('stub_o', 1)])
        self.done = []                  # items instantiated so far, in order
        self.obj = {}                   # item -> py4hw object
        self.leaf_items = []            # combinational blocks in instantiation order (= leaf index when none is structural)
        self.has_struct = any(nd['kind'] in STRUCT_KINDS for nd in spec['nodes'])
        self.has_box = any(nd.get('box') is not None for nd in spec['nodes'])

    def instantiate(self, items):
        py4hw, hw, W = self.py4hw, self.hw, self.wire
        with quiet():
            for it in items:
                it = tuple(it)
                if it[0] == 'r':
                    rg = self.spec['regs'][it[1]]
                    self.obj[it] = cls_of(py4hw.Reg, rg.get('inherit'))(hw, 'r%d' % it[1], W[rkey(rg['d'])], W[('q', it[1])])
                else:
                    j = it[1]; nd = self.spec['nodes'][j]; k = nd['kind']; name = 'u%d' % j
                    top = hw
                    if nd.get('box') is not None:
                        b = nd['box']
                        if b not in self.box: self.box[b] = _gate[2](top, 'box%d' % b)
                        hw = self.box[b]; name = 'm%d' % len(hw.children)       # names repeat across boxes
                    ins = [W[rkey(r)] for r in nd['ins']]
                    outs = [W[('n', j, o)] for o in range(len(nd['outs']))]
                    C = lambda cls: cls_of(cls, nd.get('inherit'))
                    if k == 'buf': ob = C(py4hw.Buf)(hw, name, ins[0], outs[0])
                    elif k == 'not': ob = C(py4hw.Not)(hw, name, ins[0], outs[0])
                    elif k == 'and2': ob = C(py4hw.And2)(hw, name, ins[0], ins[1], outs[0])
                    elif k == 'or2': ob = C(py4hw.Or2)(hw, name, ins[0], ins[1], outs[0])
                    elif k == 'mux2': ob = C(py4hw.Mux2)(hw, name, ins[0], ins[1], ins[2], outs[0])
                    elif k == 'const': ob = C(py4hw.Constant)(hw, name, nd['const'], outs[0])
                    elif k == 'catm': ob = C(py4hw.ConcatenateMSBF)(hw, name, ins, outs[0])
                    elif k == 'catl': ob = C(py4hw.ConcatenateLSBF)(hw, name, ins, outs[0])
                    elif k == 'bitsl': ob = C(py4hw.BitsLSBF)(hw, name, ins[0], outs)
                    elif k == 'gate': ob = C(gate_class())(hw, name, ins, outs)
                    elif k == 'staged': ob = C(_gate[4])(hw, name, ins, outs)
                    elif k == 'xor2': ob = py4hw.Xor2(hw, name, ins[0], ins[1], outs[0])      # structural: 4 Nand2 = 8 leaves
                    elif k == 'add': ob = py4hw.Add(hw, name, ins[0], ins[1], outs[0])        # structural: Constant ci + AddCarryIn add
                    elif k in IF_KINDS:
                        via = (j, 'fwd' if k == 'isink' else 'back')       # in-refs that are ports of the interface itself
                        extra = []
                        for r in nd['ins']:
                            if self.own.get(rkey(r)) != via and all(W[rkey(r)] is not x for x in extra): extra.append(W[rkey(r)])
                        ob = C(_gate[1])(hw, name, k, self.itf[j], extra, ins, outs)
                    else: raise ValueError(k)
                    hw = top
                    self.obj[it] = ob
                    self.leaf_items.append(it)
                self.done.append(it)

    # ---- the leaf dependency graph, read off the live objects the way findFirstDependentPosition does
    def leaves(self):
        """the propagatable leaves in HWSystem.allLeaves() order: the initial list of Simulator.topologicalSort"""
        return [o for o in self.hw.allLeaves() if is_comb_leaf(o)]

    def live_graph(self):
        """succ table over leaves(), read from the WIRES: leaf x feeds leaf y when a wire whose source port belongs to x has a sink
        port that belongs to y (Wire.source / Wire.sinks; independent of how a block files its ports in inPorts / outPorts)"""
        import netlist
        leaves = self.leaves()
        idx = {id(o): i for i, o in enumerate(leaves)}
        tbl = [[] for _ in leaves]
        seen = set()
        for w in netlist.all_wires(self.hw) + [w for w in self.wire.values()]:
            if id(w) in seen: continue
            seen.add(id(w))
            src = w.getSource() if hasattr(w, 'getSource') else None
            if src is None or id(src.parent) not in idx: continue
            for sp in w.getSinks():
                if id(sp.parent) in idx: tbl[idx[id(src.parent)]].append(idx[id(sp.parent)])
        return tbl

    def port_graph(self):
        """succ table over leaves() from the PORT OBJECTS of the leaves alone: leaf x feeds leaf y when x has an OutPort object and y
        an InPort object on the same wire (whatever list the port is filed in, whatever was registered in Wire.source / Wire.sinks)"""
        from py4hw.base import InPort, OutPort
        leaves = self.leaves()
        drv, rd = {}, {}
        for i, o in enumerate(leaves):
            for p in list(o.inPorts) + list(o.outPorts):
                if p.wire is None: continue
                if isinstance(p, OutPort): drv.setdefault(id(p.wire), []).append(i)
                elif isinstance(p, InPort): rd.setdefault(id(p.wire), []).append(i)
        tbl = [[] for _ in leaves]
        for w, ds in drv.items():
            for d in ds: tbl[d] += rd.get(w, [])
        return tbl

    def code_graph(self):
        """the same table read the way findFirstDependentPosition reads it (obj.outPorts -> wire.getSinks())"""
        leaves = self.leaves()
        idx = {id(o): i for i, o in enumerate(leaves)}
        tbl = []
        for o in leaves:
            s = []
            for port in o.outPorts:
                if port.wire is None: continue
                for sp in port.wire.getSinks():
                    if sp.parent.isPropagatable():
                        s.append(idx.get(id(sp.parent), -1))
            tbl.append(s)
        return tbl

    def node_leaf_index(self):
        """position in leaves() of each instantiated combinational block (None for structural ones)"""
        idx = {id(o): i for i, o in enumerate(self.leaves())}
        return [idx.get(id(self.obj[it])) for it in self.leaf_items]

    def all_leaves_order(self):
        """flat netlists: hw.allLeaves() restricted to propagatables, as block indices (must be 0..n-1: instantiation order)"""
        idx = {id(self.obj[it]): i for i, it in enumerate(self.leaf_items)}
        return [idx.get(id(o), -1) for o in self.leaves()]

    def get_simulator(self):
        """('ok', [leaf indices of Simulator.propagatables]) | ('raise', message, kind, leaf) with kind 'limit' (pass limit),
        'loop' (a leaf drives its own input; leaf = index of the leaf named in the message) or 'other'"""
        try:
            with quiet():
                sim = self.hw.getSimulator()
        except Exception as ex:             # the documented refusals are bare Exceptions with these messages
            msg = '%s: %s' % (type(ex).__name__, ex); text = str(ex)
            if type(ex) is Exception and 'Excessive loop count' in text: return ('raise', msg, 'limit', None)
            if type(ex) is Exception and text.startswith('Combinational loop: ') and ' drives one of its own inputs' in text:
                path = text[len('Combinational loop: '):text.index(' drives one of its own inputs')]
                named = [i for i, o in enumerate(self.leaves()) if o.getFullPath() == path]
                return ('raise', msg, 'loop', named[0] if len(named) == 1 else -1)
            return ('raise', msg, 'other', None)
        self.sim = sim
        idx = {id(o): i for i, o in enumerate(self.leaves())}
        return ('ok', [idx.get(id(o), -1) for o in sim.propagatables])

    def values(self):
        return {k: w.get() for k, w in self.wire.items()}


# ------------------------------------------------------------------ what the description says (independent of py4hw)
def spec_graph(spec, items=None):
    """succ table over the propagatable leaves among `items` (default: all), numbered by instantiation order, in the
    order the code collects sinks: out ports in order, then the sink in-ports in the order they were created"""
    items = [tuple(i) for i in (spec['order'] if items is None else items)]
    leaf_items = [it for it in items if it[0] == 'n']
    pos = {it: i for i, it in enumerate(leaf_items)}
    tbl = []
    for it in leaf_items:
        j = it[1]; s = []
        for o in range(len(spec['nodes'][j]['outs'])):
            for it2 in leaf_items:                       # in-ports are created at instantiation, in port order
                for r in spec['nodes'][it2[1]]['ins']:
                    if tuple(r) == ('n', j, o): s.append(pos[it2])
        tbl.append(s)
    return tbl


def classify(tbl):
    """('dag' | 'selfloop' | 'cycle2', detail): cycle2 = a cycle through >= 2 distinct leaves exists"""
    n = len(tbl)
    selfs = [i for i in range(n) if i in tbl[i]]
    # Tarjan SCC (iterative enough for n <= ~2000 with recursion limit raised by the caller for chains: use Kahn instead)
    indeg = [0] * n
    adj = [sorted(set(x for x in tbl[i] if x != i)) for i in range(n)]
    for i in range(n):
        for y in adj[i]: indeg[y] += 1
    todo = [i for i in range(n) if indeg[i] == 0]; seen = 0
    while todo:
        x = todo.pop(); seen += 1
        for y in adj[x]:
            indeg[y] -= 1
            if indeg[y] == 0: todo.append(y)
    if seen < n: return 'cycle2', [i for i in range(n) if indeg[i] > 0]
    if selfs: return 'selfloop', selfs
    return 'dag', []


def is_strict_topo(tbl, order):
    pos = {x: i for i, x in enumerate(order)}
    if sorted(order) != list(range(len(tbl))): return False
    return all(pos[x] < pos[y] for x in range(len(tbl)) for y in tbl[x])


def mask(v, w):
    return v & ((1 << w) - 1)


def node_fn(nd, vals, widths):
    k = nd['kind']; outs = nd['outs']
    if k == 'buf': r = [vals[0]]
    elif k == 'not': r = [~vals[0]]
    elif k == 'and2': r = [vals[0] & vals[1]]
    elif k == 'or2': r = [vals[0] | vals[1]]
    elif k == 'mux2': r = [vals[2] if (vals[0] & 1) else vals[1]]
    elif k == 'const': r = [nd['const']]
    elif k in ('catm', 'catl'):
        seq = list(zip(vals, widths))
        if k == 'catl': seq.reverse()
        v = 0
        for x, w in seq: v = (v << w) | x
        r = [v]
    elif k == 'bitsl': r = [(vals[0] >> i) & 1 for i in range(len(outs))]
    elif k in ('gate', 'isink', 'isrc', 'staged'):
        v = 0
        for x in vals: v ^= x
        r = [v + o + 1 for o in range(len(outs))]
    elif k == 'add': r = [vals[0] + vals[1]]
    elif k == 'xor2': r = [vals[0] ^ vals[1]]          # inputs and output have the same width by construction
    else: raise ValueError(k)
    return [mask(x, w) for x, w in zip(r, outs)]


def ref_width(spec, r):
    r = tuple(r)
    if r[0] == 'i': return spec['inputs'][r[1]]
    if r[0] == 'q': return spec['regs'][r[1]]['w']
    return spec['nodes'][r[1]]['outs'][r[2]]


def denote(spec, present, base):
    """value of every node-output wire as a function of the undriven wires: `base` maps every wire key to its CURRENT
    value (used for inputs, register outputs and outputs of blocks not instantiated yet); present = instantiated
    node ids.  Only meaningful on an acyclic netlist."""
    memo = {}
    def val(r):
        r = tuple(r)
        if r[0] != 'n' or r[1] not in present: return base[r]
        if r not in memo:
            nd = spec['nodes'][r[1]]
            vs = node_fn(nd, [val(x) for x in nd['ins']], [ref_width(spec, x) for x in nd['ins']])
            for o, v in enumerate(vs): memo[('n', r[1], o)] = v
        return memo[r]
    out = {}
    for j in present:
        for o in range(len(spec['nodes'][j]['outs'])): out[('n', j, o)] = val(('n', j, o))
    return out


# ------------------------------------------------------------------ generators
def rand_netlist(rng, n, flavour='dag', n_in=2, n_regs=0, lib_only=True, struct=False, itf=False, boxes=0, inherit=False):
    """random netlist whose combinational part is a DAG in the hidden order 0..n-1, then made cyclic / self-looping on
    request; instantiation order random (sometimes exactly reversed = worst case, sometimes dataflow order)."""
    spec = {'inputs': [rng.randint(1, 5) for _ in range(n_in)], 'nodes': [], 'regs': [], 'order': [], 'split': None}
    for k in range(n_regs): spec['regs'].append({'d': None, 'w': rng.randint(1, 4), 'inherit': bool(inherit and rng.random() < .5)})
    pool_in = [['i', k] for k in range(n_in)] + [['q', k] for k in range(n_regs)]
    outs_so_far = []
    def pick():
        if outs_so_far and rng.random() < .8:
            return list(rng.choice(outs_so_far[-6:] if rng.random() < .6 else outs_so_far))
        return list(rng.choice(pool_in))
    kinds = ['buf', 'not', 'and2', 'or2', 'and2', 'or2', 'mux2', 'const', 'catm', 'catl', 'bitsl'] + ([] if lib_only else ['gate', 'gate', 'staged'])
    if struct: kinds += ['xor2', 'xor2', 'add', 'add']
    if itf: kinds += ['isink', 'isink', 'isink', 'isrc']
    for j in range(n):
        k = rng.choice(kinds); nd = {'kind': k, 'ins': [], 'outs': [rng.randint(1, 5)], 'const': 0}
        if k in ('buf', 'not'): nd['ins'] = [pick()]
        elif k in ('and2', 'or2'): nd['ins'] = [pick(), pick()]
        elif k == 'mux2': nd['ins'] = [pick(), pick(), pick()]
        elif k == 'const': nd['const'] = rng.choice([0, 1, -1, 5, 255, rng.randrange(64)])
        elif k in ('catm', 'catl'):
            nd['ins'] = [pick() for _ in range(rng.randint(2, 4))]
            tw = sum(ref_width(spec, r) for r in nd['ins'])
            if tw > 16: nd['kind'] = 'and2'; nd['ins'] = nd['ins'][:2]
            else: nd['outs'] = [tw + rng.randint(0, 1)]
        elif k == 'bitsl':
            r = pick()
            if ref_width(spec, r) > 4: nd['kind'] = 'buf'; nd['ins'] = [r]
            else: nd['ins'] = [r]; nd['outs'] = [1] * ref_width(spec, r)
        elif k in ('gate', 'isink', 'isrc', 'staged'):
            nd['ins'] = [pick() for _ in range(rng.randint(0 if k == 'gate' else 1, 4))]; nd['outs'] = [rng.randint(1, 4) for _ in range(rng.randint(1, 3))]
        elif k == 'add':
            nd['ins'] = [pick(), pick()]; nd['outs'] = [max(ref_width(spec, r) for r in nd['ins']) + rng.randint(0, 1)]
        elif k == 'xor2':
            a = pick(); same = [r for r in pool_in + outs_so_far if ref_width(spec, r) == ref_width(spec, a)]
            nd['ins'] = [a, list(rng.choice(same))]; nd['outs'] = [ref_width(spec, a)]
        if boxes and rng.random() < .6: nd['box'] = rng.randrange(boxes)
        if inherit and nd['kind'] not in STRUCT_KINDS and rng.random() < .5: nd['inherit'] = True
        spec['nodes'].append(nd)
        for o in range(len(nd['outs'])): outs_so_far.append(['n', j, o])
    for rg in spec['regs']:
        rg['d'] = list(rng.choice(outs_so_far)) if outs_so_far else ['i', 0]
    items = [['n', j] for j in range(n)] + [['r', k] for k in range(n_regs)]
    m = rng.random()
    if m < .2: items.reverse()
    elif m < .9: rng.shuffle(items)
    spec['order'] = items
    free = ('buf', 'not', 'and2', 'or2', 'mux2', 'gate', 'const', 'isink', 'isrc', 'staged')
    if flavour == 'cycle':
        # a back edge v -> u with u ->* v in the DAG closes a cycle through >= 2 leaves
        reach = [set() for _ in range(n)]
        for j in range(n - 1, -1, -1):
            for j2 in range(j + 1, n):
                if any(tuple(r)[:2] == ('n', j) for r in spec['nodes'][j2]['ins']):
                    reach[j] |= {j2} | reach[j2]
        cands = [(u, v) for u in range(n) for v in reach[u] if spec['nodes'][u]['kind'] in free]
        if not cands: return None
        u, v = rng.choice(cands); nu = spec['nodes'][u]
        back = ['n', v, rng.randrange(len(spec['nodes'][v]['outs']))]
        if nu['kind'] in ('gate', 'isink', 'isrc', 'staged') and not nu['ins']: nu['ins'] = [back]
        elif nu['kind'] == 'const': nu['kind'] = 'buf'; nu['ins'] = [back]
        else: nu['ins'][rng.randrange(len(nu['ins']))] = back
    elif flavour == 'selfloop':
        cands = [u for u in range(n) if spec['nodes'][u]['kind'] in free]
        if not cands: return None
        u = rng.choice(cands); nu = spec['nodes'][u]
        back = ['n', u, rng.randrange(len(nu['outs']))]
        if nu['kind'] in ('gate', 'isink', 'isrc', 'staged') and not nu['ins']: nu['ins'] = [back]
        elif nu['kind'] == 'const': nu['kind'] = 'buf'; nu['ins'] = [back]
        else: nu['ins'][rng.randrange(len(nu['ins']))] = back
    return spec


def tiny_graph(n, edges, variant=0):
    """the labelled digraph `edges` (set of (i, j): leaf j reads leaf i) as a netlist of user-defined leaves instantiated
    in label order; every leaf also reads the primary input so values move"""
    spec = {'inputs': [3], 'nodes': [], 'regs': [], 'order': [['n', j] for j in range(n)], 'split': None}
    for j in range(n):
        ins = [['n', i, 0] for i in range(n) if (i, j) in edges] + [['i', 0]]
        spec['nodes'].append({'kind': 'isink' if (variant and j % 2 == 1) else 'gate', 'ins': ins, 'outs': [3], 'const': 0,
                              'inherit': bool(variant and j % 2 == 0)})
    return spec


def chain(n, reverse=True):
    spec = {'inputs': [1], 'nodes': [], 'regs': [], 'split': None}
    for j in range(n):
        spec['nodes'].append({'kind': 'buf', 'ins': [['i', 0] if j == 0 else ['n', j - 1, 0]], 'outs': [1], 'const': 0})
    spec['order'] = [['n', j] for j in (reversed(range(n)) if reverse else range(n))]
    return spec


def all_digraphs(n, self_loops=False, dags_only=False):
    pairs = [(i, j) for i in range(n) for j in range(n) if (self_loops or i != j)]
    for m in range(1 << len(pairs)):
        if dags_only:
            rows = [0] * n                      # rows[i] = bitset of successors of i
            for b, (i, j) in enumerate(pairs):
                if (m >> b) & 1: rows[i] |= 1 << j
            alive = (1 << n) - 1; ok = True
            while alive:
                sinks = [x for x in range(n) if (alive >> x) & 1 and not (rows[x] & alive)]
                if not sinks: ok = False; break
                for x in sinks: alive &= ~(1 << x)
            if not ok: continue
        yield {p for b, p in enumerate(pairs) if (m >> b) & 1}
