"""C12 — operations on the REAL py4hw helpers paired with independent oracles (struct, fractions.Fraction, int arithmetic).
Every op is  fn(H, *args) -> (observed, expected)  in a canonical JSON-able form; the sweeps and the replayer share them.
Floats travel as float.hex() strings, exact values as [num, den] of a Fraction, specials as 'nan' / '+inf' / '-inf'."""
import math, struct
from fractions import Fraction

FMT = {'hp': (5, 10, 'e', 'H'), 'sp': (8, 23, 'f', 'I'), 'dp': (11, 52, 'd', 'Q')}
BITS = {'hp': 16, 'sp': 32, 'dp': 64}


# ------------------------------------------------------------------ oracles
def bits_to_float(fmt, v):
    """platform decoding of a bit pattern (struct); the result is a Python float (exact for all three formats)"""
    _, _, fc, ic = FMT[fmt]
    return struct.unpack('>' + fc, struct.pack('>' + ic, v))[0]


def float_to_bits(fmt, x):
    """platform encoding (round to nearest even for the narrower formats; overflow -> infinity)"""
    _, _, fc, ic = FMT[fmt]
    try:
        return struct.unpack('>' + ic, struct.pack('>' + fc, x))[0]
    except OverflowError:
        ew, mw, _, _ = FMT[fmt]
        return ((1 if x < 0 else 0) << (ew + mw)) | (((1 << ew) - 1) << mw)


def representable(fmt, x):
    if math.isnan(x) or math.isinf(x): return True
    b = float_to_bits(fmt, x)
    y = bits_to_float(fmt, b)
    return y == x and math.copysign(1, y) == math.copysign(1, x)


def fields(fmt, v):
    ew, mw, _, _ = FMT[fmt]
    return (v >> (ew + mw)) & 1, (v >> mw) & ((1 << ew) - 1), v & ((1 << mw) - 1)


def is_nan_pattern(fmt, v):
    ew, mw, _, _ = FMT[fmt]
    s, e, m = fields(fmt, v)
    return e == (1 << ew) - 1 and m != 0


def is_subnormal_pattern(fmt, v):
    s, e, m = fields(fmt, v)
    return e == 0 and m != 0


def canon_nan(fmt):
    return {'hp': 0x7E00, 'sp': 0x7FC00000, 'dp': 0x7FF8000000000000}[fmt]


def xfloat(x):
    """extended exact value of a Python float: 'nan' | '+inf' | '-inf' | [neg, num, den]"""
    if math.isnan(x): return 'nan'
    if math.isinf(x): return '+inf' if x > 0 else '-inf'
    fr = Fraction(abs(x))
    return [1 if math.copysign(1, x) < 0 else 0, fr.numerator, fr.denominator]


def xfr(neg, fr):
    return [1 if neg else 0, abs(fr).numerator, abs(fr).denominator]


def fpnum_x(n):
    """extended exact value an FPNum object denotes: s * 2^e * m / p"""
    if n.nan: return 'nan'
    if n.infinity: return '+inf' if n.s == 1 else '-inf' if n.s == -1 else 'inf?'
    if not isinstance(n.m, int) or not isinstance(n.p, int) or n.p == 0: return 'malformed %r' % (n.components(),)
    fr = Fraction(n.m, n.p) * (Fraction(2) ** n.e)
    return [1 if n.s < 0 else 0, fr.numerator, fr.denominator]


def comps(n):
    return [n.s, n.e, n.m, n.p, bool(n.infinity), bool(n.nan)]


def x_to_fraction(x):
    return (-1 if x[0] else 1) * Fraction(x[1], x[2])


def x_value_only(x):
    """forget the sign of a zero (rational value)"""
    if isinstance(x, list) and x[1] == 0: return [0, 0, 1]
    return x


def guarded(f):
    """documented / observed exceptions become a value, so that they can be compared and classified"""
    try:
        return f()
    except Exception as ex:
        return 'raise %s: %s' % (type(ex).__name__, ex)


def mk_fpnum(H, d):
    """operand descriptor -> FPNum:  ['hp'|'sp'|'dp', pattern]  |  ['f', float.hex()]  |  ['semp', s, e, m, p]"""
    if d[0] == 'f': return H.FPNum(float.fromhex(d[1]))
    if d[0] == 'semp': return H.FPNum(d[1], d[2], d[3], d[4])
    if d[0] == 'expr':                 # ['expr', 'add'|'sub'|'mul', d1, d2]: the RESULT of an earlier operation used as an operand (operation histories)
        return getattr(mk_fpnum(H, d[2]), d[1])(mk_fpnum(H, d[3]))
    return H.FPNum(d[1], d[0])


def desc_x(d):
    """oracle value of an operand descriptor"""
    if d[0] == 'f': return xfloat(float.fromhex(d[1]))
    if d[0] == 'expr':
        xa, xb = desc_x(d[2]), desc_x(d[3])
        return {'add': lambda: _xadd(xa, xb), 'sub': lambda: _xadd(xa, _xneg(xb)), 'mul': lambda: _xmul(xa, xb)}[d[1]]()
    if d[0] == 'semp':
        fr = Fraction(d[3], d[4]) * Fraction(2) ** d[2]
        return [1 if d[1] < 0 else 0, fr.numerator, fr.denominator]
    x = xfloat(bits_to_float(d[0], d[1]))
    return x


# ------------------------------------------------------------------ ops: integer helpers
def op_signed_to_c2(H, v, w):
    return H.IntegerHelper.signed_to_c2(v, w), v % (1 << w)

def op_c2_to_signed(H, u, w):
    r = u % (1 << w)
    return H.IntegerHelper.c2_to_signed(u, w), (r - (1 << w) if r >= (1 << (w - 1)) else r)

def op_c2_round_trip(H, v, w):
    return H.IntegerHelper.c2_to_signed(H.IntegerHelper.signed_to_c2(v, w), w), v

def op_c2_converse(H, u, w):
    return H.IntegerHelper.signed_to_c2(H.IntegerHelper.c2_to_signed(u, w), w), u

def op_signExtend(H, v, w, nw):
    r = v % (1 << w)
    sv = r - (1 << w) if r >= (1 << (w - 1)) else r
    return H.signExtend(v, w, nw), sv % (1 << nw)

def _sgn(w, a):
    a %= (1 << w)
    return a - (1 << w) if a >= (1 << (w - 1)) else a

def op_fx(H, which, sw, iw, fw, a, b):
    w = sw + iw + fw
    def run():
        A = H.FixedPoint.fromRawValue(sw, iw, fw, a); B = H.FixedPoint.fromRawValue(sw, iw, fw, b)
        return {'add': A.add, 'sub': A.sub, 'mult': A.mult}[which](B).v
    exp = {'add': (a + b) % (1 << w), 'sub': (a - b) % (1 << w),
           'mult': ((_sgn(w, a) * _sgn(w, b)) >> fw) % (1 << w) if w >= 1 else 0}[which]
    return guarded(run), exp

def op_fx_from_int(H, sw, iw, fw, v):
    w = sw + iw + fw
    return guarded(lambda: H.FixedPoint(sw, iw, fw, v).v), (v << fw) % (1 << w)

def op_fx_from_float(H, sw, iw, fw, xh):
    x = float.fromhex(xh); w = sw + iw + fw
    fr = Fraction(x) * (1 << fw)
    t = math.trunc(fr)
    return guarded(lambda: H.FixedPoint(sw, iw, fw, x).v), t % (1 << w)

def op_fx_to_float(H, sw, iw, fw, raw):
    """toFloatingPoint of a raw encoding (w <= 53 so that the quotient is exact)"""
    w = sw + iw + fw
    val = Fraction(_sgn(w, raw) if sw == 1 else raw, 1 << fw)
    return guarded(lambda: xfloat(H.FixedPoint.fromRawValue(sw, iw, fw, raw).toFloatingPoint())), xfr(val < 0, val)


# ------------------------------------------------------------------ ops: pack / unpack
def _unp(H, fmt): return getattr(H.FPNum, 'unpack_ieee754_%s_parts' % fmt)
def _pck(H, fmt): return getattr(H.FPNum, 'pack_ieee754_%s_parts' % fmt)

def op_fpnum_unpack(H, fmt, v):
    return list(_unp(H, fmt)(v)), list(fields(fmt, v))

def op_fpnum_pack(H, fmt, s, e, m):
    ew, mw, _, _ = FMT[fmt]
    return _pck(H, fmt)(s, e, m), ((s % 2) << (ew + mw)) + ((e % (1 << ew)) << mw) + (m % (1 << mw))

def op_fpnum_pack_unpack(H, fmt, v):
    return _pck(H, fmt)(*_unp(H, fmt)(v)), v % (1 << BITS[fmt])

def op_fph_unpack(H, fmt, v):
    f = getattr(H.FloatingPointHelper, 'unpack_ieee754_%s_parts' % fmt)
    return list(f(v)), list(fields(fmt, v))

def op_fph_pack_sp(H, s, e, m):
    return H.FloatingPointHelper.pack_ieee754_sp_parts(s, e, m), ((s % 2) << 31) + ((e % 256) << 23) + (m % (1 << 23))

def op_fph_sp_neg(H, v):
    return H.FloatingPointHelper.ieee754_sp_neg(v), v ^ (1 << 31)


# ------------------------------------------------------------------ ops: FPNum decode / convert
def op_fpnum_decode(H, fmt, v):
    """FPNum(v, fmt) denotes the IEEE value of the pattern (sign of zero included)"""
    return guarded(lambda: fpnum_x(H.FPNum(v, fmt))), xfloat(bits_to_float(fmt, v))

def op_fpnum_round_trip(H, fmt, v):
    return guarded(lambda: H.FPNum(v, fmt).convert(fmt)), (canon_nan(fmt) if is_nan_pattern(fmt, v) else v)

def op_fpnum_to_float(H, fmt, v):
    """FPNum(v, fmt).to_float() is the float the pattern denotes (exact: every half/single/double value is a double)"""
    return guarded(lambda: xfloat(H.FPNum(v, fmt).to_float())), xfloat(bits_to_float(fmt, v))

def op_fpnum_from_float(H, xh):
    """FPNum(x) denotes exactly x; back to float and to the double pattern"""
    x = float.fromhex(xh)
    def run():
        n = H.FPNum(x)
        back = n.to_float()
        return [fpnum_x(n), xfloat(back), n.convert('dp')]
    b = float_to_bits('dp', x)
    return guarded(run), [xfloat(x), xfloat(x), canon_nan('dp') if math.isnan(x) else b]

def op_fpnum_convert(H, fmt, xh):
    """FPNum(x).convert(fmt) for x representable in fmt = the platform's encoding of x"""
    x = float.fromhex(xh)
    return guarded(lambda: H.FPNum(x).convert(fmt)), (canon_nan(fmt) if math.isnan(x) else float_to_bits(fmt, x))

def op_fpnum_cross(H, src, v, dst):
    """FPNum(v, src).convert(dst), dst at least as wide as src: the value is representable, the encoding must be the platform's"""
    x = bits_to_float(src, v)
    return guarded(lambda: H.FPNum(v, src).convert(dst)), (canon_nan(dst) if math.isnan(x) else float_to_bits(dst, x))


# ------------------------------------------------------------------ ops: FPNum arithmetic
def _xadd(a, b):
    if a == 'nan' or b == 'nan': return 'nan'
    if isinstance(a, str) and isinstance(b, str): return a if a == b else 'nan'
    if isinstance(a, str): return a
    if isinstance(b, str): return b
    fr = x_to_fraction(a) + x_to_fraction(b)
    return xfr(fr < 0, fr)

def _xneg(a):
    if a == 'nan': return a
    if isinstance(a, str): return '-inf' if a == '+inf' else '+inf'
    return [1 - a[0], a[1], a[2]]

def _xmul(a, b):
    if a == 'nan' or b == 'nan': return 'nan'
    if isinstance(a, str) or isinstance(b, str):
        return 'special'            # infinity times something: outside the claim (see docs/C12.md)
    fr = x_to_fraction(a) * x_to_fraction(b)
    return xfr(fr < 0, fr)

def op_fpnum_arith(H, which, da, db):
    """add / sub / mul are exact on the rationals the operands denote (zero compared as a value: sign of zero not claimed)"""
    xa, xb = desc_x(da), desc_x(db)
    exp = {'add': lambda: _xadd(xa, xb), 'sub': lambda: _xadd(xa, _xneg(xb)), 'mul': lambda: _xmul(xa, xb)}[which]()
    def run():
        a, b = mk_fpnum(H, da), mk_fpnum(H, db)
        r = getattr(a, which)(b)
        return x_value_only(fpnum_x(r))
    obs = guarded(run)
    if exp == 'special': exp = obs
    return obs, x_value_only(exp)

def op_fpnum_compare(H, da, db):
    xa, xb = desc_x(da), desc_x(db)
    def key(x):
        if x == '+inf': return (1, 0)
        if x == '-inf': return (-1, 0)
        return (0, x_to_fraction(x))
    if xa == 'nan' or xb == 'nan': exp = 0
    else:
        ka, kb = key(xa), key(xb)
        exp = (ka > kb) - (ka < kb)
    return guarded(lambda: mk_fpnum(H, da).compare(mk_fpnum(H, db))), exp

def op_reduce_exp(H, xh, prec):
    """reduceExponentPrecision(prec) keeps the value, lifts the exponent to the subnormal scale of a prec-bit exponent field,
    and flags infinity exactly when the biased exponent reaches the all-ones field"""
    x = float.fromhex(xh)
    mask = (1 << prec) - 1; e_bias = mask >> 1
    n0 = H.FPNum(x)
    e0 = n0.e
    val = [1 if n0.s < 0 else 0] + list((Fraction(n0.m, n0.p) * Fraction(2) ** n0.e).as_integer_ratio())
    def run():
        n = H.FPNum(x); n.reduceExponentPrecision(prec)
        fr = Fraction(n.m, n.p) * Fraction(2) ** n.e
        return [[1 if n.s < 0 else 0, fr.numerator, fr.denominator], bool(n.infinity), n.e >= -(e_bias - 1)]
    return guarded(run), [val, (e0 >= -(e_bias - 1)) and (e0 + e_bias >= mask), True]


# ------------------------------------------------------------------ ops: FloatingPointHelper
def op_fph_decode(H, fmt, v):
    f = getattr(H.FloatingPointHelper, 'ieee754_to_' + fmt)
    return guarded(lambda: xfloat(f(v))), xfloat(bits_to_float(fmt, v))

def op_fph_encode(H, fmt, xh):
    """sp/dp_to_ieee754(x) = the platform's encoding of x (round to nearest even into single; NaN -> the helper's own NaN pattern)"""
    x = float.fromhex(xh)
    f = getattr(H.FloatingPointHelper, fmt + '_to_ieee754')
    if math.isnan(x): exp = {'sp': 0x7FFFFFFF, 'dp': 0x7FF7FFFFFFFFFFFF}[fmt]
    else: exp = float_to_bits(fmt, x)
    return guarded(lambda: f(x)), exp

def op_fph_encode_parts(H, fmt, xh):
    x = float.fromhex(xh)
    f = getattr(H.FloatingPointHelper, fmt + '_to_ieee754_parts')
    if math.isnan(x): exp = {'sp': [0, 255, (1 << 23) - 1], 'dp': [0, 2047, (1 << 51) - 1]}[fmt]
    else:
        exp = list(fields(fmt, float_to_bits(fmt, x)))
    def run():
        s, e, m = f(x)
        ew, mw, _, _ = FMT[fmt]
        if m == (1 << mw) and e == 0: e, m = 1, 0           # a subnormal that rounds up to the smallest normal: carry is resolved by the `|` in *_to_ieee754
        return [s, e, m]
    return guarded(run), exp

def op_fph_round_trip(H, fmt, v):
    dec = getattr(H.FloatingPointHelper, 'ieee754_to_' + fmt); enc = getattr(H.FloatingPointHelper, fmt + '_to_ieee754')
    exp = {'sp': 0x7FFFFFFF, 'dp': 0x7FF7FFFFFFFFFFFF}[fmt] if is_nan_pattern(fmt, v) else v
    return guarded(lambda: enc(dec(v))), exp

def op_fp_to_parts(H, xh):
    """fp_to_parts(x) = (sign, floor(log2|x|), |x| / 2^e) with 1 <= m < 2, exactly (zero: (0, 0, 0))"""
    x = float.fromhex(xh)
    def run():
        s, e, m = H.FloatingPointHelper.fp_to_parts(x)
        return [s, e, (m + 0.0).hex()]
    if x == 0: return guarded(run), [0, 0, (0.0).hex()]
    mant, ex = math.frexp(abs(x))
    return guarded(run), [1 if x < 0 else 0, ex - 1, (mant * 2).hex()]

def op_sp_to_fixed_point_parts(H, xh):
    x = float.fromhex(xh)
    if x == 0: return guarded(lambda: list(H.FloatingPointHelper.sp_to_fixed_point_parts(x))), [0, 0, 0]
    mant, ex = math.frexp(abs(x))
    return guarded(lambda: list(H.FloatingPointHelper.sp_to_fixed_point_parts(x))), [1 if x < 0 else 0, ex - 1, round(Fraction(mant) * (1 << 24))]

def op_fph_stored(H, xh):
    x = float.fromhex(xh)
    return guarded(lambda: xfloat(H.FloatingPointHelper.ieee754_stored_internally(x))), xfloat(bits_to_float('sp', float_to_bits('sp', x)))


def op_fpnum_object_history(H, fmt, v, script):
    """ONE FPNum object through a history of reads and in-place reductions: every read (to_float, convert) must be a function of the value the
    object denotes NOW (its components), whatever was read or reduced before.  script: list of ['to_float'] | ['convert', fmt] |
    ['reducePrecision', k] | ['reducePrecisionWithRounding', k].  Expected reads: the exact rational of the current components when it is a
    double (to_float) / the platform encoding of that rational (convert to dp when exact); observed and expected are the lists of reads."""
    def run():
        n = H.FPNum(v, fmt); obs = []
        for st in script:
            if st[0] == 'to_float': obs.append(['to_float', xfloat(n.to_float())])
            elif st[0] == 'convert': obs.append(['convert', st[1], n.convert(st[1])])
            else: getattr(n, st[0])(st[1])
        return obs
    def expect():
        n = H.FPNum(v, fmt); exp = []
        for st in script:
            if st[0] in ('to_float', 'convert'):
                x = fpnum_x(n)                                   # what the components denote at this point
                if isinstance(x, str): exp.append(None); continue
                fr = x_to_fraction(x)
                try: fl = float(fr)
                except OverflowError: exp.append(None); continue
                exact = Fraction(fl) == fr
                if st[0] == 'to_float': exp.append(['to_float', xfloat(math.copysign(fl, -1.0) if (x[0] and fl == 0) else fl)] if exact else None)
                else: exp.append(['convert', st[1], float_to_bits(st[1], math.copysign(fl, -1.0) if (x[0] and fl == 0) else fl)] if (exact and st[1] == 'dp') else None)
            else: getattr(n, st[0])(st[1])                        # the reductions themselves are judged by the reduce_* ops / theorems
        return exp
    obs = guarded(run)
    try: exp = expect()
    except Exception as ex: return obs, obs                       # the reduction itself raised: not this op's subject
    if isinstance(obs, list): obs = [o if e is not None else None for o, e in zip(obs, exp)]      # reads without an exact expectation are not compared
    return obs, exp


OPS = {f[3:]: g for f, g in list(globals().items()) if f.startswith('op_')}


def call(H, name, args):
    return OPS[name](H, *args)
