"""C14 — fixed-point blocks agree with exact scaled-integer arithmetic.
Proof: Properties/C14.v over Model/Fxp.v (compositions of the REGENERATED primitives) and Spec/C14.v.
Tie:   the REAL FixedPointAdd/Sub/Sign/Mult/Comparator objects and helper.FixedPoint are driven on the same operands
       as the Coq model and the Coq spec (vm_compute inside Coq): exhaustively for every format of width <= 5
       (all operand pairs), mixed a/b/r formats for the multiplier, boundary + random operands up to 64 bits.
Search/oracle: the same sweep with an independent Python oracle (fractions.Fraction on the decoded operands),
       run over (many) more format triples than go through Coq."""
import itertools, math, random
from fractions import Fraction
import common
from common import quiet, zlit

NEEDED = ['Wire_put', 'signExtend', 'AddCarryIn_propagate', 'Constant_propagate', 'Sub_propagate', 'Bit_propagate',
          'SignExtend_propagate', 'Mul_propagate', 'Range_propagate', 'BitsLSBF_propagate', 'Not_propagate',
          'And2_propagate', 'Buf_propagate']

EXC = -1          # an exception of the real code / None of the model, in the value columns

PRELUDE = r'''From V Require Import Base.Bits Gen.WireOps Gen.Helpers Gen.Prims Model.Fxp Model.FxpHelper Spec.C14.
Definition oz (x : option Z) : Z := match x with Some v => v | None => -1 end.
Definition oc (x : option (Z * Z * Z)) : Z := match x with Some (g, e, l) => g * 4 + e * 2 + l | None => -1 end.
Definition cc (x : Z * Z * Z) : Z := let '(g, e, l) := x in g * 4 + e * 2 + l.
Definition pairs (wa wb : Z) : list (Z * Z) :=
  flat_map (fun a => map (fun b => (a, b)) (seqZ 0 (2 ^ wb))) (seqZ 0 (2 ^ wa)).
Definition rows_exh (wa wb : Z) (impl : list Z) : list (Z * Z * Z) :=
  map (fun '((a, b), r) => (a, b, r)) (combine (pairs wa wb) impl).
Definition rows_of (ops : list (Z * Z)) (impl : list Z) : list (Z * Z * Z) :=
  map (fun '((a, b), r) => (a, b, r)) (combine ops impl).
(* rows (a, b, impl): those where the model differs from impl, or the spec makes a claim (Some) that differs from impl *)
Definition bad (model : Z -> Z -> Z) (spec : Z -> Z -> option Z) (rows : list (Z * Z * Z)) : list (Z * Z * Z * Z * Z) :=
  firstn 3 (flat_map (fun '(a, b, r) =>
     let m := model a b in
     let s := match spec a b with Some s => s | None => r end in
     if (m =? r) && (s =? r) then [] else [(a, b, r, m, s)]) rows).
Definition wd (F : fmt) := fwidth F.
Definition m_add F a b := oz (fxadd F F F a b).      Definition s_add F a b := Some (spec_add (wd F) a b).
Definition m_sub F a b := oz (fxsub F F F a b).      Definition s_sub F a b := Some (spec_sub (wd F) a b).
Definition m_addx af bf rf a b := oz (fxadd af bf rf a b).
Definition m_subx af bf rf a b := oz (fxsub af bf rf a b).
Definition s_rej (a b : Z) : option Z := Some (-1).
Definition m_sign F a (_ : Z) := oz (fxsign F a).    Definition s_sign F a (_ : Z) := Some (spec_sign (wd F) a).
(* multiplier: pw = the product width READ OFF the real block (width of the wire Mul drives); fxmul_w pw is the model for any pw *)
Definition m_mul pw af bf rf a b := oz (fxmul_w pw af bf rf a b).
(* spec column: raises below bit 0; no claim exactly on finding C14-F1 (pre-repair wiring pw = wa+wb, window above the product AND
   negative product); with the repaired wiring pw = max(wa+wb, low+wr) there is no exempt region *)
Definition s_mul pw af bf rf a b : option Z :=
  let low := ffrac af + ffrac bf - ffrac rf in
  if low <? 0 then Some (-1)
  else if (pw =? wd af + wd bf) && (pw <? low + wd rf) && (fxint (wd af) a * fxint (wd bf) b <? 0) then None
  else Some (spec_mul (wd af) (ffrac af) (wd bf) (ffrac bf) (wd rf) (ffrac rf) a b).
Definition m_cmp F a b := oc (fxcmp F F a b).
Definition s_cmp F a b : option Z :=
  let d := fxint (wd F) a - fxint (wd F) b in
  if (- 2 ^ (wd F - 1) <=? d) && (d <? 2 ^ (wd F - 1)) then Some (cc (spec_cmp (wd F) a b)) else None.
Definition m_cmpeq F a b := (m_cmp F a b / 2) mod 2.
Definition s_cmpeq F a b := Some (b2z (fxint (wd F) a =? fxint (wd F) b)).
(* helper.FixedPoint: the claim is agreement with the block, for every format (no integer bits included, /repo 6fe767a) *)
Definition m_hadd F a b := oz (fxh_add F a b).       Definition s_hadd F a b := Some (m_add F a b).
Definition m_hsub F a b := oz (fxh_sub F a b).       Definition s_hsub F a b := Some (m_sub F a b).
Definition m_hmul F a b := oz (fxh_mult F a b).      Definition s_hmul F a b := Some (oz (fxmul_fixed F F F a b)).
'''


# ------------------------------------------------------------------ independent oracle (rationals)
def width(F): return F[0] + F[1] + F[2]

def dec(F, v):
    """the rational an encoding denotes: two's complement over the whole word, binary point F[2] from the right"""
    w = width(F)
    s = v - (1 << w) if (v >> (w - 1)) & 1 else v
    return Fraction(s, 1 << F[2])

def encq(F, q):
    """encoding of floor(q * 2^frac) wrapped to the word"""
    return math.floor(q * (1 << F[2])) % (1 << width(F))

def oracle(block, fmts, a, b):
    """expected value, or None when the property makes no claim for this input"""
    if block in ('add', 'sub', 'hadd', 'hsub'):
        F = fmts[0]
        x, y = dec(F, a), dec(F, b)
        return encq(F, x + y if block.endswith('add') else x - y)
    if block in ('addx', 'subx'):
        return EXC
    if block == 'sign':
        return 1 if dec(fmts[0], a) < 0 else 0
    if block == 'signx':
        return EXC
    if block in ('mul', 'hmul'):
        af, bf, rf = fmts if block == 'mul' else (fmts[0],) * 3
        if af[2] + bf[2] - rf[2] < 0: return EXC
        return encq(rf, dec(af, a) * dec(bf, b))
    if block in ('cmp', 'cmpeq'):
        F = fmts[0]
        x, y = dec(F, a), dec(F, b)
        if block == 'cmpeq': return int(x == y)
        lim = Fraction(1 << (width(F) - 1), 1 << F[2])
        if not (-lim <= x - y < lim): return None
        return (int(x > y) << 2) | (int(x == y) << 1) | int(x < y)
    raise KeyError(block)


def mul_widths(fmts):
    """(pre-repair product width wa+wb, repaired product width max(wa+wb, low+wr)) of FixedPointMult"""
    af, bf, rf = fmts
    old = width(af) + width(bf)
    return old, max(old, af[2] + bf[2] - rf[2] + width(rf))

def f1_region(block, fmts, a, b, pw):
    """finding C14-F1: FixedPointMult wired with a wa+wb-bit product, result window above bit wa+wb-1, negative product"""
    if block != 'mul': return False
    af, bf, rf = fmts
    low = af[2] + bf[2] - rf[2]
    old, _ = mul_widths(fmts)
    return pw == old and low >= 0 and low + width(rf) > old and dec(af, a) * dec(bf, b) < 0


# ------------------------------------------------------------------ the real implementation
class Impl:
    """one real block (or the helper) built once for its formats; eval(a, b) pokes the operands and reads the output"""
    def __init__(self, py4hw, block, fmts):
        self.block, self.fmts, self.py4hw = block, fmts, py4hw
        self.dead = None
        self.pw, self.uniform = None, False
        fx = py4hw.logic.arithmetic_fxp
        if block in ('hadd', 'hsub', 'hmul'):
            return
        try:
            with quiet():
                hw = self.hw = py4hw.HWSystem()
                if block in ('add', 'sub', 'mul', 'addx', 'subx'):
                    af, bf, rf = fmts if len(fmts) == 3 else (fmts[0],) * 3
                    self.A, self.B, self.R = hw.wire('a', width(af)), hw.wire('b', width(bf)), hw.wire('r', width(rf))
                    cls = {'add': fx.FixedPointAdd, 'addx': fx.FixedPointAdd, 'sub': fx.FixedPointSub, 'subx': fx.FixedPointSub,
                           'mul': fx.FixedPointMult}[block]
                    dut = cls(hw, 'dut', self.A, af, self.B, bf, self.R, rf)
                    if block == 'mul': self.pw, self.uniform = self.probe_pw(dut)
                elif block in ('sign', 'signx'):
                    F = fmts[0]
                    self.A, self.B, self.R = hw.wire('a', width(F)), None, hw.wire('s', 1)
                    fx.FixedPointSign(hw, 'dut', self.A, F, self.R)
                elif block in ('cmp', 'cmpeq'):
                    F = fmts[0]
                    self.A, self.B = hw.wire('a', width(F)), hw.wire('b', width(F))
                    self.G, self.E, self.L = hw.wire('gt', 1), hw.wire('eq', 1), hw.wire('lt', 1)
                    py4hw.logic.relational.FixedPointComparator(hw, 'dut', self.A, F, self.B, F, self.G, self.E, self.L)
                self.sim = hw.getSimulator()
        except AssertionError:
            self.dead = EXC                      # documented: mixed formats / sign bits != 1 are asserted away
        except ValueError:
            self.dead = EXC                      # Simulator() already propagates once: Range raises for a window below bit 0

    @staticmethod
    def probe_pw(dut):
        """(width of the wire the Mul child drives, do the SignExtend children drive wires of that same width?) of a real FixedPointMult"""
        wm = [c.r.getWidth() for c in dut.children.values() if type(c).__name__ == 'Mul']
        we = [c.r.getWidth() for c in dut.children.values() if type(c).__name__ == 'SignExtend']
        if len(wm) != 1: return None, False
        return wm[0], len(we) == 2 and all(w == wm[0] for w in we)

    def eval(self, a, b):
        if self.dead is not None: return self.dead
        blk = self.block
        if blk in ('hadd', 'hsub', 'hmul'):
            FP = self.py4hw.helper.FixedPoint
            F = self.fmts[0]
            try:
                x = FP.fromRawValue(F[0], F[1], F[2], a); y = FP.fromRawValue(F[0], F[1], F[2], b)
                return {'hadd': x.add, 'hsub': x.sub, 'hmul': x.mult}[blk](y).v
            except ValueError:
                return EXC                       # negative shift count in the constructor (only a negative iw since /repo 6fe767a)
        self.A.put(a)
        if self.B is not None: self.B.put(b)
        try:
            self.sim.propagateAll()
        except ValueError:
            return EXC                           # Range: negative shift count (window below bit 0)
        if blk == 'cmp': return (self.G.get() << 2) | (self.E.get() << 1) | self.L.get()
        if blk == 'cmpeq': return self.E.get()
        return self.R.get()


def fl(F): return '(%d, %d, %d)' % F

def coq_fun(block, fmts, pw=None):
    """(model, spec) Gallina functions Z -> Z -> _ for a table"""
    if block == 'mul': a = '%d ' % pw + ' '.join(fl(F) for F in fmts); return 'm_mul ' + a, 's_mul ' + a
    if block in ('addx', 'subx'): a = ' '.join(fl(F) for F in fmts); return 'm_%s %s' % (block, a), 's_rej'
    if block == 'signx': return 'm_sign ' + fl(fmts[0]), 's_rej'
    return 'm_%s %s' % (block, fl(fmts[0])), 's_%s %s' % (block, fl(fmts[0]))


# ------------------------------------------------------------------ tables
class Sweep:
    def __init__(self, ctx):
        self.ctx = ctx
        self.py4hw = common.quiet_import()
        self.tables = []          # (block, fmts, exhaustive?, rows or impl list) queued for Coq
        self.seen_tables = set()
        self.failed = False       # an impl != oracle violation was reported
        self.n_rows = 0
        self.bulk = 0
        self.wiring = {}          # FixedPointMult tables by class: covered by C14_mul_any_product_width / pre-repair C14-F1 region / other
        self.formula = {}         # ... and, where the two differ, which width formula the real block follows
        self.coq_reported = False

    def operands(self, block, fmts, rows):
        if rows is not None: return rows
        wa = width(fmts[0]); wb = width(fmts[1]) if block == 'mul' else wa
        if block in ('sign', 'signx'): return [(a, 0) for a in range(1 << wa)]
        return [(a, b) for a in range(1 << wa) for b in range(1 << wb)]

    def table(self, block, fmts, rows=None, to_coq=True):
        """run the real block over the rows (None = all operand pairs), compare with the rational oracle, queue for Coq"""
        key = (block, fmts, None if rows is None else tuple(rows))
        if key in self.seen_tables: return
        self.seen_tables.add(key)
        ctx = self.ctx
        impl = Impl(self.py4hw, block, fmts)
        pw = pw_m = None
        if block == 'mul':
            af, bf, rf = fmts
            old, new = mul_widths(fmts)
            low = af[2] + bf[2] - rf[2]
            pw_m = impl.pw                # width of the real product wire: decides whether the C14-F1 exemption can apply at all
            if not impl.uniform or pw_m is None: cls, pw = 'other', old             # model the wa+wb wiring; the differential decides
            elif low < 0 or pw_m >= max(width(af), width(bf), low + width(rf)): cls, pw = 'covered', pw_m      # C14_mul_any_product_width applies
            elif pw_m == old: cls, pw = 'pre-repair, window above the product', pw_m                            # C14-F1 region: C14_mul_wide_window_*
            else: cls, pw = 'other', pw_m
            self.wiring[cls] = self.wiring.get(cls, 0) + 1
            f = 'wa+wb' if pw_m == old else 'max(wa+wb,low+wr)' if pw_m == new else 'neither'
            if old != new: self.formula[f] = self.formula.get(f, 0) + 1
            if cls == 'other':
                self.ctx.notes.setdefault('unknown_mult_wiring', {'formats': [list(F) for F in fmts], 'product_wire_width': pw_m, 'sign-extended operands same width': impl.uniform,
                                                                  'wa+wb': old, 'max(wa+wb,low+wr)': new})
        ops = self.operands(block, fmts, rows)
        out = []
        nontriv = 0
        unary = block in ('sign', 'signx')
        for (a, b) in ops:
            r = impl.eval(a, b)
            out.append(r)
            exp = oracle(block, fmts, a, b)
            if exp is not None and a != 0 and (b != 0 or unary): nontriv += 1
            if exp is not None and r != exp:
                if f1_region(block, fmts, a, b, pw_m):
                    kf = [k for k in ctx.known if k['id'] == 'C14-F1' and k.get('status') == 'known']
                    if kf:
                        ctx.known_finding('C14-F1', kf[0]['text'])
                        continue
                if not self.failed:
                    self.failed = True
                    ctx.violation({'what': 'fixed-point block disagrees with exact arithmetic on the decoded operands',
                                   'block': block, 'formats': [list(F) for F in fmts], 'a': a, 'b': b, 'impl': r, 'expected': exp,
                                   'decoded': [str(dec(fmts[0], a)), str(dec(fmts[1] if block == 'mul' else fmts[0], b))],
                                   'replay_hint': 'props.c14.replay: rebuild the block for the formats, put a and b, propagateAll, read the output'})
        n = len(ops)
        self.n_rows += n
        ctx.count(None, n=n)
        # (block, formats, a, b) distinct by construction: a table is built once per key, its rows are distinct, wide (sampled) tables use
        # widths >= 7 and never overlap the exhaustive ones.  Non-trivial: the property makes a claim for the row and no operand is zero
        self.bulk += nontriv
        if n > 200 and len(ctx.cov['samples']) < 8 and block not in [s.get('block') for s in ctx.cov['samples']]:
            k = (n * 5) // 7
            ctx.sample({'block': block, 'formats': [list(F) for F in fmts], 'a': ops[k][0], 'b': ops[k][1], 'impl': out[k],
                        'oracle': oracle(block, fmts, *ops[k]),
                        'decoded_operands': [str(dec(fmts[0], ops[k][0])), str(dec(fmts[1] if block == 'mul' else fmts[0], ops[k][1]))]})
        if to_coq:
            self.tables.append((block, fmts, rows is None, list(ops), out, pw))

    # ---- Coq side: model and spec columns for the queued tables
    def flush(self, tag):
        """returns None when the Coq side could not be evaluated (model does not build), else number of model/spec mismatches"""
        ctx = self.ctx
        if not self.tables: return 0
        batch, size, k = [], 0, 0
        files, extra, opsdef = [], [], {}         # per file: items, extra prelude (operand lists shared by the tables of one format)
        for t in self.tables:
            block, fmts, exh, ops, out, pw = t
            model, spec = coq_fun(block, fmts, pw)
            if exh and block not in ('sign', 'signx'):
                wa = width(fmts[0]); wb = width(fmts[1]) if block == 'mul' else wa
                rows = 'rows_exh %d %d [%s]' % (wa, wb, ';'.join(zlit(r) for r in out))
            else:
                key = tuple(ops)
                if key not in opsdef:
                    opsdef[key] = 'ops_%d' % len(opsdef)
                    extra.append('Definition %s : list (Z * Z) := [%s].' % (opsdef[key], ';'.join('(%s,%s)' % (zlit(a), zlit(b)) for a, b in ops)))
                rows = 'rows_of %s [%s]' % (opsdef[key], ';'.join(zlit(r) for r in out))
            batch.append(('t%d' % k, 'bad (%s) (%s) (%s)' % (model, spec, rows), t)); k += 1
            size += len(out)
            if size > 25000:
                files.append((batch, '\n'.join(extra))); batch, size, extra, opsdef = [], 0, [], {}
        if batch: files.append((batch, '\n'.join(extra)))
        self.tables = []
        nbad = 0
        from concurrent.futures import ThreadPoolExecutor
        def ev(ib):
            i, (batch, extra) = ib
            try:
                return common.coq_eval('%s_%d' % (tag, i), PRELUDE + extra + '\n', [(n, term) for n, term, _ in batch], timeout=900)
            except RuntimeError as ex:
                return ex
        with ThreadPoolExecutor(max_workers=4) as pool:       # independent case files: evaluate them side by side
            results = list(pool.map(ev, enumerate(files)))
        for (batch, _), res in zip(files, results):
            if isinstance(res, RuntimeError):
                ctx.notes['coq_side_unavailable'] = str(res)[-1500:]
                return None
            for n, _, (block, fmts, exh, ops, out, _pw) in batch:
                for row in res[n]:
                    a, b, r, m, s = row
                    nbad += 1
                    exp = oracle(block, fmts, a, b)
                    rec = {'block': block, 'formats': [list(F) for F in fmts], 'a': a, 'b': b,
                           'impl': r, 'coq_model': m, 'coq_spec': s, 'python_oracle': exp}
                    if nbad > 1 or self.failed or self.coq_reported:
                        ctx.notes.setdefault('more_coq_mismatches', [])
                        if len(ctx.notes['more_coq_mismatches']) < 10: ctx.notes['more_coq_mismatches'].append(rec)
                        continue
                    self.coq_reported = True
                    if m != r:
                        rec['what'] = ('Coq model (Model/Fxp.v over the regenerated primitives) and the real block disagree: correspondence broken; '
                                       'the real block agrees with the rational oracle on every operand tried')
                        ctx.violation(rec, found_input=False)
                    else:
                        rec['what'] = 'Coq spec (Spec/C14.v) and the real block disagree (the Python oracle does not: the two statements of the property differ)'
                        ctx.violation(rec, found_input=True)
        ctx.notes['coq_rows'] = ctx.notes.get('coq_rows', 0) + sum(len(t[4]) for b, _ in files for _, _, t in b)
        return nbad


# ------------------------------------------------------------------ generators
def formats_upto(wmax, wmin=1):
    return [(1, i, w - 1 - i) for w in range(wmin, wmax + 1) for i in range(w - 1, -1, -1)]

def boundary(w):
    vals = {0, 1, (1 << w) - 1, 1 << (w - 1), (1 << (w - 1)) - 1, ((1 << (w - 1)) + 1) & ((1 << w) - 1), (1 << w) - 2 if w > 1 else 0}
    return sorted(v for v in vals if 0 <= v < (1 << w))

def big_rows(rng, wa, wb, n_rand):
    rows = [(a, b) for a in boundary(wa) for b in boundary(wb)]
    for _ in range(n_rand):
        rows.append((rng.getrandbits(wa), rng.getrandbits(wb)))
    # close operands (comparator), powers of two
    for _ in range(4):
        a = rng.getrandbits(wa); d = rng.choice([1, -1, 2, -2])
        rows.append((a, (a + d) % (1 << wb) if wb >= wa else (a + d) % (1 << wb)))
        rows.append((1 << rng.randrange(wa), 1 << rng.randrange(wb)))
    return list(dict.fromkeys(rows))

def rand_format(rng, wmin, wmax):
    w = rng.randint(wmin, wmax)
    i = rng.randint(0, w - 1)
    return (1, i, w - 1 - i)


def sweep(ctx, sw, rng):
    """drives every table; returns (coq status small, coq status big); stops as soon as a failing input is reported"""
    quick = ctx.quick
    st = st2 = 0
    # 1. exhaustive: every format of width <= 5, every operand pair, every same-format block and the helper -> Coq + oracle
    small = formats_upto(5)
    for F in small:
        for block in ('add', 'sub', 'sign', 'cmp', 'cmpeq', 'hadd', 'hsub', 'hmul'):
            sw.table(block, (F,))
        sw.table('mul', (F, F, F))
        if sw.failed: return st, st2
    # 2. rejected configurations: mixed formats for add/sub, sign-bit count != 1 for the sign block
    for (af, bf, rf) in [((1, 1, 1), (1, 2, 0), (1, 1, 1)), ((1, 1, 1), (1, 1, 1), (1, 0, 2)), ((1, 2, 1), (1, 1, 2), (1, 1, 2))]:
        sw.table('addx', (af, bf, rf), rows=[(1, 2), (3, 3)])
        sw.table('subx', (af, bf, rf), rows=[(1, 2), (3, 3)])
    sw.table('signx', ((2, 1, 1),), rows=[(9, 0)])
    sw.table('signx', ((0, 2, 2),), rows=[(9, 0)])
    # 3. multiplier with mixed a/b/r formats.  Through Coq: all triples of width <= 3 and a random sample of wider ones;
    #    oracle only: ALL triples of width <= 5 (quick) / <= 7 (thorough), every operand pair
    for trip in itertools.product(formats_upto(3), repeat=3):
        sw.table('mul', trip)
    for trip in rng.sample(list(itertools.product(small, repeat=3)), 120 if quick else 1200):
        sw.table('mul', trip)
    if sw.failed: return st, st2
    ctx.log('small tables driven: %d rows' % sw.n_rows)
    st = sw.flush('C14_small')
    ctx.log('small tables evaluated in Coq: %s mismatches' % st)
    for trip in itertools.product(formats_upto(5 if quick else 7), repeat=3):
        sw.table('mul', trip, to_coq=False)
        if sw.failed: return st, st2
    ctx.log('mixed-format multiplier tables driven (rational oracle): %d rows so far' % sw.n_rows)
    # 4. wide formats: boundary x boundary + random operands, up to 64 bits
    nbig = 30 if quick else 160
    for k in range(nbig):
        F = (1, 31, 32) if k == 0 else (1, 0, 31) if k == 1 else rand_format(rng, 7, 64)      # incl. a pure-fraction format (helper: iw = 0)
        rows = big_rows(rng, width(F), width(F), 14)
        for block in ('add', 'sub', 'cmp', 'cmpeq', 'hadd', 'hsub', 'hmul'):
            sw.table(block, (F,), rows=rows)
        sw.table('sign', (F,), rows=[(a, 0) for a, _ in rows])
        sw.table('mul', (F, F, F), rows=rows)
        # mixed multiplier formats: one inside the guards of C14_mul, one arbitrary (may raise / may be in the C14-F1 region)
        af, bf = rand_format(rng, 7, 64), rand_format(rng, 2, 64)
        low = rng.randint(0, af[2] + bf[2]); fr = af[2] + bf[2] - low
        wr = rng.randint(fr + 1, max(fr + 1, width(af) + width(bf) - low))
        rf = (1, wr - 1 - fr, fr)
        sw.table('mul', (af, bf, rf), rows=big_rows(rng, width(af), width(bf), 14))
        rf2 = rand_format(rng, 1, 64)
        sw.table('mul', (af, bf, rf2), rows=big_rows(rng, width(af), width(bf), 10))
        if sw.failed: return st, st2
    ctx.log('all tables driven: %d rows' % sw.n_rows)
    st2 = sw.flush('C14_big')
    ctx.log('wide tables evaluated in Coq: %s mismatches' % st2)
    return st, st2


def run(ctx):
    ctx.cov['rule'] = ('obligations: theorems of Properties/C14.v. Correspondence case = (block, formats, operand a, operand b) on the REAL object; '
                       'tables enumerate all operand pairs for every format of width <= 5 (same-format blocks, helper) and for mixed a/b/r multiplier '
                       'formats, plus boundary x boundary + random operands for formats up to 64 bits; distinct by construction (each (block, formats) '
                       'table is built once, its rows are distinct, sampled wide tables never overlap exhaustive ones); a case counts as non-trivial when the property makes '
                       'a claim for it (not: comparator with unrepresentable difference; the C14-F1 region is still counted) and no operand is zero')
    missing = ctx.regen(NEEDED)
    r = ctx.prove(['Properties/C14.v'])
    ctx.log('proof build: ok=%s missing=%s' % (r['ok'], missing))
    rng = random.Random(ctx.seed)
    sw = Sweep(ctx)
    st, st2 = sweep(ctx, sw, rng)

    class _Distinct(set):
        bulk = 0
        def __len__(self): return set.__len__(self) + self.bulk
    d = _Distinct(ctx._distinct); d.bulk = sw.bulk; ctx._distinct = d
    ctx.cov['exhaustive'] = False
    ctx.notes['exhaustive_part'] = ('all operand pairs for all 15 formats (1,i,f) of width <= 5: add, sub, sign, comparator, same-format mult, helper add/sub/mult '
                                    '(impl vs Coq model vs Coq spec vs rational oracle); all operand pairs for all mixed multiplier format triples of width <= %d '
                                    '(impl vs rational oracle)' % (5 if ctx.quick else 7))
    ctx.notes['tables'] = len(sw.seen_tables)
    ctx.notes['rows_total'] = sw.n_rows

    wg = sw.wiring
    wiring = ('unknown' if wg.get('other') else 'pre-repair: product width wa+wb (finding C14-F1)' if wg.get('pre-repair, window above the product')
              else 'every configuration tried computes the product on enough bits for its window (repaired)')
    ctx.notes['mult_wiring'] = {'tables_by_class': wg, 'width_formula_where_they_differ': sw.formula, 'wiring': wiring,
                                'theorems': 'covered: C14_mul_any_product_width at the width read off the real block (+ C14_mul_fixed for the max formula); '
                                            'pre-repair region: C14_mul_wide_window_refuted / _negative_wrong / _nonneg_any_window'}
    coq_side_ok = st is not None and st2 is not None and wiring != 'unknown'
    nbad = (st or 0) + (st2 or 0)
    tie_ok = (not missing) and r['ok'] and coq_side_ok and nbad == 0
    if not tie_ok and not ctx.violations:
        # proof obligation / translation / Coq evaluation broken and the whole sweep found no operand where the real block is wrong
        what = ('translator rejected %s: %s' % (missing, {k: ctx.gen['errors'].get(k) for k in missing}) if missing else
                'proof obligation no longer checks: %s in %s' % (r.get('lemma'), r.get('file')) if not r['ok'] else
                'FixedPointMult is wired in a way no theorem covers (product wire too narrow for the window and not the known wa+wb wiring, or operands extended to other widths): %s' % ctx.notes.get('unknown_mult_wiring', wg) if wiring == 'unknown' else
                'the Coq model/spec could not be evaluated: %s' % ctx.notes.get('coq_side_unavailable', '')[-600:])
        ctx.violation({'what': what + '; the real blocks agree with the rational oracle on every operand tried',
                       'theorem': r.get('lemma'), 'file': r.get('file'), 'coq_error': r.get('msg')}, found_input=False)
    ctx.assumptions += [
        'Model/Fxp.v wires the regenerated primitives as the constructors of FixedPointAdd/Sub/Sign/Mult/Comparator (and Add, EqualConstant, Minterm, And) do '
        '(hand-written composition; checked on every run by evaluating it inside Coq against the real objects: exhaustively for widths <= 5, sampled to 64 bits)',
        'Model/FxpHelper.v mirrors helper.FixedPoint.add/sub/mult (hand-written over the regenerated signExtend; same differential)',
        'operands on wires are in range 0 <= v < 2^w (C06)',
        'formats have exactly one sign bit (the property is about signed formats; FixedPointSign asserts it, the other blocks ignore af[0])']


# ------------------------------------------------------------------ replay
def replay(rp):
    py4hw = common.quiet_import()
    if 'block' not in rp or 'a' not in rp:
        print('replay: this file records a broken proof obligation / correspondence, not an input:')
        print({k: rp[k] for k in rp if k in ('what', 'theorem', 'file', 'coq_error')})
        return 0
    block, fmts, a, b = rp['block'], tuple(tuple(F) for F in rp['formats']), rp['a'], rp['b']
    got = Impl(py4hw, block, fmts).eval(a, b)
    exp = oracle(block, fmts, a, b)
    print('replay C14: block=%s formats=%s a=%d b=%d -> impl=%s expected=%s (%s)' % (
        block, fmts, a, b, got, exp, 'no claim' if exp is None else 'AGREE' if got == exp else 'DISAGREE'))
    return 0 if exp is None or got == exp else 1
