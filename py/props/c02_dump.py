"""C02 — dump the Python `ast` of the REAL clock()/propagate() method of a live py4hw block (inspect.getsource of the
live class: exactly what the transpiler reads) as a term of coq/Model/PySyntax.pyblock.  Independent of the transpiler:
ports are resolved through the live object (attribute -> wire -> port NAME), integer attributes through vars(obj).
Anything outside the subset becomes PUnsupported / PSUnsupported (PySem gives those no meaning)."""
import ast, inspect, textwrap

BINOPS = {ast.Add: 'PAdd', ast.Sub: 'PSub', ast.Mult: 'PMul', ast.FloorDiv: 'PFloorDiv', ast.Mod: 'PMod', ast.BitAnd: 'PBitAnd',
          ast.BitOr: 'PBitOr', ast.BitXor: 'PBitXor', ast.LShift: 'PLShift', ast.RShift: 'PRShift'}
CMPOPS = {ast.Eq: 'PEq', ast.NotEq: 'PNe', ast.Lt: 'PLt', ast.LtE: 'PLe', ast.Gt: 'PGt', ast.GtE: 'PGe'}
UNOPS = {ast.Invert: 'PInvert', ast.Not: 'PNot', ast.USub: 'PUSub'}


def cq_str(s):
    return '"%s"' % str(s).replace('"', '""')

def cq_z(n):
    return str(n) if n >= 0 else '(%d)' % n


def verilog_name(name):
    from py4hw.rtl_generation import getValidVerilogName
    return getValidVerilogName(name)


class Dump:
    def __init__(self, obj, method=None):
        self.obj = obj
        self.kind = method or ('clock' if obj.isClockable() else 'propagate')
        self.unsupported = []        # kinds of constructs outside the subset
        self.features = set()        # syntactic features used for known-finding signatures
        self.attr_port = {}          # attribute name -> (port name as emitted in the module header, width, 'in'|'out')
        byw = {}
        for p in obj.inPorts: byw[id(p.wire)] = (verilog_name(p.name), p.wire.getWidth(), 'in')
        for p in obj.outPorts: byw[id(p.wire)] = (verilog_name(p.name), p.wire.getWidth(), 'out')
        self.int_attrs = {}
        for k, v in vars(obj).items():
            if id(v) in byw: self.attr_port[k] = byw[id(v)]
            elif isinstance(v, (bool, int)): self.int_attrs[k] = int(v)
        m = getattr(obj, self.kind)
        self.source = textwrap.dedent(inspect.getsource(m))
        fn = ast.parse(self.source).body[0]
        self.used_attrs, self.assigned_attrs, self.locals = [], [], []
        self.body = self.block(fn.body)
        narrow, cmp_rhs = signatures(fn, {a: v[1] for a, v in self.attr_port.items()})
        if narrow: self.features.add('arithmetic in a context narrower than its value')
        if cmp_rhs: self.features.add('comparison whose right operand is a bitwise/boolean/comparison expression')
        if any(isinstance(n, ast.Match) and not any(isinstance(c.pattern, ast.MatchAs) and c.pattern.name is None for c in n.cases) for n in ast.walk(fn)):
            self.features.add('match without default')

    # ------------------------------------------------------------ expressions
    def unsup(self, what):
        self.unsupported.append(what)
        return '(PUnsupported %s)' % cq_str(what)

    def expr(self, e, value_pos=True):
        if isinstance(e, ast.Constant):
            if isinstance(e.value, (bool, int)): return '(PConst %s)' % cq_z(int(e.value))
            return self.unsup('constant ' + type(e.value).__name__)
        if isinstance(e, ast.Call):
            f = e.func
            if isinstance(f, ast.Name) and f.id == 'ord' and len(e.args) == 1 and not e.keywords and isinstance(e.args[0], ast.Constant) \
                    and isinstance(e.args[0].value, str) and len(e.args[0].value) == 1:
                return '(PConst %d)' % ord(e.args[0].value)
            if isinstance(f, ast.Attribute) and f.attr == 'get' and not e.args and not e.keywords and self.is_self_attr(f.value):
                a = f.value.attr
                if a in self.attr_port:
                    if a != self.attr_port[a][0]: self.features.add('port attribute name differs from port name')
                    if self.attr_port[a][2] == 'out': self.features.add('get of an output port')
                    return '(PGet %s)' % cq_str(self.attr_port[a][0])
                return self.unsup('get on a non-port')
            if isinstance(f, ast.Attribute) and f.attr in ('getParameterValue', 'getParameter'): return self.unsup('parameter')
            return self.unsup('call')
        if isinstance(e, ast.Attribute):
            if self.is_self_attr(e) and e.attr in self.int_attrs:
                if e.attr not in self.used_attrs: self.used_attrs.append(e.attr)
                return '(PAttr %s)' % cq_str(e.attr)
            return self.unsup('attribute')
        if isinstance(e, ast.Name):
            if e.id not in self.locals: self.locals.append(e.id)
            return '(PLocal %s)' % cq_str(e.id)
        if isinstance(e, ast.BinOp):
            if type(e.op) not in BINOPS: return self.unsup('operator ' + type(e.op).__name__)
            return '(PBin %s %s %s)' % (BINOPS[type(e.op)], self.expr(e.left), self.expr(e.right))
        if isinstance(e, ast.UnaryOp):
            if type(e.op) not in UNOPS: return self.unsup('operator ' + type(e.op).__name__)
            return '(PUn %s %s)' % (UNOPS[type(e.op)], self.expr(e.operand, value_pos=not isinstance(e.op, ast.Not)))
        if isinstance(e, ast.Compare):
            if len(e.ops) != 1: return self.unsup('chained comparison')
            if type(e.ops[0]) not in CMPOPS: return self.unsup('operator ' + type(e.ops[0]).__name__)
            return '(PCmp %s %s %s)' % (CMPOPS[type(e.ops[0])], self.expr(e.left), self.expr(e.comparators[0]))
        if isinstance(e, ast.BoolOp):
            if value_pos and not all(self.boolean_valued(v) for v in e.values): self.features.add('BoolOp used as a value')
            if len(e.values) > 3: self.features.add('BoolOp with more than 3 operands')
            op = 'PAnd' if isinstance(e.op, ast.And) else 'POr'
            t = self.expr(e.values[0], value_pos)
            for v in e.values[1:]: t = '(PBool %s %s %s)' % (op, t, self.expr(v, value_pos))
            return t
        if isinstance(e, ast.IfExp):
            self.features.add('IfExp in ' + self.kind)
            return '(PIfExp %s %s %s)' % (self.expr(e.test, False), self.expr(e.body, value_pos), self.expr(e.orelse, value_pos))
        return self.unsup(type(e).__name__)

    @staticmethod
    def boolean_valued(e):
        if isinstance(e, ast.Compare): return True
        if isinstance(e, ast.UnaryOp) and isinstance(e.op, ast.Not): return True
        if isinstance(e, ast.BoolOp): return all(Dump.boolean_valued(v) for v in e.values)
        return False

    @staticmethod
    def is_self_attr(e):
        return isinstance(e, ast.Attribute) and isinstance(e.value, ast.Name) and e.value.id == 'self'

    # ------------------------------------------------------------ statements
    def sunsup(self, what):
        self.unsupported.append(what)
        return '(PSUnsupported %s)' % cq_str(what)

    def block(self, stmts):
        out = [t for t in (self.stmt(s) for s in stmts) if t != 'PSPass']
        if not out: return 'PSPass'
        t = out[-1]
        for x in reversed(out[:-1]): t = '(PSSeq %s %s)' % (x, t)
        return t

    def assign(self, target, value_term):
        if self.is_self_attr(target):
            a = target.attr
            if a in self.int_attrs:
                if a not in self.used_attrs: self.used_attrs.append(a)
                if a not in self.assigned_attrs: self.assigned_attrs.append(a)
                return '(PSAttr %s %s)' % (cq_str(a), value_term)
            return self.sunsup('assignment to a non-integer attribute')
        if isinstance(target, ast.Name):
            if target.id not in self.locals: self.locals.append(target.id)
            return '(PSLocal %s %s)' % (cq_str(target.id), value_term)
        return self.sunsup('assignment target ' + type(target).__name__)

    def stmt(self, s):
        if isinstance(s, ast.Pass): return 'PSPass'
        if isinstance(s, ast.Assert): return 'PSPass'
        if isinstance(s, ast.Expr):
            v = s.value
            if isinstance(v, ast.Constant) and isinstance(v.value, str): return 'PSPass'          # docstring
            if isinstance(v, ast.Call):
                f = v.func
                if isinstance(f, ast.Name) and f.id == 'print': return 'PSPass'
                if isinstance(f, ast.Attribute) and f.attr in ('prepare', 'put') and len(v.args) == 1 and not v.keywords and self.is_self_attr(f.value):
                    a = f.value.attr
                    if a in self.attr_port and self.attr_port[a][2] == 'out':
                        if a != self.attr_port[a][0]: self.features.add('port attribute name differs from port name')
                        want = 'prepare' if self.kind == 'clock' else 'put'
                        if f.attr != want: return self.sunsup('%s in %s' % (f.attr, self.kind))
                        return '(%s %s %s)' % ('PSPrepare' if f.attr == 'prepare' else 'PSPut', cq_str(self.attr_port[a][0]), self.expr(v.args[0]))
                    return self.sunsup(f.attr + ' on something that is not an output port')
            return self.sunsup('expression statement')
        if isinstance(s, ast.Assign):
            if len(s.targets) != 1: return self.sunsup('multiple assignment targets')
            return self.assign(s.targets[0], self.expr(s.value))
        if isinstance(s, ast.AugAssign):
            if type(s.op) not in BINOPS: return self.sunsup('augmented operator ' + type(s.op).__name__)
            t = s.target
            if not (self.is_self_attr(t) and t.attr in self.int_attrs) and not isinstance(t, ast.Name):
                return self.sunsup('augmented assignment target')
            cur = self.expr(ast.Attribute(value=t.value, attr=t.attr, ctx=ast.Load()) if isinstance(t, ast.Attribute) else ast.Name(id=t.id, ctx=ast.Load()))
            return self.assign(t, '(PBin %s %s %s)' % (BINOPS[type(s.op)], cur, self.expr(s.value)))
        if isinstance(s, ast.If):
            return '(PSIf %s %s %s)' % (self.expr(s.test, False), self.block(s.body), self.block(s.orelse))
        if isinstance(s, ast.Match):
            self.features.add('match')
            subj = self.expr(s.subject)
            t = 'PSPass'
            cases = list(s.cases)
            if cases and isinstance(cases[-1].pattern, ast.MatchAs) and cases[-1].pattern.name is None and cases[-1].pattern.pattern is None \
                    and cases[-1].guard is None:
                t = self.block(cases[-1].body); cases = cases[:-1]
            for c in reversed(cases):
                p = c.pattern
                if c.guard is not None:
                    self.features.add('match guard'); return self.sunsup('match guard')
                if isinstance(p, ast.MatchAs):
                    return self.sunsup('match capture pattern' if p.pattern is None else 'match as-pattern')
                if not (isinstance(p, ast.MatchValue) and isinstance(p.value, ast.Constant)
                        and isinstance(p.value.value, int) and not isinstance(p.value.value, bool)):
                    return self.sunsup('match pattern ' + type(p).__name__)
                t = '(PSCase %s %s %s %s)' % (subj, cq_z(p.value.value), self.block(c.body), t)
            return t
        return self.sunsup(type(s).__name__)

    # ------------------------------------------------------------ block term
    def term(self):
        obj = self.obj
        ins = '; '.join('(%s, %d)' % (cq_str(verilog_name(p.name)), p.wire.getWidth()) for p in obj.inPorts)
        outs = '; '.join('(%s, %d)' % (cq_str(verilog_name(p.name)), p.wire.getWidth()) for p in obj.outPorts)
        attrs = '; '.join('(%s, %s)' % (cq_str(a), cq_z(self.int_attrs[a])) for a in self.used_attrs)
        return ('{| b_kind := %s; b_ins := [%s]; b_outs := [%s]; b_attrs := [%s];\n   b_body := %s |}'
                % ('KClock' if self.kind == 'clock' else 'KPropagate', ins, outs, attrs, self.body))


# ---------------------------------------------------------------------------------------------------------------------
# Syntactic detectors for known-finding signatures (mirror of Verilog's expression sizing on the Python ast; used (a) to
# attribute a rejected translation to a known finding, (b) by the generator to keep 'plain' programs free of them).
ARITH = (ast.Add, ast.Sub, ast.Mult, ast.BitAnd, ast.BitOr, ast.BitXor, ast.FloorDiv, ast.Mod)

class Sizes:
    def __init__(self, port_width):
        self.pw = port_width            # attribute name -> width of the port it holds
        self.narrow = False
        self.cmp_rhs = False

    def port_of(self, e):
        if isinstance(e, ast.Call) and isinstance(e.func, ast.Attribute) and e.func.attr == 'get' and Dump.is_self_attr(e.func.value):
            return self.pw.get(e.func.value.attr)
        return None

    def size(self, e):
        w = self.port_of(e)
        if w is not None: return w
        if isinstance(e, ast.BinOp):
            if isinstance(e.op, (ast.LShift, ast.RShift)): return self.size(e.left)
            return max(self.size(e.left), self.size(e.right))
        if isinstance(e, ast.UnaryOp): return 1 if isinstance(e.op, ast.Not) else self.size(e.operand)
        if isinstance(e, (ast.Compare, ast.BoolOp)): return 1
        if isinstance(e, ast.IfExp): return max(self.size(e.body), self.size(e.orelse))
        return 32

    def ub(self, e):
        w = self.port_of(e)
        if w is not None: return w
        if isinstance(e, ast.Constant) and isinstance(e.value, int): return max(int(e.value).bit_length(), 1) if e.value >= 0 else None
        if isinstance(e, (ast.Attribute, ast.Name)): return 32
        if isinstance(e, ast.BinOp):
            a, b = self.ub(e.left), self.ub(e.right)
            if isinstance(e.op, (ast.BitAnd, ast.BitOr, ast.BitXor)): return None if a is None or b is None else max(a, b)
            if isinstance(e.op, ast.Add): return None if a is None or b is None else max(a, b) + 1
            if isinstance(e.op, (ast.RShift, ast.FloorDiv)): return a
            if isinstance(e.op, ast.Mod): return b
            return None
        if isinstance(e, ast.UnaryOp): return 1 if isinstance(e.op, ast.Not) else None
        if isinstance(e, (ast.Compare, ast.BoolOp)): return 1
        if isinstance(e, ast.IfExp):
            a, b = self.ub(e.body), self.ub(e.orelse)
            return None if a is None or b is None else max(a, b)
        return None

    def exact(self, e, W):
        u = self.ub(e)
        if not (W >= 31 or (u is not None and u <= W)): self.narrow = True
        self.walk(e, W)

    def selfdet(self, e):
        self.exact(e, self.size(e))

    def cond(self, e):
        if isinstance(e, ast.BoolOp):
            for v in e.values: self.cond(v)
        elif isinstance(e, ast.UnaryOp) and isinstance(e.op, ast.Not): self.cond(e.operand)
        else: self.selfdet(e)

    def walk(self, e, W):
        if isinstance(e, ast.BinOp):
            if isinstance(e.op, (ast.FloorDiv, ast.Mod)): self.exact(e.left, W); self.exact(e.right, W)
            elif isinstance(e.op, ast.RShift): self.exact(e.left, W); self.selfdet(e.right)
            elif isinstance(e.op, ast.LShift): self.walk(e.left, W); self.selfdet(e.right)
            else: self.walk(e.left, W); self.walk(e.right, W)
        elif isinstance(e, ast.UnaryOp):
            if isinstance(e.op, ast.Not): self.cond(e.operand)
            else: self.walk(e.operand, W)
        elif isinstance(e, ast.Compare):
            if len(e.ops) == 1:
                r = e.comparators[0]
                if (isinstance(r, ast.BinOp) and isinstance(r.op, (ast.BitAnd, ast.BitOr, ast.BitXor))) or isinstance(r, (ast.Compare, ast.BoolOp, ast.IfExp)):
                    self.cmp_rhs = True
                cw = max(self.size(e.left), self.size(r))
                self.exact(e.left, cw); self.exact(r, cw)
        elif isinstance(e, ast.BoolOp):
            for v in e.values: self.cond(v)
        elif isinstance(e, ast.IfExp):
            self.cond(e.test); self.walk(e.body, W); self.walk(e.orelse, W)
        elif isinstance(e, ast.Call) and self.port_of(e) is None:
            for a in e.args: self.walk(a, max(32, self.size(a)))

    def stmts(self, body):
        for s in body:
            if isinstance(s, ast.If):
                self.cond(s.test); self.stmts(s.body); self.stmts(s.orelse)
            elif isinstance(s, ast.Match):
                self.exact(s.subject, max(32, self.size(s.subject)))
                for c in s.cases: self.stmts(c.body)
            elif isinstance(s, ast.Assign):
                self.walk(s.value, max(32, self.size(s.value)))
            elif isinstance(s, ast.AugAssign):
                self.walk(s.value, 32)
            elif isinstance(s, ast.Expr) and isinstance(s.value, ast.Call):
                f = s.value.func
                if isinstance(f, ast.Attribute) and f.attr in ('prepare', 'put') and Dump.is_self_attr(f.value) and len(s.value.args) == 1:
                    lw = self.pw.get(f.value.attr, 32)
                    self.walk(s.value.args[0], max(lw, self.size(s.value.args[0])))
            elif isinstance(s, (ast.For, ast.While)):
                self.stmts(s.body)


def signatures(fn_ast, port_width):
    """(narrow-context arithmetic?, comparison with an unparenthesised right operand?) of a method ast"""
    z = Sizes(port_width)
    z.stmts(fn_ast.body)
    return z.narrow, z.cmp_rhs
