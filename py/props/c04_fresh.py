"""C04: run netlist histories in a FRESH interpreter, so that the first block classes this process ever instantiates are the ones
the history starts with (a bare py4hw.Logic container / a ports-only base class before the blocks that have behaviour).
stdin: JSON list of [label, spec, seed, n_steps];  stdout: one line  @@RESULT <json list of results>"""
import sys, json, random


def main():
    jobs = json.load(sys.stdin)
    import common
    common.quiet_import()
    from props import c04
    try: c04.LIMIT_FN[0] = c04.probe_limit()[1]
    except Exception: pass
    out = []
    for label, spec, seed, n_steps in jobs:
        try:
            r = c04.exercise(spec, random.Random(seed), n_steps=n_steps)
            r.pop('dump', None)
        except Exception as ex:
            r = {'sort_cases': [], 'problems': [['exception', 'the history raised %s: %s' % (type(ex).__name__, ex), {}]], 'notes': [], 'n': 0, 'truth': None}
        out.append(r)
    sys.stdout.write('\n@@RESULT ' + json.dumps(out, default=str) + '\n')


if __name__ == '__main__':
    main()
