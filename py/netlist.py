"""Dump a live py4hw design as a term of Model/SimKernel.design (leaves = the REGENERATED Gen functions applied to
the instance's widths / constants), run the real simulator on the same stimulus, and compare inside Coq."""
import os, sys, json
from common import COQ, zlit, zlist, blit, coq_eval, quiet

class NotDumpable(Exception):
    pass


def _reg_drives_q_at_construction():
    """does Reg.__init__ put the initial value on q?  (read from the source of the tree under test, not assumed)"""
    import ast
    from common import REPO
    try:
        tree = ast.parse(open(os.path.join(REPO, 'py4hw/logic/storage.py'), encoding='utf-8').read())
        for c in tree.body:
            if isinstance(c, ast.ClassDef) and c.name == 'Reg':
                for m in c.body:
                    if isinstance(m, ast.FunctionDef) and m.name == '__init__':
                        return any(isinstance(n, ast.Call) and isinstance(n.func, ast.Attribute) and n.func.attr == 'put'
                                   and ast.unparse(n.func.value) in ('self.q', 'q') for n in ast.walk(m))
    except Exception:
        pass
    return False

POWERUP_Q = _reg_drives_q_at_construction()


def load_sigs():
    return json.load(open(os.path.join(COQ, 'Gen', 'gen.json')))['sigs']


def all_objects(obj, acc=None):
    acc = [] if acc is None else acc
    acc.append(obj)
    for c in obj.children.values():
        all_objects(c, acc)
    return acc


def all_wires(top):
    """every wire reachable from the hierarchy: Logic._wires and every port wire."""
    seen, out = set(), []
    def add(w):
        if w is not None and id(w) not in seen:
            seen.add(id(w)); out.append(w)
    for o in all_objects(top):
        for w in o._wires.values(): add(w)
        for p in o.inPorts + o.outPorts + getattr(o, 'inOutPorts', []): add(p.wire)
    return out


class Dump:
    def __init__(self, hw, sigs=None, extra_wires=()):
        self.hw = hw
        self.sigs = sigs or load_sigs()
        with quiet():
            self.sim = hw.getSimulator()
        self.wires = all_wires(hw)
        for w in extra_wires:
            if all(w is not x for x in self.wires): self.wires.append(w)
        self.wid = {id(w): i for i, w in enumerate(self.wires)}
        self.combs, self.seqs, self.drivers, self.st0 = [], [], [], []
        self.seq_objs = []
        self.init_pokes = []     # constructor-time puts: a register shows its (masked) initial value on q at power-up
        for leaf in self.sim.propagatables:
            self.combs.append(self.leaf_term(leaf, 'propagate'))
        for drv, ds in self.sim.clockDrivers.items():
            idxs = []
            for leaf in ds.clockables:
                t, st = self.leaf_term(leaf, 'clock')
                idxs.append(len(self.seqs)); self.seqs.append(t); self.st0.append(st); self.seq_objs.append(leaf)
                if type(leaf).__name__ == 'Reg' and POWERUP_Q:
                    self.init_pokes.append((self.w(leaf.q), leaf.reset_value))
            en = 'None' if drv.enable is None else 'Some %d%%nat' % self.w(drv.enable)
            self.drivers.append('{| d_enable := %s; d_leaves := [%s] |}' % (en, '; '.join('%d%%nat' % i for i in idxs)))

    def w(self, wire):
        if id(wire) not in self.wid:
            self.wid[id(wire)] = len(self.wires); self.wires.append(wire)
        return self.wid[id(wire)]

    def leaf_term(self, obj, method):
        cls = type(obj).__name__
        sig = self.sigs.get('%s_%s' % (cls, method))
        if sig is None:
            raise NotDumpable('%s.%s is not translated' % (cls, method))
        args, ins, pats = [], [], []
        k = [0]
        def var():
            k[0] += 1; return 'x%d' % k[0]
        for name, ty in sig['params']:
            if name.startswith('w_'):
                wobj = getattr(obj, name[2:]); args.append(zlit(wobj.getWidth()) if wobj is not None else '0')
            elif name.startswith('lw_'):
                args.append(zlist([x.getWidth() for x in getattr(obj, name[3:])]))
            elif name.startswith('has_'):
                args.append(blit(getattr(obj, name[4:]) is not None))
            elif name.startswith('c_'):
                v = getattr(obj, name[2:])
                if ty == 'list Z':
                    v = [ord(ch) for ch in v] if isinstance(v, str) else list(v)
                    args.append(zlist(v))
                else:
                    if isinstance(v, bool): v = int(v)
                    if not isinstance(v, int): raise NotDumpable('%s.%s is %r' % (cls, name[2:], type(v)))
                    args.append(zlit(v))
            elif name.startswith('p_'):
                args.append(zlit(obj.getParameterValue(name[2:])))
            elif name == 'rnd':
                args.append('0')
            elif name == 'st':
                args.append('s')
            elif name.startswith('v_'):
                wobj = getattr(obj, name[2:])
                if wobj is None: args.append('0')
                else:
                    x = var(); ins.append(self.w(wobj)); pats.append(x); args.append(x)
            elif name.startswith('l_'):
                items = []
                for wobj in getattr(obj, name[2:]):
                    x = var(); ins.append(self.w(wobj)); pats.append(x)
                    items.append('(%s, %s)' % (zlit(wobj.getWidth()), x))
                args.append('[' + '; '.join(items) + ']')
            else:
                raise NotDumpable('parameter %s' % name)
        fname = sig['name']
        outs = sig['outs']; louts = sig['listouts']
        nres = len(outs) + len(louts)
        out_ids, out_terms = [], []
        for p, definite in outs:
            out_ids.append(self.w(getattr(obj, p)))
            proj = 'r' if nres == 1 else '(%s_o_%s r)' % (cls, p)
            out_terms.append('[Some %s]' % proj if definite else '[%s]' % proj)
        for L in louts:
            ws = getattr(obj, L)
            out_ids += [self.w(x) for x in ws]
            proj = 'r' if nres == 1 else '(%s_ol_%s r)' % (cls, L)
            out_terms.append('map Some %s' % proj)
        outl = ' ++ '.join(out_terms) if out_terms else '[]'
        call = '%s %s' % (fname, ' '.join(args))
        pat = '[' + '; '.join(pats) + ']'
        idl = lambda xs: '[' + '; '.join('%d%%nat' % i for i in xs) + ']'
        if method == 'propagate':
            if sig['state']:
                raise NotDumpable('%s: stateful propagate' % cls)
            return '{| c_in := %s; c_out := %s; c_f := fun ins => match ins with %s => let r := %s in %s | _ => [] end |}' % (
                idl(ins), idl(out_ids), pat, call, outl)
        # sequential
        if not sig['state']: raise NotDumpable('%s: clock without state' % cls)
        fields = []
        for a in sig['state']:
            v = getattr(obj, a)
            if isinstance(v, (list, tuple)): fields.append('%s_s_%s := %s' % (cls, a, zlist(v)))
            else:
                if isinstance(v, bool): v = int(v)
                if not isinstance(v, int): raise NotDumpable('%s.%s is %r' % (cls, a, type(v)))
                fields.append('%s_s_%s := %s' % (cls, a, zlit(v)))
        st0 = 'St_%s {| %s |}' % (cls, '; '.join(fields))
        if nres == 0:
            body = "let s' := %s in (St_%s s', [])" % (call, cls)
        else:
            body = "let '(s', r) := %s in (St_%s s', %s)" % (call, cls, outl)
        t = '{| s_in := %s; s_out := %s; s_f := fun st ins => match st, ins with St_%s s, %s => %s | _, _ => (st, []) end |}' % (
            idl(ins), idl(out_ids), cls, pat, body)
        return t, st0

    def coq_design(self, name='d'):
        ws = zlist([w.getWidth() for w in self.wires])
        sep = ';\n    '
        return ('Definition %s : design AnySt :=\n  {| widths := %s;\n   combs := [\n    %s];\n   seqs := [\n    %s];\n   drivers := [%s] |}.\n'
                'Definition %s_st0 : list AnySt := [%s].\n') % (
            name, ws, sep.join(self.combs), sep.join(self.seqs), '; '.join(self.drivers), name, '; '.join(self.st0))

    # ---- real simulator side
    def values(self):
        return [w.get() for w in self.wires]

    def run_impl(self, steps):
        """steps: list of (pokes [(wire_id, value)], ncycles).  returns the wire-value vector after each step."""
        out = []
        for pokes, n in steps:
            for wid, v in pokes:
                self.wires[wid].put(v)
            with quiet():
                self.sim.clk(n)
            out.append(self.values())
        return out

    def seq_states(self):
        res = []
        for leaf in self.seq_objs:
            sig = self.sigs['%s_clock' % type(leaf).__name__]
            res.append([getattr(leaf, a) for a in sig['state']])
        return res


PRELUDE = 'From V Require Import Base.PyInt Gen.WireOps Gen.Helpers Gen.Prims Gen.Seq Model.SimKernel Model.Trace.\n'


def steps_term(steps):
    return '[' + '; '.join('([%s], %d%%nat)' % ('; '.join('(%d%%nat, %s)' % (w, zlit(v)) for w, v in pokes), n)
                           for pokes, n in steps) + ']'


def compare(tag, dumps_steps, timeout=600):
    """dumps_steps: list of (Dump, steps, init_vals, impl_trace).  One coqc call; returns per design
    None when the model trace equals the implementation trace, else (step, wire, expected_impl, model)."""
    items, body = [], [PRELUDE]
    for i, (dp, steps, init_vals, trace) in enumerate(dumps_steps):
        body.append(dp.coq_design('d%d' % i))
        exp = '[' + '; '.join(zlist(v) for v in [init_vals] + trace) + ']'
        pk = '[' + '; '.join('(%d%%nat, %s)' % (w, zlit(v)) for w, v in dp.init_pokes) + ']'
        items.append(('r%d' % i, 'first_diff %s (run_trace d%d (init_poked d%d d%d_st0 %s) %s)' % (exp, i, i, i, pk, steps_term(steps))))
    res = coq_eval(tag, '\n'.join(body), items, timeout=timeout)
    out = []
    for i in range(len(dumps_steps)):
        r = res['r%d' % i]
        out.append(None if r is None else r[1])
    return out
