"""Run the REAL Verilog generator on a live py4hw block, parse the text, and execute it in the Coq Verilog semantics
(Model/VSem.v) against the real cycle simulator on the same stimulus."""
import io, contextlib
import vparse
from common import coq_eval, zlit, quiet, quiet_import

PRELUDE = ('From V Require Import Base.PyInt Model.VSyntax Model.VSem Model.VDiv0.\n'
           'Open Scope string_scope.\n')


def emit(top, hierarchy=True):
    """the text the real generator returns (stdout noise swallowed)"""
    py4hw = quiet_import()
    with quiet():
        g = py4hw.VerilogGenerator(top)
        return g.getVerilogForHierarchy() if hierarchy else g.getVerilog()


def clock_name(top):
    py4hw = quiet_import()
    from py4hw.base import getObjectClockDriver
    try:
        return getObjectClockDriver(top).name
    except Exception:
        return 'clk'


def coq_steps(steps):
    return '[' + '; '.join('([%s], %d%%nat)' % ('; '.join('("%s", %s)' % (n, zlit(v)) for n, v in ins), n) for ins, n in steps) + ']'


def run_impl(hw, top, steps):
    """steps: [( [(in_port_name, value)], ncycles )].  Pokes the wires attached to the top block's input ports, runs the real
    simulator, returns the output-port values initially and after each step."""
    inw = {p.name: p.wire for p in top.inPorts}
    outs = [p.wire for p in top.outPorts]
    with quiet():
        sim = hw.getSimulator()
    tr = [[w.get() for w in outs]]
    for ins, n in steps:
        for name, v in ins: inw[name].put(v)
        with quiet():
            if n == 0: sim.propagateAll()
            else: sim.clk(n)
        tr.append([w.get() for w in outs])
    return tr


def vsim_term(name, steps, top, top_module):
    from vparse import cq_str
    outs = '[' + '; '.join(cq_str(vname(p.name)) for p in top.outPorts) + ']'
    return ('match elaborate %s 200 %s with inl e => inl e | inr f => if flat_div0 f then inl (ErrUnsupported "division or modulo by a constant zero: x in Verilog") else inr (vsim f %s %s %s) end'
            % (name, cq_str(top_module), cq_str(clock_name(top)), coq_steps([([(vname(a), v) for a, v in ins], n) for ins, n in steps]), outs))


def vname(portname):
    """the Verilog name of a top-level port (reserved words get the generator's prefix; mirrors getValidVerilogName)"""
    py4hw = quiet_import()
    from py4hw.rtl_generation import getValidVerilogName
    return getValidVerilogName(portname)


def compare(tag, cases, timeout=900):
    """cases: list of (text, top_obj, steps, impl_trace).  Returns per case:
       ('ok',) | ('parse', msg) | ('elab', err) | ('unstable',) | ('diff', step, port_index, impl, verilog)"""
    items, body, res, idx = [], [PRELUDE], [None] * len(cases), []
    for i, (text, top, steps, trace) in enumerate(cases):
        try:
            mods = vparse.parse(text)
        except vparse.VParseError as ex:
            res[i] = ('parse', str(ex)); continue
        body.append('Definition dsg%d : design := %s.' % (i, vparse.cq_design(mods)))
        items.append(('r%d' % i, vsim_term('dsg%d' % i, steps, top, mods[0][1])))
        idx.append(i)
    if items:
        out = coq_eval(tag, '\n'.join(body), items, timeout=timeout)
        for i in idx:
            r = out['r%d' % i]
            # inl err | inr (trace, ok)
            if isinstance(r, tuple) and r[0] == 'inl' or (isinstance(r, str) and r.startswith('inl')):
                res[i] = ('elab', r); continue
            res[i] = interpret(r, cases[i][3])
    return res


def interpret(r, trace):
    # parse_coq_value gives 'inr' followed by the tuple in a flat token stream: handled in parse below
    kind, val = r
    if kind == 'inl': return ('elab', val)
    tr, ok = val
    if not ok: return ('unstable',)
    for t, (a, b) in enumerate(zip(trace, tr)):
        if a is None: continue            # row excluded by the property (division/modulo by zero)
        for k, (x, y) in enumerate(zip(a, b)):
            if x != y: return ('diff', t, k, x, y)
    if len(tr) != len(trace): return ('diff', min(len(tr), len(trace)), -1, None, None)
    return ('ok',)
