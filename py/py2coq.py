#!/usr/bin/env python3
"""py2coq: fail-closed translator from py4hw leaf methods (propagate / clock / static helpers)
to Gallina definitions.  Works on the ast of /repo's *current working tree* (no import of py4hw).

Output conventions (what the proofs see):
  ports         in-port value  v_<p> : Z,  width  w_<p> : Z,  optional port flag has_<p> : bool
  attributes    read-only -> c_<a> : Z ; written in the method -> field of record <Cls>_state
  parameters    self.getParameterValue('n') -> p_<n> : Z
  random.randint(..) -> rnd : Z  (an oracle argument: the model says nothing about its value)
  outputs       definitely written port -> Z ; conditionally written -> option Z
  single result -> returned bare; several -> record <Cls>_out (fields o_<p>)
Anything outside the subset raises Unsupported: the class is then omitted from the generated
file and every obligation depending on it breaks (reported by the check).
"""
import ast, copy, sys, os, json, hashlib

class Unsupported(Exception):
    pass

def lit(n):
    n = int(n)
    return str(n) if n >= 0 else '(%d)' % n

BIN = {ast.Add: '({} + {})', ast.Sub: '({} - {})', ast.Mult: '({} * {})',
       ast.FloorDiv: '(Z.div {} {})', ast.Mod: '(Z.modulo {} {})',
       ast.BitAnd: '(Z.land {} {})', ast.BitOr: '(Z.lor {} {})', ast.BitXor: '(Z.lxor {} {})',
       ast.LShift: '(py_shl {} {})', ast.RShift: '(py_shr {} {})'}
CMP = {ast.Eq: '({} =? {})', ast.NotEq: '(negb ({} =? {}))', ast.Lt: '({} <? {})',
       ast.LtE: '({} <=? {})', ast.Gt: '({} >? {})', ast.GtE: '({} >=? {})'}


class ClassInfo:
    """What __init__ binds: ports (in/out/optional/list) and plain attributes."""
    def __init__(self, cdef):
        self.name = cdef.name
        self.inports, self.outports, self.optional = [], [], set()
        self.listports = {}      # attr -> 'in'|'out'
        self.attrs = []          # non-port attributes in order of first assignment
        self.attr_init = {}      # attr -> ast of the initialiser (for int-literal initial state)
        self.methods = {}
        for m in cdef.body:
            if isinstance(m, ast.FunctionDef):
                self.methods[m.name] = m
        init = self.methods.get('__init__')
        if init is not None:
            self._scan(init.body)

    def _port_call(self, v):
        if isinstance(v, ast.Call) and isinstance(v.func, ast.Attribute) and \
           isinstance(v.func.value, ast.Name) and v.func.value.id == 'self' and \
           v.func.attr in ('addIn', 'addOut', 'addInOut'):
            return {'addIn': 'in', 'addOut': 'out', 'addInOut': 'inout'}[v.func.attr]
        return None

    def _scan(self, body):
        for st in body:
            if isinstance(st, ast.Assign) and len(st.targets) == 1:
                t = st.targets[0]
                if isinstance(t, ast.Attribute) and isinstance(t.value, ast.Name) and t.value.id == 'self':
                    a = t.attr
                    kind = self._port_call(st.value)
                    if kind == 'in':
                        if a not in self.inports: self.inports.append(a)
                    elif kind in ('out', 'inout'):
                        if a not in self.outports: self.outports.append(a)
                    elif isinstance(st.value, ast.Constant) and st.value.value is None and \
                            (a in self.inports or a in self.outports or True) and self._is_optional_port(a):
                        self.optional.add(a)
                    else:
                        if a not in self.attrs and a not in self.inports and a not in self.outports:
                            self.attrs.append(a)
                            self.attr_init[a] = st.value
            elif isinstance(st, ast.If):
                self._scan(st.body); self._scan(st.orelse)
            elif isinstance(st, ast.For):
                # self.L.append(self.addIn/addOut(...)) -> list port
                for s2 in ast.walk(st):
                    if isinstance(s2, ast.Call) and isinstance(s2.func, ast.Attribute) and s2.func.attr == 'append' \
                       and isinstance(s2.func.value, ast.Attribute) and isinstance(s2.func.value.value, ast.Name) \
                       and s2.func.value.value.id == 'self' and s2.args:
                        k = self._port_call(s2.args[0])
                        if k:
                            self.listports[s2.func.value.attr] = k
        for a in list(self.attrs):
            if a in self.listports or a in self.inports or a in self.outports:
                self.attrs.remove(a)
        for a in self.optional:
            if a in self.attrs: self.attrs.remove(a)

    def _is_optional_port(self, a):
        # `self.a = None` counts as "optional port" only if the same attribute is bound to a port elsewhere
        init = self.methods['__init__']
        for n in ast.walk(init):
            if isinstance(n, ast.Assign) and len(n.targets) == 1 and isinstance(n.targets[0], ast.Attribute) \
               and n.targets[0].attr == a and self._port_call(n.value):
                return True
        return False


def ends_with_return(body):
    return bool(body) and isinstance(body[-1], ast.Return)


def normalize_returns(body, kind):
    """early returns become else-branches: `if c: A; return [x]` followed by R  ==  `if c: A[; return x] else: R`.
    In propagate()/clock() (no return value) a trailing bare `return` is dropped."""
    out = []
    for i, st in enumerate(body):
        if isinstance(st, ast.If) and ends_with_return(st.body) and not ends_with_return(st.orelse) and (st.orelse or body[i + 1:]):
            rest = list(st.orelse) + list(body[i + 1:])
            new_body = list(st.body) if kind == 'func' else list(st.body[:-1]) or [ast.Pass()]
            if kind != 'func' and st.body[-1].value is not None: return out + body[i:]      # `return value` in a method: leave it (rejected later)
            out.append(ast.If(test=st.test, body=new_body, orelse=normalize_returns(rest, kind)))
            return out
        if isinstance(st, ast.If) and ends_with_return(st.orelse) and not ends_with_return(st.body) and body[i + 1:]:
            rest = list(st.body) + list(body[i + 1:])
            new_else = list(st.orelse) if kind == 'func' else list(st.orelse[:-1]) or [ast.Pass()]
            if kind != 'func' and st.orelse[-1].value is not None: return out + body[i:]
            out.append(ast.If(test=st.test, body=normalize_returns(rest, kind), orelse=new_else))
            return out
        if kind != 'func' and isinstance(st, ast.Return) and st.value is None and i == len(body) - 1:
            return out
        out.append(st)
    return out



# --------------------------------------------------------------------------------------------
# Inlining of private helpers: `self._foo(args)` (a method of the same class) and `_foo(args)` (a function of the same module) are
# replaced by their bodies before translation, so that extracting a helper out of propagate()/clock()/put() is a harmless rewrite
# for the translator too.  Fail closed: anything not understood is left in place and rejected later as an unsupported expression.
def _simple_arg(a):
    return isinstance(a, (ast.Name, ast.Constant)) or (isinstance(a, ast.Attribute) and _simple_arg(a.value))

def _tail_returns(body, ret):
    """replace the `return e` statements in tail position by `ret = e`; None if a return is anywhere else or missing on a path"""
    if not body: return None
    out = list(body[:-1])
    for st in out:
        if any(isinstance(n, ast.Return) for n in ast.walk(st)): return None
    last = body[-1]
    if isinstance(last, ast.Return):
        if last.value is None: return None
        return out + [ast.Assign(targets=[ast.Name(id=ret, ctx=ast.Store())], value=last.value, lineno=0)]
    if isinstance(last, ast.If):
        b, o = _tail_returns(last.body, ret), _tail_returns(last.orelse, ret)
        if b is None or o is None: return None
        return out + [ast.If(test=last.test, body=b, orelse=o)]
    return None

class Inliner:
    def __init__(self, methods, funcs):
        self.methods, self.funcs, self.k = methods, funcs, 0

    def callee(self, call):
        f = call.func
        if call.keywords: return None
        if isinstance(f, ast.Attribute) and isinstance(f.value, ast.Name) and f.value.id == 'self' and f.attr in self.methods:
            m = self.methods[f.attr]
            if not m.args.args or m.args.args[0].arg != 'self': return None
            return m, [a.arg for a in m.args.args[1:]]
        if isinstance(f, ast.Attribute) and isinstance(f.value, ast.Name) and f.attr in self.methods \
           and any(isinstance(d, ast.Name) and d.id == 'staticmethod' for d in self.methods[f.attr].decorator_list):
            m = self.methods[f.attr]                      # ClassName._helper(args) / self._helper(args) on a @staticmethod
            return m, [a.arg for a in m.args.args]
        if isinstance(f, ast.Name) and f.id in self.funcs:
            m = self.funcs[f.id]
            return m, [a.arg for a in m.args.args]
        return None

    def expand(self, call):
        """-> (prelude statements, replacement expression) or None"""
        c = self.callee(call)
        if c is None: return None
        m, params = c
        if m.args.vararg or m.args.kwarg or m.args.kwonlyargs or m.args.defaults or len(params) != len(call.args): return None
        if any(isinstance(n, (ast.FunctionDef, ast.Lambda, ast.Yield, ast.YieldFrom, ast.Global, ast.Nonlocal, ast.While, ast.Try)) for st in m.body for n in ast.walk(st)):
            return None
        self.k += 1; tag = '__i%d' % self.k
        body = [st for st in copy.deepcopy(m.body) if not (isinstance(st, ast.Expr) and isinstance(st.value, ast.Constant))]
        body = normalize_returns(body, 'func')
        ret = 'ret' + tag
        body = _tail_returns(body, ret)
        if body is None: return None
        names, pre = {}, []
        for prm, a in zip(params, call.args):
            if _simple_arg(a): names[prm] = a
            else:
                v = prm + tag; pre.append(ast.Assign(targets=[ast.Name(id=v, ctx=ast.Store())], value=a, lineno=0)); names[prm] = ast.Name(id=v, ctx=ast.Load())
        # parameters must not be re-assigned in the callee (the substitution would be wrong)
        stored = {n.id for st in body for n in ast.walk(st) if isinstance(n, ast.Name) and isinstance(n.ctx, ast.Store)}
        if stored & set(params): return None
        for loc in stored:
            if loc != ret: names[loc] = ast.Name(id=loc + tag, ctx=ast.Load())
        class R(ast.NodeTransformer):
            def visit_Name(self, n):
                r = names.get(n.id)
                if r is None: return n
                if isinstance(n.ctx, ast.Load): return copy.deepcopy(r)
                return ast.Name(id=r.id, ctx=ast.Store()) if isinstance(r, ast.Name) else n
        body = [R().visit(st) for st in body]
        # a body that is just `ret = e`: pure expression
        if len(body) == 1 and isinstance(body[0], ast.Assign) and not pre:
            return [], body[0].value
        return pre + body, ast.Name(id=ret, ctx=ast.Load())

    def rewrite_expr(self, e, pre):
        """inline the calls inside expression e (innermost first); prelude statements are appended to pre"""
        inl = self
        class V(ast.NodeTransformer):
            def visit_Call(self, n):
                n = self.generic_visit(n)
                r = inl.expand(n)
                if r is None: return n
                p, x = r
                p2 = inl.block(p)                 # helpers calling helpers
                pre.extend(p2)
                return inl.rewrite_expr(x, pre) if any(isinstance(c, ast.Call) and inl.callee(c) for c in ast.walk(x)) else x
        return V().visit(e)

    def block(self, body, depth=0):
        out = []
        for st in body:
            pre = []
            if isinstance(st, ast.If):
                st = ast.If(test=self.rewrite_expr(st.test, pre), body=self.block(st.body), orelse=self.block(st.orelse))
            elif isinstance(st, ast.For):
                st = ast.For(target=st.target, iter=self.rewrite_expr(st.iter, pre), body=self.block(st.body), orelse=self.block(st.orelse), lineno=0)
            elif isinstance(st, (ast.Assign, ast.AugAssign, ast.Expr, ast.Return, ast.Assert)):
                st = copy.deepcopy(st)
                for fld in ('value', 'test'):
                    if getattr(st, fld, None) is not None: setattr(st, fld, self.rewrite_expr(getattr(st, fld), pre))
            out += pre + [st]
        return [ast.fix_missing_locations(x) for x in out]


def inline_helpers(fdef, cdef, tree):
    """a copy of fdef whose calls to private helpers of the same class / module are inlined"""
    methods = {f.name: f for f in (cdef.body if cdef is not None else []) if isinstance(f, ast.FunctionDef) and f.name != fdef.name
               and f.name not in ('put', 'get', 'prepare', 'getWidth', 'clock', 'propagate', '__init__')}
    funcs = {f.name: f for f in (tree.body if tree is not None else []) if isinstance(f, ast.FunctionDef) and f.name != fdef.name}
    if not any(isinstance(n, ast.Call) for st in fdef.body for n in ast.walk(st)): return fdef
    inl = Inliner(methods, funcs)
    new = copy.deepcopy(fdef)
    try:
        new.body = inl.block(new.body)
    except RecursionError:
        return fdef
    return new if inl.k else fdef


def unroll_literal_loops(fdef):
    """`for a, b in ((x1, y1), (x2, y2)): body` (the table written in place or bound once to a local) becomes the bodies in sequence with the
    targets replaced by the table entries; entries must be names / self attributes / constants and the body must not rebind the targets."""
    tables = {}
    stores = {}
    for st in fdef.body:
        for n in ast.walk(st):
            if isinstance(n, ast.Name) and isinstance(n.ctx, ast.Store): stores[n.id] = stores.get(n.id, 0) + 1
    def literal_table(e):
        if not isinstance(e, (ast.Tuple, ast.List)) or not e.elts: return None
        rows = []
        for r in e.elts:
            if isinstance(r, (ast.Tuple, ast.List)) and all(_simple_arg(x) for x in r.elts): rows.append(list(r.elts))
            elif _simple_arg(r): rows.append([r])
            else: return None
        return rows
    for st in fdef.body:
        for n in ast.walk(st):
            if isinstance(n, ast.Assign) and len(n.targets) == 1 and isinstance(n.targets[0], ast.Name) and stores.get(n.targets[0].id) == 1:
                t = literal_table(n.value)
                if t is not None: tables[n.targets[0].id] = t
    changed = [False]; used = set()
    def block(body):
        out = []
        for st in body:
            if isinstance(st, ast.For) and not st.orelse:
                rows = literal_table(st.iter)
                if rows is None and isinstance(st.iter, ast.Name) and st.iter.id in tables: rows = tables[st.iter.id]
                tg = [st.target] if isinstance(st.target, ast.Name) else list(st.target.elts) if isinstance(st.target, ast.Tuple) else None
                ok = rows is not None and tg is not None and all(isinstance(x, ast.Name) for x in tg) and all(len(r) == len(tg) for r in rows)
                if ok:
                    names = [x.id for x in tg]
                    inner = [n for s2 in st.body for n in ast.walk(s2)]
                    if any(isinstance(n, (ast.Break, ast.Continue)) for n in inner) or \
                       any(isinstance(n, ast.Name) and isinstance(n.ctx, ast.Store) and n.id in names for n in inner): ok = False
                if ok:
                    for r in rows:
                        m = dict(zip(names, r))
                        class R(ast.NodeTransformer):
                            def visit_Name(self, n):
                                return copy.deepcopy(m[n.id]) if n.id in m and isinstance(n.ctx, ast.Load) else n
                        out += block([ast.fix_missing_locations(R().visit(copy.deepcopy(s2))) for s2 in st.body])
                    if isinstance(st.iter, ast.Name): used.add(st.iter.id)
                    changed[0] = True
                    continue
                st = ast.For(target=st.target, iter=st.iter, body=block(st.body), orelse=[], lineno=0)
            elif isinstance(st, ast.If):
                st = ast.If(test=st.test, body=block(st.body), orelse=block(st.orelse))
            out.append(ast.fix_missing_locations(st))
        return out
    new = copy.deepcopy(fdef)
    new.body = block(new.body)
    if not changed[0]: return fdef
    # drop the table bindings that are no longer read
    def loads(name): return sum(1 for st in new.body for n in ast.walk(st) if isinstance(n, ast.Name) and n.id == name and isinstance(n.ctx, ast.Load))
    def drop(body):
        out = []
        for st in body:
            if isinstance(st, ast.Assign) and len(st.targets) == 1 and isinstance(st.targets[0], ast.Name) and st.targets[0].id in used and loads(st.targets[0].id) == 0:
                continue
            if isinstance(st, ast.If): st = ast.If(test=st.test, body=drop(st.body) or [ast.Pass()], orelse=drop(st.orelse))
            elif isinstance(st, ast.For): st = ast.For(target=st.target, iter=st.iter, body=drop(st.body) or [ast.Pass()], orelse=[], lineno=0)
            out.append(ast.fix_missing_locations(st))
        return out
    new.body = drop(new.body)
    return new


def propagate_port_aliases(fdef, ci):
    """`x = self.<port>` with x assigned exactly once and read only later in the same block: the reads of x become `self.<port>` and the
    assignment disappears (a port attribute is never rebound inside propagate()/clock(), so the two spellings denote the same wire)."""
    ports = set(ci.inports) | set(ci.outports) | set(ci.optional)
    # a list attribute that is never rebound in the method (`self.data = ...`): a local naming it names the same (mutable) object
    rebound = {t.attr for st in fdef.body for n in ast.walk(st) if isinstance(n, (ast.Assign, ast.AugAssign))
               for t in (n.targets if isinstance(n, ast.Assign) else [n.target])
               if isinstance(t, ast.Attribute) and isinstance(t.value, ast.Name) and t.value.id == 'self'}
    def init_is_list(a):
        v = ci.attr_init.get(a)
        return isinstance(v, (ast.List, ast.ListComp)) or (isinstance(v, ast.BinOp) and isinstance(v.left, ast.List))
    ports |= {a for a in ci.attrs if init_is_list(a) and a not in rebound}
    stores = {}
    for st in fdef.body:
        for n in ast.walk(st):
            if isinstance(n, ast.Name) and isinstance(n.ctx, ast.Store): stores[n.id] = stores.get(n.id, 0) + 1
    changed = [False]
    def loads_in(stmts, name):
        return sum(1 for st in stmts for n in ast.walk(st) if isinstance(n, ast.Name) and n.id == name and isinstance(n.ctx, ast.Load))
    total_loads = lambda name: loads_in(fdef.body, name)
    def block(body):
        out = []
        i = 0
        body = list(body)
        while i < len(body):
            st = body[i]
            if isinstance(st, ast.Assign) and len(st.targets) == 1 and isinstance(st.targets[0], ast.Name) \
               and isinstance(st.value, ast.Attribute) and isinstance(st.value.value, ast.Name) and st.value.value.id == 'self' \
               and st.value.attr in ports and stores.get(st.targets[0].id) == 1 \
               and loads_in(body[i + 1:], st.targets[0].id) == total_loads(st.targets[0].id):
                x, attr = st.targets[0].id, st.value.attr
                class R(ast.NodeTransformer):
                    def visit_Name(self, n):
                        if n.id == x and isinstance(n.ctx, ast.Load):
                            return ast.Attribute(value=ast.Name(id='self', ctx=ast.Load()), attr=attr, ctx=ast.Load())
                        return n
                body[i + 1:] = [ast.fix_missing_locations(R().visit(s2)) for s2 in body[i + 1:]]
                changed[0] = True
                i += 1; continue
            if isinstance(st, ast.If):
                st = ast.If(test=st.test, body=block(st.body), orelse=block(st.orelse))
            elif isinstance(st, ast.For):
                st = ast.For(target=st.target, iter=st.iter, body=block(st.body), orelse=block(st.orelse), lineno=0)
            out.append(ast.fix_missing_locations(st)); i += 1
        return out
    new = copy.deepcopy(fdef)
    new.body = block(new.body)
    return new if changed[0] else fdef


class Tr:
    """Symbolic state-passing translation of one method body."""
    def __init__(self, ci, mname, kind):
        self.ci, self.mname, self.kind = ci, mname, kind   # kind: 'propagate' | 'clock' | 'func'
        self.cnt = 0
        self.used_w, self.used_v, self.used_c, self.used_p, self.used_has = [], [], [], [], []
        self.used_lw, self.used_lv = [], []
        self.state = []          # attributes written
        self.outs = []           # ports written (in order of first write)
        self.listouts = []       # list ports written in a map-loop
        self.rnd = False
        self.guards = []         # informational: Python-level error conditions met (div, shifts)
        self.has_asserts = False

    def fresh(self, base):
        self.cnt += 1
        return '%s_%d' % (base, self.cnt)

    def use(self, lst, x):
        if x not in lst: lst.append(x)

    # ---------------- expressions ----------------
    def is_self_attr(self, e):
        return isinstance(e, ast.Attribute) and isinstance(e.value, ast.Name) and e.value.id == 'self'

    def port_of(self, e, env):
        """e denotes a wire: self.<port> or a loop item variable bound to a list port element."""
        if self.is_self_attr(e) and (e.attr in self.ci.inports or e.attr in self.ci.outports or e.attr in self.ci.optional):
            return ('port', e.attr)
        if isinstance(e, ast.Name) and env.get('item:' + e.id):
            return ('item', e.id)
        return None

    def tr_int(self, e, env):
        if isinstance(e, ast.Constant):
            if isinstance(e.value, bool): return '1' if e.value else '0'
            if isinstance(e.value, int): return lit(e.value)
            raise Unsupported('constant %r' % (e.value,))
        if isinstance(e, ast.Name):
            if e.id not in env or env[e.id] is None:
                raise Unsupported('name %s possibly undefined' % e.id)
            return env[e.id]
        if self.is_self_attr(e):
            a = e.attr
            key = 'self.' + a
            if key in env:
                return env[key]
            if a in self.ci.attrs:
                self.use(self.used_c, a); return 'c_' + a
            raise Unsupported('attribute self.%s read as an integer' % a)
        if isinstance(e, ast.BinOp):
            if type(e.op) not in BIN: raise Unsupported('operator %s' % type(e.op).__name__)
            return BIN[type(e.op)].format(self.tr_int(e.left, env), self.tr_int(e.right, env))
        if isinstance(e, ast.UnaryOp):
            if isinstance(e.op, ast.Invert): return '(Z.lnot %s)' % self.tr_int(e.operand, env)
            if isinstance(e.op, ast.USub): return '(Z.opp %s)' % self.tr_int(e.operand, env)
            if isinstance(e.op, ast.UAdd): return self.tr_int(e.operand, env)
            if isinstance(e.op, ast.Not): return '(b2z %s)' % self.tr_bool(e, env)
        if isinstance(e, ast.Compare):
            return '(b2z %s)' % self.tr_bool(e, env)
        if isinstance(e, ast.BoolOp) and all(self.is_boolean_typed(v) for v in e.values):
            # `x = (a == 0) or (b is None)`: every operand is a bool, so and/or return a bool (True == 1)
            return '(b2z %s)' % self.tr_bool(e, env)
        if isinstance(e, ast.IfExp):
            return '(if %s then %s else %s)' % (self.tr_bool(e.test, env), self.tr_int(e.body, env), self.tr_int(e.orelse, env))
        if isinstance(e, ast.Subscript) and self.is_self_attr(e.value) and e.value.attr in self.ci.attrs:
            key = 'self.' + e.value.attr
            lst = env.get(key)
            if lst is None:
                self.use(self.used_c, e.value.attr); lst = 'c_' + e.value.attr
            return '(getZ %s %s)' % (lst, self.tr_int(e.slice, env))
        if isinstance(e, ast.Call):
            f = e.func
            if isinstance(f, ast.Name) and f.id == 'ord' and len(e.args) == 1 and isinstance(e.args[0], ast.Constant) \
               and isinstance(e.args[0].value, str) and len(e.args[0].value) == 1:
                return lit(ord(e.args[0].value))
            if isinstance(f, ast.Name) and f.id == 'ord' and len(e.args) == 1 and isinstance(e.args[0], ast.Subscript) \
               and self.is_self_attr(e.args[0].value) and e.args[0].value.attr in self.ci.attrs:
                # ord(self.msg[i]): the string constant is passed as the list of its character codes
                return self.tr_int(e.args[0], env)
            if isinstance(f, ast.Name) and f.id == 'len' and len(e.args) == 1 and self.is_self_attr(e.args[0]):
                a = e.args[0].attr
                if a in self.ci.listports:
                    self.use(self.used_lv, a); return '(Z.of_nat (length l_%s))' % a
                if a in self.ci.attrs:
                    key = 'self.' + a
                    lst = env.get(key)
                    if lst is None: self.use(self.used_c, a); lst = 'c_' + a
                    return '(Z.of_nat (length %s))' % lst
            if isinstance(f, ast.Attribute):
                if f.attr == 'get' and not e.args:
                    p = self.port_of(f.value, env)
                    if p and p[0] == 'port':
                        if ('put:' + p[1]) in env.get('#written', ()):
                            raise Unsupported('get() of a wire put() in the same method')
                        self.use(self.used_v, p[1]); return 'v_' + p[1]
                    if p and p[0] == 'item':
                        return env['item:' + p[1]][1]
                if f.attr == 'getWidth' and not e.args:
                    p = self.port_of(f.value, env)
                    if p and p[0] == 'port':
                        self.use(self.used_w, p[1]); return 'w_' + p[1]
                    if p and p[0] == 'item':
                        it = env['item:' + p[1]]
                        for a in (it[2] if len(it) > 2 else ()): self.use(self.used_w, a)
                        return it[0]
                if f.attr == 'getParameterValue' and self.is_self(f.value) and len(e.args) == 1 \
                   and isinstance(e.args[0], ast.Constant):
                    n = e.args[0].value
                    self.use(self.used_p, n); return 'p_' + n
                if f.attr == 'c2_to_signed' and isinstance(f.value, ast.Name) and f.value.id == 'IntegerHelper' and len(e.args) == 2:
                    return '(IntegerHelper_c2_to_signed %s %s)' % (self.tr_int(e.args[0], env), self.tr_int(e.args[1], env))
                if f.attr == 'signed_to_c2' and isinstance(f.value, ast.Name) and f.value.id == 'IntegerHelper' and len(e.args) == 2:
                    return '(IntegerHelper_signed_to_c2 %s %s)' % (self.tr_int(e.args[0], env), self.tr_int(e.args[1], env))
                if f.attr == 'randint' and isinstance(f.value, ast.Name) and f.value.id == 'random':
                    self.rnd = True; return 'rnd'
        raise Unsupported('expression %s' % ast.dump(e)[:80])

    def is_self(self, e):
        return isinstance(e, ast.Name) and e.id == 'self'

    def is_boolean_typed(self, e):
        if isinstance(e, ast.Compare): return True
        if isinstance(e, ast.Constant) and isinstance(e.value, bool): return True
        if isinstance(e, ast.UnaryOp) and isinstance(e.op, ast.Not): return True
        if isinstance(e, ast.Call) and isinstance(e.func, ast.Name) and e.func.id == 'not': return True
        if isinstance(e, ast.BoolOp): return all(self.is_boolean_typed(v) for v in e.values)
        return False

    def tr_bool(self, e, env):
        if isinstance(e, ast.Constant) and isinstance(e.value, bool):
            return 'true' if e.value else 'false'
        if isinstance(e, ast.BoolOp):
            op = ' && ' if isinstance(e.op, ast.And) else ' || '
            return '(' + op.join(self.tr_bool(v, env) for v in e.values) + ')'
        if isinstance(e, ast.UnaryOp) and isinstance(e.op, ast.Not):
            return '(negb %s)' % self.tr_bool(e.operand, env)
        if isinstance(e, ast.Call) and isinstance(e.func, ast.Name) and e.func.id == 'not' and len(e.args) == 1:
            return '(negb %s)' % self.tr_bool(e.args[0], env)
        if isinstance(e, ast.Compare):
            if len(e.ops) != 1:
                # a < b <= c  ==  (a < b) and (b <= c); operands here are pure expressions, so evaluating b twice is harmless
                parts, left = [], e.left
                for op, right in zip(e.ops, e.comparators):
                    parts.append(self.tr_bool(ast.Compare(left=left, ops=[op], comparators=[right]), env)); left = right
                return '(' + ' && '.join(parts) + ')'
            op, l, r = e.ops[0], e.left, e.comparators[0]
            if isinstance(op, (ast.Is, ast.IsNot)):
                if self.is_self_attr(l) and isinstance(r, ast.Constant) and r.value is None and \
                   (l.attr in self.ci.optional or l.attr in self.ci.inports or l.attr in self.ci.outports):
                    if l.attr in self.ci.optional:
                        self.use(self.used_has, l.attr)
                        return ('(negb has_%s)' if isinstance(op, ast.Is) else 'has_%s') % l.attr
                    return 'false' if isinstance(op, ast.Is) else 'true'
                raise Unsupported('is/is not')
            if type(op) not in CMP: raise Unsupported('comparison %s' % type(op).__name__)
            return CMP[type(op)].format(self.tr_int(l, env), self.tr_int(r, env))
        return '(py_truth %s)' % self.tr_int(e, env)

    # ---------------- statements ----------------
    def assigned(self, body):
        """names/keys possibly assigned in a statement list (for merge and loops)."""
        out = []
        def add(k):
            if k not in out: out.append(k)
        for st in body:
            for n in ast.walk(st):
                if isinstance(n, (ast.Assign, ast.AugAssign)):
                    ts = n.targets if isinstance(n, ast.Assign) else [n.target]
                    for t in ts:
                        if isinstance(t, ast.Name): add(t.id)
                        elif self.is_self_attr(t): add('self.' + t.attr)
                        elif isinstance(t, ast.Subscript) and self.is_self_attr(t.value): add('self.' + t.value.attr)
                elif isinstance(n, ast.Call) and isinstance(n.func, ast.Attribute) and n.func.attr in ('put', 'prepare') \
                        and self.is_self_attr(n.func.value):
                    add('val:' + n.func.value.attr); add('flag:' + n.func.value.attr)
                elif isinstance(n, ast.Assert):
                    add('#ok')
        return out

    def state_read(self, key, env):
        a = key[5:]
        if key in env: return env[key]
        if a in self.ci.attrs:
            self.use(self.state, a); env[key] = 's_' + a
            return env[key]
        raise Unsupported('write to unknown attribute %s' % a)

    def run(self, body, env, lines, ind):
        for st in normalize_returns(list(body), self.kind):
            self.stmt(st, env, lines, ind)

    def bind(self, env, lines, ind, key, expr, base):
        import re
        if re.fullmatch(r'\(?-?\w+\)?', expr):
            env[key] = expr          # atomic: no let needed
            return
        v = self.fresh(base)
        lines.append('%slet %s := %s in' % (ind, v, expr))
        env[key] = v

    def stmt(self, st, env, lines, ind):
        if isinstance(st, (ast.Import, ast.ImportFrom, ast.Pass)): return
        if isinstance(st, ast.Expr) and isinstance(st.value, ast.Constant): return     # docstring
        if isinstance(st, ast.Expr) and isinstance(st.value, ast.Call):
            c = st.value; f = c.func
            if isinstance(f, ast.Name) and f.id == 'print': return
            if isinstance(f, ast.Attribute) and f.attr in ('put', 'prepare') and len(c.args) == 1:
                if (f.attr == 'put') != (self.kind == 'propagate'):
                    raise Unsupported('%s() inside %s()' % (f.attr, self.kind))
                p = self.port_of(f.value, env)
                if p and p[0] == 'port':
                    a = p[1]
                    if a in self.ci.optional: raise Unsupported('write to optional port')
                    self.use(self.outs, a); self.use(self.used_w, a)
                    fn = 'Wire_put' if f.attr == 'put' else 'Wire_prepare'
                    self.bind(env, lines, ind, 'val:' + a, '%s w_%s %s' % (fn, a, self.tr_int(c.args[0], env)), 'o_' + a)
                    env['flag:' + a] = 'true'
                    env['#written'] = env.get('#written', ()) + ((f.attr + ':' + a),)
                    return
            raise Unsupported('call statement %s' % ast.dump(c)[:80])
        if isinstance(st, ast.Assign):
            if len(st.targets) != 1: raise Unsupported('multiple targets')
            t = st.targets[0]
            if isinstance(t, ast.Name):
                p = self.port_of(st.value, env)
                if p is not None:
                    # a local naming a wire: reads through it are reads of that wire (values do not change during the method)
                    if p[0] == 'port':
                        a = p[1]
                        if a in self.ci.optional: raise Unsupported('alias of an optional port')
                        if ('put:' + a) in env.get('#written', ()): raise Unsupported('alias of a wire already put()')
                        self.use(self.used_v, a)
                        env['item:' + t.id] = ('w_' + a, 'v_' + a, (a,))     # width parameters are requested only if getWidth() is used
                    else:
                        env['item:' + t.id] = env['item:' + p[1]]
                    env.pop(t.id, None)
                    return
                env.pop('item:' + t.id, None)
                self.bind(env, lines, ind, t.id, self.tr_int(st.value, env), t.id); return
            if self.is_self_attr(t):
                key = 'self.' + t.attr
                self.state_read(key, env)
                self.bind(env, lines, ind, key, self.tr_int(st.value, env), 'n_' + t.attr); return
            if isinstance(t, ast.Subscript) and self.is_self_attr(t.value):
                key = 'self.' + t.value.attr
                cur = self.state_read(key, env)
                self.bind(env, lines, ind, key, 'setZ %s %s %s' % (cur, self.tr_int(t.slice, env), self.tr_int(st.value, env)), 'n_' + t.value.attr)
                return
            raise Unsupported('assignment target')
        if isinstance(st, ast.AugAssign):
            if type(st.op) not in BIN: raise Unsupported('augassign op')
            t = st.target
            if isinstance(t, ast.Name):
                cur = self.tr_int(t, env)
                self.bind(env, lines, ind, t.id, BIN[type(st.op)].format(cur, self.tr_int(st.value, env)), t.id); return
            if self.is_self_attr(t):
                key = 'self.' + t.attr
                cur = self.state_read(key, env)
                self.bind(env, lines, ind, key, BIN[type(st.op)].format(cur, self.tr_int(st.value, env)), 'n_' + t.attr); return
            raise Unsupported('augassign target')
        if isinstance(st, ast.Assert):
            # an assert must never fire on in-range inputs: its condition is accumulated into the pseudo-variable #ok and becomes the
            # proof obligation <name>_asserts_hold generated next to the definition (fail-closed: if it is not provable automatically the
            # generated file does not compile and every dependent obligation breaks)
            self.has_asserts = True
            self.bind(env, lines, ind, '#ok', '(%s && %s)' % (env.get('#ok', 'true'), self.tr_bool(st.test, env)), 'ok')
            return
        if isinstance(st, ast.If):
            return self.stmt_if(st, env, lines, ind)
        if isinstance(st, ast.For):
            return self.stmt_for(st, env, lines, ind)
        if isinstance(st, ast.Return):
            if self.kind != 'func': raise Unsupported('return')
            env['#ret'] = self.tr_int(st.value, env)
            env['#returned'] = True
            return
        raise Unsupported('statement %s' % type(st).__name__)

    def prepare_keys(self, keys, env):
        """make sure every key has a current value in env (state reads, output defaults)."""
        for k in keys:
            if k.startswith('self.'):
                self.state_read(k, env)
            elif k.startswith('val:'):
                env.setdefault(k, '0')
            elif k.startswith('flag:'):
                env.setdefault(k, 'false')
            elif k == '#ok':
                env.setdefault(k, 'true')

    def stmt_if(self, st, env, lines, ind):
        c = self.tr_bool(st.test, env)
        keys = self.assigned(st.body + st.orelse)
        self.prepare_keys(keys, env)
        envs, blocks = [], []
        for body in (st.body, st.orelse):
            e2 = dict(env); l2 = []
            self.run(body, e2, l2, ind + '    ')
            envs.append(e2); blocks.append(l2)
        # wire-valued locals bound in the branches: split (width, value) into two mergeable pseudo-variables
        for k in list(keys):
            ik = 'item:' + k
            if any(ik in e2 for e2 in envs):
                if not all(ik in e2 for e2 in envs):
                    raise Unsupported('local %s names a wire on one path only' % k)
                for e2 in envs:
                    e2['iv:' + k] = e2[ik][1]
                keys += ['iv:' + k]
        if envs[0].get('#returned') or envs[1].get('#returned'):
            if not (envs[0].get('#returned') and envs[1].get('#returned')):
                # `if c: return x` followed by more statements: the rest is the else branch
                raise Unsupported('return in one branch only')
            lines.append('%s(if %s then' % (ind, c))
            lines.extend(blocks[0]); lines.append('%s    %s' % (ind, envs[0]['#ret']))
            lines.append('%s else' % ind)
            lines.extend(blocks[1]); lines.append('%s    %s)' % (ind, envs[1]['#ret']))
            env['#returned'] = True; env['#ret'] = None; env['#inline_ret'] = True
            return
        merged = []
        for k in keys:
            a, b = envs[0].get(k), envs[1].get(k)
            if a is None and b is None: continue
            if a is None or b is None:
                env[k] = None       # defined on one path only: poison
                continue
            if a == b:
                env[k] = a      # same literal on both paths (e.g. flag = true) or untouched
                continue
            merged.append(k)
        for k in ('#written',):
            w = tuple(dict.fromkeys(envs[0].get(k, ()) + envs[1].get(k, ())))
            if w: env[k] = w
        if not merged:
            return
        names = []
        for k in merged:
            base = k.replace('self.', 'n_').replace('val:', 'o_').replace('flag:', 'f_').replace('iw:', 'w_').replace('iv:', 'v_').replace('#ok', 'ok')
            names.append(self.fresh(base))
        pat = names[0] if len(names) == 1 else "'(%s)" % ', '.join(names)
        def tup(e2):
            vs = [e2[k] for k in merged]
            return vs[0] if len(vs) == 1 else '(%s)' % ', '.join(vs)
        lines.append('%slet %s :=' % (ind, pat))
        lines.append('%s  if %s then' % (ind, c))
        lines.extend(blocks[0]); lines.append('%s    %s' % (ind, tup(envs[0])))
        lines.append('%s  else' % ind)
        lines.extend(blocks[1]); lines.append('%s    %s' % (ind, tup(envs[1])))
        lines.append('%sin' % ind)
        for k, n in zip(merged, names):
            env[k] = n
        for k in keys:
            if k.startswith('iv:'):
                nm = k[3:]
                wa, wb = envs[0]['item:' + nm], envs[1]['item:' + nm]
                wexpr = wa[0] if wa[0] == wb[0] else '(if %s then %s else %s)' % (c, wa[0], wb[0])
                ports = tuple(dict.fromkeys((wa[2] if len(wa) > 2 else ()) + (wb[2] if len(wb) > 2 else ())))
                env['item:' + nm] = (wexpr, env.get('iv:' + nm), ports)
                env.pop(nm, None)

    def stmt_for(self, st, env, lines, ind):
        if st.orelse: raise Unsupported('for/else')
        it = st.iter
        # --- for i in range(...)
        if isinstance(it, ast.Call) and isinstance(it.func, ast.Name) and it.func.id == 'range' and isinstance(st.target, ast.Name):
            if len(it.args) == 1: lo, hi = '0', self.tr_int(it.args[0], env)
            elif len(it.args) == 2: lo, hi = self.tr_int(it.args[0], env), self.tr_int(it.args[1], env)
            else: raise Unsupported('range with step')
            i = st.target.id
            # map-loop over a list port: body is exactly self.L[i].put(e)
            if len(st.body) == 1 and isinstance(st.body[0], ast.Expr) and isinstance(st.body[0].value, ast.Call):
                c = st.body[0].value; f = c.func
                if isinstance(f, ast.Attribute) and f.attr in ('put', 'prepare') and isinstance(f.value, ast.Subscript) \
                   and self.is_self_attr(f.value.value) and f.value.value.attr in self.ci.listports \
                   and isinstance(f.value.slice, ast.Name) and f.value.slice.id == i:
                    if (f.attr == 'put') != (self.kind == 'propagate'): raise Unsupported('put/prepare kind')
                    L = f.value.value.attr
                    if self.ci.listports[L] != 'out': raise Unsupported('write to input list port')
                    self.use(self.listouts, L); self.use(self.used_lw, L)
                    iv = self.fresh(i)
                    e2 = dict(env); e2[i] = iv
                    fn = 'Wire_put' if f.attr == 'put' else 'Wire_prepare'
                    body = '%s (getZ lw_%s %s) %s' % (fn, L, iv, self.tr_int(c.args[0], e2))
                    self.bind(env, lines, ind, 'list:' + L, 'map (fun %s => %s) (seqZ %s %s)' % (iv, body, lo, hi), 'ol_' + L)
                    return
            keys = self.assigned(st.body)
            for k in keys:
                if not (k.startswith('self.') or k in env and env[k] is not None):
                    if k.startswith('val:') or k.startswith('flag:'):
                        continue
                    raise Unsupported('loop-local %s not initialised before the loop' % k)
            self.prepare_keys(keys, env)
            keys = [k for k in keys if env.get(k) is not None]
            if not keys: raise Unsupported('loop without effect')
            names = [self.fresh(k.replace('self.', 'n_').replace('val:', 'o_').replace('flag:', 'f_').replace('#ok', 'ok')) for k in keys]
            iv = self.fresh(i)
            e2 = dict(env); e2[i] = iv
            for k, n in zip(keys, names): e2[k] = n
            l2 = []
            self.run(st.body, e2, l2, ind + '    ')
            pat = names[0] if len(names) == 1 else "'(%s)" % ', '.join(names)
            res = [e2[k] for k in keys]
            rest = res[0] if len(res) == 1 else '(%s)' % ', '.join(res)
            init = [env[k] for k in keys]
            initt = init[0] if len(init) == 1 else '(%s)' % ', '.join(init)
            outn = [self.fresh(k.replace('self.', 'n_').replace('val:', 'o_').replace('flag:', 'f_').replace('#ok', 'ok')) for k in keys]
            opat = outn[0] if len(outn) == 1 else "'(%s)" % ', '.join(outn)
            lines.append('%slet %s := fold_left (fun %s %s =>' % (ind, opat, pat, iv))
            lines.extend(l2)
            lines.append('%s    %s) (seqZ %s %s) %s in' % (ind, rest, lo, hi, initt))
            for k, n in zip(keys, outn): env[k] = n
            return
        # --- for idx, item in enumerate(self.L)  /  for item in self.L
        tgt_item = None
        if isinstance(it, ast.Call) and isinstance(it.func, ast.Name) and it.func.id == 'enumerate' and len(it.args) == 1 \
           and self.is_self_attr(it.args[0]) and isinstance(st.target, ast.Tuple) and len(st.target.elts) == 2:
            L = it.args[0].attr; idx = st.target.elts[0].id; tgt_item = st.target.elts[1].id
            for n in ast.walk(ast.Module(body=st.body, type_ignores=[])):
                if isinstance(n, ast.Name) and n.id == idx: raise Unsupported('enumerate index used')
        elif self.is_self_attr(it) and isinstance(st.target, ast.Name):
            L = it.attr; tgt_item = st.target.id
        if tgt_item and L in self.ci.listports and self.ci.listports[L] == 'in':
            self.use(self.used_lv, L)
            keys = self.assigned(st.body)
            for k in keys:
                if not (k.startswith('self.') or k in env and env[k] is not None):
                    raise Unsupported('loop-local %s not initialised before the loop' % k)
            self.prepare_keys(keys, env)
            names = [self.fresh(k.replace('self.', 'n_')) for k in keys]
            wv, vv = self.fresh('w_' + tgt_item), self.fresh('v_' + tgt_item)
            e2 = dict(env); e2['item:' + tgt_item] = (wv, vv)
            for k, n in zip(keys, names): e2[k] = n
            l2 = []
            self.run(st.body, e2, l2, ind + '    ')
            pat = names[0] if len(names) == 1 else "'(%s)" % ', '.join(names)
            res = [e2[k] for k in keys]
            rest = res[0] if len(res) == 1 else '(%s)' % ', '.join(res)
            init = [env[k] for k in keys]
            initt = init[0] if len(init) == 1 else '(%s)' % ', '.join(init)
            outn = [self.fresh(k.replace('self.', 'n_')) for k in keys]
            opat = outn[0] if len(outn) == 1 else "'(%s)" % ', '.join(outn)
            lines.append("%slet %s := fold_left (fun %s '(%s, %s) =>" % (ind, opat, pat, wv, vv))
            lines.extend(l2)
            lines.append('%s    %s) l_%s %s in' % (ind, rest, L, initt))
            for k, n in zip(keys, outn): env[k] = n
            return
        raise Unsupported('for loop shape')


def translate_method(ci, mname, kind, prefix=None):
    """returns (coq_text, signature_dict)"""
    m = inline_helpers(ci.methods[mname], getattr(ci, 'cdef', None), getattr(ci, 'tree', None))
    m = unroll_literal_loops(m)
    m = propagate_port_aliases(m, ci)
    tr = Tr(ci, mname, kind)
    env, lines = {}, []
    for k in tr.assigned(m.body):
        if k.startswith('self.'):
            tr.state_read(k, env)        # attributes written anywhere in the method are state from the start
    tr.run(m.body, env, lines, '  ')
    cls = prefix or ci.name
    fname = '%s_%s' % (cls, mname)
    # ---- parameter list, in declaration order
    params = []
    for p in ci.inports + ci.outports + sorted(ci.optional):
        if p in tr.used_w: params.append(('w_' + p, 'Z'))
    for L in ci.listports:
        if L in tr.used_lw: params.append(('lw_' + L, 'list Z'))
    for p in sorted(ci.optional):
        if p in tr.used_has: params.append(('has_' + p, 'bool'))
    for a in ci.attrs:
        if a in tr.used_c and a not in tr.state:
            params.append(('c_' + a, 'list Z' if is_list_attr(ci, a, m) else 'Z'))
    for n in tr.used_p: params.append(('p_' + n, 'Z'))
    if tr.rnd: params.append(('rnd', 'Z'))
    state = [a for a in ci.attrs if a in tr.state]
    pre = []
    if state:
        pre.append('Record %s_state := { %s }.' % (cls, '; '.join('%s_s_%s : %s' % (cls, a, 'list Z' if is_list_attr(ci, a, m) else 'Z') for a in state)))
        params.append(('st', '%s_state' % cls))
    for p in ci.inports + ci.outports + sorted(ci.optional):
        if p in tr.used_v and ('v_' + p, 'Z') not in params: params.append(('v_' + p, 'Z'))
    for L in ci.listports:
        if L in tr.used_lv: params.append(('l_' + L, 'list (Z * Z)'))
    # a constant that is also used as state is state
    outs = []
    for p in tr.outs:
        definite = env.get('flag:' + p) == 'true'
        outs.append((p, definite))
    # ---- result
    ofields, oexprs = [], []
    for p, definite in outs:
        if definite:
            ofields.append(('o_' + p, 'Z')); oexprs.append(env['val:' + p])
        else:
            ofields.append(('o_' + p, 'option Z'))
            oexprs.append('(if %s then Some %s else None)' % (env['flag:' + p], env['val:' + p]))
    for L in tr.listouts:
        ofields.append(('ol_' + L, 'list Z')); oexprs.append(env['list:' + L])
    if len(ofields) > 1:
        pre.append('Record %s_out := { %s }.' % (cls, '; '.join('%s_%s : %s' % (cls, f, t) for f, t in ofields)))
        oty = '%s_out' % cls
        oexpr = '{| %s |}' % '; '.join('%s_%s := %s' % (cls, f, e) for (f, t), e in zip(ofields, oexprs))
    elif len(ofields) == 1:
        oty, oexpr = ofields[0][1], oexprs[0]
    else:
        oty, oexpr = None, None
    if state:
        sexpr = '{| %s |}' % '; '.join('%s_s_%s := %s' % (cls, a, env['self.' + a]) for a in state)
        if oty: rty, rexpr = '%s_state * %s' % (cls, oty), '(%s, %s)' % (sexpr, oexpr)
        else: rty, rexpr = '%s_state' % cls, sexpr
    else:
        if not oty: raise Unsupported('method without effect')
        rty, rexpr = oty, oexpr
    hdr = 'Definition %s %s : %s :=' % (fname, ' '.join('(%s : %s)' % p for p in params), rty)
    body = []
    for a in state:
        body.append('  let s_%s := %s_s_%s st in' % (a, cls, a))
    body.extend(lines)
    body.append('  %s.' % rexpr)
    sig = {'name': fname, 'params': params, 'state': state, 'outs': [list(o) for o in outs], 'listouts': tr.listouts,
           'result': rty}
    text = '\n'.join(pre + [hdr] + body) + '\n'
    if tr.has_asserts:
        # same body, returning the conjunction of the reached assert conditions; must be `true` for every in-range input
        ahdr = 'Definition %s_asserts %s : bool :=' % (fname, ' '.join('(%s : %s)' % p for p in params))
        abody = body[:-1] + ['  %s.' % env.get('#ok', 'true')]
        hyps = []
        pn = [p[0] for p in params]
        for n, t in params:
            if n.startswith('w_'): hyps.append('0 <= %s' % n)
            if n.startswith('v_') and t == 'Z':
                hyps.append('0 <= %s < 2 ^ %s' % (n, 'w_' + n[2:]) if ('w_' + n[2:]) in pn else '0 <= %s' % n)
        lem = 'Lemma %s_asserts_hold : forall %s, %s%s_asserts %s = true.\nProof. unfold %s_asserts. auto_assert. Qed.' % (
            fname, ' '.join(pn), ''.join(h + ' -> ' for h in hyps), fname, ' '.join(pn), fname)
        text += '\n'.join([ahdr] + abody) + '\n' + lem + '\n'
        sig['asserts'] = True
    return text, sig


def is_list_attr(ci, a, m):
    v = ci.attr_init.get(a)
    if isinstance(v, (ast.List, ast.ListComp)): return True
    if isinstance(v, ast.BinOp) and isinstance(v.left, ast.List): return True
    for n in ast.walk(m):
        if isinstance(n, ast.Subscript) and isinstance(n.value, ast.Attribute) and n.value.attr == a and \
           isinstance(n.value.value, ast.Name) and n.value.value.id == 'self':
            return True
    return False


def translate_func(fdef, name):
    """a pure function of integer arguments (static helpers): def f(a, b): ... return e"""
    ci = ClassInfo(ast.ClassDef(name=name, bases=[], keywords=[], body=[], decorator_list=[]))
    tr = Tr(ci, name, 'func')
    env = {a.arg: a.arg for a in fdef.args.args}
    lines = []
    tr.run(fdef.body, env, lines, '  ')
    if not env.get('#returned'): raise Unsupported('no return')
    params = ' '.join('(%s : Z)' % a.arg for a in fdef.args.args)
    text = 'Definition %s %s : Z :=\n' % (name, params) + '\n'.join(lines)
    if not env.get('#inline_ret'):
        text += '\n  %s' % env['#ret']
    return text + '.\n', {'name': name, 'params': [(a.arg, 'Z') for a in fdef.args.args]}


# --------------------------------------------------------------------------------------------
def parse_file(path):
    src = open(path, encoding='utf-8').read()
    return ast.parse(src), src

def find_class(tree, name):
    for c in tree.body:
        if isinstance(c, ast.ClassDef) and c.name == name: return c
    return None

def find_func(tree, cls, name):
    body = tree.body if cls is None else find_class(tree, cls).body
    for f in body:
        if isinstance(f, ast.FunctionDef) and f.name == name: return f
    return None

HEADER = '(* GENERATED by /verif/py/py2coq.py from %s -- do not edit; regenerated on every check *)\nFrom V Require Import Base.PyInt Base.Bits.\n'

def wire_ops(repo):
    """Wire.put / Wire.prepare (and the BidirWire copies) from base.py -> value stored as a function of (width, val)."""
    tree, _ = parse_file(os.path.join(repo, 'py4hw/base.py'))
    out, sigs, errs = [], {}, {}
    for cls in ('Wire', 'BidirWire'):
        c = find_class(tree, cls)
        for mname, target in (('put', 'value'), ('prepare', 'next')):
            nm = '%s_%s' % (cls, mname)
            try:
                m = [f for f in c.body if isinstance(f, ast.FunctionDef) and f.name == mname][0]
                if [a.arg for a in m.args.args] != ['self', 'val']: raise Unsupported('signature')
                base = find_class(tree, 'Wire') if cls == 'BidirWire' else None          # BidirWire inherits Wire's private helpers
                cc = c if base is None else ast.ClassDef(name=cls, bases=[], keywords=[], body=list(base.body) + list(c.body), decorator_list=[])
                m = inline_helpers(m, cc, tree)
                ci = ClassInfo(ast.ClassDef(name=cls, bases=[], keywords=[], body=[], decorator_list=[]))
                ci.attrs = ['width']
                tr = Tr(ci, mname, 'func')
                env = {'val': 'val', 'self.width': 'width'}
                lines = []
                stored = None; appended = False
                pend_alias = {'Wire.prepared'}
                for st in m.body:
                    if isinstance(st, ast.Expr) and isinstance(st.value, ast.Constant): continue
                    if isinstance(st, ast.If):
                        # the only tolerated `if` is the "already prepared" warning: body = print only
                        if all(isinstance(s, ast.Expr) and isinstance(s.value, ast.Call) and isinstance(s.value.func, ast.Name)
                               and s.value.func.id == 'print' for s in st.body) and not st.orelse:
                            continue
                        raise Unsupported('if in Wire.%s' % mname)
                    if isinstance(st, ast.Expr) and isinstance(st.value, ast.Call) and isinstance(st.value.func, ast.Attribute) \
                       and st.value.func.attr == 'append' and ast.unparse(st.value.func.value) in pend_alias \
                       and ast.unparse(st.value.args[0]) == 'self':
                        appended = True; continue
                    if isinstance(st, ast.Assign) and len(st.targets) == 1 and isinstance(st.targets[0], ast.Name) \
                       and ast.unparse(st.value) in pend_alias:
                        pend_alias.add(st.targets[0].id); continue           # a local naming the pending list
                    if isinstance(st, ast.Assign) and len(st.targets) == 1 and tr.is_self_attr(st.targets[0]):
                        a = st.targets[0].attr
                        if a != target or stored is not None: raise Unsupported('write to self.%s in Wire.%s' % (a, mname))
                        stored = tr.tr_int(st.value, env); continue
                    if isinstance(st, ast.Assign) and len(st.targets) == 1 and isinstance(st.targets[0], ast.Name):
                        tr.stmt(st, env, lines, '  '); continue
                    raise Unsupported('statement in Wire.%s: %s' % (mname, ast.unparse(st)[:60]))
                if stored is None: raise Unsupported('no store')
                if (mname == 'prepare') != appended: raise Unsupported('Wire.prepared.append(self) %s' % ('missing' if mname == 'prepare' else 'unexpected'))
                out.append('Definition %s (width val : Z) : Z :=\n%s\n  %s.\n' % (nm, '\n'.join(lines), stored))
                sigs[nm] = {'name': nm}
            except (Unsupported, IndexError, AttributeError) as ex:
                errs[nm] = str(ex)
    return (HEADER % 'py4hw/base.py') + '\n'.join(out), sigs, errs


# classes translated: (file, class, method, kind)
LEAVES = [
    ('py4hw/logic/bitwise.py', c, 'propagate', 'propagate') for c in
    ['And2', 'Bit', 'BitsMSBF', 'BitsLSBF', 'Buf', 'Constant', 'Not', 'Or2', 'ShiftLeftConstant',
     'ShiftRightConstant', 'RotateLeftConstant', 'RotateRightConstant', 'Mux2', 'Repeat',
     'ConcatenateMSBF', 'ConcatenateLSBF', 'Range']
] + [
    ('py4hw/logic/arithmetic.py', c, 'propagate', 'propagate') for c in
    ['AddCarryIn', 'SignExtend', 'ZeroExtend', 'Mul', 'SignedMul', 'Div', 'Mod', 'Sub', 'SubBorrowIn']
] + [
    ('py4hw/logic/storage.py', 'Latch', 'propagate', 'propagate'),
    ('py4hw/logic/storage.py', 'AsynchronousMemory', 'propagate', 'propagate'),
    ('py4hw/logic/clock.py', 'GatedClock', 'propagate', 'propagate'),
]
SEQ = [
    ('py4hw/logic/storage.py', 'Reg', 'clock', 'clock'),
    ('py4hw/logic/storage.py', 'SynchronousMemory', 'clock', 'clock'),
    ('py4hw/logic/storage.py', 'DualPortSynchronousMemory', 'clock', 'clock'),
    ('py4hw/logic/clock.py', 'AutoReset', 'clock', 'clock'),
    ('py4hw/logic/simulation.py', 'Sequence', 'clock', 'clock'),
    ('py4hw/logic/protocol/uart/serdes.py', 'UARTSerializer', 'clock', 'clock'),
    ('py4hw/logic/protocol/uart/serdes.py', 'UARTDeserializer', 'clock', 'clock'),
    ('py4hw/logic/protocol/uart/clock.py', 'ClockSyncFSM', 'clock', 'clock'),
    ('py4hw/logic/protocol/uart/sequencer.py', 'MsgSequencer', 'clock', 'clock'),
    ('py4hw/emulation/HILWrapperUART.py', 'CMDRequest', 'clock', 'clock'),
    ('py4hw/emulation/HILWrapperUART.py', 'CMDResponse', 'clock', 'clock'),
    ('py4hw/emulation/vitiswrapping.py', 'Axi2ClkFSM', 'clock', 'clock'),
    ('py4hw/emulation/vitiswrapping.py', 'VitisKernelFSM', 'clock', 'clock'),
]
HELPERS = [
    ('py4hw/helper.py', 'IntegerHelper', 'signed_to_c2'),
    ('py4hw/helper.py', 'IntegerHelper', 'c2_to_signed'),
    ('py4hw/helper.py', None, 'signExtend'),
]


def gen_group(repo, items, modname, extra_import=''):
    text = [HEADER % ', '.join(sorted(set(i[0] for i in items))) + extra_import +
            'Definition getZ (l : list Z) (i : Z) : Z := nth (Z.to_nat i) l 0.\n'
            if modname != 'Helpers' else HEADER % 'py4hw/helper.py']
    sigs, errs = {}, {}
    trees = {}
    for it in items:
        f = it[0]
        if f not in trees:
            try: trees[f] = parse_file(os.path.join(repo, f))[0]
            except Exception as ex:
                trees[f] = ex
        tree = trees[f]
        if modname == 'Helpers':
            _, cls, fn = it
            nm = (cls + '_' if cls else '') + fn
            try:
                if isinstance(tree, Exception): raise Unsupported('parse: %s' % tree)
                fd = find_func(tree, cls, fn)
                if fd is None: raise Unsupported('not found')
                fd = inline_helpers(fd, find_class(tree, cls) if cls else None, tree)
                t, s = translate_func(fd, nm)
                text.append(t); sigs[nm] = s
            except (Unsupported, AttributeError) as ex:
                errs[nm] = str(ex)
            continue
        _, cls, mname, kind = it
        nm = '%s_%s' % (cls, mname)
        try:
            if isinstance(tree, Exception): raise Unsupported('parse: %s' % tree)
            c = find_class(tree, cls)
            if c is None: raise Unsupported('class not found')
            ci = ClassInfo(c)
            ci.cdef, ci.tree = c, tree
            if mname not in ci.methods: raise Unsupported('method not found')
            t, s = translate_method(ci, mname, kind)
            text.append(t); sigs[nm] = s
        except Unsupported as ex:
            errs[nm] = str(ex)
    return '\n'.join(text), sigs, errs


def generate(repo, outdir):
    """write Gen/*.v (write-if-changed); return {'sigs':..., 'errors':..., 'changed': [...]}"""
    os.makedirs(outdir, exist_ok=True)
    res = {'sigs': {}, 'errors': {}, 'changed': []}
    files = {}
    t, s, e = wire_ops(repo); files['WireOps.v'] = t; res['sigs'].update(s); res['errors'].update(e)
    t, s, e = gen_group(repo, HELPERS, 'Helpers'); files['Helpers.v'] = t; res['sigs'].update(s); res['errors'].update(e)
    imp = 'From V Require Import Gen.WireOps Gen.Helpers.\n'
    t, s, e = gen_group(repo, LEAVES, 'Prims', imp); files['Prims.v'] = t; res['sigs'].update(s); res['errors'].update(e)
    t, s, e = gen_group(repo, SEQ, 'Seq', imp); res['sigs'].update(s); res['errors'].update(e)
    # one sum type over the state records of every translated sequential leaf (used by dumped netlists)
    ctors = ['  | St_%s (s : %s_state)' % (c[1], c[1]) for c in SEQ if ('%s_%s' % (c[1], c[2])) in s and s['%s_%s' % (c[1], c[2])]['state']]
    t += '\nInductive AnySt :=\n  | St_none\n' + '\n'.join(ctors) + '.\n'
    files['Seq.v'] = t
    for fn, text in files.items():
        p = os.path.join(outdir, fn)
        old = open(p).read() if os.path.exists(p) else None
        if old != text:
            open(p, 'w').write(text); res['changed'].append(fn)
    json.dump(res, open(os.path.join(outdir, 'gen.json'), 'w'), indent=1, default=list)
    return res


if __name__ == '__main__':
    repo = sys.argv[1] if len(sys.argv) > 1 else '/repo'
    out = sys.argv[2] if len(sys.argv) > 2 else os.path.join(os.path.dirname(os.path.abspath(__file__)), '..', 'coq', 'Gen')
    r = generate(repo, out)
    for k, v in r['errors'].items():
        print('UNSUPPORTED %s: %s' % (k, v))
    print('generated %d definitions, %d rejected, changed files: %s' % (len(r['sigs']), len(r['errors']), r['changed']))
