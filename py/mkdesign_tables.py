#!/usr/bin/env python3
"""Regenerate the machine-derived tables of DESIGN.md (between the AUTOGEN markers) from manifest.d/, known_findings/, seeded/ and evidence/."""
import json, os, glob, re
V = os.path.dirname(os.path.dirname(os.path.abspath(__file__)))
props = [json.loads(l) for l in open(os.path.join(V, 'properties.jsonl'))]
out = []
out.append('| Prop | level claimed | theorems in Properties/Cxx.v | quick: evaluations / wall | known findings (open) | repaired in /repo |')
out.append('|---|---|---|---|---|---|')
for p in props:
    pid = p['id']
    m = json.load(open(os.path.join(V, 'manifest.d', pid + '.json'))) if os.path.exists(os.path.join(V, 'manifest.d', pid + '.json')) else {}
    ev = json.load(open(os.path.join(V, 'evidence', pid + '.json'))) if os.path.exists(os.path.join(V, 'evidence', pid + '.json')) else {}
    kf = json.load(open(os.path.join(V, 'known_findings', pid + '.json')))['findings'] if os.path.exists(os.path.join(V, 'known_findings', pid + '.json')) else []
    txt = open(os.path.join(V, 'coq', 'Properties', pid + '.v')).read()
    nth = len(re.findall(r'^\s*(?:Theorem|Corollary)\s', txt, re.M))
    cov = ev.get('coverage', {})
    evs = cov.get('evaluations', cov.get('programs', ''))
    known = ', '.join('`%s`' % e['id'] for e in kf if e.get('status') == 'known') or '—'
    fixed = ', '.join('`%s` (%s)' % (e['id'], e.get('commit', '')) for e in kf if e.get('status') == 'fixed') or '—'
    out.append('| %s | %s | %d | %s / %ss | %s | %s |' % (pid, m.get('level_claimed', {}).get('category', '?'), nth, evs, int(ev.get('wall_s', 0)), known, fixed))
tab1 = '\n'.join(out)
out = ['| seed | what the change is (one line from NOTES.md) | existing suite | outcome of `./check` on it |', '|---|---|---|---|']
for d in sorted(glob.glob(os.path.join(V, 'seeded', '*'))):
    mp = os.path.join(d, 'meta.json')
    if not os.path.exists(mp): continue
    m = json.load(open(mp))
    notes = open(os.path.join(d, 'NOTES.md')).read() if os.path.exists(os.path.join(d, 'NOTES.md')) else ''
    first = ''
    for line in notes.split('\n'):
        line = line.strip(' #*-')
        if len(line) > 30 and not line.lower().startswith(('seed', 'notes', 'property')):
            first = line; break
    det = (m.get('detected_by_check') or {}).get('outcome', 'not run')
    out.append('| %s | %s | %s | %s |' % (os.path.basename(d), first[:170].replace('|', '/'), 'passes' if m.get('confirmed') else 'NOT CONFIRMED', det))
tab2 = '\n'.join(out)
out = ['| rewrite | existing suite | `./check` on it |', '|---|---|---|']
for d in sorted(glob.glob(os.path.join(V, 'harmless', '*'))):
    mp = os.path.join(d, 'meta.json')
    if not os.path.exists(mp): continue
    m = json.load(open(mp))
    out.append('| %s | %s | %s |' % (os.path.basename(d), 'passes' if 'passed' in m.get('pytest_with_change', '') else m.get('pytest_with_change', ''), m.get('verdict', '')))
tab3 = '\n'.join(out)
p = os.path.join(V, 'DESIGN.md')
s = open(p).read()
for name, tab in (('STATUS', tab1), ('SEEDS', tab2), ('HARMLESS', tab3)):
    a, b = '<!-- AUTOGEN %s BEGIN -->' % name, '<!-- AUTOGEN %s END -->' % name
    if a in s:
        s = s[:s.index(a) + len(a)] + '\n' + tab + '\n' + s[s.index(b):]
open(p, 'w').write(s)
print('tables regenerated')
