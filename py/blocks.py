"""A catalogue of library blocks wrapped in a top-level Logic with ports (so the Verilog generator has a top module and
the simulator has pokeable inputs).  Used by the Verilog-side checks (C01)."""
import random
from common import quiet, quiet_import


def make_top(name, ins, outs, body, clkname=None):
    """ins/outs: list of (port_name, width).  body(top, in_wires dict, out_wires dict) instantiates blocks inside `top`.
    clkname: name of the system clock driver (None = the default `clk`; board platforms use names such as CLOCK_50).
    returns (hw, top)"""
    py4hw = quiet_import()
    with quiet():
        if clkname is None:
            hw = py4hw.HWSystem()
        else:
            hw = py4hw.HWSystem()
            hw.clockDriver = py4hw.ClockDriver(clkname, 50E6, 0, wire=hw.wire(clkname))
        iw = {n: hw.wire(n, w) for n, w in ins}
        ow = {n: hw.wire(n, w) for n, w in outs}

        class Top(py4hw.Logic):
            def __init__(self, parent, nm):
                super().__init__(parent, nm)
                for n, _ in ins: self.addIn(n, iw[n])
                for n, _ in outs: self.addOut(n, ow[n])
                body(self, iw, ow)
        Top.__name__ = name
        top = Top(hw, 'dut')
    return hw, top


def catalogue(rng, tier='quick'):
    """yields (label, ins, outs, body).  Widths drawn from rng; every entry is a legal configuration."""
    py4hw = quiet_import()
    P = py4hw
    from py4hw.logic import storage, arithmetic, bitwise, relational
    W = lambda lo=1, hi=9: rng.randint(lo, hi)
    out = []
    def add(label, ins, outs, body): out.append((label, ins, outs, body))
    reps = 1 if tier == 'quick' else 4
    for _ in range(reps):
        w, w2, wr = W(), W(), W()
        add('And2', [('a', w), ('b', w2)], [('r', wr)], lambda t, i, o: P.And2(t, 'x', i['a'], i['b'], o['r']))
        add('Or2', [('a', w), ('b', w2)], [('r', wr)], lambda t, i, o: P.Or2(t, 'x', i['a'], i['b'], o['r']))
        add('Xor2', [('a', w), ('b', w)], [('r', w)], lambda t, i, o: P.Xor2(t, 'x', i['a'], i['b'], o['r']))
        add('Nand2', [('a', w), ('b', w)], [('r', w)], lambda t, i, o: P.Nand2(t, 'x', i['a'], i['b'], o['r']))
        add('Nor2', [('a', w), ('b', w)], [('r', w)], lambda t, i, o: P.Nor2(t, 'x', i['a'], i['b'], o['r']))
        add('Not', [('a', w)], [('r', wr)], lambda t, i, o: P.Not(t, 'x', i['a'], o['r']))
        add('Buf', [('a', w)], [('r', wr)], lambda t, i, o: P.Buf(t, 'x', i['a'], o['r']))
        n = rng.randint(2, 5)
        add('And%d' % n, [('a%d' % k, w) for k in range(n)], [('r', w)], lambda t, i, o, n=n: P.And(t, 'x', [i['a%d' % k] for k in range(n)], o['r']))
        add('Or%d' % n, [('a%d' % k, w) for k in range(n)], [('r', w)], lambda t, i, o, n=n: P.Or(t, 'x', [i['a%d' % k] for k in range(n)], o['r']))
        add('Nor%d' % n, [('a%d' % k, w) for k in range(n)], [('r', w)], lambda t, i, o, n=n: P.Nor(t, 'x', [i['a%d' % k] for k in range(n)], o['r']))
        add('Xor%d' % n, [('a%d' % k, w) for k in range(n)], [('r', w)], lambda t, i, o, n=n: P.Xor(t, 'x', [i['a%d' % k] for k in range(n)], o['r']))
        wa = W(2, 9); hi = rng.randrange(wa); lo = rng.randint(0, hi)
        add('Range', [('a', wa)], [('r', hi - lo + 1)], lambda t, i, o, hi=hi, lo=lo: P.Range(t, 'x', i['a'], hi, lo, o['r']))
        k = rng.randrange(wa)
        add('Bit', [('a', wa)], [('r', 1)], lambda t, i, o, k=k: P.Bit(t, 'x', i['a'], k, o['r']))
        add('BitsLSBF', [('a', wa)], [('b%d' % k, 1) for k in range(wa)], lambda t, i, o, wa=wa: P.BitsLSBF(t, 'x', i['a'], [o['b%d' % k] for k in range(wa)]))
        add('BitsMSBF', [('a', wa)], [('b%d' % k, 1) for k in range(wa)], lambda t, i, o, wa=wa: P.BitsMSBF(t, 'x', i['a'], [o['b%d' % k] for k in range(wa)]))
        add('ConcatMSBF', [('a', w), ('b', w2), ('c', 1)], [('r', w + w2 + 1)], lambda t, i, o: P.ConcatenateMSBF(t, 'x', [i['a'], i['b'], i['c']], o['r']))
        add('ConcatLSBF', [('a', w), ('b', w2)], [('r', w + w2)], lambda t, i, o: P.ConcatenateLSBF(t, 'x', [i['a'], i['b']], o['r']))
        add('Repeat', [('a', 1)], [('r', wr)], lambda t, i, o: P.Repeat(t, 'x', i['a'], o['r']))
        cv = rng.choice([0, 1, 5, (1 << wr) - 1, rng.randrange(1 << wr)])
        add('Constant', [('a', 1)], [('r', wr), ('p', 1)], lambda t, i, o, cv=cv: (P.Constant(t, 'x', cv, o['r']), P.Buf(t, 'y', i['a'], o['p'])))
        sh = rng.randint(0, 6)
        add('ShlK', [('a', w)], [('r', wr)], lambda t, i, o, sh=sh: P.ShiftLeftConstant(t, 'x', i['a'], sh, o['r']))
        add('ShrK', [('a', w)], [('r', wr)], lambda t, i, o, sh=sh: P.ShiftRightConstant(t, 'x', i['a'], sh, o['r']))
        add('Mux2', [('s', 1), ('a', w), ('b', w)], [('r', w)], lambda t, i, o: P.Mux2(t, 'x', i['s'], i['a'], i['b'], o['r']))
        ks = rng.randint(1, 3)
        add('Mux%d' % ks, [('s', ks)] + [('a%d' % k, w) for k in range(1 << ks)], [('r', w)],
            lambda t, i, o, ks=ks: P.Mux(t, 'x', i['s'], [i['a%d' % k] for k in range(1 << ks)], o['r']))
        # arithmetic
        wb = W(1, w)
        add('Add', [('a', w), ('b', wb)], [('r', w)], lambda t, i, o: P.Add(t, 'x', i['a'], i['b'], o['r']))
        add('Add_ci_co', [('a', w), ('b', w), ('ci', 1)], [('r', w), ('co', 1)], lambda t, i, o: P.Add(t, 'x', i['a'], i['b'], o['r'], ci=i['ci'], co=o['co']))
        add('Sub', [('a', w), ('b', w2)], [('r', wr)], lambda t, i, o: P.Sub(t, 'x', i['a'], i['b'], o['r']))
        add('Mul', [('a', w), ('b', w2)], [('r', wr)], lambda t, i, o: P.Mul(t, 'x', i['a'], i['b'], o['r']))
        add('SignedMul', [('a', w), ('b', w2)], [('r', W(1, 14))], lambda t, i, o: P.SignedMul(t, 'x', i['a'], i['b'], o['r']))
        add('Div', [('a', w), ('b', w2)], [('r', wr)], lambda t, i, o: P.Div(t, 'x', i['a'], i['b'], o['r']))
        add('Mod', [('a', w), ('b', w2)], [('r', wr)], lambda t, i, o: P.Mod(t, 'x', i['a'], i['b'], o['r']))
        add('Neg', [('a', w)], [('r', w)], lambda t, i, o: P.Neg(t, 'x', i['a'], o['r']))
        wm = W(2, 9)
        add('Abs', [('a', wm)], [('r', wm)], lambda t, i, o: P.Abs(t, 'x', i['a'], o['r']))
        add('Sign', [('a', wm)], [('r', 1)], lambda t, i, o: P.Sign(t, 'x', i['a'], o['r']))
        add('SignExtend', [('a', wm)], [('r', wm + rng.randint(1, 4))], lambda t, i, o: P.SignExtend(t, 'x', i['a'], o['r']))
        add('ZeroExtend', [('a', w)], [('r', w + rng.randint(0, 4))], lambda t, i, o: P.ZeroExtend(t, 'x', i['a'], o['r']))
        add('Equal', [('a', w), ('b', w)], [('r', 1)], lambda t, i, o: P.Equal(t, 'x', i['a'], i['b'], o['r']))
        ev = rng.randrange(1 << w)
        add('EqualConstant', [('a', w)], [('r', 1)], lambda t, i, o, ev=ev: P.EqualConstant(t, 'x', i['a'], ev, o['r']))
        add('Comparator', [('a', w), ('b', w)], [('gt', 1), ('eq', 1), ('lt', 1)], lambda t, i, o: P.Comparator(t, 'x', i['a'], i['b'], o['gt'], o['eq'], o['lt']))
        wsh = W(2, 8)
        add('ShiftLeft', [('a', wsh), ('b', 3)], [('r', wsh)], lambda t, i, o: P.ShiftLeft(t, 'x', i['a'], i['b'], o['r']))
        add('ShiftRight', [('a', wsh), ('b', 3)], [('r', wsh)], lambda t, i, o: P.ShiftRight(t, 'x', i['a'], i['b'], o['r']))
        # sequential
        rv = rng.choice([None, 0, 1, (1 << w) - 1, rng.randrange(1 << w)])
        rv2 = (rv or 0) + 1
        add('Reg', [('d', w)], [('q', w)], lambda t, i, o: P.Reg(t, 'x', i['d'], o['q']))
        add('RegE', [('d', w), ('e', 1)], [('q', w)], lambda t, i, o: P.Reg(t, 'x', i['d'], o['q'], enable=i['e']))
        add('RegR', [('d', w), ('r', 1)], [('q', w)], lambda t, i, o, rv=rv: P.Reg(t, 'x', i['d'], o['q'], reset=i['r'], reset_value=rv))
        add('RegER', [('d', w), ('e', 1), ('r', 1)], [('q', w)], lambda t, i, o, rv=rv: P.Reg(t, 'x', i['d'], o['q'], enable=i['e'], reset=i['r'], reset_value=rv))
        add('RegPair', [('d', w), ('e', 1)], [('q1', w), ('q2', w)],
            lambda t, i, o, rv=rv, rv2=rv2: (P.Reg(t, 'x', i['d'], o['q1'], enable=i['e'], reset_value=rv), P.Reg(t, 'y', i['d'], o['q2'], enable=i['e'], reset_value=rv2)))
        add('Counter', [('reset', 1), ('inc', 1)], [('q', w)], lambda t, i, o: P.Counter(t, 'x', i['reset'], i['inc'], o['q']))
        add('TReg', [('t', 1), ('e', 1)], [('q', 1)], lambda t, i, o: P.TReg(t, 'x', i['t'], o['q'], enable=i['e']))
        dl = rng.randint(1, 3)
        add('DelayLine', [('a', w), ('en', 1), ('reset', 1)], [('r', w)], lambda t, i, o, dl=dl: P.DelayLine(t, 'x', i['a'], i['en'], i['reset'], o['r'], dl))
        # configurations that became legal / right with the /repo repairs (scalar operands, mixed widths, wide controls, oversized constants)
        add('Range1', [('a', 1)], [('r', W(1, 3))], lambda t, i, o: P.Range(t, 'x', i['a'], 0, 0, o['r']))
        add('Bit1', [('a', 1)], [('r', 1)], lambda t, i, o: P.Bit(t, 'x', i['a'], 0, o['r']))
        add('Sign1', [('a', 1)], [('r', 1)], lambda t, i, o: P.Sign(t, 'x', i['a'], o['r']))
        ws = W(1, 9)
        add('SignExtendAny', [('a', ws)], [('r', max(1, ws + rng.randint(-3, 3)))], lambda t, i, o: P.SignExtend(t, 'x', i['a'], o['r']))
        add('SignExtend1', [('a', 1)], [('r', W(1, 6))], lambda t, i, o: P.SignExtend(t, 'x', i['a'], o['r']))
        add('Xor2Mixed', [('a', w), ('b', w2)], [('r', wr)], lambda t, i, o: P.Xor2(t, 'x', i['a'], i['b'], o['r']))
        add('EqualMixed', [('a', w), ('b', w2)], [('r', 1)], lambda t, i, o: P.Equal(t, 'x', i['a'], i['b'], o['r']))
        add('Mux2WideSel', [('s', W(2, 3)), ('a', w), ('b', w)], [('r', w)], lambda t, i, o: P.Mux2(t, 'x', i['s'], i['a'], i['b'], o['r']))
        ev2 = rng.randrange(1 << (w + 2))
        add('EqualConstantBig', [('a', w)], [('r', 1)], lambda t, i, o, ev2=ev2: P.EqualConstant(t, 'x', i['a'], ev2, o['r']))
        add('RegWideE', [('d', w), ('e', W(2, 3))], [('q', w)], lambda t, i, o: P.Reg(t, 'x', i['d'], o['q'], enable=i['e']))
        add('ConcatEmpty', [('a', 1)], [('r', wr), ('p', 1)], lambda t, i, o: (P.ConcatenateMSBF(t, 'x', [], o['r']), P.Buf(t, 'y', i['a'], o['p'])))
        # n-ary gates whose operands have different widths (inlined as one expression in Verilog, a ladder of 2-input gates in the simulator)
        n3 = rng.randint(3, 5); ws3 = [W(1, 8) for _ in range(n3)]; wr3 = W(1, 9)
        for gname, gcls in (('OrMixed', P.Or), ('AndMixed', P.And), ('NorMixed', P.Nor), ('XorMixed', P.Xor)):
            add('%s%d' % (gname, n3), [('a%d' % k, ws3[k]) for k in range(n3)], [('r', wr3)],
                lambda t, i, o, n3=n3, gcls=gcls: gcls(t, 'x', [i['a%d' % k] for k in range(n3)], o['r']))
        # blocks with a hand-written verilogBody(): memories (elaborated into word nets by Model/VSem.v) and the UART message sequencer (a ROM)
        aw, mw = W(1, 3), W(1, 8)
        mem_ins = [('ra', aw), ('wa', aw), ('we', 1), ('wd', mw)]
        add('SyncMem', mem_ins, [('rd', mw)], lambda t, i, o: P.SynchronousMemory(t, 'x', i['ra'], i['wa'], i['we'], o['rd'], i['wd']))
        add('AsyncMem', mem_ins, [('rd', mw)], lambda t, i, o: P.AsynchronousMemory(t, 'x', i['ra'], i['wa'], i['we'], o['rd'], i['wd']))
        add('DualMem', mem_ins + [('rb', aw), ('wb', aw), ('web', 1), ('wdb', mw)], [('rd', mw), ('rdb', mw)],
            lambda t, i, o: P.DualPortSynchronousMemory(t, 'x', i['ra'], i['wa'], i['we'], o['rd'], i['wd'], i['rb'], i['wb'], i['web'], o['rdb'], i['wdb']))
        msg = ''.join(chr(rng.randint(33, 126)) for _ in range(rng.choice([1, 2, 3, 4, 5, 8])))
        def msgseq(t, i, o, msg=msg):
            from py4hw.logic.protocol.uart.sequencer import MsgSequencer
            return MsgSequencer(t, 'x', i['ready'], o['valid'], o['v'], msg)
        add('MsgSequencer', [('ready', 1)], [('valid', 1), ('v', 8)], msgseq)
    return out


def pair_catalogue(rng, tier='quick'):
    """two instances of ONE library class in one hierarchy, each individually legal: the second configuration is the first with ONE width or
    option changed (sometimes an independent draw), so that module names produced by structureName() collide whenever the name forgets that
    parameter.  A module shared by name must be interchangeable, whichever instance the generator meets first.
    yields (label, ins, outs, body) like catalogue()."""
    py4hw = quiet_import(); P = py4hw
    pool = [1, 3, 4, 8]
    out = []
    def draw(spec):
        return {k: (rng.choice(v)) for k, v in spec.items()}
    def mutate(spec, cfg, legal):
        for _ in range(20):
            c = dict(cfg); k = rng.choice(sorted(spec)); alt = [x for x in spec[k] if x != cfg[k]]
            if not alt: continue
            c[k] = rng.choice(alt)
            if legal(c): return c
        return cfg
    def pair(label, spec, legal, ports, build, fixed=None):
        c1 = None
        for _ in range(50):
            c1 = draw(spec)
            if legal(c1): break
        if fixed is not None:
            cfgs = [(1, fixed[0]), (2, fixed[1])]                      # instantiated (and met by the generator) in exactly this order
        else:
            c2 = mutate(spec, c1, legal) if rng.random() < .8 else next(c for c in iter(lambda: draw(spec), None) if legal(c))
            cfgs = [(1, c1), (2, c2)]
            if rng.random() < .5: cfgs.reverse()                       # which one the generator meets first matters
        ins, outs = [], []
        for k, c in sorted(cfgs):
            pi, po = ports(k, c); ins += pi; outs += po
        def body(t, i, o, cfgs=cfgs):
            for k, c in cfgs: build(t, i, o, k, c)
        out.append(('Pair_' + label, ins, outs, body))
    T = True
    reps = 3 if tier == 'quick' else 10
    # per-instance structural classes whose KIND depends on a constructor argument: a DelayLine of delay 0 is purely combinational (no clock
    # port), one of delay >= 1 is sequential; both orders, so that whatever the generator remembers about the class from the first instance
    # is wrong for the second
    dl_ports = lambda k, c: ([('a%d' % k, c['w']), ('en%d' % k, 1), ('rs%d' % k, 1)], [('r%d' % k, c['w'])])
    dl_build = lambda t, i, o, k, c: P.DelayLine(t, 'dl%d' % k, i['a%d' % k], i['en%d' % k], i['rs%d' % k], o['r%d' % k], c['dl'])
    for d1, d2 in ((0, 2), (2, 0), (0, 1)) if tier == 'quick' else ((0, 2), (2, 0), (0, 1), (1, 0), (3, 0), (0, 3), (1, 2)):
        w = rng.choice(pool)
        pair('DelayLine_%d_%d' % (d1, d2), {}, lambda c: T, dl_ports, dl_build, fixed=({'w': w, 'dl': d1}, {'w': rng.choice(pool), 'dl': d2}))
    for _ in range(reps):
        pair('Add', {'wa': pool, 'wb': pool, 'wr': pool}, lambda c: c['wr'] >= c['wa'],            # AddCarryIn asserts width(r) >= width(a)
             lambda k, c: ([('a%d' % k, c['wa']), ('b%d' % k, c['wb'])], [('r%d' % k, c['wr'])]),
             lambda t, i, o, k, c: P.Add(t, 'add%d' % k, i['a%d' % k], i['b%d' % k], o['r%d' % k]))
        pair('AddCiCo', {'wa': pool, 'wb': pool, 'wr': pool, 'ci': [False, T], 'co': [False, T]}, lambda c: c['wr'] >= c['wa'],
             lambda k, c: ([('a%d' % k, c['wa']), ('b%d' % k, c['wb'])] + ([('ci%d' % k, 1)] if c['ci'] else []), [('r%d' % k, c['wr'])] + ([('co%d' % k, 1)] if c['co'] else [])),
             lambda t, i, o, k, c: P.Add(t, 'add%d' % k, i['a%d' % k], i['b%d' % k], o['r%d' % k], ci=i.get('ci%d' % k), co=o.get('co%d' % k)))
        pair('Reg', {'wd': pool, 'wq': pool, 'e': [0, 1, 2], 'r': [False, T], 'rv': [None, 0, 1, 5]}, lambda c: T,
             lambda k, c: ([('d%d' % k, c['wd'])] + ([('e%d' % k, c['e'])] if c['e'] else []) + ([('r%d' % k, 1)] if c['r'] else []), [('q%d' % k, c['wq'])]),
             lambda t, i, o, k, c: P.Reg(t, 'reg%d' % k, i['d%d' % k], o['q%d' % k], enable=i.get('e%d' % k), reset=i.get('r%d' % k), reset_value=c['rv']))
        pair('Neg', {'wa': pool, 'wr': pool}, lambda c: T,
             lambda k, c: ([('a%d' % k, c['wa'])], [('r%d' % k, c['wr'])]),
             lambda t, i, o, k, c: P.Neg(t, 'neg%d' % k, i['a%d' % k], o['r%d' % k]))
        pair('Abs', {'wa': [3, 4, 8], 'wr': [3, 4, 8], 'inv': [False, T]}, lambda c: T,
             lambda k, c: ([('a%d' % k, c['wa'])], [('r%d' % k, c['wr'])] + ([('inv%d' % k, 1)] if c['inv'] else [])),
             lambda t, i, o, k, c: P.Abs(t, 'abs%d' % k, i['a%d' % k], o['r%d' % k], inverted=o.get('inv%d' % k)))
        pair('Sign', {'wa': pool}, lambda c: T,
             lambda k, c: ([('a%d' % k, c['wa'])], [('r%d' % k, 1)]),
             lambda t, i, o, k, c: P.Sign(t, 'sign%d' % k, i['a%d' % k], o['r%d' % k]))
        pair('BufEnable', {'wa': pool}, lambda c: T,
             lambda k, c: ([('a%d' % k, c['wa']), ('e%d' % k, 1)], [('r%d' % k, c['wa'])]),
             lambda t, i, o, k, c: P.BufEnable(t, 'be%d' % k, i['a%d' % k], i['e%d' % k], o['r%d' % k]))
    return out


def random_top(rng, n_blocks=8):
    """a random netlist (py/designs.py) inside a top-level Logic with ports"""
    import designs
    n_in, n_out = rng.randint(1, 3), rng.randint(1, 3)
    ins = [('in%d' % k, rng.randint(1, 8)) for k in range(n_in)]
    outs = [('out%d' % k, rng.randint(1, 8)) for k in range(n_out)]
    info = {}
    def body(t, i, o):
        _, _, inf = designs.build_random(rng, n_blocks=n_blocks, parent=t, in_wires=[i[n] for n, _ in ins], out_wires=[o[n] for n, _ in outs], shuffle=True, plain_reset='nonneg')
        info.update(inf)
    hw, top = make_top('RandTop', ins, outs, body)
    return hw, top, ins, outs, info


def stimulus(rng, ins, n_steps, clocked=True, nonzero=()):
    """random data with boundary values; the 1-bit inputs (enables, resets, selects) walk through ALL their combinations,
    each one held for two consecutive steps, so priority/gating mistakes between control inputs are exercised"""
    ctl = [n for n, w in ins if w == 1 and n not in nonzero]
    combos = []
    if 0 < len(ctl) <= 3:
        for rnd in range(3):              # three rounds, so every combination also occurs after the state has moved
            part = []
            for k in range(1 << len(ctl)):
                part += [k, k]
            rng.shuffle(part); combos += part
    steps = []
    for t in range(max(n_steps, len(combos))):
        pk = []
        for n, w in ins:
            v = rng.choice([0, 1, (1 << w) - 1, 1 << (w - 1)]) if rng.random() < .3 else rng.randrange(1 << w)
            if n in ctl and t < len(combos): v = (combos[t] >> ctl.index(n)) & 1
            if n in nonzero and v == 0: v = 1
            pk.append((n, v))
        steps.append((pk, 1 if clocked else 0))
    return steps
