"""Random netlists built from real py4hw library blocks (used by the kernel-level correspondence checks).
Every random choice comes from the rng passed in, so a design is reproducible from (seed, index)."""
import sys
from common import quiet, quiet_import


def build_random(rng, n_blocks=12, n_inputs=3, max_w=8, seq=True, gated=False, shuffle=True, parent=None, in_wires=None, out_wires=None, plain_reset=False, xor_equal_widths=False):
    """returns (hw, inputs, info).  inputs: undriven wires to poke.  Combinational part is acyclic by construction;
    feedback only through registers (q wires are created first and closed at the end).  With shuffle=True the
    blocks are INSTANTIATED in a random order (so Simulator.topologicalSort has work to do)."""
    py4hw = quiet_import()
    import py4hw.logic as L
    hw = py4hw.HWSystem() if parent is None else parent      # `parent`: build inside an existing Logic (its wires are local wires)
    recipe = []          # deferred constructor calls (name, callable)
    ins = []
    pool = []            # wires usable as sources
    if in_wires is not None:
        ins = list(in_wires); pool = list(in_wires)
    else:
      for i in range(n_inputs):
        w = hw.wire('in%d' % i, rng.randint(1, max_w)); ins.append(w); pool.append(w)
    regs = []            # (q wire, kwargs) to be closed later
    if seq:
        for i in range(rng.randint(1, 3)):
            q = hw.wire('q%d' % i, rng.randint(1, max_w)); pool.append(q); regs.append(q)
    cnt = [0]
    def new(wd):
        cnt[0] += 1
        return hw.wire('t%d' % cnt[0], wd)
    def pick(): return rng.choice(pool)
    def pick1():
        c = [w for w in pool if w.getWidth() == 1]
        if c: return rng.choice(c)
        a = pick(); r = new(1); i = rng.randrange(a.getWidth())
        recipe.append(('bit', lambda a=a, i=i, r=r, n=cnt[0]: py4hw.Bit(hw, 'b%d' % n, a, i, r)))
        pool.append(r); return r
    kinds = ['and2', 'or2', 'xor2', 'not', 'add', 'sub', 'mul', 'mux2', 'range', 'concat', 'shl', 'shr', 'const', 'sext', 'neg', 'cmp', 'buf']
    for k in range(n_blocks):
        kind = rng.choice(kinds); n = 'u%d' % k
        a, b = pick(), pick()
        if kind == 'xor2' and xor_equal_widths:
            # the structural Xor2 is only right when a, b and r have one width (known finding C08-xor2-wide-result)
            if b.getWidth() != a.getWidth():
                b2 = new(a.getWidth()); recipe.append(('buf', lambda n=n, b=b, b2=b2: py4hw.Buf(hw, n + 'y', b, b2))); b = b2
            r = new(a.getWidth())
            recipe.append((kind, lambda n=n, a=a, b=b, r=r: py4hw.Xor2(hw, n, a, b, r)))
        elif kind in ('and2', 'or2', 'xor2'):
            r = new(rng.choice([a.getWidth(), b.getWidth(), rng.randint(1, max_w)]))
            cls = {'and2': py4hw.And2, 'or2': py4hw.Or2, 'xor2': py4hw.Xor2}[kind]
            recipe.append((kind, lambda cls=cls, n=n, a=a, b=b, r=r: cls(hw, n, a, b, r)))
        elif kind == 'not':
            r = new(rng.randint(1, max_w)); recipe.append((kind, lambda n=n, a=a, r=r: py4hw.Not(hw, n, a, r)))
        elif kind == 'buf':
            r = new(rng.randint(1, max_w)); recipe.append((kind, lambda n=n, a=a, r=r: py4hw.Buf(hw, n, a, r)))
        elif kind == 'add':
            r = new(rng.randint(a.getWidth(), max(a.getWidth(), max_w))); co = new(1) if rng.random() < .4 else None
            recipe.append((kind, lambda n=n, a=a, b=b, r=r, co=co: py4hw.Add(hw, n, a, b, r, co=co)))
            if co is not None: pool.append(co)
        elif kind == 'sub':
            r = new(rng.randint(1, max_w)); recipe.append((kind, lambda n=n, a=a, b=b, r=r: py4hw.Sub(hw, n, a, b, r)))
        elif kind == 'mul':
            r = new(rng.randint(1, max_w)); recipe.append((kind, lambda n=n, a=a, b=b, r=r: py4hw.Mul(hw, n, a, b, r)))
        elif kind == 'neg':
            r = new(a.getWidth()); recipe.append((kind, lambda n=n, a=a, r=r: py4hw.Neg(hw, n, a, r)))
        elif kind == 'mux2':
            s = pick1(); r = new(rng.randint(1, max_w))
            recipe.append((kind, lambda n=n, s=s, a=a, b=b, r=r: py4hw.Mux2(hw, n, s, a, b, r)))
        elif kind == 'range':
            hi = rng.randrange(a.getWidth()); lo = rng.randint(0, hi); r = new(hi - lo + 1)
            recipe.append((kind, lambda n=n, a=a, hi=hi, lo=lo, r=r: py4hw.Range(hw, n, a, hi, lo, r)))
        elif kind == 'concat':
            if a.getWidth() + b.getWidth() > 16:            # keep widths bounded: concatenate narrow slices instead
                a2 = new(min(a.getWidth(), 8)); b2 = new(min(b.getWidth(), 8))
                recipe.append(('range', lambda n=n, a=a, a2=a2: py4hw.Range(hw, n + 'a', a, a2.getWidth() - 1, 0, a2)))
                recipe.append(('range', lambda n=n, b=b, b2=b2: py4hw.Range(hw, n + 'b', b, b2.getWidth() - 1, 0, b2)))
                pool.extend([a2, b2]); a, b = a2, b2
            r = new(a.getWidth() + b.getWidth())
            cls = rng.choice([py4hw.ConcatenateMSBF, py4hw.ConcatenateLSBF])
            recipe.append((kind, lambda cls=cls, n=n, a=a, b=b, r=r: cls(hw, n, [a, b], r)))
        elif kind in ('shl', 'shr'):
            r = new(rng.randint(1, max_w)); sh = rng.randint(0, max_w + 1)
            cls = py4hw.ShiftLeftConstant if kind == 'shl' else py4hw.ShiftRightConstant
            recipe.append((kind, lambda cls=cls, n=n, a=a, sh=sh, r=r: cls(hw, n, a, sh, r)))
        elif kind == 'const':
            r = new(rng.randint(1, max_w)); v = rng.choice([0, 1, -1, -5, 2 ** r.getWidth(), 2 ** r.getWidth() - 1, rng.randrange(1 << 12)])
            recipe.append((kind, lambda n=n, v=v, r=r: py4hw.Constant(hw, n, v, r)))
        elif kind == 'sext':
            r = new(rng.randint(a.getWidth(), a.getWidth() + 4))
            recipe.append((kind, lambda n=n, a=a, r=r: py4hw.SignExtend(hw, n, a, r)))
        elif kind == 'cmp':
            if a.getWidth() != b.getWidth():
                b2 = new(a.getWidth()); recipe.append(('buf', lambda n=n, b=b, b2=b2: py4hw.Buf(hw, n + 'z', b, b2))); b = b2
            gt, eq, lt = new(1), new(1), new(1)
            recipe.append((kind, lambda n=n, a=a, b=b, gt=gt, eq=eq, lt=lt: py4hw.Comparator(hw, n, a, b, gt, eq, lt)))
            pool.extend([gt, eq]); r = lt
        pool.append(r)
    domains = []
    for i, q in enumerate(regs):
        cands = [w for w in pool if w.getWidth() == q.getWidth() and w is not q]
        if cands: d = rng.choice(cands)
        else:
            src = pick(); d = new(q.getWidth()); recipe.append(('buf', lambda src=src, d=d, i=i: py4hw.Buf(hw, 'rb%d' % i, src, d)))
        en = pick1() if rng.random() < .5 else None
        rs = pick1() if rng.random() < .5 else None
        rv = rng.choice([None, 0]) if plain_reset is True else rng.choice([None, 0, 1, 2 ** q.getWidth() - 1, rng.randrange(1 << q.getWidth()), 2 ** q.getWidth() + 5]) if plain_reset == 'nonneg' else rng.choice([None, 0, 1, 2 ** q.getWidth() - 1, rng.randrange(1 << q.getWidth()), -1, 2 ** q.getWidth(), 2 ** q.getWidth() + 5, -(2 ** q.getWidth()) - 3])
        recipe.append(('reg', lambda i=i, d=d, q=q, en=en, rs=rs, rv=rv: py4hw.Reg(hw, 'r%d' % i, d, q, enable=en, reset=rs, reset_value=rv)))
    for i, ow in enumerate(out_wires or []):
        src = rng.choice([w for w in pool if w not in ins] or pool)
        recipe.append(('buf', lambda src=src, ow=ow, i=i: py4hw.Buf(hw, 'ob%d' % i, src, ow)))
    if shuffle:
        rng.shuffle(recipe)
    with quiet():
        for _, mk in recipe:
            mk()
    return hw, ins, {'blocks': [k for k, _ in recipe]}


def random_steps(rng, dp, ins, n_steps, max_clk=1):
    """stimulus including extremes, negatives and oversized values"""
    steps = []
    for t in range(n_steps):
        pokes = []
        for w in ins:
            if rng.random() < .8:
                wd = w.getWidth()
                v = rng.choice([0, 1, (1 << wd) - 1, 1 << (wd - 1), -1, -(1 << wd), (1 << wd) + 3, rng.randrange(1 << wd), rng.randrange(-(1 << 20), 1 << 20)])
                pokes.append((dp.w(w), v))
        steps.append((pokes, rng.randint(1, max_clk)))
    return steps
