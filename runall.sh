#!/bin/bash
# ./runall.sh quick C01 C02 ...   -> runs checks sequentially, summary in /tmp/runall.log
tier=$1; shift
for p in "$@"; do
  s=$(date +%s); out=$(./check $p $tier 2>&1); rc=$?; e=$(date +%s)
  v=$(echo "$out" | grep -c "^VIOLATION"); k=$(echo "$out" | grep -c "^KNOWN-FINDING")
  echo "$p rc=$rc time=$((e-s))s violations=$v known=$k" | tee -a /tmp/runall.log
  [ $rc -ne 0 ] && echo "$out" | tail -15 >> /tmp/runall_$p.fail
done
