(* Python's unbounded-int operators on Z.
   &,|,^,~  are Z.land/lor/lxor/lnot (both sides are infinite two's complement);
   >>  is Z.shiftr (floor) and << is Z.shiftl, both only for a non-negative amount
       (Python raises ValueError otherwise: every theorem that uses a shift states
       the guard on the amount, nothing is proved about the totalised value);
   //,% are Z.div / Z.modulo (floor, sign of the divisor: Python's convention), divisor <> 0. *)
From Coq Require Export ZArith List Bool Lia ZifyBool.
Export ListNotations.
Open Scope Z_scope.

Definition py_shl (a n : Z) : Z := Z.shiftl a n.
Definition py_shr (a n : Z) : Z := Z.shiftr a n.
Definition py_truth (v : Z) : bool := negb (v =? 0).
Definition b2z (b : bool) : Z := if b then 1 else 0.

(* range(a,b) as a list of Z *)
Definition seqZ (a b : Z) : list Z := map (fun k => a + Z.of_nat k) (seq 0 (Z.to_nat (b - a))).

(* list read with Python's IndexError made explicit: None when out of range
   (negative indices, which Python wraps, are also None: no library block uses them) *)
Definition nthZ {A} (l : list A) (i : Z) : option A :=
  if i <? 0 then None else nth_error l (Z.to_nat i).

Fixpoint set_nth {A} (l : list A) (i : nat) (v : A) : list A :=
  match l, i with
  | [], _ => []
  | _ :: t, O => v :: t
  | y :: t, S i' => y :: set_nth t i' v
  end.

Definition setZ {A} (l : list A) (i : Z) (v : A) : list A :=
  if i <? 0 then l else set_nth l (Z.to_nat i) v.
