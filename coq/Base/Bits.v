(* Masks, truncation, two's complement: the arithmetic facts every property uses. *)
From V Require Export Base.PyInt.
Ltac Zify.zify_post_hook ::= Z.to_euclidean_division_equations.

(* exactly the expression in Wire.put / Wire.prepare: (1<<width)-1 *)
Definition mask (w : Z) : Z := Z.shiftl 1 w - 1.
Definition trunc (w v : Z) : Z := Z.land v (mask w).

Lemma pow2_pos w : 0 <= w -> 0 < 2 ^ w.
Proof. intros; apply Z.pow_pos_nonneg; lia. Qed.

Lemma mask_pow w : 0 <= w -> mask w = 2 ^ w - 1.
Proof. intros; unfold mask; rewrite Z.shiftl_1_l; reflexivity. Qed.

Lemma mask_ones w : 0 <= w -> mask w = Z.ones w.
Proof. intros; rewrite mask_pow, Z.ones_equiv by lia; lia. Qed.

Lemma mask_nonneg w : 0 <= w -> 0 <= mask w.
Proof. intros; rewrite mask_pow by lia; pose proof (pow2_pos w); lia. Qed.

Lemma trunc_mod w v : 0 <= w -> trunc w v = v mod 2 ^ w.
Proof. intros; unfold trunc; rewrite mask_ones by lia; apply Z.land_ones; lia. Qed.

Lemma trunc_range w v : 0 <= w -> 0 <= trunc w v < 2 ^ w.
Proof. intros; rewrite trunc_mod by lia; apply Z.mod_pos_bound, pow2_pos; lia. Qed.

Lemma trunc_small w v : 0 <= w -> 0 <= v < 2 ^ w -> trunc w v = v.
Proof. intros; rewrite trunc_mod by lia; apply Z.mod_small; lia. Qed.

Lemma trunc_idem w v : 0 <= w -> trunc w (trunc w v) = trunc w v.
Proof. intros; apply trunc_small; [lia | apply trunc_range; lia]. Qed.

Lemma mod_mod_le x a b : 0 <= a <= b -> (x mod 2 ^ b) mod 2 ^ a = x mod 2 ^ a.
Proof.
  intros. symmetry. apply Znumtheory.Zmod_div_mod; try (apply Z.pow_pos_nonneg; lia).
  exists (2 ^ (b - a)). rewrite <- Z.pow_add_r by lia. f_equal; lia.
Qed.

Lemma trunc_trunc_le a b v : 0 <= a <= b -> trunc a (trunc b v) = trunc a v.
Proof. intros; rewrite !trunc_mod by lia; apply mod_mod_le; lia. Qed.

Lemma pow2_le a b : 0 <= a <= b -> 2 ^ a <= 2 ^ b.
Proof. intros; apply Z.pow_le_mono_r; lia. Qed.

Lemma pow2_lt a b : 0 <= a < b -> 2 ^ a < 2 ^ b.
Proof. intros; apply Z.pow_lt_mono_r; lia. Qed.

Lemma trunc_add_l w a b : 0 <= w -> trunc w (trunc w a + b) = trunc w (a + b).
Proof. intros; rewrite !trunc_mod by lia; apply Z.add_mod_idemp_l, Z.pow_nonzero; lia. Qed.

Lemma trunc_add_r w a b : 0 <= w -> trunc w (a + trunc w b) = trunc w (a + b).
Proof. intros; rewrite !trunc_mod by lia; apply Z.add_mod_idemp_r, Z.pow_nonzero; lia. Qed.

Lemma trunc_mul_l w a b : 0 <= w -> trunc w (trunc w a * b) = trunc w (a * b).
Proof. intros; rewrite !trunc_mod by lia; apply Z.mul_mod_idemp_l, Z.pow_nonzero; lia. Qed.

Lemma trunc_mul_r w a b : 0 <= w -> trunc w (a * trunc w b) = trunc w (a * b).
Proof. intros; rewrite !trunc_mod by lia; apply Z.mul_mod_idemp_r, Z.pow_nonzero; lia. Qed.

Lemma trunc_sub_l w a b : 0 <= w -> trunc w (trunc w a - b) = trunc w (a - b).
Proof. intros; rewrite !trunc_mod by lia; apply Zminus_mod_idemp_l. Qed.

Lemma trunc_sub_r w a b : 0 <= w -> trunc w (a - trunc w b) = trunc w (a - b).
Proof. intros; rewrite !trunc_mod by lia; apply Zminus_mod_idemp_r. Qed.

Lemma trunc_add_pow w a k : 0 <= w -> trunc w (a + k * 2 ^ w) = trunc w a.
Proof. intros; rewrite !trunc_mod by lia; apply Z.mod_add, Z.pow_nonzero; lia. Qed.

Lemma trunc_testbit w v i : 0 <= w -> 0 <= i ->
  Z.testbit (trunc w v) i = (i <? w) && Z.testbit v i.
Proof.
  intros Hw Hi; unfold trunc; rewrite mask_ones by lia.
  rewrite Z.land_spec, Z.testbit_ones by lia.
  replace (0 <=? i) with true by lia. simpl. apply andb_comm.
Qed.

(* bit i of v as an integer, as the code writes it: (v >> i) & 1 *)
Definition bitZ (v i : Z) : Z := Z.land (Z.shiftr v i) 1.

Lemma bitZ_b2z v i : 0 <= i -> bitZ v i = b2z (Z.testbit v i).
Proof.
  intros; unfold bitZ. change 1 with (Z.ones 1). rewrite Z.land_ones by lia.
  rewrite <- Z.bit0_mod, Z.shiftr_spec by lia. rewrite Z.add_0_l. reflexivity.
Qed.

Lemma bitZ_range v i : 0 <= i -> 0 <= bitZ v i <= 1.
Proof. intros; rewrite bitZ_b2z by lia; destruct (Z.testbit v i); simpl; lia. Qed.

Lemma shiftr_div v n : 0 <= n -> Z.shiftr v n = v / 2 ^ n.
Proof. intros; apply Z.shiftr_div_pow2; lia. Qed.

Lemma shiftl_mul v n : 0 <= n -> Z.shiftl v n = v * 2 ^ n.
Proof. intros; apply Z.shiftl_mul_pow2; lia. Qed.

(* disjoint lor is addition *)
Lemma lor_add_disjoint hi lo n : 0 <= n -> 0 <= lo < 2 ^ n ->
  Z.lor (Z.shiftl hi n) lo = hi * 2 ^ n + lo.
Proof.
  intros Hn Hlo.
  assert (H : Z.land (Z.shiftl hi n) lo = 0).
  { apply Z.bits_inj'; intros k Hk. rewrite Z.land_spec, Z.shiftl_spec, Z.bits_0 by lia.
    destruct (Z.ltb_spec k n).
    - rewrite (Z.testbit_neg_r hi) by lia; reflexivity.
    - rewrite <- (Z.mod_small lo (2 ^ n)) by lia.
      rewrite Z.mod_pow2_bits_high by lia. apply andb_false_r. }
  rewrite <- Z.shiftl_mul_pow2 by lia.
  rewrite Z.add_nocarry_lxor by exact H. rewrite Z.lxor_lor by exact H. reflexivity.
Qed.

(* two's complement reading of a w-bit pattern (spec side) *)
Definition sgn (w v : Z) : Z := if v <? 2 ^ (w - 1) then v else v - 2 ^ w.

Lemma sgn_range w v : 0 < w -> 0 <= v < 2 ^ w -> - 2 ^ (w - 1) <= sgn w v < 2 ^ (w - 1).
Proof.
  intros Hw Hv. unfold sgn. assert (2 ^ w = 2 * 2 ^ (w - 1)).
  { replace w with (1 + (w - 1)) at 1 by lia. rewrite Z.pow_add_r by lia. reflexivity. }
  destruct (Z.ltb_spec v (2 ^ (w - 1))); lia.
Qed.

Lemma trunc_sgn w v : 0 < w -> 0 <= v < 2 ^ w -> trunc w (sgn w v) = v.
Proof.
  intros Hw Hv. unfold sgn. destruct (Z.ltb_spec v (2 ^ (w - 1))).
  - apply trunc_small; lia.
  - replace (v - 2 ^ w) with (v + (-1) * 2 ^ w) by lia. rewrite trunc_add_pow by lia.
    apply trunc_small; lia.
Qed.

Lemma testbit_high w v : 0 < w -> 0 <= v < 2 ^ w ->
  Z.testbit v (w - 1) = (2 ^ (w - 1) <=? v).
Proof.
  intros Hw Hv. rewrite Z.testbit_eqb by lia.
  assert (2 ^ w = 2 * 2 ^ (w - 1)).
  { replace w with (1 + (w - 1)) at 1 by lia. rewrite Z.pow_add_r by lia. reflexivity. }
  pose proof (pow2_pos (w - 1) ltac:(lia)).
  destruct (Z.leb_spec (2 ^ (w - 1)) v).
  - replace (v / 2 ^ (w - 1)) with 1; [reflexivity|]. apply Z.div_unique with (v - 2 ^ (w - 1)); lia.
  - rewrite Z.div_small by lia. reflexivity.
Qed.

(* obligations generated for Python `assert` statements in translated methods: the condition must hold for every in-range input *)
Ltac auto_assert :=
  intros; cbv zeta beta; unfold py_shl, py_shr, py_truth, b2z in *;
  repeat rewrite Z.shiftl_1_l in *;
  repeat match goal with
         | |- context [2 ^ ?w] => lazymatch goal with
                                   | _ : 0 < 2 ^ w |- _ => fail
                                   | _ => assert (0 < 2 ^ w) by (apply Z.pow_pos_nonneg; lia)
                                   end
         end;
  lia.
