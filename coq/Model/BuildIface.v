(* Model/BuildIface.v -- py4hw interfaces (py4hw/base.py class Interface, Logic.addInterfaceSource / addInterfaceSink;
   py4hw/logic/bus/axi.py AXI4StreamInterface) as DERIVED operation lists over the operations of Model/Build.v.
   HAND-WRITTEN, definitions only (no proofs in this file); NOT YET tied to /repo per run -- docs/C11.md and docs/C16.md
   ("Added in session 5") say exactly what a harness has to dump and compare to tie it.

   Nothing new is added to the construction state: an interface call is a loop of port constructions, and each
   iteration's two statements
        port = OutPort(self, portname, wire) ; self.outPorts.append(port)          (base.py 123-124, 165-166)
        port = InPort(self, portname, wire)  ; self.inPorts.append(port)           (base.py 130-131, 159-160)
   are, statement for statement, the body of Logic.addOut (base.py 59-60) resp. Logic.addIn (base.py 36-37), i.e. the
   operations AddOut / AddIn of Model/Build.v.  What the calls do besides (the local list `ports`, the bookkeeping
   objects InterfaceSource / InterfaceSink appended to self.sources / self.sinks at base.py 134 / 169, which nothing in
   the kernel, the checker or the generators of the modelled fragment reads) is outside the state of Model/Build.v. *)
From Coq Require Import ZArith List Bool Arith.
From V Require Import Model.Build.
Import ListNotations.

(* class Interface (base.py 797-806): the two lists `sourceToSink` / `sinkToSource` of [signal name, wire] pairs, in the
   order addSourceToSink / addSinkToSource (base.py 808-827, 865-883) or the ...Ref variants (901-911) appended them.
   The wire is a wire index of the construction state (the Wire object the pair holds). *)
Record iface := mkIface {
  sourceToSink : list (name * nat);
  sinkToSource : list (name * nat)
}.

(* the port-name scheme, base.py 117-118 + 122 (= 129, 153-154 + 158, 164):
        if (len(name) > 0): name = name + '_'
        portname = name + obj[0]
   `None` = the empty string (what Axi2Reg / Reg2Axi pass: their ports are called 'tvalid', 'tdata', ...);
   `Some a` = the non-empty name coded a.  Names are integer codes (Model/Build.v `name`); the code of '<a>_<signal>'
   is the one py/props/c11_world.py already uses for 'n<a>_<i>' (BUNDLE = 1000, nm / unnm there): BUNDLE*(a+1) + i.
   It is injective for 0 <= a and 0 <= signal < BUNDLE (Proofs/C11/Interface.v port_name_inj). *)
Definition BUNDLE : Z := 1000.
Definition port_name (pre : option name) (sg : name) : name :=
  match pre with
  | None => sg
  | Some a => (BUNDLE * (a + 1) + sg)%Z
  end.

(* Logic.addInterfaceSource(self=o, name=pre, interface=i), base.py 102-136:
     first  loop, lines 120-125:  for obj in interface.sourceToSink: OutPort(self, name+obj[0], obj[1]); outPorts.append
     second loop, lines 127-132:  for obj in interface.sinkToSource: InPort (self, name+obj[0], obj[1]); inPorts.append *)
Definition add_interface_source (o : nat) (pre : option name) (i : iface) : list op :=
  map (fun e => AddOut o (port_name pre (fst e)) (snd e)) (sourceToSink i) ++
  map (fun e => AddIn o (port_name pre (fst e)) (snd e)) (sinkToSource i).

(* Logic.addInterfaceSink(self=o, name=pre, interface=i), base.py 138-171:
     first  loop, lines 156-161:  for obj in interface.sourceToSink: InPort (self, name+obj[0], obj[1]); inPorts.append
     second loop, lines 162-167:  for obj in interface.sinkToSource: OutPort(self, name+obj[0], obj[1]); outPorts.append *)
Definition add_interface_sink (o : nat) (pre : option name) (i : iface) : list op :=
  map (fun e => AddIn o (port_name pre (fst e)) (snd e)) (sourceToSink i) ++
  map (fun e => AddOut o (port_name pre (fst e)) (snd e)) (sinkToSource i).

(* ONE Python call = its operations in order UNTIL THE FIRST ONE THAT DOES NOT RETURN: an exception raised by a port
   constructor leaves the loop and the call (there is no try/except in base.py 102-171), so the ports created by the
   earlier iterations stay.  Result: the state the call leaves behind and Ok / the exception of the failing operation. *)
Fixpoint run_abort (s : state) (ops : list op) : state * outcome :=
  match ops with
  | [] => (s, Ok)
  | o :: r =>
    let '(s', out) := step s o in
    match out with Ok => run_abort s' r | _ => (s', out) end
  end.

(* construction calls, interface calls included *)
Inductive iop :=
| Prim (o : op)                                              (* any call of Model/Build.v *)
| AddIfaceSource (o : nat) (pre : option name) (i : iface)   (* o.addInterfaceSource(pre, i) *)
| AddIfaceSink (o : nat) (pre : option name) (i : iface).    (* o.addInterfaceSink(pre, i) *)

Definition istep (s : state) (x : iop) : state * outcome :=
  match x with
  | Prim o => step s o
  | AddIfaceSource o pre i => run_abort s (add_interface_source o pre i)
  | AddIfaceSink o pre i => run_abort s (add_interface_sink o pre i)
  end.
Definition iexec (s : state) (x : iop) : state := fst (istep s x).
Definition irun_from (s : state) (xs : list iop) : state := fold_left iexec xs s.
Definition irun (xs : list iop) : state := irun_from init xs.

(* ---------------------------------------------------------------- what the direction mapping MEANS (used by Properties/C16.v) *)
(* a port as the four attributes of its object: (class, parent block, name, wire) *)
Definition prow (s : state) (q : nat) : portkind * nat * name * nat := (pkind s q, pparent s q, pname s q, pwire s q).
(* the source side DRIVES every sourceToSink signal and READS every sinkToSource signal ... *)
Definition source_rows (o : nat) (pre : option name) (i : iface) : list (portkind * nat * name * nat) :=
  map (fun e => (POut, o, port_name pre (fst e), snd e)) (sourceToSink i) ++
  map (fun e => (PIn, o, port_name pre (fst e), snd e)) (sinkToSource i).
(* ... the sink side the converse *)
Definition sink_rows (o : nat) (pre : option name) (i : iface) : list (portkind * nat * name * nat) :=
  map (fun e => (PIn, o, port_name pre (fst e), snd e)) (sourceToSink i) ++
  map (fun e => (POut, o, port_name pre (fst e), snd e)) (sinkToSource i).

(* ---------------------------------------------------------------- an AXI4-Stream-like interface (axi.py 144-175 with the
   defaults: tvalid, tdata source->sink; tready sink->source; the wires are created in the order tvalid, tready, tdata) *)
Definition sg_tvalid : name := 0%Z.
Definition sg_tready : name := 1%Z.
Definition sg_tdata : name := 2%Z.
(* block 0 = the parent; interface named 7: wires 'n7_0' (tvalid), 'n7_1' (tready), 'n7_2' (tdata);
   block 1 = a primitive producer, block 2 = a primitive consumer, block 3 = a second primitive producer,
   blocks 4 and 5 = structural blocks *)
Definition axis_pre : list iop :=
  map Prim [NewLogic None 0%Z false;
            NewWire 0 (port_name (Some 7%Z) sg_tvalid) 1%Z; NewWire 0 (port_name (Some 7%Z) sg_tready) 1%Z;
            NewWire 0 (port_name (Some 7%Z) sg_tdata) 32%Z;
            NewLogic (Some 0) 1%Z true; NewLogic (Some 0) 2%Z true; NewLogic (Some 0) 3%Z true;
            NewLogic (Some 0) 4%Z false; NewLogic (Some 0) 5%Z false].
Definition axis : iface := mkIface [(sg_tvalid, 0); (sg_tdata, 2)] [(sg_tready, 1)].

(* ---------------------------------------------------------------- for a per-run tie (not yet used by py/props/c11.py):
   first call index at which the model and the recorded real behaviour (raise flag, canonical dump of the whole state
   after the call) differ -- Model/Build.v first_diff with interface calls allowed *)
Fixpoint ifirst_diff (s : state) (xs : list iop) (expected : list (Z * list (list (list (list Z))))) (i : Z)
  : option (Z * Z * list (list (list (list Z)))) :=
  match xs, expected with
  | x :: xs', (r, d) :: ex' =>
    let '(s', out) := istep s x in
    if Z.eqb (raised out) r && dump_eqb (dump s') d then ifirst_diff s' xs' ex' (i + 1)%Z
    else Some (i, raised out, dump s')
  | [], [] => None
  | _, _ => Some (i, 9%Z, [])
  end.
