(* C01 composition: a reflective description of the instances a generated design is made of.
   ONE id space: the kernel design uses the flat net index of the elaborated Verilog as wire id (nid = flat net id, width).
   prim      one inlinable primitive instance (the classes that are LEAVES of the simulator and one `assign` in the text)
   prim_assigns p   the text the emitter prints for it      = the matching inl_* of Model/Inline.v
   prim_leaf p      the simulator leaf                       = the REGENERATED X_propagate applied to the instance's widths / constants
   reginst   one Reg instance: reg net rq (initialised to reset_value), the posedge process body_reg_proc, the assign q = rq;
             simulator side: the regenerated Reg_clock
   match_comb / match_flat   per-design decidable checks (vm_compute) that imply the hypotheses of the composition theorems.
   NO PROOFS in this file. *)
From V Require Import Base.PyInt Base.Bits Gen.WireOps Gen.Helpers Gen.Prims Gen.Seq Model.VSyntax Model.VSem Model.Inline Model.SimKernel Model.StructLogic.
Local Open Scope Z_scope.

Inductive prim :=
  | PAnd2 (r a b : nid) | POr2 (r a b : nid) | PNot (r a : nid) | PBuf (r a : nid) | PZeroExtend (r a : nid)
  | PSub (r a b : nid) | PMul (r a b : nid) | PAddCI (r a b ci : nid)
  | PShl (r a : nid) (n : Z) | PShr (r a : nid) (n : Z)
  | PMux2 (r sel s0 s1 : nid)
  | PRange (r a : nid) (hi lo : Z) | PBit (r a : nid) (k : Z)
  | PConstant (r : nid) (v : Z)
  | PSignedMul (r a b : nid) | PSignExtend (r a : nid)
  | PConcatMSBF (r : nid) (ins : list nid) | PConcatLSBF (r : nid) (ins : list nid)
  | PRepeat (r i : nid)
  (* MACRO-LEAVES: blocks the generator prints as ONE assign while the simulator builds a sub-network of gates.  The kernel leaf
     is C08's model of that sub-network (Model/StructLogic.v: the composition of the regenerated primitives the constructor
     instantiates); its internal wires do not exist in the kernel design. *)
  | PXor2 (r a b : nid) | PNand2 (r a b : nid) | PNor2 (r a b : nid)
  | PAnd (r : nid) (ins : list nid) | POr (r : nid) (ins : list nid) | PNor (r : nid) (ins : list nid)
  | PEqual (r a b : nid) | PEqualConst (r a : nid) (v : Z)
  (* Div / Mod: the simulator's result for a zero divisor is random (`rnd`); the leaf below fixes it to what VSem's totalised
     quot/rem give, so that text and leaf agree on EVERY environment (also the transient ones of the settle loop); whenever the
     divisor is non-zero this is the regenerated Div_propagate / Mod_propagate for every rnd (div_rnd_irrelevant) *)
  | PDiv (r a b : nid) | PMod (r a b : nid)
  (* the k-th listed wire of a BitsLSBF / BitsMSBF block on a: one assign of the block's text, one output of its (single) leaf;
     the kernel design merges the projections of a block into ONE multi-output leaf (citem / item_leaf below) *)
  | PBitOf (msb : bool) (a : nid) (bits : list nid) (k : nat).

Definition prim_out (p : prim) : nid :=
  match p with
  | PAnd2 r _ _ | POr2 r _ _ | PNot r _ | PBuf r _ | PZeroExtend r _ | PSub r _ _ | PMul r _ _ | PAddCI r _ _ _
  | PShl r _ _ | PShr r _ _ | PMux2 r _ _ _ | PRange r _ _ _ | PBit r _ _ | PConstant r _
  | PSignedMul r _ _ | PSignExtend r _ | PConcatMSBF r _ | PConcatLSBF r _ | PRepeat r _
  | PXor2 r _ _ | PNand2 r _ _ | PNor2 r _ _ | PAnd r _ | POr r _ | PNor r _ | PEqual r _ _ | PEqualConst r _ _
  | PDiv r _ _ | PMod r _ _ => r
  | PBitOf _ _ bits k => nth k bits (O, 0)
  end.

(* the nets the instance reads, in the order of the leaf's argument list *)
Definition prim_ins (p : prim) : list nid :=
  match p with
  | PAnd2 _ a b | POr2 _ a b | PSub _ a b | PMul _ a b | PSignedMul _ a b
  | PXor2 _ a b | PNand2 _ a b | PNor2 _ a b | PEqual _ a b | PDiv _ a b | PMod _ a b => [a; b]
  | PEqualConst _ a _ | PBitOf _ a _ _ => [a]
  | PAnd _ ins | POr _ ins | PNor _ ins => ins
  | PNot _ a | PBuf _ a | PZeroExtend _ a | PShl _ a _ | PShr _ a _ | PRange _ a _ _ | PBit _ a _ | PSignExtend _ a | PRepeat _ a => [a]
  | PAddCI _ a b ci => [a; b; ci]
  | PMux2 _ sel s0 s1 => [sel; s0; s1]
  | PConstant _ _ => []
  | PConcatMSBF _ ins | PConcatLSBF _ ins => ins
  end.

(* the emitted text *)
Definition prim_assigns (p : prim) : list (rlval * rexpr) :=
  match p with
  | PAnd2 r a b => inl_bin BAnd r a b
  | POr2 r a b => inl_bin BOr r a b
  | PNot r a => inl_not r a
  | PBuf r a | PZeroExtend r a => inl_buf r a
  | PSub r a b => inl_bin BSub r a b
  | PMul r a b => inl_bin BMul r a b
  | PAddCI r a b ci => inl_addci r a b ci
  | PShl r a n => inl_shl r a n
  | PShr r a n => inl_shr r a n
  | PMux2 r sel s0 s1 => inl_mux2 r sel s0 s1
  | PRange r a hi lo => inl_range r a hi lo
  | PBit r a k => inl_bit r a k
  | PConstant r v => inl_constant r v
  | PSignedMul r a b => inl_smul r a b
  | PSignExtend r a => inl_signextend r a
  | PConcatMSBF r ins | PConcatLSBF r ins => inl_concat r ins
  | PRepeat r i => inl_repeat r i
  | PXor2 r a b => inl_bin BXor r a b
  | PNand2 r a b => inl_nbin BAnd r a b
  | PNor2 r a b => inl_nbin BOr r a b
  | PAnd r ins => match ins with [] => [(whole r, RNum 0)] | _ => inl_nary BAnd r ins end      (* [] cannot be built; excluded by prim_wf *)
  | POr r ins => match ins with [] => [(whole r, RNum 0)] | _ => inl_nary BOr r ins end
  | PNor r ins => match ins with [] => [(whole r, RNum 0)] | _ => inl_nnary BOr r ins end
  | PEqual r a b => inl_equal r a b
  | PEqualConst r a v => inl_equalconst r a v
  | PDiv r a b => inl_bin BDiv r a b
  | PMod r a b => inl_bin BMod r a b
  | PBitOf _ a bits k => [nth k (inl_bits a bits) (whole (nth k bits (O, 0)), RNum 0)]
  end.

(* the value the simulator leaf passes to Wire.put, from the values read on prim_ins (same order) *)
Definition prim_fn (p : prim) (vs : list Z) : Z :=
  let v k := nth k vs 0 in
  match p with
  | PAnd2 r _ _ => And2_propagate (snd r) (v 0%nat) (v 1%nat)
  | POr2 r _ _ => Or2_propagate (snd r) (v 0%nat) (v 1%nat)
  | PNot r _ => Not_propagate (snd r) (v 0%nat)
  | PBuf r _ => Buf_propagate (snd r) (v 0%nat)
  | PZeroExtend r _ => ZeroExtend_propagate (snd r) (v 0%nat)
  | PSub r _ _ => Sub_propagate (snd r) (v 0%nat) (v 1%nat)
  | PMul r _ _ => Mul_propagate (snd r) (v 0%nat) (v 1%nat)
  | PAddCI r _ _ _ => AddCarryIn_propagate (snd r) (v 0%nat) (v 1%nat) (v 2%nat)
  | PShl r _ n => ShiftLeftConstant_propagate (snd r) n (v 0%nat)
  | PShr r _ n => ShiftRightConstant_propagate (snd r) n (v 0%nat)
  | PMux2 r _ _ _ => Mux2_propagate (snd r) (v 0%nat) (v 1%nat) (v 2%nat)
  | PRange r _ hi lo => Range_propagate (snd r) hi lo (v 0%nat)
  | PBit r _ k => Bit_propagate (snd r) k (v 0%nat)
  | PConstant r c => Constant_propagate (snd r) c
  | PSignedMul r a b => SignedMul_propagate (snd a) (snd b) (snd r) (v 0%nat) (v 1%nat)
  | PSignExtend r a => SignExtend_propagate (snd a) (snd r) (v 0%nat)
  | PConcatMSBF r ins => ConcatenateMSBF_propagate (snd r) (combine (map snd ins) vs)
  | PConcatLSBF r ins => ConcatenateLSBF_propagate (snd r) (combine (map snd ins) vs)
  | PRepeat r _ => Repeat_propagate (snd r) (v 0%nat)
  | PXor2 r a b => Xor2_m mid_max (snd a) (snd b) (snd r) (v 0%nat) (v 1%nat)   (* the repaired constructor: Mid/XOut/YOut are max(wa,wb,wr) wide *)
  | PNand2 r a _ => Nand2_m (snd a) (snd r) (v 0%nat) (v 1%nat)
  | PNor2 r a _ => Nor2_m (snd r) (snd r) (v 0%nat) (v 1%nat)            (* Mid is as wide as r since /repo fcb70c1 *)
  | PAnd r _ => And_m (snd r) vs
  | POr r _ => Or_m (snd r) vs
  | PNor r ins => Nor_m (snd r) (snd r) vs
  | PEqual r a b => Equal_m mid_max eqw_max (snd a) (snd b) (v 0%nat) (v 1%nat) (* the repaired constructor: the xor wire is max(wa,wb) wide *)
  | PEqualConst r a k => EqualConstant_m (snd a) (snd r) k (v 0%nat)
  | PDiv r _ _ => Div_propagate (snd r) 0 (v 0%nat) (v 1%nat)                  (* rnd := 0 = a / 0 of VSem *)
  | PMod r _ _ => if v 1%nat =? 0 then Wire_put (snd r) (v 0%nat)              (* a % 0 of VSem (Z.rem a 0 = a) *)
                  else Mod_propagate (snd r) 0 (v 0%nat) (v 1%nat)
  | PBitOf msb a bits k => nth k ((if msb then BitsMSBF_propagate else BitsLSBF_propagate) (snd a) (map snd bits) (v 0%nat)) 0
  end.

(* the simulator leaf: wire ids are the flat net ids; one definite output *)
Definition prim_leaf (p : prim) : cleaf :=
  {| c_in := map fst (prim_ins p); c_out := [fst (prim_out p)]; c_f := fun vs => [Some (prim_fn p vs)] |}.

(* the guards of the per-emitter theorems *)
Definition prim_guard (p : prim) : bool :=
  match p with
  | PShl _ _ n | PShr _ _ n => (0 <=? n) && (n <? 2 ^ 31)
  | PRange _ _ hi lo => (0 <=? lo) && (lo <=? hi)
  | PBit _ a k => (0 <=? k) && (k <? snd a) && (k <? 2 ^ 31)
  | PConstant _ v => (- 2 ^ 31 <? v) && (v <? 2 ^ 31)
  | PSignExtend r a => (snd a - 1 <? 2 ^ 31)
  | PRepeat _ i => snd i =? 1
  (* guards of C08's ladder theorems: Nor2/Nor: every operand fits the Mid wire, which has the first operand's width; Equal: 1-bit result;
     EqualConstant: the constant fits the operand.  Xor2 and Equal (repaired constructors, C08's mid_max / eqw_max): any operand widths *)
  | PNor2 _ a b => true
  | PAnd _ ins | POr _ ins => match ins with [] => false | _ => true end
  | PNor _ ins => match ins with [] => false | _ => true end
  | PEqual r _ _ => snd r =? 1
  | PEqualConst r a v => (snd r =? 1) && (0 <=? v) && (v <? 2 ^ snd a) && (v <? 2 ^ 31)
  | PBitOf _ a bits k => (k <? length bits)%nat && (Z.of_nat (length bits) =? snd a) && (snd a <? 2 ^ 31)
  | _ => true
  end.
Definition prim_wf (p : prim) : bool :=
  (0 <? snd (prim_out p)) && forallb (fun n => 0 <? snd n) (prim_ins p) && prim_guard p.

(* ---------------------------------------------------------------- Reg instances *)
Record reginst := { rg_rq : nid; rg_q : nid; rg_d : nid; rg_e : option nid; rg_r : option nid; rg_rv : Z }.

Definition opt_list {A} (o : option A) : list A := match o with Some x => [x] | None => [] end.
Definition has {A} (o : option A) : bool := match o with Some _ => true | None => false end.

Definition reg_proc (g : reginst) : rstmt := body_reg_proc (rg_rq g) (rg_d g) (rg_e g) (rg_r g) (rg_rv g).
(* `assign q = rq;` is literally the text of a buffer from rq to q *)
Definition reg_buf (g : reginst) : prim := PBuf (rg_q g) (rg_rq g).
Definition reg_ins (g : reginst) : list nid := rg_d g :: opt_list (rg_e g) ++ opt_list (rg_r g).

Definition reg_clock (g : reginst) (st : Reg_state) (vs : list Z) : Reg_state * Z :=
  Reg_clock (snd (rg_q g)) (has (rg_e g)) (has (rg_r g)) (rg_rv g) st
    (nth 0 vs 0)
    (match rg_e g with Some _ => nth 1 vs 0 | None => 0 end)
    (match rg_r g with Some _ => nth (if has (rg_e g) then 2 else 1) vs 0 | None => 0 end).

Definition reg_leaf (g : reginst) : sleaf Reg_state :=
  {| s_in := map fst (reg_ins g); s_out := [fst (rg_q g)];
     s_f := fun st vs => let '(st', q) := reg_clock g st vs in (st', [Some q]) |}.

(* BodyReg loads when e != 0, as Reg.clock does (finding reg-wide-enable repaired): enables of any width *)
Definition enable_ok (g : reginst) : bool := true.
Definition reg_wf (g : reginst) : bool :=
  (0 <? snd (rg_q g)) && (snd (rg_rq g) =? snd (rg_q g)) && (0 <? snd (rg_d g)) &&
  (match rg_e g with Some e => 0 <? snd e | None => true end) && enable_ok g &&
  (match rg_r g with Some r => 0 <? snd r | None => true end) &&
  (- 2 ^ 31 <? rg_rv g) && (rg_rv g <? 2 ^ 31).

(* ---------------------------------------------------------------- the simulator netlist of a generated design *)
(* combinational designs *)
Definition comb_design (St : Type) (f : flat) (ps : list prim) : design St :=
  {| widths := map fn_width (f_nets f); combs := map prim_leaf ps; seqs := []; drivers := [] |}.
(* with registers on one ungated clock driver (Simulator.clockDrivers has one entry whose clockables are the registers) *)
Definition comp_design (f : flat) (ps : list prim) (gs : list reginst) : design Reg_state :=
  {| widths := map fn_width (f_nets f); combs := map prim_leaf ps; seqs := map reg_leaf gs;
     drivers := [{| d_enable := None; d_leaves := seq 0 (length gs) |}] |}.
(* ---------------------------------------------------------------- multi-output leaves: the netlist as a list of ITEMS *)
Inductive citem := IPrim (p : prim) | IBits (msb : bool) (a : nid) (bits : list nid).
(* the single-output view the composition lemmas work on ... *)
Definition item_prims (it : citem) : list prim :=
  match it with IPrim p => [p] | IBits msb a bits => map (PBitOf msb a bits) (seq 0 (length bits)) end.
(* ... and the simulator's leaf: a Bits block is ONE leaf writing all its listed wires (netlist.Dump's shape) *)
Definition item_leaf (it : citem) : cleaf :=
  match it with
  | IPrim p => prim_leaf p
  | IBits msb a bits =>
      {| c_in := [fst a]; c_out := map fst bits;
         c_f := fun vs => map Some ((if msb then BitsMSBF_propagate else BitsLSBF_propagate) (snd a) (map snd bits) (nth 0 vs 0)) |}
  end.
Definition item_ok (it : citem) : bool :=
  match it with
  | IPrim _ => true
  | IBits _ a bits => negb (existsb (Nat.eqb (fst a)) (map fst bits)) && (Z.of_nat (length bits) =? snd a)
  end.
Definition comp_design_items (f : flat) (items : list citem) (gs : list reginst) : design Reg_state :=
  {| widths := map fn_width (f_nets f); combs := map item_leaf items; seqs := map reg_leaf gs;
     drivers := [{| d_enable := None; d_leaves := seq 0 (length gs) |}] |}.
(* divisor nets (for the side condition "no zero divisor along the run") *)
Definition div_nets (ps : list prim) : list nat :=
  flat_map (fun p => match p with PDiv _ _ b | PMod _ _ b => [fst b] | _ => [] end) ps.

(* power-up: Reg.__init__ stores reset_value in self.value and puts it on q *)
Definition reg_st0 (gs : list reginst) : list Reg_state := map (fun g => {| Reg_s_value := rg_rv g |}) gs.
Definition reg_pokes (gs : list reginst) : list (nat * Z) := map (fun g => (fst (rg_q g), rg_rv g)) gs.

(* ---------------------------------------------------------------- per-design checks *)
Definition lnet (l : rlval) : nat := match l with RLId i _ | RLPart i _ _ | RLIdx i _ _ => i end.
Fixpoint nodup_nat (l : list nat) : bool :=
  match l with [] => true | x :: t => negb (existsb (Nat.eqb x) t) && nodup_nat t end.
Definition mem_nat (x : nat) (l : list nat) : bool := existsb (Nat.eqb x) l.
Definition nid_ok (f : flat) (n : nid) : bool :=
  match nth_error (f_nets f) (fst n) with Some x => fn_width x =? snd n | None => false end.
Definition prim_nids (p : prim) : list nid := prim_out p :: prim_ins p.
Definition no_star (f : flat) : bool :=
  forallb (fun p => match fst p with TStar => false | _ => true end) (f_procs f).

(* leaf a drives a wire leaf b reads / the list respects the dependencies strictly (Spec/C04.v `ordered`, decided on net ids) *)
Definition pfeeds (a b : prim) : bool := mem_nat (fst (prim_out a)) (map fst (prim_ins b)).
Fixpoint pordered (ps : list prim) : bool :=
  match ps with
  | [] => true
  | b :: rest => negb (pfeeds b b) && forallb (fun a => negb (pfeeds a b)) rest && pordered rest
  end.

(* every assign of the text is the assign of a listed primitive and vice versa; one driver per net on both sides;
   the nids carry the declared widths; no always @* process *)
Definition match_comb (ps : list prim) (f : flat) : bool :=
  forallb (fun a => existsb (fun p => existsb (assign_eqb a) (prim_assigns p)) ps) (f_assigns f) &&
  forallb (fun p => has_assigns f (prim_assigns p)) ps &&
  nodup_nat (map (fun p => fst (prim_out p)) ps) &&
  nodup_nat (map (fun a => lnet (fst a)) (f_assigns f)) &&
  forallb (fun p => forallb (nid_ok f) (prim_nids p)) ps &&
  no_star f.

(* everything the combinational theorem needs, decidable *)
Definition match_flat_comb (ps : list prim) (f : flat) : bool :=
  match_comb ps f && forallb prim_wf ps && pordered ps.

(* sequential designs.  clk: the flat net of the single clock; ins: the flat nets that may be poked (top-level inputs).
   - the text's assigns are those of ps plus one `q = rq` per register; its processes are exactly the registers' bodies, all on clk
   - rq nets are private (no primitive or register port touches them); q nets are driven by nothing else; poked nets are undriven
   - power-up: rq = reset_value, every other net 0; every net has a positive width *)
Definition reg_nids (g : reginst) : list nid := rg_rq g :: rg_q g :: reg_ins g.
Definition proc_eqb (clk : nat) (p : ptrig * rstmt) (g : reginst) : bool :=
  match fst p with TPos c => Nat.eqb c clk && rstmt_eqb (snd p) (reg_proc g) | _ => false end.
(* every process of the text is the body of a listed register on clk, and every listed register has its process (any order) *)
Definition procs_match (clk : nat) (procs : list (ptrig * rstmt)) (gs : list reginst) : bool :=
  forallb (fun p => existsb (proc_eqb clk p) gs) procs && forallb (fun g => existsb (fun p => proc_eqb clk p g) procs) gs.
Definition init_ok (f : flat) (gs : list reginst) : bool :=
  forallb (fun n => 0 <? fn_width n) (f_nets f) &&
  forallb (fun g => match nth_error (f_nets f) (fst (rg_rq g)) with Some x => fn_init x =? rg_rv g | None => false end) gs &&
  forallb (fun p => mem_nat (fst p) (map (fun g => fst (rg_rq g)) gs) || (fn_init (snd p) =? 0))
          (combine (seq 0 (length (f_nets f))) (f_nets f)).

Definition match_flat (ps : list prim) (gs : list reginst) (clk : nat) (ins : list nat) (f : flat) : bool :=
  let rqs := map (fun g => fst (rg_rq g)) gs in
  let qs := map (fun g => fst (rg_q g)) gs in
  let all := map reg_buf gs ++ ps in
  match_comb all f && forallb prim_wf all && pordered all &&
  forallb reg_wf gs && forallb (fun g => forallb (nid_ok f) (reg_nids g)) gs &&
  procs_match clk (f_procs f) gs &&
  nodup_nat rqs &&
  forallb (fun p => forallb (fun n => negb (mem_nat (fst n) rqs)) (prim_nids p)) ps &&
  forallb (fun g => forallb (fun n => negb (mem_nat (fst n) rqs)) (rg_q g :: reg_ins g)) gs &&
  forallb (fun i => negb (mem_nat i rqs) && negb (mem_nat i (map (fun p => fst (prim_out p)) all)) && (i <? length (f_nets f))%nat) ins &&
  init_ok f gs.

(* the decidable per-design check on items *)
Definition match_items (items : list citem) (gs : list reginst) (clk : nat) (ins : list nat) (f : flat) : bool :=
  forallb item_ok items && match_flat (flat_map item_prims items) gs clk ins f.

(* ---------------------------------------------------------------- environments the theorems quantify over *)
(* one value per net, each inside its declared width *)
Definition env_ok (f : flat) (env : list Z) : Prop :=
  length env = length (f_nets f) /\
  forall i n, nth_error (f_nets f) i = Some n -> 0 <= getv env i < 2 ^ fn_width n.

(* ---------------------------------------------------------------- stimuli: VSem.vrun takes port names, Trace.run_states wire ids *)
Definition net_of (f : flat) (x : string) : nat :=
  match net_index (f_nets f) x 0 with Some i => i | None => length (f_nets f) end.
Definition kstep (f : flat) (st : list (string * Z) * nat) : list (nat * Z) * nat :=
  (map (fun p => (net_of f (fst p), snd p)) (fst st), snd st).
(* only the listed nets (top-level inputs) are poked *)
Definition legal_steps (f : flat) (ins : list nat) (steps : list (list (string * Z) * nat)) : Prop :=
  forall st, In st steps -> forall p, In p (fst st) -> In (net_of f (fst p)) ins.

(* ---------------------------------------------------------------- the simulation relation of the sequential theorems *)
(* every kernel wire holds the value of its net (the rq nets are private to the text), every q shows its rq *)
Definition wires_rel (f : flat) (gs : list reginst) (env vals : list Z) : Prop :=
  env_ok f env /\ length vals = length env /\
  (forall w, ~ In w (map (fun g => fst (rg_rq g)) gs) -> nth w vals 0 = getv env w) /\
  (forall g, In g gs -> getv env (fst (rg_rq g)) = getv env (fst (rg_q g))).
(* ... nothing is pending, and every rq shows the register's stored value truncated to the width of q *)
Definition sim_rel (f : flat) (gs : list reginst) (env : list Z) (s : state Reg_state) : Prop :=
  wires_rel f gs env (vals s) /\ pend s = [] /\ length (sts s) = length gs /\
  (forall j g st, nth_error gs j = Some g -> nth_error (sts s) j = Some st ->
                  getv env (fst (rg_rq g)) = trunc (snd (rg_q g)) (Reg_s_value st)).
