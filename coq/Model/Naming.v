(* Hand model of py4hw's naming functions for one scope (py4hw/rtl_generation.py):
     getValidVerilogName(n) = "reserved_" + n  if isReservedVerilogKeyword(n) else n      (lines 239-242)
     getPortName(p)         = getValidVerilogName(p.name)                                   (244-245)
     getWireNames(obj)      : a wire that is not on obj's interface -> "w_" + wire.name;
                              interface wires -> getPortName(port)                          (128-175)
   kw is py4hw's own keyword list (a parameter of the model).  Tied to the real functions by py/props/c03.py
   (same names through both).  NO PROOFS here. *)
From V Require Import Model.VSyntax Model.VWf.
Local Open Scope string_scope.
Local Open Scope list_scope.

Definition has_prefix (p s : string) : bool := String.prefix p s.

Definition valid_name (kw : list string) (n : string) : string :=
  if mem_str n kw then String.append "reserved_" n else n.

Definition port_name (kw : list string) (n : string) : string := valid_name kw n.

Definition local_name (n : string) : string := String.append "w_" n.

(* the identifiers a scope with these port names and local wire names declares (ports first, as in the header) *)
Definition emitted_names (kw : list string) (ports locals : list string) : list string :=
  map (port_name kw) ports ++ map local_name locals.

(* py4hw's list has no entry that starts with one of the generator's own prefixes *)
Definition kw_ok (kw : list string) : Prop :=
  forall k, In k kw -> has_prefix "w_" k = false /\ has_prefix "reserved_" k = false.

(* ---------------------------------------------------------------- appended in session 5: the whole module name space
   getInstanceName(ins) = "i_" + ins.name                                   (rtl_generation.py:58-59; NOT passed through
                                                                              getValidVerilogName)
   createModuleHeader: a module with a clockable descendant declares the implicit `input <clock name>` FIRST, under the raw
   name returned by getClockPortName (the clock driver's name, `clk` for Reg) — not passed through getValidVerilogName
   either; then the ports (getPortName), then the body declares the local wires ("w_"+name) and one instance per
   non-inlined child.  Nets, ports and instances share one name space (IEEE 1364-2005 4.11). *)
Definition inst_name (n : string) : string := String.append "i_" n.

(* clk = Some c : the scope has a clockable descendant and its clock port is called c;  insts = names of the non-inlined children *)
Definition emitted_names_full (kw : list string) (clk : option string) (ports locals insts : list string) : list string :=
  (match clk with Some c => [c] | None => [] end) ++ emitted_names kw ports locals ++ map inst_name insts.

(* a source name that starts with none of the generator's own prefixes *)
Definition no_gen_prefix (n : string) : Prop :=
  has_prefix "w_" n = false /\ has_prefix "i_" n = false /\ has_prefix "reserved_" n = false.

(* py4hw's keyword list has no entry that starts with one of the three prefixes *)
Definition kw_ok_full (kw : list string) : Prop := forall k, In k kw -> no_gen_prefix k.
