(* Hand model of py4hw's naming functions for one scope (py4hw/rtl_generation.py):
     getValidVerilogName(n) = "reserved_" + n  if isReservedVerilogKeyword(n) else n      (lines 239-242)
     getPortName(p)         = getValidVerilogName(p.name)                                   (244-245)
     getWireNames(obj)      : a wire that is not on obj's interface -> "w_" + wire.name;
                              interface wires -> getPortName(port)                          (128-175)
   kw is py4hw's own keyword list (a parameter of the model).  Tied to the real functions by py/props/c03.py
   (same names through both).  NO PROOFS here. *)
From V Require Import Model.VSyntax Model.VWf.
Local Open Scope string_scope.
Local Open Scope list_scope.

Definition has_prefix (p s : string) : bool := String.prefix p s.

Definition valid_name (kw : list string) (n : string) : string :=
  if mem_str n kw then String.append "reserved_" n else n.

Definition port_name (kw : list string) (n : string) : string := valid_name kw n.

Definition local_name (n : string) : string := String.append "w_" n.

(* the identifiers a scope with these port names and local wire names declares (ports first, as in the header) *)
Definition emitted_names (kw : list string) (ports locals : list string) : list string :=
  map (port_name kw) ports ++ map local_name locals.

(* py4hw's list has no entry that starts with one of the generator's own prefixes *)
Definition kw_ok (kw : list string) : Prop :=
  forall k, In k kw -> has_prefix "w_" k = false /\ has_prefix "reserved_" k = false.
