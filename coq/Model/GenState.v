(* C19 — the Verilog generator of py4hw/rtl_generation.py as a state machine.  Hand-written model, NO proofs.

   What survives a call in the real code (read off the source, see docs/C19.md):
     * module globals  wire_names_cache_obj / wire_names_cache   (ONE entry, shared by every generator in the process)
     * VerilogGenerator.created_structures   (a list OBJECT: either a fresh [] or the caller's own list, aliased)
     * VerilogGenerator.obj / ast_tree / inlinablePrimitives / providingBody   (set in __init__, never written again)
   Everything else (the transpiler objects, the AST obtained with inspect.getsource) is created per call.

   Circuits are immutable values: a finite tree of objects with identities; a circuit edit between two
   requests is an explicit event (REdit) that replaces the tree.  The text of one module is abstracted to the list
   of names it uses (chunk); what the model is exact about is WHERE names come from (cache hit / recomputation)
   and which state every entry point resets. *)
From Coq Require Import ZArith List Bool.
Import ListNotations.
Open Scope Z_scope.

Definition oid := Z.                       (* id(obj) *)
Definition wid := Z.                       (* id(wire) *)
Definition tok := Z.                       (* an interned string *)
Definition vname := (Z * tok)%type.        (* (0,t) = t    (1,t) = "w_"+t    (2,t) = "reserved_"+t *)
Definition sname := (tok * option oid)%type.   (* module name: t   or   t + "_" + hex(id) *)

(* which branch of _getVerilog renders the body *)
Inductive kind := KStruct | KInline | KBody | KTrans.

Record port := { p_name : tok; p_res : bool;          (* port name; isReservedVerilogKeyword(name) *)
                 p_wire : wid; p_wtok : tok; p_fake : bool }.   (* the wire object, wire.name, isinstance FakeWire *)

Inductive node :=
  Node (id : oid) (iname : tok) (tname : tok) (sn : option tok)     (* obj.name, type(obj).__name__, structureName() *)
       (k : kind) (inl : bool)                                      (* branch of _getVerilog; isInlinable(obj) *)
       (clk : option tok)                                           (* clock port name if anyClockableDescendant *)
       (ports : list port)                                          (* inPorts ++ outPorts ++ inOutPorts *)
       (kids : list node).                                          (* children.values() in dict order *)

Definition nid n := match n with Node i _ _ _ _ _ _ _ _ => i end.
Definition niname n := match n with Node _ x _ _ _ _ _ _ _ => x end.
Definition ntname n := match n with Node _ _ x _ _ _ _ _ _ => x end.
Definition nsn n := match n with Node _ _ _ x _ _ _ _ _ => x end.
Definition nkind n := match n with Node _ _ _ _ x _ _ _ _ => x end.
Definition ninl n := match n with Node _ _ _ _ _ x _ _ _ => x end.
Definition nclk n := match n with Node _ _ _ _ _ _ x _ _ => x end.
Definition nports n := match n with Node _ _ _ _ _ _ _ x _ => x end.
Definition nkids n := match n with Node _ _ _ _ _ _ _ _ x => x end.

(* every object of a circuit, pre-order *)
Fixpoint nodes (n : node) : list node :=
  n :: (fix go (l : list node) : list node := match l with [] => [] | k :: r => nodes k ++ go r end) (nkids n).

(* (parent, object) pairs *)
Fixpoint edges (n : node) : list (node * node) :=
  (fix go (l : list node) : list (node * node) :=
     match l with [] => [] | k :: r => (n, k) :: edges k ++ go r end) (nkids n).

Definition find_node (c : node) (o : oid) : option node := find (fun n => nid n =? o) (nodes c).
Definition find_parent (c : node) (o : oid) : option node :=
  option_map fst (find (fun e => nid (snd e) =? o) (edges c)).

(* ---------------------------------------------------------------- names *)
Definition namemap := list (wid * vname).     (* a dict in insertion order *)

Fixpoint upd (k : wid) (v : vname) (m : namemap) : namemap :=
  match m with
  | [] => [(k, v)]
  | (k', v') :: r => if k =? k' then (k, v) :: r else (k', v') :: upd k v r
  end.
Fixpoint get (k : wid) (m : namemap) : option vname :=
  match m with [] => None | (k', v) :: r => if k =? k' then Some v else get k r end.

Definition keyerror : vname := (-1, -1).
Definition lookup (m : namemap) (p : port) : vname := match get (p_wire p) m with Some v => v | None => keyerror end.

Definition wire_default (p : port) : vname := if p_fake p then (0, p_wtok p) else (1, p_wtok p).
Definition port_vname (p : port) : vname := if p_res p then (2, p_name p) else (0, p_name p).

(* getWireNames without its cache: children's port wires first, then the object's own interface overwrites *)
Definition names_of (n : node) : namemap :=
  let m1 := fold_left (fun m k => fold_left (fun m p => upd (p_wire p) (wire_default p) m) (nports k) m) (nkids n) [] in
  fold_left (fun m p => upd (p_wire p) (port_vname p) m) (nports n) m1.

(* collectLocalWires: child port wires that are not interface wires, duplicates removed (set order is not modelled) *)
Fixpoint dedup (seen : list wid) (l : list port) : list port :=
  match l with
  | [] => []
  | p :: r => if existsb (Z.eqb (p_wire p)) seen then dedup seen r else p :: dedup (p_wire p :: seen) r
  end.
Definition local_wires (n : node) : list port :=
  let mine := map p_wire (nports n) in
  dedup [] (flat_map (fun k => filter (fun p => negb (existsb (Z.eqb (p_wire p)) mine)) (nports k)) (nkids n)).

(* ---------------------------------------------------------------- abstract text *)
Inductive item :=
| IInline (tname : tok) (names : list vname)                       (* an inlined primitive: the names it prints *)
| IInst (m : sname) (iname : tok) (conns : list (vname * vname))   (* instance: .port(wire in the parent's scope) *)
| IOpaque (tname : tok).                                           (* body from verilogBody / BodyReg / the transpiler *)

Inductive chunk :=
| CModule (name : sname) (clk : option tok) (ports : list vname) (decls : list vname) (body : list item)
| CInlineTop (tname : tok) (names : list vname).                   (* "// WARNING: inlined out of scope" *)

Definition text := list chunk.

(* ---------------------------------------------------------------- generator state inside one request *)
Record gst := { g_cache : option (oid * namemap);     (* wire_names_cache_obj, wire_names_cache *)
                g_created : list sname;               (* the list object self.created_structures points to *)
                g_log : list oid }.                   (* ghost: objects whose names were recomputed (misses) *)

Definition eqb_sname (a b : sname) : bool :=
  (fst a =? fst b) && match snd a, snd b with
                      | None, None => true | Some x, Some y => x =? y | _, _ => false end.

Definition modname (n : node) (noInst : bool) : sname :=
  match nsn n with
  | Some s => (s, None)
  | None => (ntname n, if noInst then None else Some (nid n))
  end.

Definition getWireNames (n : node) (st : gst) : gst * namemap :=
  let miss := let m := names_of n in
              ({| g_cache := Some (nid n, m); g_created := g_created st; g_log := g_log st ++ [nid n] |}, m) in
  match g_cache st with
  | Some (o, m) => if o =? nid n then (st, m) else miss
  | None => miss
  end.

(* getParentWireName(child, w) for each port wire of an inlined child: fake wires do not touch the cache *)
Fixpoint inline_names (pn : node) (ps : list port) (st : gst) : gst * list vname :=
  match ps with
  | [] => (st, [])
  | p :: r =>
      if p_fake p then let '(st2, l) := inline_names pn r st in (st2, (0, p_wtok p) :: l)
      else let '(st1, m) := getWireNames pn st in
           let '(st2, l) := inline_names pn r st1 in (st2, lookup m p :: l)
  end.

(* createModuleInstances *)
Fixpoint instances (pn : node) (l : list node) (st : gst) : gst * list item :=
  match l with
  | [] => (st, [])
  | k :: r =>
      let '(st1, it) :=
        if ninl k then let '(s, nm) := inline_names pn (nports k) st in (s, IInline (ntname k) nm)
        else let '(s, m) := getWireNames pn st in
             (s, IInst (modname k false) (niname k) (map (fun p => (port_vname p, lookup m p)) (nports k))) in
      let '(st2, its) := instances pn r st1 in (st2, it :: its)
  end.

Definition push (s : sname) (st : gst) : gst :=
  {| g_cache := g_cache st; g_created := g_created st ++ [s]; g_log := g_log st |}.

(* _getVerilog(obj, noInstanceNumber, forceName); par = obj.parent *)
Definition emit (par : option node) (n : node) (noInst : bool) (force : option sname) (st : gst) : gst * text :=
  let sn := match force with Some f => f | None => modname n noInst end in
  if existsb (eqb_sname sn) (g_created st) then (st, [])
  else
    let '(st1, m) := getWireNames n st in
    let decls := map (lookup m) (filter (fun p => negb (p_fake p)) (local_wires n)) in
    let hdr := map port_vname (nports n) in
    match nkind n with
    | KInline =>                     (* early return: nothing is appended to created_structures *)
        match par with
        | Some pn => let '(st2, nm) := inline_names pn (nports n) st1 in (st2, [CInlineTop (ntname n) nm])
        | None => (st1, [CInlineTop (ntname n) []])
        end
    | KBody | KTrans => (push sn st1, [CModule sn (nclk n) hdr decls [IOpaque (ntname n)]])
    | KStruct => let '(st2, its) := instances n (nkids n) st1 in
                 (push sn st2, [CModule sn (nclk n) hdr decls its])
    end.

(* _getVerilogForHierarchy *)
Fixpoint hier (par : option node) (n : node) (noInst : bool) (force : option sname) (st : gst) : gst * text :=
  let '(st1, t) := emit par n noInst force st in
  let '(st2, t2) :=
    (fix go (l : list node) (st : gst) : gst * text :=
       match l with
       | [] => (st, [])
       | k :: r => if ninl k then go r st
                   else let '(sa, ta) := hier (Some n) k false None st in
                        let '(sb, tb) := go r sa in (sb, ta ++ tb)
       end) (nkids n) st1 in
  (st2, t ++ t2).

(* ---------------------------------------------------------------- the process: requests over time *)
Record gen := { ge_circ : nat; ge_root : oid; ge_cs : nat }.   (* self.obj (in which circuit), handle of created_structures *)

Record pst := { p_env : list node;                   (* the live circuits *)
                p_cache : option (oid * namemap);    (* module globals of rtl_generation *)
                p_heap : list (list sname);          (* list objects (generators' and callers') *)
                p_gens : list gen;
                p_log : list oid }.

Inductive req :=
| RNewGen (c : nat) (root : oid)                                                   (* VerilogGenerator(obj) *)
| RNewList (init : list sname)                                                     (* the caller makes a list *)
| RGetVerilog (g : nat) (obj : option oid) (noInst : bool) (force : option sname)  (* getVerilog *)
| RGetHier (g : nat) (obj : option oid) (noInstTop : bool) (force : option sname) (cs : option nat)   (* getVerilogForHierarchy *)
| REdit (c : nat) (n : node).                                                      (* the user changes a circuit *)

Definition init (env : list node) : pst :=
  {| p_env := env; p_cache := None; p_heap := []; p_gens := []; p_log := [] |}.

Fixpoint set_nth {A} (i : nat) (x : A) (l : list A) : list A :=
  match l, i with
  | [], _ => []
  | _ :: r, O => x :: r
  | y :: r, S j => y :: set_nth j x r
  end.

Definition set_cs (g : nat) (h : nat) (gs : list gen) : list gen :=
  match nth_error gs g with
  | Some ge => set_nth g {| ge_circ := ge_circ ge; ge_root := ge_root ge; ge_cs := h |} gs
  | None => gs
  end.

(* run one entry point body on (cache, list h) and write the state back *)
Definition run_entry (s : pst) (cache0 : option (oid * namemap)) (g h : nat) (heap : list (list sname))
           (f : gst -> gst * text) : pst * option text :=
  let st0 := {| g_cache := cache0; g_created := nth h heap []; g_log := p_log s |} in
  let '(st1, t) := f st0 in
  ({| p_env := p_env s; p_cache := g_cache st1; p_heap := set_nth h (g_created st1) heap;
      p_gens := set_cs g h (p_gens s); p_log := g_log st1 |}, Some t).

(* clr = true is the real code (clearWireNamesCache() first thing in both public entry points);
   clr = false is the variant used to show what the clearing is needed for. *)
Definition step_gen (clr : bool) (s : pst) (r : req) : pst * option text :=
  match r with
  | RNewGen c root =>
      ({| p_env := p_env s; p_cache := p_cache s; p_heap := p_heap s ++ [[]];
          p_gens := p_gens s ++ [{| ge_circ := c; ge_root := root; ge_cs := length (p_heap s) |}];
          p_log := p_log s |}, None)
  | RNewList l =>
      ({| p_env := p_env s; p_cache := p_cache s; p_heap := p_heap s ++ [l]; p_gens := p_gens s; p_log := p_log s |}, None)
  | REdit c n =>
      ({| p_env := set_nth c n (p_env s); p_cache := p_cache s; p_heap := p_heap s; p_gens := p_gens s; p_log := p_log s |}, None)
  | RGetVerilog g obj noInst force =>
      match nth_error (p_gens s) g with
      | None => (s, None)
      | Some ge =>
          match nth_error (p_env s) (ge_circ ge) with
          | None => (s, None)
          | Some c =>
              let o := match obj with Some o => o | None => ge_root ge end in
              match find_node c o with
              | None => (s, None)
              | Some n =>
                  (* self.created_structures = []  : a NEW list object *)
                  run_entry s (if clr then None else p_cache s) g (length (p_heap s)) (p_heap s ++ [[]])
                            (emit (find_parent c o) n noInst force)
              end
          end
      end
  | RGetHier g obj noInstTop force cs =>
      match nth_error (p_gens s) g with
      | None => (s, None)
      | Some ge =>
          match nth_error (p_env s) (ge_circ ge) with
          | None => (s, None)
          | Some c =>
              let o := match obj with Some o => o | None => ge_root ge end in
              match find_node c o with
              | None => (s, None)
              | Some n =>
                  let cache0 := if clr then None else p_cache s in
                  match cs with
                  | None => run_entry s cache0 g (length (p_heap s)) (p_heap s ++ [[]])
                                      (hier (find_parent c o) n noInstTop force)
                  | Some h =>        (* self.created_structures = createdStructures : the caller's object *)
                      if (h <? length (p_heap s))%nat
                      then run_entry s cache0 g h (p_heap s) (hier (find_parent c o) n noInstTop force)
                      else (s, None)
                  end
              end
          end
      end
  end.

Definition step := step_gen true.

Fixpoint run_gen (clr : bool) (s : pst) (rs : list req) : pst * list (option text) :=
  match rs with
  | [] => (s, [])
  | r :: rest => let '(s1, a) := step_gen clr s r in
                 let '(s2, l) := run_gen clr s1 rest in (s2, a :: l)
  end.
Definition run := run_gen true.
