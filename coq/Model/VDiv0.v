(* A static guard used by the executed tie of C01/C02: a division or modulo whose divisor is a CONSTANT expression that evaluates to
   zero under Verilog sizing (for instance a sized literal such as 2'd4, which is truncated to 0) yields x in every Verilog tool; the
   two-valued semantics of Model/VSem.v would silently compute Z.quot/Z.rem by 0.  Such a text is rejected before it is executed.
   No proofs here. *)
From V Require Import Base.PyInt Model.VSyntax Model.VSem.
Local Open Scope Z_scope.

Fixpoint rconst (e : rexpr) : bool :=
  match e with
  | RNum _ | RSized _ _ => true
  | RUn _ a | RSigned a | RRepl _ a => rconst a
  | RBin _ a b | RConcat a b => rconst a && rconst b
  | RCond c a b => rconst c && rconst a && rconst b
  | _ => false
  end.

Fixpoint div0 (e : rexpr) : bool :=
  match e with
  | RBin o a b =>
      (match o with
       | BDiv | BMod => rconst b && (reval [] (Z.max (rsize a) (rsize b)) false b =? 0)
       | _ => false end) || div0 a || div0 b
  | RUn _ a | RSigned a | RRepl _ a => div0 a
  | RCond c a b => div0 c || div0 a || div0 b
  | RConcat a b => div0 a || div0 b
  | RBit _ _ i => div0 i
  | _ => false
  end.

Definition ldiv0 (l : rlval) : bool := match l with RLIdx _ _ i => div0 i | _ => false end.

Fixpoint sdiv0 (s : rstmt) : bool :=
  match s with
  | RSkip => false
  | RSeq a b => sdiv0 a || sdiv0 b
  | RIf c t e => div0 c || sdiv0 t || sdiv0 e
  | RBlk l e | RNba l e => ldiv0 l || div0 e
  end.

Definition flat_div0 (f : flat) : bool :=
  existsb (fun a => ldiv0 (fst a) || div0 (snd a)) (f_assigns f) || existsb (fun p => sdiv0 (snd p)) (f_procs f).
