(* Hand-written model of py4hw's cycle simulator kernel (py4hw/simulation.py, Wire in py4hw/base.py).
   NO PROOFS here.  The wire-level stores use the generated Wire_put / Wire_prepare (Gen/WireOps.v).

   A design is: wire widths (wire id = position), the combinational leaves IN THE ORDER of
   Simulator.propagatables, the sequential leaves, and the clock drivers (optional enable wire +
   the indices of their clockables, in Simulator.clockDrivers[drv].clockables order).
   A leaf is a pure function: by type it reads only its input wires (and its own state), and writes
   only through put (combinational) / prepare (sequential). *)
From V Require Import Base.PyInt Gen.WireOps.

Section Kernel.
Variable St : Type.

Record cleaf := { c_in : list nat; c_out : list nat; c_f : list Z -> list (option Z) }.
Record sleaf := { s_in : list nat; s_out : list nat; s_f : St -> list Z -> St * list (option Z) }.
Record driver := { d_enable : option nat; d_leaves : list nat }.
Record design := { widths : list Z; combs : list cleaf; seqs : list sleaf; drivers : list driver }.
Record state := { vals : list Z; pend : list (nat * Z); sts : list St; total : nat }.

Definition rd (vs : list Z) (i : nat) : Z := nth i vs 0.

(* leaf results written through put: value stored = Wire_put width v *)
Fixpoint write_outs (ws : list Z) (outs : list nat) (rs : list (option Z)) (vs : list Z) : list Z :=
  match outs, rs with
  | o :: outs', Some v :: rs' => write_outs ws outs' rs' (set_nth vs o (Wire_put (nth o ws 0) v))
  | _ :: outs', None :: rs' => write_outs ws outs' rs' vs
  | _, _ => vs
  end.

Definition propagate1 (d : design) (vs : list Z) (c : cleaf) : list Z :=
  write_outs (widths d) (c_out c) (c_f c (map (rd vs) (c_in c))) vs.

Definition propagateAll (d : design) (vs : list Z) : list Z := fold_left (propagate1 d) (combs d) vs.

(* leaf results written through prepare: (wire, Wire_prepare width v) appended to Wire.prepared *)
Fixpoint prep (ws : list Z) (outs : list nat) (rs : list (option Z)) : list (nat * Z) :=
  match outs, rs with
  | o :: outs', Some v :: rs' => (o, Wire_prepare (nth o ws 0) v) :: prep ws outs' rs'
  | _ :: outs', None :: rs' => prep ws outs' rs'
  | _, _ => []
  end.

Definition clock1 (d : design) (s : state) (k : nat) : state :=
  match nth_error (seqs d) k, nth_error (sts s) k with
  | Some l, Some st =>
      let '(st', rs) := s_f l st (map (rd (vals s)) (s_in l)) in
      {| vals := vals s; pend := pend s ++ prep (widths d) (s_out l) rs;
         sts := set_nth (sts s) k st'; total := total s |}
  | _, _ => s
  end.

Definition clockAll (d : design) (s : state) (drv : driver) : state := fold_left (clock1 d) (d_leaves drv) s.

Definition enabled (vs : list Z) (drv : driver) : bool :=
  match d_enable drv with None => true | Some w => negb (rd vs w =? 0) end.

Definition clock_drivers (d : design) (s : state) : state :=
  fold_left (fun s drv => if enabled (vals s) drv then clockAll d s drv else s) (drivers d) s.

Definition settle (vs : list Z) (p : nat * Z) : list Z := set_nth vs (fst p) (snd p).

Definition settleAll (s : state) : state :=
  {| vals := fold_left settle (pend s) (vals s); pend := []; sts := sts s; total := total s |}.

Definition clk_cycle (d : design) (s : state) : state :=
  let s2 := settleAll (clock_drivers d s) in
  {| vals := propagateAll d (vals s2); pend := pend s2; sts := sts s2; total := S (total s2) |}.

Fixpoint cycles (d : design) (n : nat) (s : state) : state :=
  match n with O => s | S n' => cycles d n' (clk_cycle d s) end.

(* Simulator.clk(n): propagateAll, then n cycles *)
Definition clk (d : design) (n : nat) (s : state) : state :=
  cycles d n {| vals := propagateAll d (vals s); pend := pend s; sts := sts s; total := total s |}.

(* an external poke: wire.put(v) on an (undriven) wire *)
Definition poke (d : design) (s : state) (w : nat) (v : Z) : state :=
  {| vals := set_nth (vals s) w (Wire_put (nth w (widths d) 0) v); pend := pend s; sts := sts s; total := total s |}.

(* Simulator construction: every wire is 0, then propagateAll *)
Definition init (d : design) (st0 : list St) : state :=
  {| vals := propagateAll d (map (fun _ => 0) (widths d)); pend := []; sts := st0; total := O |}.

End Kernel.


Arguments s_in {St}. Arguments s_out {St}. Arguments s_f {St}. Arguments Build_sleaf {St}.
Arguments widths {St}. Arguments combs {St}. Arguments seqs {St}. Arguments drivers {St}. Arguments Build_design {St}.
Arguments vals {St}. Arguments pend {St}. Arguments sts {St}. Arguments total {St}. Arguments Build_state {St}.
Arguments propagate1 {St}. Arguments propagateAll {St}. Arguments clock1 {St}. Arguments clockAll {St}.
Arguments clock_drivers {St}. Arguments settleAll {St}. Arguments clk_cycle {St}. Arguments cycles {St}.
Arguments clk {St}. Arguments poke {St}. Arguments init {St}.
