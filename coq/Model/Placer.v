(* C18 — hand-written executable model of the COORDINATE ASSIGNMENT of the schematic placer:
   py4hw/schematic.py  Schematic.replaceAsColRow  (lines 2152-2217 of the pinned tree).   NO proofs in this file
   (Proofs/C18/Placer.v).   Only this one pass is modelled: which symbol goes into which grid cell (column assignment,
   pass-through / feedback insertion, row ordering), how many tracks a channel gets (trackAssignment) and how nets are
   routed are INPUTS of the model or outside it.

   NOT YET TIED TO THE CODE: nothing compares  place  with what the real  replaceAsColRow  computes on a run (see
   docs/C18.md, "Added in session 5 — placer").

   Inputs (what the Python method reads):
     * the grid  self.symbol_matrix  (numpy object array of shape (nr, nc)): here a list of rows, each row a list of
       cells, a cell = None | Some (symbol with its getWidth() / getHeight());  nc  is passed separately (shape[1]);
       a row shorter than nc reads as empty cells (numpy rows are never ragged: totalisation only, see the guard-free
       statement of the theorem — it holds for ragged inputs too);
     * self.channels : list of dicts, of which only  .get('feedback_tracks', 0)  and  ['tracks']  are read;
     * the class constants GRID_SIZE, CELL_MARGIN_VERTICAL, CELL_MARGIN_HORIZONTAL, NET_SPACING, NET_TRACK_SPACING
       (schematic.py:363-367), kept as parameters (record pcfg; py_cfg = the values in the pinned tree).
   Output: one  Model.Schem.sym  per non-empty cell with  s_row/s_col = r/c (line 2176), s_x (line 2201), s_y (line 2175),
   s_w/s_h = the sizes the cell came with — so the validator's own predicates (apartb, chk_geom) apply to it verbatim.
   A symbol OBJECT is assumed to sit in one cell (cells are values here; in Python an object stored in two cells would
   keep the coordinates of the last one visited). *)
From Coq Require Import List ZArith Bool Arith.
Import ListNotations.
From V Require Import Model.Schem.
Local Open Scope Z_scope.

(* schematic.py:363-367 *)
Record pcfg := PCfg { GRID_SIZE : Z; CELL_MARGIN_VERTICAL : Z; CELL_MARGIN_HORIZONTAL : Z; NET_SPACING : Z; NET_TRACK_SPACING : Z }.
Definition py_cfg : pcfg := PCfg 5 15 5 15 10.          (* gridsize = 5 (line 19), 15, 5, 15, 10 *)

(* a placed symbol before it has coordinates: identity (what the validator's sym carries) and getWidth() / getHeight() *)
Record csym := CS { cs_id : nat; cs_kind : skind; cs_for : option elem; cs_w : Z; cs_h : Z }.
Definition cell := option csym.
Definition matrix := list (list cell).                   (* symbol_matrix[r] = nth r m [] *)
(* one entry of self.channels: .get('feedback_tracks', 0) and ['tracks'] *)
Record chan := Chan { ch_fb : Z; ch_tracks : Z }.

Definition cell_at (m : matrix) (r c : nat) : cell := nth c (nth r m []) None.      (* self.symbol_matrix[r,c] *)
Definition cell_w (x : cell) : Z := match x with Some s => cs_w s | None => 0 end.
Definition cell_h (x : cell) : Z := match x with Some s => cs_h s | None => 0 end.

(* lines 2170-2177:  max_height = 0; for c in range(nc): if sym is not None: max_height = max(max_height, sym.getHeight())
   (an empty cell contributes 0 = leaves the accumulator, which starts at 0, unchanged only if it is >= 0: it always is) *)
Definition row_maxh (nc : nat) (m : matrix) (r : nat) : Z :=
  fold_left (fun acc c => Z.max acc (cell_h (cell_at m r c))) (seq 0 nc) 0.
(* lines 2196-2202:  maxw = 0; for r in range(nr): if sym is not None: maxw = max(maxw, sym.getWidth()) *)
Definition col_maxw (m : matrix) (c : nat) : Z :=
  fold_left (fun acc r => Z.max acc (cell_w (cell_at m r c))) (seq 0 (length m)) 0.

(* the value of current_y when iteration r of the row loop executes  sym.y = current_y  (line 2175):
   line 2163  current_y = GRID_SIZE * 3 ;  line 2182  current_y += max_height + CELL_MARGIN_VERTICAL *)
Fixpoint row_y (cfg : pcfg) (nc : nat) (m : matrix) (r : nat) : Z :=
  match r with
  | O => GRID_SIZE cfg * 3
  | S r' => row_y cfg nc m r' + (row_maxh nc m r' + CELL_MARGIN_VERTICAL cfg)
  end.

(* lines 2189-2193: space for feedback tracks BEFORE column c
     if c < len(self.channels): fs = channels[c].get('feedback_tracks', 0) * NET_TRACK_SPACING; x = x + fs; if fs > 0: x = x + NET_SPACING *)
Definition col_pre (cfg : pcfg) (chans : list chan) (c : nat) (x : Z) : Z :=
  match nth_error chans c with
  | Some ch =>
      let feedback_space := ch_fb ch * NET_TRACK_SPACING cfg in
      let x := x + feedback_space in
      if 0 <? feedback_space then x + NET_SPACING cfg else x
  | None => x
  end.
(* lines 2208-2215: move past column c and its forward tracks
     x += maxw + CELL_MARGIN_HORIZONTAL; if c < len(self.channels): fs = channels[c]['tracks'] * NET_TRACK_SPACING; x += fs; if fs > 0: x += NET_SPACING *)
Definition col_post (cfg : pcfg) (chans : list chan) (m : matrix) (c : nat) (x : Z) : Z :=
  let x := x + (col_maxw m c + CELL_MARGIN_HORIZONTAL cfg) in
  match nth_error chans c with
  | Some ch =>
      let forward_space := ch_tracks ch * NET_TRACK_SPACING cfg in
      let x := x + forward_space in
      if 0 <? forward_space then x + NET_SPACING cfg else x
  | None => x
  end.
(* the value of x when iteration c of the column loop executes  sym.x = x  (line 2201); line 2185  x = 0 *)
Fixpoint col_x (cfg : pcfg) (chans : list chan) (m : matrix) (c : nat) : Z :=
  match c with
  | O => col_pre cfg chans 0 0
  | S c' => col_pre cfg chans c (col_post cfg chans m c' (col_x cfg chans m c'))
  end.

(* what cell (r, c) becomes: lines 2175-2176 (y, r, c) and 2201 (x); width / height are not changed by the pass *)
Definition mk_sym (cfg : pcfg) (chans : list chan) (nc : nat) (m : matrix) (r c : nat) (s : csym) : sym :=
  Sym (cs_id s) (cs_kind s) (cs_for s) (Z.of_nat r) (Z.of_nat c) (col_x cfg chans m c) (row_y cfg nc m r) (cs_w s) (cs_h s).
Definition placed (cfg : pcfg) (chans : list chan) (nc : nat) (m : matrix) (r c : nat) : list sym :=
  match cell_at m r c with Some s => [mk_sym cfg chans nc m r c s] | None => [] end.

(* the symbols of the grid with their coordinates, row by row (r in range(nr), c in range(nc)) *)
Definition place (cfg : pcfg) (chans : list chan) (nc : nat) (m : matrix) : list sym :=
  flat_map (fun r => flat_map (placed cfg chans nc m r) (seq 0 nc)) (seq 0 (length m)).

(* the rectangles as plain tuples  (id, x, y, w, h) *)
Definition place_rects (cfg : pcfg) (chans : list chan) (nc : nat) (m : matrix) : list (nat * Z * Z * Z * Z) :=
  map (fun s => (s_id s, s_x s, s_y s, s_w s, s_h s)) (place cfg chans nc m).

(* the guards of the theorem: the margins are not negative (the code uses 15 / 5 / 15 / 10) and a channel has no
   negative number of tracks.  No condition on the symbol sizes is needed for non-overlap. *)
Definition cfg_okb (cfg : pcfg) : bool :=
  (0 <=? CELL_MARGIN_VERTICAL cfg) && (0 <=? CELL_MARGIN_HORIZONTAL cfg) && (0 <=? NET_SPACING cfg) && (0 <=? NET_TRACK_SPACING cfg).
Definition chans_okb (chans : list chan) : bool := forallb (fun ch => (0 <=? ch_fb ch) && (0 <=? ch_tracks ch)) chans.
(* for the validator's size clause: every instance / port symbol of the grid has positive width and height *)
Definition sizes_posb (m : matrix) : bool :=
  forallb (forallb (fun x : cell => match x with
                                    | Some s => virtual (cs_kind s) || ((0 <? cs_w s) && (0 <? cs_h s))
                                    | None => true end)) m.

(* a concrete 3 columns x 2 rows grid: in-port a | And gate | out-port r   /   in-port b | (empty) | pass-through marker;
   channel 0 carries 2 forward tracks, channel 1 one, channel 2 none *)
Definition ex_m : matrix :=
  [ [Some (CS 0 KIn (Some (EIn 0)) 40 20);  Some (CS 2 KInst (Some (EChild 0)) 60 50);  Some (CS 3 KOut (Some (EOut 0)) 40 20)];
    [Some (CS 1 KIn (Some (EIn 1)) 45 20);  None;                                      Some (CS 4 KPass None 10 4)] ].
Definition ex_chans : list chan := [Chan 0 2; Chan 0 1; Chan 0 0].
