(* Running a design over a stimulus and locating the first difference with the implementation's trace. No proofs. *)
From V Require Import Base.PyInt Model.SimKernel.

Section T.
Context {St : Type}.

Definition step_t := (list (nat * Z) * nat)%type.     (* pokes, then clk(n) *)

Definition do_step (d : design St) (s : state St) (st : step_t) : state St :=
  clk d (snd st) (fold_left (fun s p => poke d s (fst p) (snd p)) (fst st) s).

Fixpoint run_states (d : design St) (s : state St) (steps : list step_t) : list (state St) :=
  s :: match steps with [] => [] | st :: rest => run_states d (do_step d s st) rest end.

Definition run_trace (d : design St) (s : state St) (steps : list step_t) : list (list Z) :=
  map vals (run_states d s steps).

(* Simulator construction when some leaves drive a wire from their constructor (a register shows its initial value
   on q at power-up): every wire 0, the constructor-time puts, then propagateAll.  Equal to `init` when pokes = []. *)
Definition init_poked (d : design St) (st0 : list St) (pokes : list (nat * Z)) : state St :=
  let z := {| vals := map (fun _ => 0) (widths d); pend := []; sts := st0; total := O |} in
  let s := fold_left (fun s p => poke d s (fst p) (snd p)) pokes z in
  {| vals := propagateAll d (vals s); pend := []; sts := st0; total := O |}.
End T.

Fixpoint diff_row (k : nat) (e g : list Z) : option (nat * Z * Z) :=
  match e, g with
  | [], [] => None
  | x :: e', y :: g' => if x =? y then diff_row (S k) e' g' else Some (k, x, y)
  | x :: _, [] => Some (k, x, -1)
  | [], y :: _ => Some (k, -1, y)
  end.

(* Some (step, (wire, implementation value, model value)) at the first difference *)
Fixpoint first_diff_from (t : nat) (exp got : list (list Z)) : option (nat * (nat * Z * Z)) :=
  match exp, got with
  | [], [] => None
  | e :: exp', g :: got' =>
      match diff_row 0 e g with Some r => Some (t, r) | None => first_diff_from (S t) exp' got' end
  | _, _ => Some (t, (O, -7, -7))
  end.
Definition first_diff := first_diff_from 0.
