(* C08 — structural blocks of py4hw/logic/bitwise.py and relational.py as compositions of the REGENERATED
   primitives (Gen/Prims.v), wired exactly as the constructors wire them (line references to /repo).
   Values are Z; every intermediate wire's width is made explicit because every primitive truncates its
   output to the width of the wire it drives.  No proofs in this file.
   Conventions: a model takes the widths the constructor reads (`a.getWidth()`, `r.getWidth()`), then the
   construction-time constants, then the input values.  1-bit internal wires (`self.wire('x')`) are width 1. *)
From V Require Import Base.Bits Gen.WireOps Gen.Prims.

Definition ones1 (n : Z) : list Z := repeat 1 (Z.to_nat n).      (* widths of `self.wires(name, n, 1)` *)

(* ---- leaves used directly *)
Definition And2_m := And2_propagate.          (* w_r a b *)
Definition Or2_m := Or2_propagate.
Definition Not_m := Not_propagate.            (* w_r a *)
Definition Buf_m := Buf_propagate.
Definition Constant_m := Constant_propagate.  (* w_r value *)
Definition Bit_m := Bit_propagate.            (* w_r bit a *)
Definition Range_m := Range_propagate.        (* w_r high low a *)
Definition Mux2_m := Mux2_propagate.          (* w_r sel sel0 sel1 *)
Definition Repeat_m := Repeat_propagate.      (* w_r i *)
Definition Sub_m := Sub_propagate.            (* w_r a b *)

(* BitsLSBF(a, bits): bits[i] (1-bit wires) <- bit i.  bitwise.py:191-224 *)
Definition BitsLSBF_m (wa a : Z) : list Z := BitsLSBF_propagate wa (ones1 wa) a.
(* BitsMSBF: the constructor reverses self.bits (bitwise.py:182), propagate writes self.bits[i] <- bit i,
   so in the order of the constructor argument the list is the reverse of what propagate writes. *)
Definition BitsMSBF_m (wa a : Z) : list Z := rev (BitsMSBF_propagate wa (ones1 wa) a).

(* ConcatenateMSBF iterates self.ins in order; ConcatenateLSBF reverses self.ins in the constructor (bitwise.py:1304) *)
Definition ConcatenateMSBF_m (wr : Z) (ins : list (Z * Z)) : Z := ConcatenateMSBF_propagate wr ins.
Definition ConcatenateLSBF_m (wr : Z) (ins : list (Z * Z)) : Z := ConcatenateLSBF_propagate wr (rev ins).

(* ---- 2-input gates built from gates.  Nand2: Mid has a's width (bitwise.py:420-423) *)
Definition Nand2_m (wa wr a b : Z) : Z := Not_m wr (And2_m wa a b).
Definition Nor2_m (wa wr a b : Z) : Z := Not_m wr (Or2_m wa a b).
(* Xor2 (bitwise.py:759-766): four NANDs; Mid, XOut, YOut have a common width given by the constructor's formula
   (a `mid_policy` of the three port widths).  The Nand2 fed by (b, mid) takes ITS inner Mid width from b, the one fed by
   (xout, yout) from xout.  The formula in /repo is PROBED by the check (py/props/c08.py reads the width of the real Mid wire):
     mid_a   : a's width                       (the tree before the repair of finding C08-xor2-wide-result)
     mid_max : max of a's, b's and r's widths  (after it)
   Every theorem about Xor2 and its users is proved for any policy satisfying the inequality it needs. *)
Definition mid_policy := Z -> Z -> Z -> Z.
Definition mid_a : mid_policy := fun wa _ _ => wa.
Definition mid_max : mid_policy := fun wa wb wr => Z.max wa (Z.max wb wr).
Definition Xor2_m (mid : mid_policy) (wa wb wr a b : Z) : Z :=
  let wm := mid wa wb wr in
  let m := Nand2_m wa wm a b in
  let xout := Nand2_m wa wm a m in
  let yout := Nand2_m wb wm b m in
  Nand2_m wm wr xout yout.

(* ---- n-ary ladders (bitwise.py:44-69, 596-621, 793-817): 1 input -> Buf; otherwise
   aux := in0; for each further input aux := G2(aux, in_{i+1}) on a wire of r's width, the last one being r.
   (num = 2 instantiates one G2 directly: same term.)  [] cannot be built (IndexError): 0 is a dummy. *)
Definition And_m (w : Z) (ins : list Z) : Z :=
  match ins with
  | [] => 0
  | [a] => Buf_m w a
  | a :: rest => fold_left (fun acc x => And2_m w acc x) rest a
  end.
Definition Or_m (w : Z) (ins : list Z) : Z :=
  match ins with
  | [] => 0
  | [a] => Buf_m w a
  | a :: rest => fold_left (fun acc x => Or2_m w acc x) rest a
  end.
(* Xor: inputs of a common width wi; the first Xor2 sees (wi, wi, w), the following ones (w, wi, w).
   Fewer than 2 inputs raise (bitwise.py:799): dummy 0. *)
Definition Xor_m (mid : mid_policy) (wi w : Z) (ins : list Z) : Z :=
  match ins with
  | a :: b :: rest => fold_left (fun acc x => Xor2_m mid w wi w acc x) rest (Xor2_m mid wi wi w a b)
  | _ => 0
  end.
(* Nor: Mid has the width of the first input (bitwise.py:450) *)
Definition Nor_m (w0 wr : Z) (ins : list Z) : Z := Not_m wr (Or_m w0 ins).

Definition AndBits_m (wa wr a : Z) : Z := And_m wr (BitsLSBF_m wa a).
Definition OrBits_m (wa wr a : Z) : Z := Or_m wr (BitsLSBF_m wa a).

(* BufEnable (bitwise.py:321-325): asserts equal widths; re := Repeat(en); r := And2(a, re) *)
Definition BufEnable_m (w a en : Z) : Z := And2_m w a (Repeat_m w en).

(* ---- Minterm (bitwise.py:1184-1194): bit i of the constant 0 -> Not(bits[i]) on a 1-bit wire, else bits[i]; And(parts) *)
Fixpoint minterm_parts (i value : Z) (bits : list Z) : list Z :=
  match bits with
  | [] => []
  | b :: t => (if Z.land (py_shr value i) 1 =? 0 then Not_m 1 b else b) :: minterm_parts (i + 1) value t
  end.
Definition Minterm_m (wr value : Z) (bits : list Z) : Z := And_m wr (minterm_parts 0 value bits).

(* SumOfMinterms (bitwise.py:1220-1230): BitsLSBF(a); one Minterm per constant into a 1-bit wire; Or *)
Definition SumOfMinterms_m (wa wr a : Z) (ms : list Z) : Z :=
  let bits := BitsLSBF_m wa a in
  Or_m wr (map (fun m => Minterm_m 1 m bits) ms).

(* EqualConstant (relational.py:107-122): width 1 -> Not when (v & 1) == 0, else Buf (HEAD after the fix "EqualConstant on a 1-bit
   operand compares with the constant modulo 2"; before it the test was v == 0, the same for constants that fit);
   else BitsLSBF + Minterm *)
Definition EqualConstant_m (wa wr v a : Z) : Z :=
  if wa =? 1 then (if Z.land v 1 =? 0 then Not_m wr a else Buf_m wr a)
  else Minterm_m wr v (BitsLSBF_m wa a).
Definition NotEqualConstant_m (wa wr v a : Z) : Z := Not_m wr (EqualConstant_m wa 1 v a).

(* Decoder (bitwise.py:1156-1159): output i <- EqualConstant(a, i); n outputs of width 1 *)
Definition Decoder_m (wa n a : Z) : list Z := map (fun i => EqualConstant_m wa 1 i a) (seqZ 0 n).
(* Demux (bitwise.py:387-395): Decoder over 2**wsel 1-bit wires; r_i <- BufEnable(a, ss_i) *)
Definition Demux_m (wa wsel a sel : Z) : list Z :=
  map (fun s => BufEnable_m wa a s) (Decoder_m wsel (2 ^ wsel) sel).

(* ---- Mux (bitwise.py:854-884).  wsel = 1: one Mux2 on the whole select wire.  Otherwise BitsLSBF(sel) and one
   level per select bit, level i pairing (2k, 2k+1) under bits[i]; intermediate wires have r's width. *)
Fixpoint mux_level (wr s : Z) (l : list Z) : list Z :=
  match l with
  | a :: b :: t => Mux2_m wr s a b :: mux_level wr s t
  | _ => []
  end.
Fixpoint mux_tree (wr : Z) (bits : list Z) (l : list Z) : list Z :=
  match bits with
  | [] => l
  | s :: bs => mux_tree wr bs (mux_level wr s l)
  end.
Definition Mux_m (wsel wr sel : Z) (ins : list Z) : Z :=
  if wsel =? 1 then Mux2_m wr sel (nth 0 ins 0) (nth 1 ins 0)
  else hd 0 (mux_tree wr (BitsLSBF_m wsel sel) ins).

(* Select / OneHotMux (bitwise.py:992-1004, 1033-1048; identical bodies): inputs of width wi;
   selx_i := Repeat(sel_i); and_sel_i := And2(selx_i, in_i) on wi bits; r := Or(...) *)
Definition OneHotMux_m (wi wr : Z) (sels ins : list Z) : Z :=
  Or_m wr (map (fun p => And2_m wi (Repeat_m wi (fst p)) (snd p)) (combine sels ins)).
Definition Select_m := OneHotMux_m.
(* OneHotDemux (bitwise.py:1079-1086): out_i := And2(Repeat(sel_i) on a's width, a) on out_i's width *)
Definition OneHotDemux_m (wa wo a : Z) (sels : list Z) : list Z :=
  map (fun s => And2_m wo (Repeat_m wa s) a) sels.

(* SelectDefault (bitwise.py:1118-1129): r := Mux2(sel0, t0, in0); t0 := Mux2(sel1, t1, in1); ...; t_last := Buf(default) *)
Definition SelectDefault_m (wr : Z) (sels ins : list Z) (d : Z) : Z :=
  fold_right (fun p acc => Mux2_m wr (fst p) acc (snd p)) (Buf_m wr d) (combine sels ins).

(* PriorityEncoder (bitwise.py:1446-1468), all wires of width w: both lists reversed when inc_priority;
   r0 := Buf(a0), last := Buf(a0); r_i := And2(a_i, Not(last)); last := Or2(last, a_i) *)
Fixpoint prio_chain (w last : Z) (l : list Z) : list Z :=
  match l with
  | [] => []
  | x :: t => And2_m w x (Not_m w last) :: prio_chain w (Or2_m w last x) t
  end.
Definition prio_fwd (w : Z) (l : list Z) : list Z :=
  match l with
  | [] => []
  | x :: t => Buf_m w x :: prio_chain w (Buf_m w x) t
  end.
Definition PriorityEncoder_m (w : Z) (inc : bool) (a : list Z) : list Z :=
  if inc then rev (prio_fwd w (rev a)) else prio_fwd w a.

(* ---- comparison.  Sign (arithmetic.py:269) = Bit(a, width-1) into a 1-bit wire *)
Definition Sign_m (wa a : Z) : Z := Bit_m 1 (wa - 1) a.

(* Equal (relational.py:160-175): the xor wire (and the bit split) has a width given by the constructor's formula of the two
   operand widths, PROBED like Xor2's:  eqw_a : a's width (before the repair of C08-equal-wider-b), eqw_max : the wider operand.
   width 1 -> Not; else BitsLSBF + Nor (Mid 1 bit) *)
Definition eq_policy := Z -> Z -> Z.
Definition eqw_a : eq_policy := fun wa _ => wa.
Definition eqw_max : eq_policy := Z.max.
Definition Equal_m (mid : mid_policy) (eqw : eq_policy) (wa wb a b : Z) : Z :=
  let wx := eqw wa wb in
  let x := Xor2_m mid wa wb wx a b in
  if wx =? 1 then Not_m 1 x else Nor_m 1 1 (BitsLSBF_m wx x).

(* AnyEqual (relational.py:39-46): Equal for every ordered pair i <> j, Or of the results *)
Definition AnyEqual_m (mid : mid_policy) (eqw : eq_policy) (w wr : Z) (ins : list Z) : Z :=
  let n := length ins in
  Or_m wr (flat_map (fun i => flat_map (fun j =>
             if Nat.eqb i j then [] else [Equal_m mid eqw w w (nth i ins 0) (nth j ins 0)]) (seq 0 n)) (seq 0 n)).

(* Comparator (relational.py:218-233): sub on w+1 bits; lt := Sign(sub); eq := EqualConstant(sub, 0);
   gt := And2(Not eq, Not lt).  Result (gt, eq, lt). *)
Definition Comparator_m (w a b : Z) : Z * Z * Z :=
  let sub := Sub_m (w + 1) a b in
  let lt := Sign_m (w + 1) sub in
  let eq := EqualConstant_m (w + 1) 1 0 sub in
  let gt := And2_m 1 (Not_m 1 eq) (Not_m 1 lt) in
  (gt, eq, lt).

(* ComparatorSignedUnsigned (relational.py:285-311).  Result (gtu, eq, ltu, gt, lt). *)
Definition ComparatorSU_m (mid : mid_policy) (w a b : Z) : Z * Z * Z * Z * Z :=
  let sa := Sign_m w a in
  let sb := Sign_m w b in
  let difs := Xor2_m mid 1 1 1 sa sb in
  let sub := Sub_m (w + 1) a b in
  let ltu := Sign_m (w + 1) sub in
  let lt := Xor2_m mid 1 1 1 ltu difs in
  let eq := EqualConstant_m (w + 1) 1 0 sub in
  let gtu := And2_m 1 (Not_m 1 eq) (Not_m 1 ltu) in
  let gt := Xor2_m mid 1 1 1 gtu difs in
  (gtu, eq, ltu, gt, lt).

Definition cmp_gt (r : Z * Z * Z) : Z := fst (fst r).
Definition cmp_lt (r : Z * Z * Z) : Z := snd r.
Definition su_gt (r : Z * Z * Z * Z * Z) : Z := snd (fst r).
Definition su_lt (r : Z * Z * Z * Z * Z) : Z := snd r.

(* Max2 = Mux2(lt, a, b); Min2 = Mux2(gt, a, b); the signed ones use the signed outputs (relational.py:346,383,419,458) *)
Definition Max2_m (w wr a b : Z) : Z := Mux2_m wr (cmp_lt (Comparator_m w a b)) a b.
Definition Min2_m (w wr a b : Z) : Z := Mux2_m wr (cmp_gt (Comparator_m w a b)) a b.
Definition SignedMax2_m (mid : mid_policy) (w wr a b : Z) : Z := Mux2_m wr (su_lt (ComparatorSU_m mid w a b)) a b.
Definition SignedMin2_m (mid : mid_policy) (w wr a b : Z) : Z := Mux2_m wr (su_gt (ComparatorSU_m mid w a b)) a b.

(* Swap (relational.py:610-611) *)
Definition Swap_m (wra wrb a b swap : Z) : Z * Z := (Mux2_m wra swap a b, Mux2_m wrb swap b a).

(* ---- per-input widths.  The n-ary blocks whose internal wires take the width of EACH input (not only of r) are modelled over
   (width, value) items; the uniform-width models above are the instances `map (pair wi) ins` (proved in Proofs/C08/Mixed.v).
   And / Or / Mux / SelectDefault / Mux2 / Swap only look at r's width: their models above already cover inputs of any widths. *)
(* Xor ladder: Xor2(in0, in1) then Xor2(aux, in_i), aux and r of width w *)
Definition XorW_m (mid : mid_policy) (w : Z) (ins : list (Z * Z)) : Z :=
  match ins with
  | (wa, a) :: (wb, b) :: rest => fold_left (fun acc p => Xor2_m mid w (fst p) w acc (snd p)) rest (Xor2_m mid wa wb w a b)
  | _ => 0
  end.
(* Select / OneHotMux: selx_i and and_sel_i have input i's width *)
Definition OneHotMuxW_m (wr : Z) (sels : list Z) (ins : list (Z * Z)) : Z :=
  Or_m wr (map (fun p => And2_m (fst (snd p)) (Repeat_m (fst (snd p)) (fst p)) (snd (snd p))) (combine sels ins)).
(* OneHotDemux: out_i has its own width *)
Definition OneHotDemuxW_m (wa : Z) (wos : list Z) (a : Z) (sels : list Z) : list Z :=
  map (fun p => And2_m (fst p) (Repeat_m wa (snd p)) a) (combine wos sels).
(* AnyEqual: Equal(in_i, in_j) on the two inputs' own widths *)
Definition AnyEqualW_m (mid : mid_policy) (eqw : eq_policy) (wr : Z) (ins : list (Z * Z)) : Z :=
  let n := length ins in
  Or_m wr (flat_map (fun i => flat_map (fun j =>
             if Nat.eqb i j then [] else [Equal_m mid eqw (fst (nth i ins (0, 0))) (fst (nth j ins (0, 0)))
                                                   (snd (nth i ins (0, 0))) (snd (nth j ins (0, 0)))]) (seq 0 n)) (seq 0 n)).
