(* C13 — WORD-LEVEL datapath model of py4hw's single-precision blocks
   (py4hw/logic/arithmetic_fp.py: _FP_parts_raw, _FP_parts, FPAdder_SP, FPtoInt_SP, InttoFP_SP, FPMult_SP;
    py4hw/logic/relational.py: FPComparator_SP, Swap).
   Every library sub-block instance is replaced by its integer function ON THE WIRE WIDTHS OF THE REAL CIRCUIT; the
   constructor was read wire by wire, the widths are in the comments.  That these word-level functions are what the
   sub-blocks compute is (a) checked on every run by evaluating this model and the REAL blocks on the same structured
   operands (py/props/c13.py) and (b) the subject of C07/C08's theorems.  1-bit wires are bool.  No proofs here. *)
From V Require Import Base.Bits.

(* ---- sub-block functions *)
Definition rng (hi lo v : Z) : Z := trunc (hi - lo + 1) (Z.shiftr v lo).      (* Range(a, hi, lo) -> hi-lo+1 bits *)
Definition add_w (w a b : Z) : Z := trunc w (a + b).                            (* Add / AddCarryIn(ci=0) into w bits *)
Definition sub_w (w a b : Z) : Z := trunc w (a - b).                            (* Sub into w bits *)
Definition shr_w (w a n : Z) : Z := trunc w (Z.shiftr a n).                     (* barrel ShiftRight, stages on w-bit wires *)
Definition shl_w (w a n : Z) : Z := trunc w (Z.shiftl a n).                     (* barrel ShiftLeft,  stages on w-bit wires *)
Definition mux2 {A} (sel : bool) (s0 s1 : A) : A := if sel then s1 else s0.     (* Mux2(sel, sel0, sel1) *)
(* CountLeadingZeros of an aw-bit value into rw bits: zero -> the constant aw (masked to rw bits), else aw-1-log2 *)
Definition clz_w (aw rw a : Z) : Z := if a =? 0 then trunc rw aw else trunc rw (aw - 1 - Z.log2 a).
(* Comparator(a, b) on w-bit wires: sub on w+1 bits, lt = its sign bit, eq = (sub == 0), gt = !eq & !lt *)
Definition cmp_w (w a b : Z) : bool * bool * bool :=
  let sub := sub_w (w + 1) a b in
  let lt := Z.testbit sub w in
  let eq := sub =? 0 in
  (negb eq && negb lt, eq, lt).
(* ConcatenateMSBF [s(1); e(8); m(23)] into 32 bits *)
Definition cat_sem (s : bool) (e m : Z) : Z := trunc 32 (Z.lor (Z.shiftl (Z.lor (Z.shiftl (b2z s) 8) e) 23) m).

(* ---- _FP_parts_raw / _FP_parts *)
Definition fp_s (a : Z) : bool := Z.testbit a 31.                     (* Bit(a, 31) *)
Definition fp_e (a : Z) : Z := rng 30 23 a.                           (* 8 bits *)
Definition fp_f (a : Z) : Z := rng 22 0 a.                            (* 23 bits *)
Definition fp_hidden (a : Z) : bool := negb (fp_e a =? 0).            (* hw_not_equal_constant(pre_e, 0) *)
Definition fp_m (a : Z) : Z := trunc 24 (Z.lor (Z.shiftl (b2z (fp_hidden a)) 23) (fp_f a)).   (* ConcatenateMSBF [hidden; pre_m], 24 bits *)
Definition fp_isdenorm (a : Z) : bool := negb (fp_hidden a) && negb (fp_f a =? 0).
Definition fp_iszero (a : Z) : bool := negb (fp_hidden a) && negb (negb (fp_f a =? 0)).
Definition fp_real_e (a : Z) : Z := sub_w 8 (fp_e a) 127.             (* _FP_parts.e : Sub(pre_e, 127) into 8 bits *)

(* ---- FPComparator_SP(a, b, gt, eq, lt, absolute) *)
Definition fpcmp (absolute : bool) (a b : Z) : bool * bool * bool :=
  let sa := fp_s a in let sb := fp_s b in
  let s_eq := Bool.eqb sa sb in                                        (* Equal on 1 bit: not (xor) *)
  let '(e_gt, e_eq, e_lt) := cmp_w 8 (fp_e a) (fp_e b) in
  let '(m_gt, m_eq, m_lt) := cmp_w 23 (fp_f a) (fp_f b) in
  if absolute then
    (e_gt || (e_eq && m_gt), e_eq && m_eq, e_lt || (e_eq && m_lt))
  else
    ((negb sa && sb) || (s_eq && mux2 sa e_gt e_lt) || (s_eq && e_eq && mux2 sa m_gt m_lt),
     s_eq && e_eq && m_eq,
     (sa && negb sb) || (s_eq && mux2 sa e_lt e_gt) || (s_eq && e_eq && mux2 sa m_lt m_gt)).

(* ---- FPAdder_SP(a, b, r) *)
(* cmp (absolute mode) + Swap(a, b, ilt): the operand of larger magnitude first *)
Definition add_swap (a b : Z) : Z * Z :=
  let ilt := snd (fpcmp true a b) in (mux2 ilt a b, mux2 ilt b a).
(* the datapath after the swap; ew = width of the ediff wire (8 in the circuit since /repo 150f909; it was 5) *)
Definition add_core_gen (ew : Z) (a2 b2 : Z) : Z :=
  let sa := fp_s a2 in let sb := fp_s b2 in
  let ma := fp_m a2 in let mb := fp_m b2 in                            (* 24 bits *)
  let ea := fp_e a2 in let eb := fp_e b2 in                            (* raw exponents, 8 bits *)
  let ediff := sub_w ew ea eb in                                       (* ew bits *)
  let mb3 := shr_w 24 mb ediff in                                      (* 24 bits *)
  let m_a_plus_b := add_w 25 ma mb3 in                                 (* 25 bits *)
  let m_a_minus_b := sub_w 25 ma mb3 in                                (* 25 bits *)
  let sel_amb := xorb sa sb in
  let mr := mux2 sel_amb m_a_plus_b m_a_minus_b in                     (* 25 bits *)
  let clz := clz_w 25 5 mr in                                          (* 5 bits *)
  let mr2 := shl_w 25 mr clz in                                        (* 25 bits *)
  let pre_er := sub_w 8 ea clz in                                      (* 8 bits *)
  let er := add_w 8 pre_er 1 in                                        (* 8 bits *)
  let mr3 := rng 23 1 mr2 in                                           (* 23 bits; the round_up wires drive nothing *)
  cat_sem sa er mr3.                                                   (* sr = Buf(sa) *)
(* the adder with an ew-bit ediff wire; the check reads ew off the live circuit and ties the real block to that instance *)
Definition fpadd_w (ew a b : Z) : Z := add_core_gen ew (fst (add_swap a b)) (snd (add_swap a b)).
(* the circuit of the current /repo: ediff = self.wire('ediff', 8) *)
Definition fpadd : Z -> Z -> Z := fpadd_w 8.

(* ---- FPMult_SP(a, b, r) *)
Definition fpmul (a b : Z) : Z :=
  let sr := xorb (fp_s a) (fp_s b) in
  let pre_mr := trunc 48 (fp_m a * fp_m b) in                          (* Mul into 48 bits *)
  let pre_er := add_w 9 (fp_e a) (fp_e b) in                           (* 9 bits *)
  let pre_er2 := sub_w 8 pre_er 126 in                                 (* 8 bits *)
  let pre_er3 := sub_w 8 pre_er2 1 in                                  (* 8 bits *)
  let select_mr := Z.testbit pre_mr 47 in
  let pre_mr2 := rng 46 24 pre_mr in
  let pre_mr3 := rng 45 23 pre_mr in
  cat_sem sr (mux2 select_mr pre_er3 pre_er2) (mux2 select_mr pre_mr3 pre_mr2).     (* isZeror drives nothing *)

(* ---- InttoFP_SP(a, r, p_lost) *)
Definition int2fp (a : Z) : Z * bool :=
  let sign := Z.testbit a 31 in                                        (* Abs: Sign *)
  let f5 := mux2 sign a (sub_w 32 0 a) in                              (* Abs: Mux2(sign, a, Neg a), 32 bits *)
  let clz := clz_w 32 5 f5 in                                          (* 5 bits: zero -> 32 masked to 5 bits = 0 *)
  let is_zero := f5 =? 0 in
  let shifted := shl_w 32 f5 clz in                                    (* 32 bits *)
  let fraction := rng 30 8 shifted in                                  (* 23 bits *)
  let p_lost := negb (rng 7 0 shifted =? 0) in
  let exponent := sub_w 8 158 clz in                                   (* 8 bits *)
  (mux2 is_zero (cat_sem sign exponent fraction) 0, p_lost).

(* ---- FPtoInt_SP(a, r, p_lost, denorm, invalid) *)
(* the 64-bit wire `shifted` *)
Definition f2i_shifted (a : Z) : Z :=
  let real_e := fp_real_e a in                                         (* 8 bits, exponent minus bias, two's complement *)
  let real_m := fp_m a in                                              (* 24 bits *)
  let frac0 := Z.shiftl real_m 32 in                                   (* ConcatenateMSBF [real_m; 0(32)], 56 bits *)
  let shift_amount_right := sub_w 8 23 real_e in                       (* 8 bits *)
  let shift_amount_left := sub_w 8 real_e 23 in                        (* 8 bits *)
  let shift_sign := Z.testbit shift_amount_right 7 in
  let shifted_right := trunc 64 (shr_w 56 frac0 shift_amount_right) in (* stages on 56-bit wires, Buf into 64 *)
  let shifted_left := shl_w 64 frac0 shift_amount_left in              (* stages on 64-bit wires *)
  mux2 shift_sign shifted_right shifted_left.
(* hw_signed_gt_constant(real_e, 30): ComparatorSignedUnsigned, gt = gtu xor (sign of real_e xor sign of 30) *)
Definition f2i_too_big (a : Z) : bool :=
  let real_e := fp_real_e a in
  xorb (fst (fst (cmp_w 8 real_e 30))) (xorb (Z.testbit real_e 7) (Z.testbit 30 7)).
(* plost_hi = upper bound of the p_lost range: Range(shifted, plost_hi, 0); 31 in the circuit since /repo 48843fa (it was 32);
   the check reads it off the live circuit and ties the real block to that instance *)
Definition fp2int_gen (plost_hi : Z) (a : Z) : Z * bool * bool * bool :=
  let sign := fp_s a in
  let is_denorm := fp_isdenorm a in
  let is_zero := fp_iszero a in
  let sign_real_e := Z.testbit (fp_real_e a) 7 in
  let shifted := f2i_shifted a in                                      (* 64 bits *)
  let too_big := f2i_too_big a in
  let final_m_pos := rng 64 32 shifted in                              (* 33 bits *)
  let final_m_neg := sub_w 33 0 final_m_pos in                         (* Neg, 33 bits *)
  let final_m := mux2 sign final_m_pos final_m_neg in                  (* hw_if(sign, neg, pos) *)
  let pos_ext_p_lost := negb (rng plost_hi 0 shifted =? 0) in
  let select_denorm := is_denorm in
  let select_small := sign_real_e in
  let select_default := negb select_denorm || negb select_small in
  (* Select = OR of the inputs ANDed with their (repeated) select bits, into the width of r *)
  let p_lost := (select_denorm && true) || (select_small && negb is_zero) || (select_default && pos_ext_p_lost) in
  let invalid := (select_denorm && false) || (select_small && false) || (select_default && too_big) in
  let r := trunc 32 (Z.lor (Z.lor (if select_denorm then 0 else 0) (if select_small then 0 else 0))
                           (if select_default then final_m else 0)) in
  (r, p_lost, is_denorm, invalid).
(* the circuit of the current /repo *)
Definition fp2int := fp2int_gen 31.
