(* C12 — hand-written models of the integer-only helpers of py4hw/helper.py that the translator does not
   regenerate: FixedPoint (raw encodings) and the pack/unpack field functions.  Written with the code's
   own operators (shifts, masks, |) so that the proofs, not the model, do the arithmetic.
   IntegerHelper.signed_to_c2 / c2_to_signed and signExtend are NOT here: they are regenerated (Gen/Helpers.v)
   and FixedPoint.mult below calls the regenerated signExtend.  No proofs in this file. *)
From V Require Import Base.PyInt Gen.Helpers.

(* ------------------------------------------------------------------ FixedPoint (helper.py:461-560) *)
(* a FixedPoint object is (sw, iw, fw, v); every operation builds its result with FixedPoint(sw,iw,fw,0).
   An exception of the code (documented range errors, a negative shift count) is None. *)
Definition fx_width (sw iw fw : Z) : Z := sw + iw + fw.

(* intToFixedPoint as in /repo since 6fe767a: maxv = (1 << iw) >> 1 *)
Definition FixedPoint_intToFixedPoint (sw iw fw v : Z) : option Z :=
  if (v <? 0) && (sw =? 0) then None                       (* 'negative values not supported' *)
  else
    let w := sw + iw + fw in
    if iw <? 0 then None                                     (* 1 << iw: ValueError negative shift count *)
    else
      let maxv := py_shr (py_shl 1 iw) 1 in
      if v >? maxv then None                                 (* 'Value greater than max value' *)
      else Some (Z.land (py_shl v fw) (py_shl 1 w - 1)).

(* HISTORY: the constructor before 6fe767a (maxv = 1 << (iw-1): ValueError for iw = 0, finding #23).  Only used by the
   `_before_repair_` examples and by the correspondence cases when the probe sees the old behaviour again (a regression). *)
Definition FixedPoint_intToFixedPoint_before_6fe767a (sw iw fw v : Z) : option Z :=
  if (v <? 0) && (sw =? 0) then None
  else
    let w := sw + iw + fw in
    if iw - 1 <? 0 then None
    else
      let maxv := py_shl 1 (iw - 1) in
      if v >? maxv then None
      else Some (Z.land (py_shl v fw) (py_shl 1 w - 1)).

(* add / sub / mult build their result with FixedPoint(sw, iw, fw, 0): generic in the constructor *)
Definition FixedPoint_add_gen (ctor : Z -> Z -> Z -> Z -> option Z) (sw iw fw a b : Z) : option Z :=
  match ctor sw iw fw 0 with
  | None => None
  | Some _ => let w := sw + iw + fw in Some (Z.land (a + b) (py_shl 1 w - 1))
  end.

Definition FixedPoint_sub_gen (ctor : Z -> Z -> Z -> Z -> option Z) (sw iw fw a b : Z) : option Z :=
  match ctor sw iw fw 0 with
  | None => None
  | Some _ => let w := sw + iw + fw in Some (Z.land (a - b) (py_shl 1 w - 1))
  end.

Definition FixedPoint_mult_gen (ctor : Z -> Z -> Z -> Z -> option Z) (sw iw fw a b : Z) : option Z :=
  match ctor sw iw fw 0 with
  | None => None
  | Some _ =>
      let w := sw + iw + fw in
      let av := signExtend a w (w * 2) in
      let bv := signExtend b w (w * 2) in
      Some (Z.land (py_shr (av * bv) fw) (py_shl 1 w - 1))
  end.

Definition FixedPoint_add := FixedPoint_add_gen FixedPoint_intToFixedPoint.
Definition FixedPoint_sub := FixedPoint_sub_gen FixedPoint_intToFixedPoint.
Definition FixedPoint_mult := FixedPoint_mult_gen FixedPoint_intToFixedPoint.

(* toFloatingPoint: the exact rational it denotes is num / 2^fw; returned as the signed numerator *)
Definition FixedPoint_toFloat_num (sw iw fw v : Z) : Z :=
  if Z.land (py_shr v (iw + fw)) 1 =? 1 then
    let w := sw + iw + fw in
    let mask := py_shl 1 w - 1 in
    - (Z.land (Z.lxor v mask + 1) mask)
  else v.

(* ------------------------------------------------------------------ field pack / unpack *)
(* format = (position of the sign bit, position of the exponent field, exponent mask literal, mantissa bits);
   the code writes them as literals:  hp 15,10,0x1F,10   sp 31,23,0xFF,23   dp 63,52,0x7FF,52 *)
Record layout := mkLayout { l_spos : Z; l_epos : Z; l_emask : Z; l_mbits : Z }.
Definition layout_hp := mkLayout 15 10 31 10.
Definition layout_sp := mkLayout 31 23 255 23.
Definition layout_dp := mkLayout 63 52 2047 52.

(* FPNum.unpack_ieee754_{hp,sp,dp}_parts *)
Definition FPNum_unpack (L : layout) (v : Z) : Z * Z * Z :=
  let s := Z.land (py_shr v (l_spos L)) 1 in
  let e := Z.land (py_shr v (l_epos L)) (l_emask L) in
  let m := Z.land v (py_shl 1 (l_mbits L) - 1) in
  (s, e, m).

(* FPNum.pack_ieee754_{hp,sp,dp}_parts and FloatingPointHelper.pack_ieee754_sp_parts *)
Definition FPNum_pack (L : layout) (s e m : Z) : Z :=
  Z.lor (Z.lor (py_shl (Z.land s 1) (l_spos L)) (py_shl (Z.land e (l_emask L)) (l_epos L)))
        (Z.land m (py_shl 1 (l_mbits L) - 1)).

(* FloatingPointHelper.unpack_ieee754_{sp,dp}_parts: the sign is NOT masked *)
Definition FPH_unpack (L : layout) (v : Z) : Z * Z * Z :=
  let s := py_shr v (l_spos L) in
  let e := Z.land (py_shr v (l_epos L)) (l_emask L) in
  let m := Z.land v (py_shl 1 (l_mbits L) - 1) in
  (s, e, m).

(* FloatingPointHelper.sp_to_ieee754 / dp_to_ieee754 final assembly:  s << spos | e << epos | m  (nothing masked) *)
Definition FPH_assemble (L : layout) (s e m : Z) : Z :=
  Z.lor (Z.lor (py_shl s (l_spos L)) (py_shl e (l_epos L))) m.

(* FloatingPointHelper.ieee754_sp_neg *)
Definition FPH_sp_neg (v : Z) : Z :=
  let '(s, e, m) := FPH_unpack layout_sp v in FPNum_pack layout_sp (Z.lxor s 1) e m.
