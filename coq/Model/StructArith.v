(* C07 — hand-written, width-parametric models of the STRUCTURAL arithmetic blocks of
   py4hw/logic/arithmetic.py.  Each definition wires the REGENERATED primitives (Gen/Prims.v) exactly as the
   constructor does: one `let` per internal wire, the wire's width as the primitive's w_r argument, recursion
   where the constructor loops.  No proofs here (they are in Proofs/C07).  Tied to the real constructors by the
   correspondence sweep of py/props/c07.py (impl vs these models, evaluated inside Coq). *)
From V Require Import Base.PyInt Gen.WireOps Gen.Helpers Gen.Prims.

(* ------------------------------------------------------------------------------------------------ *)
(* Add(a, b, r, ci=None, co=None):  ci=None -> internal 1-bit wire driven by Constant(0)             *)
Definition m_ci (ci : option Z) : Z :=
  match ci with Some c => c | None => Constant_propagate 1 0 end.

(* co=None:   AddCarryIn(a, b, r, ci) *)
Definition m_Add (wr : Z) (ci : option Z) (a b : Z) : Z :=
  AddCarryIn_propagate wr a b (m_ci ci).

(* co given:  pre_r = wire(rw+1); AddCarryIn(a,b,pre_r,ci); Range(pre_r, rw-1, 0, r); Bit(pre_r, rw, co) *)
Definition m_Add_co (wr wco : Z) (ci : option Z) (a b : Z) : Z * Z :=
  let pre_r := AddCarryIn_propagate (wr + 1) a b (m_ci ci) in
  (Range_propagate wr (wr - 1) 0 pre_r, Bit_propagate wco wr pre_r).

(* SignedAdd / SignedSub: sa = SignExtend(a) into a wire of width rw if rw > aw, else a itself *)
Definition m_sx (wa wr a : Z) : Z :=
  if wr >? wa then SignExtend_propagate wa wr a else a.

Definition m_SignedAdd (wa wb wr : Z) (ci : option Z) (a b : Z) : Z :=
  m_Add wr ci (m_sx wa wr a) (m_sx wb wr b).

Definition m_SignedAdd_co (wa wb wr wco : Z) (ci : option Z) (a b : Z) : Z * Z :=
  m_Add_co wr wco ci (m_sx wa wr a) (m_sx wb wr b).

(* SignedSub: not_sb = Not(sb) (width rw); ci_one = Constant(1) (1 bit); Add(sa, not_sb, r, ci_one) *)
Definition m_SignedSub (wa wb wr : Z) (a b : Z) : Z :=
  let sa := m_sx wa wr a in
  let sb := m_sx wb wr b in
  let not_sb := Not_propagate wr sb in
  let add_ci := Constant_propagate 1 1 in
  m_Add wr (Some add_ci) sa not_sb.

(* Sign: Bit(a, aw-1, r), r is 1 bit wide (asserted) *)
Definition m_Sign (wa a : Z) : Z := Bit_propagate 1 (wa - 1) a.

(* Neg: zero = wire(rw) <- Constant(0); Sub(zero, a, r) *)
Definition m_Neg (wr a : Z) : Z :=
  let zero := Constant_propagate wr 0 in
  Sub_propagate wr zero a.

(* Abs: s = Sign(a); neg = wire(aw) <- Neg(a); Mux2(s, a, neg, r) *)
Definition m_Abs (wa wr a : Z) : Z :=
  let s := m_Sign wa a in
  let neg := m_Neg wa a in
  Mux2_propagate wr s a neg.

(* bitwise.Nand2 / Xor2 (used by SignedDiv on 1-bit signs): mid wires have the width of the first operand *)
Definition m_Nand2 (wa wr a b : Z) : Z :=
  let mid := And2_propagate wa a b in
  Not_propagate wr mid.

Definition m_Xor2 (wa wb wr a b : Z) : Z :=
  let mid := m_Nand2 wa wa a b in
  let xout := m_Nand2 wa wa a mid in
  let yout := m_Nand2 wb wa b mid in
  m_Nand2 wa wr xout yout.

(* SignedDiv: |a| / |b| on the magnitudes, negated when the signs differ.  [rnd] is the value
   random.randint returns inside Div when the divisor is 0 (unspecified; the theorems exclude b = 0). *)
Definition m_SignedDiv (wa wb wr : Z) (rnd : Z) (a b : Z) : Z :=
  let abs_a := m_Abs wa wa a in
  let abs_b := m_Abs wb wb b in
  let sign_a := m_Sign wa a in
  let sign_b := m_Sign wb b in
  let q := Div_propagate wr rnd abs_a abs_b in
  let neg_q := m_Neg wr q in
  let sign_r := m_Xor2 1 1 1 sign_a sign_b in
  Mux2_propagate wr sign_r q neg_q.

(* ------------------------------------------------------------------------------------------------ *)
(* barrel stages:  for i in range(wb):  shifted = <const shift by 1<<i>(last);  doShift = Bit(b, i);
                                        prer = wire(wp) <- Mux2(doShift, last, shifted);  last = prer
   [shiftc n x] is the constant-shift primitive instance (it carries the width of `shifted`);
   [n] stages remain, the next one has index [i]. *)
Fixpoint m_stages (shiftc : Z -> Z -> Z) (wp b : Z) (n : nat) (i : Z) (last : Z) : Z :=
  match n with
  | O => last
  | S n' =>
      let shifted := shiftc (py_shl 1 i) last in
      let doShift := Bit_propagate 1 i b in
      let prer := Mux2_propagate wp doShift last shifted in
      m_stages shiftc wp b n' (i + 1) prer
  end.

(* ShiftRight(a, b, r, arithmetic = False | True | <wire>) *)
Inductive amode := ALogical | AArith | AWire (v : Z).

(* width of the sign/zero pre-extension wires of the arithmetic modes, as the constructor computes it *)
(* C07-SAR-WIDE: repaired in /repo, switched by fixes/C07_switch.py *)
Definition sar_ext (wa wb wr : Z) : Z := Z.max wa wr + py_shl 1 wb.

Definition m_ShiftRight (m : amode) (wa wb wr : Z) (a b : Z) : Z :=
  let we := sar_ext wa wb wr in
  let '(last, w) :=
    match m with
    | ALogical => (a, wa)
    | AArith => (SignExtend_propagate wa we a, we)
    | AWire v =>
        let signExtended := SignExtend_propagate wa we a in
        let zeroExtended := ZeroExtend_propagate we a in
        (Mux2_propagate we v zeroExtended signExtended, we)
    end in
  let prer := m_stages (fun n x => ShiftRightConstant_propagate w n x) w b (Z.to_nat wb) 0 last in
  Buf_propagate wr prer.

(* ShiftLeft: every internal wire has width max(wa, wr) *)
Definition m_ShiftLeft (wa wb wr : Z) (a b : Z) : Z :=
  let w := Z.max wa wr in
  let prer := m_stages (fun n x => ShiftLeftConstant_propagate w n x) w b (Z.to_nat wb) 0 a in
  Buf_propagate wr prer.

(* RotateRight / RotateLeft: `shift_i` wires have the width of a; width of the `shifted` wires as the constructor declares them *)
(* C07-ROT-NARROW: repaired in /repo, switched by fixes/C07_switch.py *)
Definition rot_sw (wa wr : Z) : Z := Z.max wa wr.
Definition m_RotateRight (wa wb wr : Z) (a b : Z) : Z :=
  let prer := m_stages (fun n x => RotateRightConstant_propagate wa (rot_sw wa wr) n x) wa b (Z.to_nat wb) 0 a in
  Buf_propagate wr prer.

Definition m_RotateLeft (wa wb wr : Z) (a b : Z) : Z :=
  let prer := m_stages (fun n x => RotateLeftConstant_propagate wa (rot_sw wa wr) n x) wa b (Z.to_nat wb) 0 a in
  Buf_propagate wr prer.

(* ------------------------------------------------------------------------------------------------ *)
(* BinaryToBCD: digits = rw // 4;  k10 = Constant(10) on 4 bits;
   for i in range(digits): rem_i = wire(4) <- Mod(v, k10); div_i = wire(aw) <- Div(v, k10); v = div_i
   ConcatenateLSBF([rem_0, rem_1, ...], r)   (its propagate folds over the REVERSED list) *)
Fixpoint m_bcd_rems (n : nat) (wa rnd k10 v : Z) : list Z :=
  match n with
  | O => []
  | S n' =>
      let rem := Mod_propagate 4 rnd v k10 in
      let div := Div_propagate wa rnd v k10 in
      rem :: m_bcd_rems n' wa rnd k10 div
  end.

Definition m_BinaryToBCD (wa wr : Z) (rnd : Z) (a : Z) : Z :=
  let k10 := Constant_propagate 4 10 in
  let ret := m_bcd_rems (Z.to_nat (Z.div wr 4)) wa rnd k10 a in
  ConcatenateLSBF_propagate wr (rev (map (fun d => (4, d)) ret)).

(* ------------------------------------------------------------------------------------------------ *)
(* bitwise.And / Or over a list: 1 input -> Buf, otherwise a ladder of And2/Or2 whose intermediate
   wires all have the width of r *)
Definition m_And (w : Z) (ins : list Z) : Z :=
  match ins with
  | [] => 0
  | [x] => Buf_propagate w x
  | x :: rest => fold_left (fun acc y => And2_propagate w acc y) rest x
  end.

Definition m_Or (w : Z) (ins : list Z) : Z :=
  match ins with
  | [] => 0
  | [x] => Buf_propagate w x
  | x :: rest => fold_left (fun acc y => Or2_propagate w acc y) rest x
  end.

(* _FFunction(a[0..w-1], r): an[i] = Not(a[i]);
   products t = 0,1,..  while w-1-2t >= 0:  a[w-1-2t] & an[w-2] & an[w-4] & ... & an[w-2t]
   (a single-signal product is the signal itself); r = Or(products) or Buf for one product *)
Definition m_FFunction (l : list Z) : Z :=
  let w := Z.of_nat (length l) in
  let an := map (fun x => Not_propagate 1 x) l in
  let products :=
    map (fun t =>
           let prodsig := getZ l (w - 1 - 2 * t) :: map (fun u => getZ an (w - 2 * u)) (seqZ 1 (t + 1)) in
           match prodsig with
           | [x] => x
           | _ => m_And 1 prodsig
           end) (seqZ 0 ((w + 1) / 2)) in
  match products with
  | [x] => Buf_propagate 1 x
  | _ => m_Or 1 products
  end.

(* next_f_bits[j] = Or2(f_bits[2j], f_bits[2j+1]) *)
Fixpoint m_or_pairs (l : list Z) : list Z :=
  match l with
  | x :: y :: t => Or2_propagate 1 x y :: m_or_pairs t
  | _ => []
  end.

(* levels i = 0 .. k-1: r_bits[i] = Not(_FFunction(f_bits)); f_bits = or_pairs f_bits.
   returns (r_bits LSB first, final f_bits) *)
Fixpoint m_clz_levels (k : nat) (f_bits : list Z) : list Z * list Z :=
  match k with
  | O => ([], f_bits)
  | S k' =>
      let fvalue := m_FFunction f_bits in
      let rbit := Not_propagate 1 fvalue in
      let '(rs, last) := m_clz_levels k' (m_or_pairs f_bits) in
      (rbit :: rs, last)
  end.

(* CountLeadingZeros(a, r, z) *)
Definition m_CountLeadingZeros (aw rw : Z) (a : Z) : Z * Z :=
  let r_intern_w := Z.log2_up aw in                     (* int(math.ceil(math.log2(aw))) *)
  let a_intern_w := 2 ^ r_intern_w in
  let a_intern := ZeroExtend_propagate a_intern_w a in
  let a_bits := BitsLSBF_propagate a_intern_w (repeat 1 (Z.to_nat a_intern_w)) a_intern in
  let '(r_bits, f_last) := m_clz_levels (Z.to_nat r_intern_w) a_bits in
  let r_intern := ConcatenateLSBF_propagate r_intern_w (rev (map (fun b => (1, b)) r_bits)) in
  let r_preout := ZeroExtend_propagate rw r_intern in
  let z := Not_propagate 1 (getZ f_last 0) in
  let allZeroK := Constant_propagate rw aw in
  let r_preout2 :=
    if a_intern_w >? aw then
      let extra := Constant_propagate rw (a_intern_w - aw) in
      Sub_propagate rw r_preout extra
    else r_preout in
  (Mux2_propagate rw z r_preout2 allZeroK, z).
