(* Translation validator for the Python -> Verilog transpiler of behavioural blocks.
   tv_block src m = true  is a sufficient condition (proved in Proofs/C02) for the emitted module m to behave as the
   Python method src on every in-domain history.  The module is first ELABORATED with Model/VSem.elaborate (so the
   validator works on resolved syntax: every identifier already is a net index with its declared width / signedness,
   an undeclared identifier is an elaboration error and therefore a rejection) and the resulting flat design is
   compared with the source, statement for statement:
     self.p.get()            |->  the net named after the PORT p (unsigned, port width)
     self.x / local x        |->  the `integer` x (32 bit signed);  a never-assigned attribute may also be its literal value
     + - * & | ^ ~ unary- << |->  same operator, operands in the same context (these commute with "mod 2^W")
     // % >> comparisons     |->  / % >> == ... with operands that provably FIT the context Verilog evaluates them in
                                  (static bit-length bound `ubits`, or a context of at least 31 bits), and a signed context
                                  only when it is at least 32 bit wide
     and / or / not          |->  && || !  in condition position;  as a VALUE only between boolean-valued operands
     a if c else b           |->  c ? a : b
     if / elif / else        |->  if / else begin if ...;  match/case k |-> the parser's if-chain on (e == k)
     self.x = e / x = e      |->  blocking `=` on the integer;   prepare(e) / put(e) |-> `<=` on the output reg port
   NO PROOFS in this file. *)
From V Require Import Base.PyInt Model.VSyntax Model.VSem Model.PySyntax Model.PySem.
Local Open Scope string_scope.
Local Open Scope Z_scope.

(* ---------------------------------------------------------------- static bit-length bound of a Verilog expression *)
Definition omax (a b : option Z) : option Z := match a, b with Some x, Some y => Some (Z.max x y) | _, _ => None end.
Fixpoint ubits (e : rexpr) : option Z :=
  match e with
  | RNum n => if 0 <=? n then Some (Z.log2 n + 1) else None
  | RId _ w _ => Some w
  | RUn ULNot _ => Some 1
  | RBin o a b =>
      match o with
      | BAnd | BOr | BXor => omax (ubits a) (ubits b)
      | BAdd => option_map (fun n => n + 1) (omax (ubits a) (ubits b))
      | BShr | BDiv => ubits a
      | BMod => ubits b
      | BEq | BNe | BLt | BLe | BGt | BGe | BLAnd | BLOr => Some 1
      | _ => None
      end
  | RCond _ a b => omax (ubits a) (ubits b)
  | _ => None
  end.

(* the value of e is the same in a W-bit context as over Z: either W >= 31 (the domain bounds it) or statically *)
Definition fits (W : Z) (e : rexpr) : bool :=
  (31 <=? W) || match ubits e with Some n => n <=? W | None => false end.

(* ---------------------------------------------------------------- name <-> net *)
Definition net_is (nets : list fnet) (i : nat) (x : string) (w : Z) (sg : bool) : bool :=
  match net_index nets x 0, nth_error nets i with
  | Some j, Some n => Nat.eqb i j && (fn_width n =? w) && Bool.eqb (fn_signed n) sg && (0 <? w)
  | _, _ => false
  end.

Fixpoint mem (x : string) (l : list string) : bool :=
  match l with [] => false | y :: t => String.eqb x y || mem x t end.

Record tvenv := {
  tv_nets : list fnet;
  tv_ins : list (string * Z);      (* input ports *)
  tv_outs : list (string * Z);     (* output ports *)
  tv_attrs : list (string * Z);    (* all integer attributes, with their value after __init__ *)
  tv_consts : list (string * Z);   (* those never assigned in the body: constants *)
  tv_kind : pykind }.

Definition is_port (E : tvenv) (x : string) : bool := match assoc (tv_ins E ++ tv_outs E) x with Some _ => true | None => false end.
(* ports a method may read: a clock() reads any port (its own outputs too); a propagate() only inputs (reading an output
   it has just put sees the new value in Python and the old one inside `always @*` until the block re-triggers) *)
Definition is_readable (E : tvenv) (x : string) : bool :=
  match tv_kind E with
  | KClock => is_port E x
  | KPropagate => match assoc (tv_ins E) x with Some _ => true | None => false end
  end.
Definition is_attr (E : tvenv) (x : string) : bool := match assoc (tv_attrs E) x with Some _ => true | None => false end.
Definition is_const (E : tvenv) (x : string) : bool := match assoc (tv_consts E) x with Some _ => true | None => false end.
Definition is_var (E : tvenv) (x : string) : bool := is_attr E x && negb (is_const E x).
Definition is_localname (E : tvenv) (x : string) : bool := negb (is_port E x) && negb (is_attr E x).

Definition hom_match (o : pybinop) (o' : binop) : bool :=
  match o, o' with
  | PAdd, BAdd | PSub, BSub | PMul, BMul | PBitAnd, BAnd | PBitOr, BOr | PBitXor, BXor => true
  | _, _ => false
  end.
Definition cmp_match (o : pycmp) (o' : binop) : bool :=
  match o, o' with PEq, BEq | PNe, BNe | PLt, BLt | PLe, BLe | PGt, BGt | PGe, BGe => true | _, _ => false end.
Definition bool_match (o : pyboolop) (o' : binop) : bool :=
  match o, o' with PAnd, BLAnd | POr, BLOr => true | _, _ => false end.

(* Python expressions whose value is always 0 or 1 *)
Fixpoint is_boolexp (e : pyexpr) : bool :=
  match e with
  | PCmp _ _ _ => true
  | PUn PNot _ => true
  | PBool _ a b => is_boolexp a && is_boolexp b
  | _ => false
  end.

Definition in31 (n : Z) : bool := (0 <=? n) && (n <? 2 ^ 31).

Section Expr.
Variable E : tvenv.

(* cond = false: value of pe in a context (W, sg);  cond = true: truth value of pe, re self-determined (W, sg ignored) *)
Fixpoint tv (cond : bool) (W : Z) (sg : bool) (pe : pyexpr) (re : rexpr) {struct pe} : bool :=
  let W' := if cond then rsize re else W in
  let sg' := if cond then rsigned re else sg in
  (negb cond || fits W' re) &&
  match pe, re with
  | PConst n, RNum m => (n =? m) && in31 n
  | PGet p, RId i w s => is_readable E p && net_is (tv_nets E) i p w false && negb s && (width_in (tv_ins E ++ tv_outs E) p =? w)
  | PAttr x, RId i w s => is_attr E x && negb (is_port E x) && net_is (tv_nets E) i x 32 true && s && (w =? 32)
  | PAttr x, RNum m => match assoc (tv_consts E) x with Some v => (v =? m) && in31 m | None => false end
  | PLocal x, RId i w s => is_localname E x && net_is (tv_nets E) i x 32 true && s && (w =? 32)
  | PBin o a b, RBin o' ra rb =>
      if hom_op o then hom_match o o' && tv false W' sg' a ra && tv false W' sg' b rb
      else match o, o' with
           | PFloorDiv, BDiv | PMod, BMod =>
               tv false W' sg' a ra && fits W' ra && tv false W' sg' b rb && fits W' rb && (negb sg' || (32 <=? W'))
           | PLShift, BShl => tv false W' sg' a ra && tv false (rsize rb) (rsigned rb) b rb && fits (rsize rb) rb
           | PRShift, BShr => tv false W' sg' a ra && fits W' ra && tv false (rsize rb) (rsigned rb) b rb && fits (rsize rb) rb
           | _, _ => false
           end
  | PUn PInvert a, RUn UNot ra => tv false W' sg' a ra
  | PUn PUSub a, RUn UNeg ra => tv false W' sg' a ra
  | PUn PNot a, RUn ULNot ra => tv true 0 false a ra
  | PCmp o a b, RBin o' ra rb =>
      let cw := Z.max (rsize ra) (rsize rb) in
      let csg := rsigned ra && rsigned rb in
      cmp_match o o' && tv false cw csg a ra && fits cw ra && tv false cw csg b rb && fits cw rb && (negb csg || (32 <=? cw))
  | PBool o a b, RBin o' ra rb =>
      bool_match o o' && (cond || (is_boolexp a && is_boolexp b)) && tv true 0 false a ra && tv true 0 false b rb
  | PIfExp c a b, RCond rc ra rb => tv true 0 false c rc && tv false W' sg' a ra && tv false W' sg' b rb
  | _, _ => false
  end.

Definition tv_cond (pe : pyexpr) (re : rexpr) : bool := tv true 0 false pe re.
(* right-hand side of an assignment to an l-value of width lw *)
Definition tv_rhs (lw : Z) (pe : pyexpr) (re : rexpr) : bool := tv false (Z.max lw (rsize re)) (rsigned re) pe re.

Fixpoint tv_stmt (ps : pystmt) (rs : rstmt) {struct ps} : bool :=
  match ps, rs with
  | PSPass, RSkip => true
  | PSSeq a b, RSeq ra rb => tv_stmt a ra && tv_stmt b rb
  | PSIf c t e, RIf rc rt re => tv_cond c rc && tv_stmt t rt && tv_stmt e re
  | PSCase subj k body rest, RIf rc rb rr => tv_cond (PCmp PEq subj (PConst k)) rc && tv_stmt body rb && tv_stmt rest rr
  | PSAttr x e, RBlk (RLId i w) re =>
      is_var E x && negb (is_port E x) && net_is (tv_nets E) i x 32 true && (w =? 32) && tv_rhs 32 e re
  | PSLocal x e, RBlk (RLId i w) re =>
      is_localname E x && net_is (tv_nets E) i x 32 true && (w =? 32) && tv_rhs 32 e re
  | PSPrepare p e, RNba (RLId i w) re =>
      match tv_kind E with KClock => true | _ => false end &&
      match assoc (tv_outs E) p with Some w' => w' =? w | None => false end && (width_in (tv_ins E ++ tv_outs E) p =? w) &&
      net_is (tv_nets E) i p w false && tv_rhs w e re
  | PSPut p e, RNba (RLId i w) re =>
      match tv_kind E with KPropagate => true | _ => false end && match assoc (tv_ins E) p with None => true | Some _ => false end &&
      match assoc (tv_outs E) p with Some w' => w' =? w | None => false end && (width_in (tv_ins E ++ tv_outs E) p =? w) &&
      net_is (tv_nets E) i p w false && tv_rhs w e re
  | _, _ => false
  end.
End Expr.

(* ---------------------------------------------------------------- whole block *)
Fixpoint assigns_attr (x : string) (s : pystmt) : bool :=
  match s with
  | PSSeq a b => assigns_attr x a || assigns_attr x b
  | PSIf _ t e => assigns_attr x t || assigns_attr x e
  | PSCase _ _ b r => assigns_attr x b || assigns_attr x r
  | PSAttr y _ => String.eqb x y
  | _ => false
  end.

Fixpoint reads_port (outs : list (string * Z)) (e : pyexpr) : bool :=
  match e with
  | PGet p => match assoc outs p with Some _ => true | None => false end
  | PBin _ a b | PCmp _ a b | PBool _ a b => reads_port outs a || reads_port outs b
  | PUn _ a => reads_port outs a
  | PIfExp c a b => reads_port outs c || reads_port outs a || reads_port outs b
  | _ => false
  end.
Fixpoint stmt_reads_out (outs : list (string * Z)) (s : pystmt) : bool :=
  match s with
  | PSSeq a b => stmt_reads_out outs a || stmt_reads_out outs b
  | PSIf c t e => reads_port outs c || stmt_reads_out outs t || stmt_reads_out outs e
  | PSCase c _ b r => reads_port outs c || stmt_reads_out outs b || stmt_reads_out outs r
  | PSAttr _ e | PSLocal _ e | PSPrepare _ e | PSPut _ e => reads_port outs e
  | _ => false
  end.

Definition mk_env (b : pyblock) (f : flat) : tvenv :=
  {| tv_nets := f_nets f; tv_ins := b_ins b; tv_outs := b_outs b;
     tv_attrs := b_attrs b;
     tv_consts := filter (fun p => negb (assigns_attr (fst p) (b_body b))) (b_attrs b);
     tv_kind := b_kind b |}.

(* every net holds a value inside its width at power-up, and agrees with the constructed Python object *)
Definition ports_ok (nets : list fnet) (ps : list (string * Z)) (isreg : bool) : bool :=
  forallb (fun p => match net_index nets (fst p) 0 with
                    | Some i => match nth_error nets i with
                                | Some n => (fn_width n =? snd p) && negb (fn_signed n) && (0 <? snd p)
                                | None => false end
                    | None => false end) ps.

Definition powerup_ok (E : tvenv) (f : flat) : bool :=
  let env0 := power_up f in
  forallb (fun p => match net_index (f_nets f) (fst p) 0 with
                    | Some i => (getv env0 i =? snd p) && in31 (snd p)
                    | None => true end) (tv_attrs E) &&
  forallb (fun p => match net_index (f_nets f) (fst p) 0 with Some i => getv env0 i =? 0 | None => false end) (tv_ins E ++ tv_outs E) &&
  forallb (fun p => negb (is_port E (fst p))) (tv_attrs E) &&
  forallb (fun p => in31 (snd p)) (tv_consts E) &&
  forallb (fun n => (0 <? fn_width n)) (f_nets f) &&
  Nat.eqb (length env0) (length (f_nets f)) &&
  forallb (fun i => match nth_error (f_nets f) i with
                    | Some n => (0 <=? getv env0 i) && (getv env0 i <? 2 ^ fn_width n)
                    | None => true end) (seq 0 (length (f_nets f))).

Definition flat_clk (f : flat) : string :=
  match f_procs f with
  | [_; (TPos c, _)] => match nth_error (f_nets f) c with Some n => fn_name n | None => "" end
  | _ => ""
  end.

Definition tv_flat (b : pyblock) (f : flat) : bool :=
  let E := mk_env b f in
  ports_ok (f_nets f) (b_ins b) false && ports_ok (f_nets f) (b_outs b) true && powerup_ok E f &&
  match f_assigns f with [] => true | _ => false end &&
  match b_kind b, f_procs f with
  | KClock, [(TInit, _); (TPos c, body)] =>
      tv_stmt E (b_body b) body &&
      match nth_error (f_nets f) c with
      | Some n => negb (is_port E (fn_name n)) && negb (is_attr E (fn_name n)) &&
                  match net_index (f_nets f) (fn_name n) 0 with Some c' => Nat.eqb c c' | None => false end
      | None => false end
  | KPropagate, [(TInit, _); (TStar, body)] =>
      tv_stmt E (b_body b) body && negb (stmt_reads_out (b_outs b) (b_body b)) &&
      forallb (fun p => is_const E (fst p)) (tv_attrs E)
  | _, _ => false
  end.

Definition tv_block (b : pyblock) (m : vmodule) : bool :=
  match elaborate [m] 200 (m_name m) with
  | inr f => tv_flat b f
  | inl _ => false
  end.
