(* Hand model of the clock-domain lookup of py4hw (base.py getObjectClockDriver, lines 934-961) and of the
   clock-driver bucketing done by Simulator.topologicalSort (simulation.py lines 86-95, 125-130).  NO PROOFS here.

   An object, as far as the lookup is concerned, is its own `clockDriver` field (None or a driver) and its
   `parent` reference (None at the top).  Logic.__init__ receives an already constructed parent, so the parent
   chain is finite and acyclic: an inductive type.

       def getObjectClockDriver(obj):
           if (obj.clockDriver != None): return obj.clockDriver
           if (obj.parent == None):      raise Exception('No clock driver at top level')
           else:                         return getObjectClockDriver(obj.parent)                              *)
From V Require Import Base.PyInt.

Section Tree.
Variable D : Type.            (* clock drivers (compared by identity in Python; here any type) *)

(* Top: parent == None;  Sub: parent is another object *)
Inductive obj := Top (drv : option D) | Sub (drv : option D) (parent : obj).

Definition o_drv (o : obj) : option D := match o with Top d | Sub d _ => d end.

(* None = the exception 'No clock driver at top level' *)
Fixpoint getObjectClockDriver (o : obj) : option D :=
  match o with
  | Top (Some d) | Sub (Some d) _ => Some d
  | Top None => None
  | Sub None p => getObjectClockDriver p
  end.

(* the object itself, its parent, grandparent, ... up to the top *)
Fixpoint ancestors (o : obj) : list obj :=
  o :: match o with Sub _ p => ancestors p | Top _ => [] end.

Definition mk_obj (drv : option D) (parent : option obj) : obj :=
  match parent with None => Top drv | Some p => Sub drv p end.

(* ------------------------------------------------------------------ the hierarchy seen from the top (allLeaves) *)
(* a node: its clockDriver field, whether its class has a clock() method, its children (dict order) *)
Inductive htree := HNode (drv : option D) (clockable : bool) (children : list htree).

(* Logic.allLeaves(): nodes without children, left to right; each paired with the object (parent chain) it is *)
Fixpoint leaves_of (t : htree) (parent : option obj) : list (bool * obj) :=
  match t with
  | HNode drv c children =>
      let me := mk_obj drv parent in
      match children with
      | [] => [(c, me)]
      | _ => flat_map (fun ch => leaves_of ch (Some me)) children
      end
  end.

(* the same traversal resolving the driver top-down (inherited attribute) instead of walking up *)
Fixpoint leaves_inherited (t : htree) (inh : option D) : list (bool * option D) :=
  match t with
  | HNode drv c children =>
      let mine := match drv with Some x => Some x | None => inh end in
      match children with
      | [] => [(c, mine)]
      | _ => flat_map (fun ch => leaves_inherited ch mine) children
      end
  end.
End Tree.

Arguments Top {D}. Arguments Sub {D}. Arguments o_drv {D}. Arguments getObjectClockDriver {D}. Arguments ancestors {D}. Arguments mk_obj {D}.
Arguments HNode {D}. Arguments leaves_of {D}. Arguments leaves_inherited {D}.

(* ------------------------------------------------------------------ topologicalSort's bucketing (drivers as numbers) *)
(* self.clockDrivers: insertion-ordered dict driver -> clockables; getOrCreateClockDriverSimulator + addClockable *)
Fixpoint add_clockable (b : list (nat * list nat)) (drv leaf : nat) : list (nat * list nat) :=
  match b with
  | [] => [(drv, [leaf])]
  | (x, ls) :: r => if Nat.eqb x drv then (x, ls ++ [leaf]) :: r else (x, ls) :: add_clockable r drv leaf
  end.

(* leaves: (leaf index in allLeaves order, clockable?, resolved driver).  None = getObjectClockDriver raised for a
   clockable leaf (the whole sort fails) *)
Fixpoint bucket (leaves : list (nat * bool * option nat)) (b : list (nat * list nat)) : option (list (nat * list nat)) :=
  match leaves with
  | [] => Some b
  | (i, false, _) :: r => bucket r b
  | (i, true, Some drv) :: r => bucket r (add_clockable b drv i)
  | (i, true, None) :: r => None
  end.

Definition number {A} (l : list A) : list (nat * A) := combine (seq 0 (length l)) l.

Definition clock_buckets (t : htree nat) : option (list (nat * list nat)) :=
  bucket (map (fun p => (fst p, fst (snd p), getObjectClockDriver (snd (snd p)))) (number (leaves_of t None))) [].
