(* C12 — hand-written model of class FPNum (py4hw/helper.py:565-1134): an arbitrary-precision binary floating
   point number (s, e, m, p) denoting  s * 2^e * m / p  plus the flags infinity / nan.
   Integer code is mirrored operator by operator.  Python `while` loops are fuel-bounded Fixpoints with the SAME
   test and body as the loop (the fuel is computed from the operands so that it never runs out on the guarded
   domain: Proofs/C12/FPNum.v proves that the loop condition is false on exit, i.e. the fuel was enough); the two
   pure counting loops (`while e < c: e += 1; p <<= 1`) are written as their closed form  p << (c - e).
   A Python exception (failed assert, unbound local) is not modelled: the theorems state the guard (wf).
   No proofs in this file. *)
From V Require Import Base.PyInt Model.HelperInt.

Record fpnum := mkfp { f_s : Z; f_e : Z; f_m : Z; f_p : Z; f_inf : bool; f_nan : bool }.

(* FPNum.__init__ sets both flags False, then set_semp may raise one *)
Definition set_semp (s e m p : Z) : fpnum :=
  mkfp s e m p ((p =? 0) && (m =? 0)) ((p =? 0) && negb (m =? 0)).

(* while ((m & 1)==0) and ((p & 1)==0): m >>= 1; p >>= 1 *)
Fixpoint strip (fuel : nat) (m p : Z) : Z * Z :=
  match fuel with
  | O => (m, p)
  | S f => if (Z.land m 1 =? 0) && (Z.land p 1 =? 0) then strip f (py_shr m 1) (py_shr p 1) else (m, p)
  end.

(* p2 = p << 1;  while (m >= p2): p <<= 1; p2 = p << 1; e += 1 *)
Fixpoint grow_p (fuel : nat) (m p e : Z) : Z * Z :=
  match fuel with
  | O => (p, e)
  | S f => if m >=? py_shl p 1 then grow_p f m (py_shl p 1) (e + 1) else (p, e)
  end.

(* while (m < p): m <<= 1; e -= 1; if (m == 0): return *)
Fixpoint grow_m (fuel : nat) (m p e : Z) : Z * Z :=
  match fuel with
  | O => (m, e)
  | S f => if m <? p then
             let m' := py_shl m 1 in let e' := e - 1 in
             if m' =? 0 then (m', e') else grow_m f m' p e'
           else (m, e)
  end.

Definition fuel_of (x : Z) : nat := S (S (Z.to_nat (Z.log2 x))).

Definition adjust_semp (x : fpnum) : fpnum :=
  if f_p x =? 0 then x
  else
    let '(m1, p1) := strip (fuel_of (f_p x)) (f_m x) (f_p x) in
    let p2 := py_shl p1 1 in
    if m1 >=? p2 then
      let '(p3, e3) := grow_p (fuel_of m1) m1 p1 (f_e x) in mkfp (f_s x) e3 m1 p3 (f_inf x) (f_nan x)
    else if m1 <? p1 then
      let '(m3, e3) := grow_m (fuel_of p1) m1 p1 (f_e x) in mkfp (f_s x) e3 m3 p1 (f_inf x) (f_nan x)
    else mkfp (f_s x) (f_e x) m1 p1 (f_inf x) (f_nan x).

(* FPNum(s, e, m, p) *)
Definition FPNum4 (s e m p : Z) : fpnum := adjust_semp (set_semp s e m p).

(* increase_exponent(ne):  while (e < ne): e += 1; p <<= 1          (closed form) *)
Definition increase_exponent (x : fpnum) (ne : Z) : fpnum :=
  if f_e x <? ne then mkfp (f_s x) ne (f_m x) (py_shl (f_p x) (ne - f_e x)) (f_inf x) (f_nan x) else x.

(* increase_precision(np):  while (p < np): p <<= 1; m <<= 1 *)
Fixpoint inc_prec (fuel : nat) (m p np : Z) : Z * Z :=
  match fuel with
  | O => (m, p)
  | S f => if p <? np then inc_prec f (py_shl m 1) (py_shl p 1) np else (m, p)
  end.
Definition increase_precision (x : fpnum) (np : Z) : fpnum :=
  let '(m, p) := inc_prec (fuel_of np) (f_m x) (f_p x) np in mkfp (f_s x) (f_e x) m p (f_inf x) (f_nan x).

(* the common prologue of add and compare: equal exponent, then equal precision *)
Definition align (a b : fpnum) : fpnum * fpnum :=
  let '(a1, b1) := if f_e a >? f_e b then (a, increase_exponent b (f_e a))
                   else if f_e a <? f_e b then (increase_exponent a (f_e b), b) else (a, b) in
  if f_p a1 >? f_p b1 then (a1, increase_precision b1 (f_p a1))
  else if f_p a1 <? f_p b1 then (increase_precision a1 (f_p b1), b1) else (a1, b1).

Definition nan_like (x : fpnum) : fpnum := FPNum4 (f_s x) (f_e x) (-1) 0.       (* FPNum(self.s, self.e, -1, 0) *)
Definition py_error : fpnum := mkfp 0 0 0 0 false false.                      (* an unbound local: outside every guard *)

Definition FPNum_add (a0 b0 : fpnum) : fpnum :=
  if f_nan a0 || f_nan b0 then nan_like a0
  else if f_inf a0 && f_inf b0 && (f_s a0 * f_s b0 =? -1) then nan_like a0
  else if f_inf a0 then a0
  else if f_inf b0 then b0
  else
    let a := FPNum4 (f_s a0) (f_e a0) (f_m a0) (f_p a0) in
    let b := FPNum4 (f_s b0) (f_e b0) (f_m b0) (f_p b0) in
    let '(a, b) := align a b in
    if ((f_s a =? 1) && (f_s b =? 1)) || ((f_s a =? -1) && (f_s b =? -1)) then
      FPNum4 (f_s a) (f_e a) (f_m a + f_m b) (f_p a)
    else if ((f_s a =? 1) && (f_s b =? -1)) || ((f_s a =? -1) && (f_s b =? 1)) then
      if f_m a >? f_m b then FPNum4 (f_s a) (f_e a) (f_m a - f_m b) (f_p a)
      else FPNum4 (f_s b) (f_e a) (f_m b - f_m a) (f_p a)
    else py_error.

Definition FPNum_sub (a0 b0 : fpnum) : fpnum :=
  if f_nan a0 || f_nan b0 then nan_like a0
  else if f_inf a0 && f_inf b0 && (f_s a0 * f_s b0 =? 1) then nan_like a0
  else if f_inf a0 then a0
  else if f_inf b0 then FPNum4 (f_s b0 * -1) (f_e b0) 0 0
  else FPNum_add a0 (FPNum4 (f_s b0 * -1) (f_e b0) (f_m b0) (f_p b0)).

Definition FPNum_mul (a b : fpnum) : fpnum :=
  if f_nan a || f_nan b then nan_like a
  else if f_inf a || f_inf b then FPNum4 (f_s a * f_s b) (f_e a) 0 0
  else FPNum4 (f_s a * f_s b) (f_e a + f_e b) (f_m a * f_m b) (f_p a * f_p b).

Definition FPNum_neg (a : fpnum) : fpnum := FPNum4 (f_s a * -1) (f_e a) (f_m a) (f_p a).
Definition FPNum_abs (a : fpnum) : fpnum := FPNum4 1 (f_e a) (f_m a) (f_p a).
Definition FPNum_div2 (a : fpnum) (n : Z) : fpnum := FPNum4 (f_s a) (f_e a) (f_m a) (py_shl (f_p a) n).

(* compare: -1 / 0 / 1; 2 stands for `raise Exception()` (signs outside {1,-1}).
   Two places of the code were repaired in /repo; the model keeps the flag so that the old behaviour can still be named
   (HISTORY examples, and the correspondence cases when the probe sees a regression):
     inf_fix  = true  since f0972ae: two infinities of different sign: `return self.s` (before: `return 1`)
     zero_fix = true  since b24d7f8: `if (a.m == 0 and b.m == 0): return 0` before the sign dispatch (before: absent) *)
Definition FPNum_compare_with (inf_fix zero_fix : bool) (a0 b0 : fpnum) : Z :=
  if f_nan a0 || f_nan b0 then 0
  else if f_inf a0 && f_inf b0 && (f_s a0 =? f_s b0) then 0
  else if f_inf a0 && f_inf b0 then (if inf_fix then f_s a0 else 1)
  else if f_inf a0 then f_s a0
  else if f_inf b0 then - f_s b0
  else
    let a := FPNum4 (f_s a0) (f_e a0) (f_m a0) (f_p a0) in
    let b := FPNum4 (f_s b0) (f_e b0) (f_m b0) (f_p b0) in
    let '(a, b) := align a b in
    let abs_cmp := if f_m a =? f_m b then 0 else if f_m a >? f_m b then 1 else -1 in
    if zero_fix && (f_m a =? 0) && (f_m b =? 0) then 0
    else if (f_s a =? 1) && (f_s b =? 1) then abs_cmp
    else if (f_s a =? -1) && (f_s b =? -1) then - abs_cmp
    else if (f_s a =? -1) && (f_s b =? 1) then -1
    else if (f_s a =? 1) && (f_s b =? -1) then 1
    else 2.
Definition FPNum_compare : fpnum -> fpnum -> Z := FPNum_compare_with true true.        (* helper.py in /repo today *)

(* reduceExponentPrecision(prec) (since eab1ae9; before, the elif named an undefined e_mask and raised NameError):
     mask = (1 << prec) - 1; e_bias = mask >> 1
     if e < -(e_bias-1): while e < -(e_bias-1): e += 1; p <<= 1        (closed form)
     elif e + e_bias >= mask: infinity = True
   (if the probe sees the NameError again the check skips this family and reports the regression) *)
Definition FPNum_reduceExponentPrecision (x : fpnum) (prec : Z) : fpnum :=
  let mask := py_shl 1 prec - 1 in
  let e_bias := py_shr mask 1 in
  if f_e x <? - (e_bias - 1) then
    mkfp (f_s x) (- (e_bias - 1)) (f_m x) (py_shl (f_p x) (- (e_bias - 1) - f_e x)) (f_inf x) (f_nan x)
  else if f_e x + e_bias >=? mask then mkfp (f_s x) (f_e x) (f_m x) (f_p x) true (f_nan x)
  else x.

(* reducePrecision(prec): p = 1 << prec; while (p < self.p): self.p >>= 1; self.m >>= 1     (truncation) *)
Fixpoint red_prec (fuel : nat) (m p0 p : Z) : Z * Z :=
  match fuel with
  | O => (m, p)
  | S f => if p0 <? p then red_prec f (py_shr m 1) p0 (py_shr p 1) else (m, p)
  end.
Definition FPNum_reducePrecision (x : fpnum) (prec : Z) : fpnum :=
  let '(m, p) := red_prec (fuel_of (f_p x)) (f_m x) (py_shl 1 prec) (f_p x) in
  mkfp (f_s x) (f_e x) m p (f_inf x) (f_nan x).

(* reducePrecisionWithRounding(prec): r collects the dropped bits; if r > 1 << (i-1): m += 1 *)
Fixpoint red_prec_r (fuel : nat) (m p0 p r i : Z) : Z * Z * Z * Z :=
  match fuel with
  | O => (m, p, r, i)
  | S f => if p0 <? p then red_prec_r f (py_shr m 1) p0 (py_shr p 1) (Z.lor (py_shl (Z.land m 1) i) r) (i + 1)
           else (m, p, r, i)
  end.
Definition FPNum_reducePrecisionWithRounding (x : fpnum) (prec : Z) : fpnum :=
  let p0 := py_shl 1 prec in
  if p0 <? f_p x then
    let '(m, p, r, i) := red_prec_r (fuel_of (f_p x)) (f_m x) p0 (f_p x) 0 0 in
    mkfp (f_s x) (f_e x) (if r >? py_shl 1 (i - 1) then m + 1 else m) p (f_inf x) (f_nan x)
  else x.

(* ------------------------------------------------------------------ IEEE-754 formats as the code spells them *)
(* layout literals, all-ones exponent, bias, exponent given to subnormals by from_ieee754_*, mantissa bits, quiet-NaN mantissa *)
Record fpfmt := mkFmt { F_lay : layout; F_emax : Z; F_bias : Z; F_sube : Z; F_mw : Z; F_nanm : Z }.
Definition fmt_hp_with (sube : Z) : fpfmt := mkFmt layout_hp 31 15 sube 10 512.
Definition fmt_hp : fpfmt := fmt_hp_with (-14).          (* helper.py in /repo today (since 8541cf4) *)
Definition fmt_hp_before_8541cf4 : fpfmt := fmt_hp_with (-16).      (* HISTORY: finding #21 *)
Definition fmt_sp : fpfmt := mkFmt layout_sp 255 127 (-126) 23 4194304.
Definition fmt_dp : fpfmt := mkFmt layout_dp 2047 1023 (-1022) 52 2251799813685248.

(* from_ieee754_{hp,sp,dp} *)
Definition FPNum_from_ieee754 (F : fpfmt) (v : Z) : fpnum :=
  let '(s, e, m) := FPNum_unpack (F_lay F) v in
  let s := if s =? 0 then 1 else -1 in
  if e =? F_emax F then set_semp s e m 0
  else
    let '(e, m) := if e =? 0 then (F_sube F, m) else (e - F_bias F, Z.lor (py_shl 1 (F_mw F)) m) in
    FPNum4 s e m (py_shl 1 (F_mw F)).

(* convert(fmt) *)
Fixpoint std_down (fuel : nat) (m p pstd : Z) : Z * Z :=     (* while (p > p_std): p >>= 1; m >>= 1 *)
  match fuel with
  | O => (m, p)
  | S f => if p >? pstd then std_down f (py_shr m 1) (py_shr p 1) pstd else (m, p)
  end.
Fixpoint std_up (fuel : nat) (m p pstd : Z) : Z * Z :=       (* while (p < p_std): p <<= 1; m <<= 1 *)
  match fuel with
  | O => (m, p)
  | S f => if p <? pstd then std_up f (py_shl m 1) (py_shl p 1) pstd else (m, p)
  end.

Definition FPNum_convert (F : fpfmt) (x : fpnum) : Z :=
  let pack := FPNum_pack (F_lay F) in
  let s := if f_s x >? 0 then 0 else 1 in
  if f_inf x || f_nan x then
    (if f_nan x then pack 0 (F_emax F) (F_nanm F) else pack s (F_emax F) 0)
  else if f_m x =? 0 then pack s 0 0
  else
    let e_bias := F_bias F in let e_mask := F_emax F in let p_std := py_shl 1 (F_mw F) in
    let e := f_e x in let m := f_m x in let p := f_p x in
    let '(e, p) :=
      if e <? - (e_bias - 1) then (0, py_shl p (- (e_bias - 1) - e))      (* while (e < -(e_bias-1)): e += 1; p <<= 1 ; then e = 0 *)
      else if (e =? - (e_bias - 1)) && (p >? m) then (0, p)
      else (e + e_bias, p) in
    if e <? 0 then pack s 0 0
    else if e >=? e_mask then pack s e_mask 0
    else
      let '(e, m, p) :=
        if e =? 0 then (e, m, p)
        else
          let '(m, e) := if p >? m then (py_shl m 1, e - 1) else (m, e) in
          let '(p, e) := if m >=? py_shl p 1 then (py_shl p 1, e + 1) else (p, e) in
          (e, Z.lxor m p, p) in                                           (* assert (m & p) is a guard, see wf/normal *)
      let '(m, p) := std_down (fuel_of p) m p p_std in
      let '(m, p) := std_up (S (Z.to_nat (F_mw F))) m p p_std in
      pack s e m.

(* FPNum(float): convert_float_to_semp + adjust_sem + adjust_semp for the finite double  (-1)^neg * n / 2^d
   (n >= 0, d >= 0).  The float loops of adjust_sem (m /= 2, m *= 2, all exact on doubles) are given their closed
   form: exponent log2 n - d, mantissa n over 2^(log2 n); adjust_semp then strips the common factors of two.
   Float-typed glue: tied by correspondence only. *)
Definition FPNum_of_finite (neg : bool) (n d : Z) : fpnum :=
  let s := if neg then -1 else 1 in
  if n =? 0 then adjust_semp (mkfp s 0 0 1 false false)
  else adjust_semp (mkfp s (Z.log2 n - d) n (py_shl 1 (Z.log2 n)) false false).
Definition FPNum_of_inf (neg : bool) : fpnum := mkfp (if neg then -1 else 1) 0 0 0 true false.
Definition FPNum_of_nan : fpnum := mkfp 1 0 (-1) 0 false true.

(* ------------------------------------------------------------------ what an FPNum denotes *)
From V Require Import Spec.C12.
Definition fval (x : fpnum) : Q := inject_Z (f_s x) * (inject_Z (f_m x) / inject_Z (f_p x)) * two_pow (f_e x).
Definition xval (x : fpnum) : xq :=
  if f_nan x then XNaN else if f_inf x then XInf (f_s x <? 0) else XFin (fval x).
