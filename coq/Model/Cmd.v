(* C20 — closed-loop cycle semantics of the HIL UART command codec.  NO PROOFS here.
   The block functions CMDRequest_clock / CMDResponse_clock are the REGENERATED ones (Gen/Seq.v).
   One block step = apply X_clock to the current state and the current input wire values; then each output wire
   takes the prepared value, or keeps its old value when nothing was prepared (None) — what Model/SimKernel.v
   (clock1 / settleAll) does for one sequential leaf. *)
From V Require Import Base.Bits Gen.WireOps Gen.Seq Spec.C20.

Definition upd (o : option Z) (old : Z) : Z := match o with Some v => v | None => old end.

(* ================================================================== decoder *)
Record rq_w := { ww_ready : Z; ww_index_in : Z; ww_v_in : Z; ww_index_out : Z; ww_set_index_in : Z; ww_set_v_in : Z;
                 ww_set_index_out : Z; ww_clk_pulse : Z; ww_start_resp : Z }.
(* legal widths: the handshake / enable wires have at least one bit *)
Definition rq_w_ok (W : rq_w) : Prop :=
  1 <= ww_ready W /\ 0 <= ww_index_in W /\ 0 <= ww_v_in W /\ 0 <= ww_index_out W /\ 1 <= ww_set_index_in W /\
  1 <= ww_set_v_in W /\ 1 <= ww_set_index_out W /\ 1 <= ww_clk_pulse W /\ 1 <= ww_start_resp W.

Record rq_cfg := { rq_st : CMDRequest_state; rq_o : rq_obs }.

Definition rq_clock (W : rq_w) := CMDRequest_clock (ww_ready W) (ww_index_in W) (ww_v_in W) (ww_index_out W)
  (ww_set_index_in W) (ww_set_v_in W) (ww_set_index_out W) (ww_clk_pulse W) (ww_start_resp W).

Definition rq_settle (o : rq_obs) (r : CMDRequest_out) : rq_obs :=
  {| q_ready := upd (CMDRequest_o_ready r) (q_ready o);
     q_index_in := upd (CMDRequest_o_index_in r) (q_index_in o);
     q_v_in := upd (CMDRequest_o_v_in r) (q_v_in o);
     q_index_out := upd (CMDRequest_o_index_out r) (q_index_out o);
     q_set_index_in := upd (CMDRequest_o_set_index_in r) (q_set_index_in o);
     q_set_v_in := upd (CMDRequest_o_set_v_in r) (q_set_v_in o);
     q_set_index_out := upd (CMDRequest_o_set_index_out r) (q_set_index_out o);
     q_clk_pulse := upd (CMDRequest_o_clk_pulse r) (q_clk_pulse o);
     q_start_resp := upd (CMDRequest_o_start_resp r) (q_start_resp o) |}.

(* one clock edge with the input wires valid = v, c = ch *)
Definition rq_step (W : rq_w) (c : rq_cfg) (v ch : Z) : rq_cfg :=
  let '(st', r) := rq_clock W (rq_st c) v ch in {| rq_st := st'; rq_o := rq_settle (rq_o c) r |}.

(* power-on: Logic.__init__ state, every wire 0 *)
Definition rq_reset : rq_cfg :=
  {| rq_st := {| CMDRequest_s_state := 0; CMDRequest_s_cur_type := 0; CMDRequest_s_new_c := 0; CMDRequest_s_temp := 0 |};
     rq_o := {| q_ready := 0; q_index_in := 0; q_v_in := 0; q_index_out := 0; q_set_index_in := 0; q_set_v_in := 0;
                q_set_index_out := 0; q_clk_pulse := 0; q_start_resp := 0 |} |}.

Definition rq_state (c : rq_cfg) : Z := CMDRequest_s_state (rq_st c).
Definition rq_temp (c : rq_cfg) : Z := CMDRequest_s_temp (rq_st c).

(* between commands: accumulator 0, no enable high, and either just reset (state 0, ready low) or waiting for a
   character (state 1, ready high).  The data wires, cur_type and new_c are arbitrary. *)
Definition rq_canon (c : rq_cfg) : Prop :=
  rq_temp c = 0 /\ Forall (fun x => x = 0) (strobes (rq_o c)) /\
  ((rq_state c = 0 /\ q_ready (rq_o c) = 0) \/ (rq_state c = 1 /\ q_ready (rq_o c) = 1)).

(* ---- open loop: an arbitrary stream of (valid, c) input values, one pair per cycle *)
Fixpoint rq_run (W : rq_w) (c : rq_cfg) (ins : list (Z * Z)) : list rq_cfg :=
  match ins with
  | [] => []
  | (v, ch) :: r => let c' := rq_step W c v ch in c' :: rq_run W c' r
  end.
Fixpoint rq_last (W : rq_w) (c : rq_cfg) (ins : list (Z * Z)) : rq_cfg :=
  match ins with [] => c | (v, ch) :: r => rq_last W (rq_step W c v ch) r end.

(* the characters transferred under ready/valid semantics: valid and ready both high before the edge *)
Fixpoint rq_accepted (W : rq_w) (c : rq_cfg) (ins : list (Z * Z)) : list Z :=
  match ins with
  | [] => []
  | (v, ch) :: r => (if on (q_ready (rq_o c)) && on v then [ch] else []) ++ rq_accepted W (rq_step W c v ch) r
  end.

(* ---- closed loop: a producer that obeys the handshake.  A schedule is a list of (gap, character): the producer
   idles for |gap| cycles with valid = 0 and c = the (arbitrary) gap values, then raises valid with the character
   and HOLDS both until an edge at which ready was high; then it goes on to the next item. *)
Definition sched := list (list Z * Z).

Definition prod_out (p : sched) : Z * Z :=
  match p with
  | [] => (0, 0)
  | ([], ch) :: _ => (1, ch)
  | (g :: _, _) :: _ => (0, g)
  end.

Definition prod_step (p : sched) (ready : Z) : sched :=
  match p with
  | [] => []
  | ([], ch) :: r => if on ready then r else p
  | (_ :: g, ch) :: r => (g, ch) :: r
  end.

Definition sys_step (W : rq_w) (x : rq_cfg * sched) : rq_cfg * sched :=
  let '(v, ch) := prod_out (snd x) in (rq_step W (fst x) v ch, prod_step (snd x) (q_ready (rq_o (fst x)))).

Fixpoint sys_run (W : rq_w) (n : nat) (x : rq_cfg * sched) : list (rq_cfg * sched) :=
  match n with O => [] | S n' => let x' := sys_step W x in x' :: sys_run W n' x' end.
Fixpoint sys_iter (W : rq_w) (n : nat) (x : rq_cfg * sched) : rq_cfg * sched :=
  match n with O => x | S n' => sys_iter W n' (sys_step W x) end.
(* the output wires after each of the first n edges *)
Definition sys_trace (W : rq_w) (n : nat) (x : rq_cfg * sched) : list rq_obs := map (fun y => rq_o (fst y)) (sys_run W n x).

(* a producer that does NOT obey the handshake: valid is a 1-cycle pulse whatever ready says (used for a refutation) *)
Definition pulse_inputs (gap : nat) (cs : list Z) : list (Z * Z) :=
  flat_map (fun ch => (1, ch) :: repeat (0, 0) gap) cs.

(* ---- the decoder's step function written out by hand (proved equal to the generated one in Proofs/C20/Ref.v) *)
Definition mk_rq_out (ready si sv so ii sr vi io ck : option Z) : CMDRequest_out :=
  {| CMDRequest_o_ready := ready; CMDRequest_o_set_index_in := si; CMDRequest_o_set_v_in := sv; CMDRequest_o_set_index_out := so;
     CMDRequest_o_index_in := ii; CMDRequest_o_start_resp := sr; CMDRequest_o_v_in := vi; CMDRequest_o_index_out := io;
     CMDRequest_o_clk_pulse := ck |}.
Definition mk_rq_st (s ct nc t : Z) : CMDRequest_state :=
  {| CMDRequest_s_state := s; CMDRequest_s_cur_type := ct; CMDRequest_s_new_c := nc; CMDRequest_s_temp := t |}.

Definition req_ref (W : rq_w) (st : CMDRequest_state) (v ch : Z) : CMDRequest_state * CMDRequest_out :=
  let s := CMDRequest_s_state st in let ct := CMDRequest_s_cur_type st in
  let nc := CMDRequest_s_new_c st in let t := CMDRequest_s_temp st in
  let N := @None Z in
  if s =? 0 then
    (mk_rq_st 1 ct nc t, mk_rq_out (Some (trunc (ww_ready W) 1)) (Some (trunc (ww_set_index_in W) 0)) (Some (trunc (ww_set_v_in W) 0))
                                  (Some (trunc (ww_set_index_out W) 0)) N N N N N)
  else if s =? 1 then
    if py_truth v then (mk_rq_st 2 ct ch t, mk_rq_out (Some (trunc (ww_ready W) 0)) N N N N N N N N)
    else (mk_rq_st s ct nc t, mk_rq_out (Some (trunc (ww_ready W) 1)) N N N N N N N N)
  else if s =? 2 then
    (if nc =? 73 then mk_rq_st 0 1 nc 0
     else if nc =? 61 then mk_rq_st 3 2 nc t
     else if nc =? 79 then mk_rq_st 0 3 nc 0
     else if nc =? 75 then mk_rq_st 0 4 nc 0
     else if nc =? 33 then mk_rq_st 5 ct nc t
     else if nc =? 63 then mk_rq_st 6 ct nc t
     else if nc =? 59 then mk_rq_st 8 ct nc t
     else if (nc >=? 48) && (nc <=? 57) then mk_rq_st 0 ct nc (Z.lor (py_shl t 4) (nc - 48))
     else if (nc >=? 65) && (nc <=? 70) then mk_rq_st 0 ct nc (Z.lor (py_shl t 4) ((nc + 10) - 65))
     else mk_rq_st 4 ct nc t,
     mk_rq_out N N N N N N N N N)
  else if s =? 3 then
    (mk_rq_st 4 ct nc t, mk_rq_out N (Some (trunc (ww_set_index_in W) 1)) N N (Some (trunc (ww_index_in W) t)) N N N N)
  else if s =? 4 then
    (mk_rq_st 0 ct nc 0, mk_rq_out N (Some (trunc (ww_set_index_in W) 0)) (Some (trunc (ww_set_v_in W) 0))
                                  (Some (trunc (ww_set_index_out W) 0)) N (Some (trunc (ww_start_resp W) 0)) N N N)
  else if s =? 5 then
    (mk_rq_st 4 ct nc t, mk_rq_out N N (Some (trunc (ww_set_v_in W) 1)) N N N (Some (trunc (ww_v_in W) t)) N N)
  else if s =? 6 then
    (mk_rq_st 10 ct nc t, mk_rq_out N N N (Some (trunc (ww_set_index_out W) 1)) N N N (Some (trunc (ww_index_out W) t)) N)
  else if s =? 10 then
    (mk_rq_st 7 ct nc t, mk_rq_out N N N (Some (trunc (ww_set_index_out W) 0)) N N N N N)
  else if s =? 7 then
    (mk_rq_st 4 ct nc t, mk_rq_out N N N N N (Some (trunc (ww_start_resp W) 1)) N N N)
  else if s =? 8 then
    if t =? 0 then (mk_rq_st 4 ct nc t, mk_rq_out N N N N N N N N (Some (trunc (ww_clk_pulse W) 0)))
    else (mk_rq_st 9 ct nc (t - 1), mk_rq_out N N N N N N N N (Some (trunc (ww_clk_pulse W) 1)))
  else if s =? 9 then
    (mk_rq_st 8 ct nc t, mk_rq_out N N N N N N N N (Some (trunc (ww_clk_pulse W) 0)))
  else (mk_rq_st s ct nc t, mk_rq_out N N N N N N N N N).

(* ================================================================== encoder *)
Record rs_cfg := { rs_st : CMDResponse_state; rs_o : rs_obs }.
(* the four input wires of one cycle *)
Record rs_in := { i_vin : Z; i_size : Z; i_start : Z; i_ready : Z }.

Definition mk_rs_st (s t ts a : Z) : CMDResponse_state :=
  {| CMDResponse_s_state := s; CMDResponse_s_temp := t; CMDResponse_s_temp_size := ts; CMDResponse_s_aux := a |}.
Definition mk_rs_out (valid v : option Z) : CMDResponse_out := {| CMDResponse_o_valid := valid; CMDResponse_o_v := v |}.



Definition rs_step (wvalid wv : Z) (c : rs_cfg) (i : rs_in) : rs_cfg :=
  let '(st', r) := CMDResponse_clock wvalid wv (rs_st c) (i_vin i) (i_size i) (i_start i) (i_ready i) in
  {| rs_st := st'; rs_o := {| r_valid := upd (CMDResponse_o_valid r) (r_valid (rs_o c)); r_v := upd (CMDResponse_o_v r) (r_v (rs_o c)) |} |}.

Definition rs_reset : rs_cfg :=
  {| rs_st := {| CMDResponse_s_state := 0; CMDResponse_s_temp := 0; CMDResponse_s_temp_size := 0; CMDResponse_s_aux := 0 |};
     rs_o := {| r_valid := 0; r_v := 0 |} |}.

Definition rs_state (c : rs_cfg) : Z := CMDResponse_s_state (rs_st c).
(* idle: state 0 and valid low (temp, temp_size, aux and the v wire are arbitrary leftovers) *)
Definition rs_idle (c : rs_cfg) : Prop := rs_state c = 0 /\ r_valid (rs_o c) = 0.

Fixpoint rs_iter (wvalid wv : Z) (c : rs_cfg) (ins : list rs_in) : rs_cfg :=
  match ins with [] => c | i :: r => rs_iter wvalid wv (rs_step wvalid wv c i) r end.
(* configurations after each edge *)
Fixpoint rs_run (wvalid wv : Z) (c : rs_cfg) (ins : list rs_in) : list rs_cfg :=
  match ins with [] => [] | i :: r => let c' := rs_step wvalid wv c i in c' :: rs_run wvalid wv c' r end.
(* the characters transferred (valid and ready high before an edge), in order *)
Fixpoint rs_xfers (wvalid wv : Z) (c : rs_cfg) (ins : list rs_in) : list Z :=
  match ins with [] => [] | i :: r => xfer (rs_o c) (i_ready i) ++ rs_xfers wvalid wv (rs_step wvalid wv c i) r end.

(* number of cycles of an environment stream in which the consumer is ready *)
Definition ready_count (ins : list rs_in) : nat := length (filter (fun i => on (i_ready i)) ins).

Definition resp_ref (wvalid wv : Z) (st : CMDResponse_state) (vin size start ready : Z) : CMDResponse_state * CMDResponse_out :=
  let s := CMDResponse_s_state st in let t := CMDResponse_s_temp st in
  let ts := CMDResponse_s_temp_size st in let a := CMDResponse_s_aux st in
  let N := @None Z in
  if s =? 0 then
    (if py_truth start then mk_rs_st 1 vin (size - 1) a else mk_rs_st s t ts a, mk_rs_out N N)
  else if s =? 1 then
    if py_truth ready then (mk_rs_st 2 t ts a, mk_rs_out (Some (trunc wvalid 1)) (Some (trunc wv 61)))
    else (mk_rs_st s t ts a, mk_rs_out N N)
  else if s =? 2 then
    if ready =? 0 then (mk_rs_st s t ts a, mk_rs_out (Some (trunc wvalid 1)) N)
    else (if ts <? 0 then mk_rs_st 5 t ts a        (* size 0: no digit, straight to the final '!' *)
          else mk_rs_st 3 t ts (Z.land (py_shr t (ts * 4)) 15),
          mk_rs_out (Some (trunc wvalid 0)) N)
  else if s =? 3 then
    if py_truth ready then
      (mk_rs_st 4 t ts a, mk_rs_out (Some (trunc wvalid 1))
         (Some (if (a >=? 0) && (a <=? 9) then trunc wv (48 + a) else trunc wv ((65 + a) - 10))))
    else (mk_rs_st s t ts a, mk_rs_out N N)
  else if s =? 4 then
    if ready =? 0 then (mk_rs_st s t ts a, mk_rs_out (Some (trunc wvalid 1)) N)
    else (if ts =? 0 then mk_rs_st 5 t ts a else mk_rs_st 3 t (ts - 1) (Z.land (py_shr t ((ts - 1) * 4)) 15),
          mk_rs_out (Some (trunc wvalid 0)) N)
  else if s =? 5 then
    (mk_rs_st 6 t ts a, mk_rs_out (Some (trunc wvalid 1)) (Some (trunc wv 33)))
  else if s =? 6 then
    if ready =? 0 then (mk_rs_st s t ts a, mk_rs_out (Some (trunc wvalid 1)) N)
    else (mk_rs_st 0 t ts a, mk_rs_out (Some (trunc wvalid 0)) N)
  else (mk_rs_st s t ts a, mk_rs_out N N).
