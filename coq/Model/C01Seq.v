(* C01 composition with MEMORIES: the sequential instances of a generated design are registers (reginst, Model/C01Prim.v) and
   single-port synchronous memories.  Both have the same interface towards the rest of the design: a PRIVATE net `src` (rq / rreaddata)
   that only the instance's posedge process writes, buffered onto the output by `assign out = src`; a memory has further private nets,
   its words.  The kernel state of an instance is the regenerated class's state.  NO PROOFS. *)
From V Require Import Base.PyInt Base.Bits Gen.WireOps Gen.Helpers Gen.Prims Gen.Seq Model.VSyntax Model.VSem Model.Inline Model.SimKernel
  Model.C01Prim Model.C01Mem.
Local Open Scope Z_scope.

(* one SynchronousMemory instance: words at nets base .. base + 2^aw - 1, the registered read data rr, the ports *)
Record meminst := { mi_base : nat; mi_aw : Z; mi_rr : nid; mi_rd : nid; mi_ra : nid; mi_wa : nid; mi_we : nid; mi_wd : nid }.
Definition mi_w (m : meminst) : Z := snd (mi_rr m).
Definition mi_d (m : meminst) : nat := Z.to_nat (2 ^ mi_aw m).

Inductive sinst := SReg (g : reginst) | SMem (m : meminst).
Inductive sstate := StReg (s : Reg_state) | StMem (s : SynchronousMemory_state).

Definition si_src (s : sinst) : nid := match s with SReg g => rg_rq g | SMem m => mi_rr m end.
Definition si_out (s : sinst) : nid := match s with SReg g => rg_q g | SMem m => mi_rd m end.
Definition si_ins (s : sinst) : list nid :=
  match s with SReg g => reg_ins g | SMem m => [mi_ra m; mi_wa m; mi_we m; mi_wd m] end.
Definition si_cells (s : sinst) : list nat :=
  match s with SReg _ => [] | SMem m => map (fun j => (mi_base m + j)%nat) (seq 0 (mi_d m)) end.
Definition si_priv (s : sinst) : list nat := fst (si_src s) :: si_cells s.
Definition si_proc (s : sinst) : rstmt :=
  match s with
  | SReg g => reg_proc g
  | SMem m => body_syncmem_proc (mi_base m) (mi_w m) (mi_d m) (mi_rr m) (mi_ra m) (mi_wa m) (mi_we m) (mi_wd m)
  end.
Definition si_buf (s : sinst) : prim := PBuf (si_out s) (si_src s).

Definition mem_clock (m : meminst) (st : SynchronousMemory_state) (vs : list Z) : SynchronousMemory_state * Z :=
  SynchronousMemory_clock (snd (mi_rd m)) st (nth 0 vs 0) (nth 1 vs 0) (nth 2 vs 0) (nth 3 vs 0).

Definition si_leaf (s : sinst) : sleaf sstate :=
  {| s_in := map fst (si_ins s); s_out := [fst (si_out s)];
     s_f := fun st vs =>
       match s, st with
       | SReg g, StReg r => let '(r', q) := reg_clock g r vs in (StReg r', [Some q])
       | SMem m, StMem d => let '(d', q) := mem_clock m d vs in (StMem d', [Some q])
       | _, _ => (st, [])
       end |}.

(* power-up: Reg.__init__ (value := reset_value; q.put(value)); SynchronousMemory.__init__ (data := [0] * 2^aw) *)
Definition si_st0 (s : sinst) : sstate :=
  match s with
  | SReg g => StReg {| Reg_s_value := rg_rv g |}
  | SMem m => StMem {| SynchronousMemory_s_data := repeat 0 (mi_d m) |}
  end.
Definition si_pokes (gs : list sinst) : list (nat * Z) :=
  flat_map (fun s => match s with SReg g => [(fst (rg_q g), rg_rv g)] | SMem _ => [] end) gs.

Definition si_wf (s : sinst) : bool :=
  match s with
  | SReg g => reg_wf g
  | SMem m => (0 <? mi_w m) && (0 <? mi_aw m) && (mi_aw m <=? 31) && (snd (mi_rd m) =? mi_w m) &&
              (snd (mi_ra m) =? mi_aw m) && (snd (mi_wa m) =? mi_aw m) && (0 <? snd (mi_we m)) && (0 <? snd (mi_wd m))
  end.
Definition si_nids (s : sinst) : list nid := si_src s :: si_out s :: si_ins s.
Definition si_nets_ok (f : flat) (s : sinst) : bool :=
  forallb (nid_ok f) (si_nids s) &&
  match s with SReg _ => true | SMem m => mem_nets_ok f (mi_base m) (mi_w m) (mi_d m) end.

Definition comp_design_s (f : flat) (ps : list prim) (gs : list sinst) : design sstate :=
  {| widths := map fn_width (f_nets f); combs := map prim_leaf ps; seqs := map si_leaf gs;
     drivers := [{| d_enable := None; d_leaves := seq 0 (length gs) |}] |}.
Definition comp_design_items_s (f : flat) (items : list citem) (gs : list sinst) : design sstate :=
  {| widths := map fn_width (f_nets f); combs := map item_leaf items; seqs := map si_leaf gs;
     drivers := [{| d_enable := None; d_leaves := seq 0 (length gs) |}] |}.

(* ---------------------------------------------------------------- the per-design check *)
Definition sproc_eqb (clk : nat) (p : ptrig * rstmt) (s : sinst) : bool :=
  match fst p with TPos c => Nat.eqb c clk && rstmt_eqb (snd p) (si_proc s) | _ => false end.
Definition sprocs_match (clk : nat) (procs : list (ptrig * rstmt)) (gs : list sinst) : bool :=
  forallb (fun p => existsb (sproc_eqb clk p) gs) procs && forallb (fun s => existsb (fun p => sproc_eqb clk p s) procs) gs.
(* power-up: rq = reset_value, every other net (memory words, rreaddata, wires) 0; every net has a positive width *)
Definition sinit_ok (f : flat) (gs : list sinst) : bool :=
  forallb (fun n => 0 <? fn_width n) (f_nets f) &&
  forallb (fun s => match s with
                    | SReg g => match nth_error (f_nets f) (fst (rg_rq g)) with Some x => fn_init x =? rg_rv g | None => false end
                    | SMem _ => true end) gs &&
  forallb (fun p => mem_nat (fst p) (flat_map (fun s => match s with SReg g => [fst (rg_rq g)] | SMem _ => [] end) gs) || (fn_init (snd p) =? 0))
          (combine (seq 0 (length (f_nets f))) (f_nets f)).

Definition match_seq (ps : list prim) (gs : list sinst) (clk : nat) (ins : list nat) (f : flat) : bool :=
  let priv := flat_map si_priv gs in
  let all := map si_buf gs ++ ps in
  match_comb all f && forallb prim_wf all && pordered all &&
  forallb si_wf gs && forallb (si_nets_ok f) gs &&
  sprocs_match clk (f_procs f) gs &&
  nodup_nat priv &&
  forallb (fun p => forallb (fun n => negb (mem_nat (fst n) priv)) (prim_nids p)) ps &&
  forallb (fun s => forallb (fun n => negb (mem_nat (fst n) priv)) (si_out s :: si_ins s)) gs &&
  forallb (fun i => negb (mem_nat i priv) && negb (mem_nat i (map (fun p => fst (prim_out p)) all)) && (i <? length (f_nets f))%nat) ins &&
  sinit_ok f gs.
Definition match_items_s (items : list citem) (gs : list sinst) (clk : nat) (ins : list nat) (f : flat) : bool :=
  forallb item_ok items && match_seq (flat_map item_prims items) gs clk ins f.

(* ---------------------------------------------------------------- the simulation relation *)
(* what the private nets of an instance show of its kernel state *)
Definition sinv (s : sinst) (env : list Z) (st : sstate) : Prop :=
  match s, st with
  | SReg g, StReg r => getv env (fst (rg_rq g)) = trunc (snd (rg_q g)) (Reg_s_value r)
  | SMem m, StMem d => mem_cells env (mi_base m) (mi_d m) = map (trunc (mi_w m)) (SynchronousMemory_s_data d)
  | _, _ => False
  end.
Definition swires_rel (f : flat) (gs : list sinst) (env vals : list Z) : Prop :=
  env_ok f env /\ length vals = length env /\
  (forall w, ~ In w (flat_map si_priv gs) -> nth w vals 0 = getv env w) /\
  (forall s, In s gs -> getv env (fst (si_src s)) = getv env (fst (si_out s))).
Definition ssim_rel (f : flat) (gs : list sinst) (env : list Z) (s : state sstate) : Prop :=
  swires_rel f gs env (vals s) /\ pend s = [] /\ length (sts s) = length gs /\
  (forall j g st, nth_error gs j = Some g -> nth_error (sts s) j = Some st -> sinv g env st).
