(* Hand-written model of py4hw.logic.simulation.Waveform (py4hw/logic/simulation.py, lines 36-271):
   __init__ (watch-list handling), clock, clear, getDict, get_wavedrom.        NO PROOFS here.

   The class uses isinstance / dicts keyed by object identity / str.format: outside the translator's
   subset, so it is modelled by hand and tied to the real class by the correspondence check of
   py/props/c15.py (same watch lists and histories through the real class and through these
   definitions, evaluated with vm_compute).

   Conventions
     * a wire is its index (nat) in the design's wire table; `ws : list Z` are the widths (w.getWidth());
     * strings are lists of character codes (Z);
     * a dict keyed by wire identity is an association list in insertion order (Python dicts keep it);
     * `last = 'x'` (a str, never equal to an int sample) is `None`; `last = v` is `Some v`;
     * FieldInspector / ValueFormatter entries are NOT modelled (the property is about wires and ports). *)
From V Require Import Base.PyInt Model.SimKernel.
From V Require Spec.C15.      (* only for the input type `wop` of an operation history *)

(* ------------------------------------------------------------------ str(int), '{:X}'.format(int) *)
(* most-significant-first digits of v >= 0 in base b; fuel = number of bits of v (enough for b >= 2) *)
Fixpoint digits_aux (fuel : nat) (b v : Z) (acc : list Z) : list Z :=
  match fuel with
  | O => acc
  | S f => if v <? b then v :: acc else digits_aux f b (v / b) (v mod b :: acc)
  end.
Definition digits (b v : Z) : list Z := digits_aux (S (Z.to_nat (Z.log2 v))) b v [].
(* '0'..'9' then 'A'.. (upper case: the format is {:X}) *)
Definition digit_char (d : Z) : Z := if d <? 10 then 48 + d else 55 + d.
Definition fmt_int (b v : Z) : list Z :=
  if v <? 0 then 45 :: map digit_char (digits b (- v)) else map digit_char (digits b v).
Definition str_dec : Z -> list Z := fmt_int 10.      (* '{}'.format(v)   *)
Definition str_HEX : Z -> list Z := fmt_int 16.      (* '{:X}'.format(v) *)

(* the two format strings __init__ stores for wires: '' (1-bit) and '{:X}' *)
Inductive fmt := FmtEmpty | FmtHEX.
Definition apply_fmt (f : fmt) (v : Z) : list Z :=        (* fmt.format(v) *)
  match f with FmtEmpty => [] | FmtHEX => str_HEX v end.

Definition ch_x : Z := 120.   Definition ch_dot : Z := 46.   Definition ch_P : Z := 80.

(* ------------------------------------------------------------------ watch list *)
(* an entry of the `wires` argument: a Wire, or an InPort/OutPort whose .wire is the given wire *)
Inductive entry := EWire (w : nat) | EPort (w : nat).
Definition entry_wire (e : entry) : nat := match e with EWire w => w | EPort w => w end.  (* Waveform.getwire *)

Definition dict := list (nat * list Z).
Fixpoint dict_get (d : dict) (k : nat) : option (list Z) :=
  match d with [] => None | (k', l) :: r => if Nat.eqb k' k then Some l else dict_get r k end.
(* d[k] = v *)
Fixpoint dict_set (d : dict) (k : nat) (v : list Z) : dict :=
  match d with
  | [] => [(k, v)]
  | (k', l) :: r => if Nat.eqb k' k then (k', v) :: r else (k', l) :: dict_set r k v
  end.
(* d[k] = f d[k]   (a missing key is Python's KeyError / the explicit raise in clock(); it cannot
   happen for a recorder built by wf_init: Proofs/C15 wf_init_keys) *)
Fixpoint dict_upd (d : dict) (k : nat) (f : list Z -> list Z) : dict :=
  match d with
  | [] => []
  | (k', l) :: r => if Nat.eqb k' k then (k', f l) :: r else (k', l) :: dict_upd r k f
  end.

Record wf := { wf_wires : list entry;      (* self.wires : every entry, repetitions included *)
               wf_format : list fmt;       (* self.format : one per ENTRY *)
               wf_uniq : list nat;         (* self.uniqueWires *)
               wf_data : dict }.           (* self.data *)

(* one iteration of `for x in self.wires` in __init__ *)
Definition init_step (ws : list Z) (acc : list fmt * list nat * dict) (x : entry) : list fmt * list nat * dict :=
  let '(fm, uq, dt) := acc in
  let w := entry_wire x in
  let '(uq', dt') := if existsb (Nat.eqb w) uq then (uq, dt) else (uq ++ [w], dict_set dt w []) in
  (fm ++ [if nth w ws 0 =? 1 then FmtEmpty else FmtHEX], uq', dt').

Definition wf_init (ws : list Z) (entries : list entry) : wf :=
  let '(fm, uq, dt) := fold_left (init_step ws) entries ([], [], []) in
  {| wf_wires := entries; wf_format := fm; wf_uniq := uq; wf_data := dt |}.

(* clock(): for x in uniqueWires: data[w].append(w.get()); `ins` are the values of the unique wires *)
Definition clock_ins (uq : list nat) (dt : dict) (ins : list Z) : dict :=
  fold_left (fun d p => dict_upd d (fst p) (fun l => l ++ [snd p])) (combine uq ins) dt.

Definition wf_clock (r : wf) (vals : list Z) : wf :=
  {| wf_wires := wf_wires r; wf_format := wf_format r; wf_uniq := wf_uniq r;
     wf_data := clock_ins (wf_uniq r) (wf_data r) (map (rd vals) (wf_uniq r)) |}.

Definition clear_data (dt : dict) : dict := map (fun p => (fst p, @nil Z)) dt.
Definition wf_clear (r : wf) : wf :=
  {| wf_wires := wf_wires r; wf_format := wf_format r; wf_uniq := wf_uniq r; wf_data := clear_data (wf_data r) |}.

Definition wf_getDict (r : wf) : dict := wf_data r.

(* ------------------------------------------------------------------ get_wavedrom *)
(* one iteration of `for i in range(numclks)`; state (wavedata, wavedatadata, last) *)
Definition row_step (ww : Z) (f : fmt) (acc : list Z * list (list Z) * option Z) (v : Z)
  : list Z * list (list Z) * option Z :=
  let '(wd, dd, last) := acc in
  if (match last with None => true | Some l => negb (v =? l) end)
  then (if ww =? 1 then (wd ++ str_dec v, dd, Some v)
        else (wd ++ str_dec 2, dd ++ [apply_fmt f v], Some v))
  else (wd ++ [ch_dot], dd, Some v).

(* ('wave', 'data') of one signal *)
Definition row (ww : Z) (f : fmt) (data : list Z) : list Z * list (list Z) :=
  let '(wd, dd, _) := fold_left (row_step ww f) data ([ch_x], [], None) in (wd ++ [ch_x], dd).

Definition clock_row (numclks : nat) : list Z := ch_P :: repeat ch_dot numclks ++ [ch_x].

Definition data_of (r : wf) (w : nat) : list Z := match dict_get (wf_data r) w with Some l => l | None => [] end.

(* (clock 'wave', [(wave, data) per entry]) ; numclks = len(data) of the LAST entry, as in the code *)
Definition wf_wavedrom (ws : list Z) (r : wf) : list Z * list (list Z * list (list Z)) :=
  let '(n, rows) :=
    fold_left (fun acc ie =>
                 let w := entry_wire (snd ie) in
                 let data := data_of r w in
                 (length data, snd acc ++ [row (nth w ws 0) (nth (fst ie) (wf_format r) FmtEmpty) data]))
              (combine (seq 0 (length (wf_wires r))) (wf_wires r)) (O, []) in
  (clock_row n, rows).

(* ------------------------------------------------------------------ the recorder as a clockable leaf of the kernel *)
Section Rec.
Context {St : Type}.
Variable getR : St -> dict.
Variable setR : St -> dict -> St.
(* inputs: the unique wires (addIn per unique wire); no outputs; clock() appends one sample per unique wire *)
Definition recorder_leaf (uq : list nat) : sleaf St :=
  {| s_in := uq; s_out := []; s_f := fun st ins => (setR st (clock_ins uq (getR st) ins), []) |}.
End Rec.

(* plumbing for the correspondence check: a dumped design over A becomes a design over A + dict and gets a
   recorder leaf appended to clock driver number `drv` (drv = length drivers: a new driver with enable `en`) *)
Definition lift_leaf {A} (l : sleaf A) : sleaf (A + dict) :=
  {| s_in := s_in l; s_out := s_out l;
     s_f := fun st ins => match st with
                          | inl a => let '(a', r) := s_f l a ins in (inl a', r)
                          | inr _ => (st, [])
                          end |}.
Definition getR_sum {A} (st : A + dict) : dict := match st with inr d => d | inl _ => [] end.
Definition setR_sum {A} (st : A + dict) (d : dict) : A + dict := inr d.

Fixpoint add_to_driver (ds : list driver) (drv : nat) (k : nat) (en : option nat) : list driver :=
  match ds, drv with
  | [], _ => [{| d_enable := en; d_leaves := [k] |}]
  | x :: r, O => {| d_enable := d_enable x; d_leaves := d_leaves x ++ [k] |} :: r
  | x :: r, S j => x :: add_to_driver r j k en
  end.

Definition with_recorder {A} (d : design A) (uq : list nat) (drv : nat) (en : option nat) : design (A + dict) :=
  {| widths := widths d; combs := combs d;
     seqs := map lift_leaf (seqs d) ++ [recorder_leaf getR_sum setR_sum uq];
     drivers := add_to_driver (drivers d) drv (length (seqs d)) en |}.

(* an operation history on a recorder taken alone: clock() with the given wire values, or clear() *)
Definition wf_op (r : wf) (o : C15.wop) : wf :=
  match o with C15.WClock vs => wf_clock r vs | C15.WClear => wf_clear r end.

(* ------------------------------------------------------------------ plumbing for the case files of py/props/c15.py
   (comparisons are done inside Coq; only the index of the first mismatch is printed) *)
Fixpoint leqb {A} (e : A -> A -> bool) (a b : list A) : bool :=
  match a, b with
  | [], [] => true
  | x :: a', y :: b' => e x y && leqb e a' b'
  | _, _ => false
  end.
Definition zl_eqb : list Z -> list Z -> bool := leqb Z.eqb.
Definition zll_eqb : list (list Z) -> list (list Z) -> bool := leqb zl_eqb.
Definition dict_eqb : dict -> dict -> bool := leqb (fun p q => Nat.eqb (fst p) (fst q) && zl_eqb (snd p) (snd q)).
Definition row_eqb (p q : list Z * list (list Z)) : bool := zl_eqb (fst p) (fst q) && zll_eqb (snd p) (snd q).
Definition snap : Type := dict * (list Z * list (list Z * list (list Z))).
Definition snap_eqb (p q : snap) : bool :=
  dict_eqb (fst p) (fst q) && zl_eqb (fst (snd p)) (fst (snd q)) && leqb row_eqb (snd (snd p)) (snd (snd q)).
Definition snap_of (ws : list Z) (r : wf) : snap := (wf_getDict r, wf_wavedrom ws r).

(* the recorder after each group of operations *)
Fixpoint wf_groups (r : wf) (groups : list (list C15.wop)) : list wf :=
  match groups with
  | [] => []
  | g :: t => let r' := fold_left wf_op g r in r' :: wf_groups r' t
  end.

Fixpoint first_false_from (k : nat) (l : list bool) : option nat :=
  match l with [] => None | b :: t => if b then first_false_from (S k) t else Some k end.
Definition first_false := first_false_from 0.

Fixpoint map2 {A B C} (f : A -> B -> C) (a : list A) (b : list B) : list C :=
  match a, b with x :: a', y :: b' => f x y :: map2 f a' b' | _, _ => [] end.

(* index of the first checkpoint where the model's (getDict, get_wavedrom) differs from the implementation's *)
Definition model_vs_impl (ws : list Z) (entries : list entry) (groups : list (list C15.wop)) (impl : list snap) : option nat :=
  let ms := map (snap_of ws) (wf_groups (wf_init ws entries) groups) in
  if Nat.eqb (length ms) (length impl) then first_false (map2 snap_eqb ms impl) else Some (length impl).
