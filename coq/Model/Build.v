(* Model/Build.v -- the py4hw construction API (py4hw/base.py) as a state machine, plus
   py4hw.debug.checkIntegrity.  HAND-WRITTEN executable model, no proofs in this file.

   The Python heap is modelled component-wise (one map per attribute, indexed by creation index):
     objects (Logic instances)  : parent, name, isPrimitive(), children{}, _wires{}, inPorts, outPorts, inOutPorts
     wires   (ordinary Wire)    : parent, name, width, source, sinks
     ports   (In/Out/InOutPort) : kind, parent, name, wire
   Python dicts are association lists in insertion order (`del` removes the key, insertion appends).
   Every operation returns the state the code REALLY leaves behind together with Ok / Raise / BadRef
   (BadRef = the operation names an object that was never created; the harness never does that).

   Tied to /repo by py/props/c11.py: random operation sequences with faults are executed on the real
   classes and on `step`, compared after every operation on raise/no-raise and on the whole state. *)
From Coq Require Import ZArith List Bool Arith.
Import ListNotations.

Definition name := Z.
Definition tbl := list (name * nat).

Fixpoint tget (t : tbl) (n : name) : option nat :=
  match t with
  | [] => None
  | (k, v) :: r => if Z.eqb k n then Some v else tget r n
  end.
Definition tmem (t : tbl) (n : name) : bool := match tget t n with Some _ => true | None => false end.
Fixpoint tdel (t : tbl) (n : name) : tbl :=
  match t with
  | [] => []
  | (k, v) :: r => if Z.eqb k n then tdel r n else (k, v) :: tdel r n
  end.
Definition tput (t : tbl) (n : name) (v : nat) : tbl := t ++ [(n, v)].

Definition upd {A : Type} (f : nat -> A) (i : nat) (v : A) : nat -> A :=
  fun j => if Nat.eqb j i then v else f j.
Definition tab {A : Type} (l : list A) (d : A) : nat -> A := fun i => nth i l d.

Inductive portkind := PIn | POut | PInOut.

Record state := mkState {
  nobj : nat;
  nwire : nat;
  nport : nat;
  oparent : nat -> option nat;
  oname : nat -> name;
  oprim : nat -> bool;
  ochildren : nat -> tbl;
  owires : nat -> tbl;
  oin : nat -> list nat;
  oout : nat -> list nat;
  oinout : nat -> list nat;
  wparent : nat -> nat;
  wname : nat -> name;
  wwidth : nat -> Z;
  wsource : nat -> option nat;
  wsinks : nat -> list nat;
  wbidir : nat -> bool;
  wsources : nat -> list nat;
  pkind : nat -> portkind;
  pparent : nat -> nat;
  pname : nat -> name;
  pwire : nat -> nat
}.

Definition set_nobj (s : state) (v : nat) : state :=
  mkState v (nwire s) (nport s) (oparent s) (oname s) (oprim s) (ochildren s) (owires s) (oin s) (oout s) (oinout s) (wparent s) (wname s) (wwidth s) (wsource s) (wsinks s) (wbidir s) (wsources s) (pkind s) (pparent s) (pname s) (pwire s).
Definition set_nwire (s : state) (v : nat) : state :=
  mkState (nobj s) v (nport s) (oparent s) (oname s) (oprim s) (ochildren s) (owires s) (oin s) (oout s) (oinout s) (wparent s) (wname s) (wwidth s) (wsource s) (wsinks s) (wbidir s) (wsources s) (pkind s) (pparent s) (pname s) (pwire s).
Definition set_nport (s : state) (v : nat) : state :=
  mkState (nobj s) (nwire s) v (oparent s) (oname s) (oprim s) (ochildren s) (owires s) (oin s) (oout s) (oinout s) (wparent s) (wname s) (wwidth s) (wsource s) (wsinks s) (wbidir s) (wsources s) (pkind s) (pparent s) (pname s) (pwire s).
Definition set_oparent (s : state) (v : nat -> option nat) : state :=
  mkState (nobj s) (nwire s) (nport s) v (oname s) (oprim s) (ochildren s) (owires s) (oin s) (oout s) (oinout s) (wparent s) (wname s) (wwidth s) (wsource s) (wsinks s) (wbidir s) (wsources s) (pkind s) (pparent s) (pname s) (pwire s).
Definition set_oname (s : state) (v : nat -> name) : state :=
  mkState (nobj s) (nwire s) (nport s) (oparent s) v (oprim s) (ochildren s) (owires s) (oin s) (oout s) (oinout s) (wparent s) (wname s) (wwidth s) (wsource s) (wsinks s) (wbidir s) (wsources s) (pkind s) (pparent s) (pname s) (pwire s).
Definition set_oprim (s : state) (v : nat -> bool) : state :=
  mkState (nobj s) (nwire s) (nport s) (oparent s) (oname s) v (ochildren s) (owires s) (oin s) (oout s) (oinout s) (wparent s) (wname s) (wwidth s) (wsource s) (wsinks s) (wbidir s) (wsources s) (pkind s) (pparent s) (pname s) (pwire s).
Definition set_ochildren (s : state) (v : nat -> tbl) : state :=
  mkState (nobj s) (nwire s) (nport s) (oparent s) (oname s) (oprim s) v (owires s) (oin s) (oout s) (oinout s) (wparent s) (wname s) (wwidth s) (wsource s) (wsinks s) (wbidir s) (wsources s) (pkind s) (pparent s) (pname s) (pwire s).
Definition set_owires (s : state) (v : nat -> tbl) : state :=
  mkState (nobj s) (nwire s) (nport s) (oparent s) (oname s) (oprim s) (ochildren s) v (oin s) (oout s) (oinout s) (wparent s) (wname s) (wwidth s) (wsource s) (wsinks s) (wbidir s) (wsources s) (pkind s) (pparent s) (pname s) (pwire s).
Definition set_oin (s : state) (v : nat -> list nat) : state :=
  mkState (nobj s) (nwire s) (nport s) (oparent s) (oname s) (oprim s) (ochildren s) (owires s) v (oout s) (oinout s) (wparent s) (wname s) (wwidth s) (wsource s) (wsinks s) (wbidir s) (wsources s) (pkind s) (pparent s) (pname s) (pwire s).
Definition set_oout (s : state) (v : nat -> list nat) : state :=
  mkState (nobj s) (nwire s) (nport s) (oparent s) (oname s) (oprim s) (ochildren s) (owires s) (oin s) v (oinout s) (wparent s) (wname s) (wwidth s) (wsource s) (wsinks s) (wbidir s) (wsources s) (pkind s) (pparent s) (pname s) (pwire s).
Definition set_oinout (s : state) (v : nat -> list nat) : state :=
  mkState (nobj s) (nwire s) (nport s) (oparent s) (oname s) (oprim s) (ochildren s) (owires s) (oin s) (oout s) v (wparent s) (wname s) (wwidth s) (wsource s) (wsinks s) (wbidir s) (wsources s) (pkind s) (pparent s) (pname s) (pwire s).
Definition set_wparent (s : state) (v : nat -> nat) : state :=
  mkState (nobj s) (nwire s) (nport s) (oparent s) (oname s) (oprim s) (ochildren s) (owires s) (oin s) (oout s) (oinout s) v (wname s) (wwidth s) (wsource s) (wsinks s) (wbidir s) (wsources s) (pkind s) (pparent s) (pname s) (pwire s).
Definition set_wname (s : state) (v : nat -> name) : state :=
  mkState (nobj s) (nwire s) (nport s) (oparent s) (oname s) (oprim s) (ochildren s) (owires s) (oin s) (oout s) (oinout s) (wparent s) v (wwidth s) (wsource s) (wsinks s) (wbidir s) (wsources s) (pkind s) (pparent s) (pname s) (pwire s).
Definition set_wwidth (s : state) (v : nat -> Z) : state :=
  mkState (nobj s) (nwire s) (nport s) (oparent s) (oname s) (oprim s) (ochildren s) (owires s) (oin s) (oout s) (oinout s) (wparent s) (wname s) v (wsource s) (wsinks s) (wbidir s) (wsources s) (pkind s) (pparent s) (pname s) (pwire s).
Definition set_wsource (s : state) (v : nat -> option nat) : state :=
  mkState (nobj s) (nwire s) (nport s) (oparent s) (oname s) (oprim s) (ochildren s) (owires s) (oin s) (oout s) (oinout s) (wparent s) (wname s) (wwidth s) v (wsinks s) (wbidir s) (wsources s) (pkind s) (pparent s) (pname s) (pwire s).
Definition set_wsinks (s : state) (v : nat -> list nat) : state :=
  mkState (nobj s) (nwire s) (nport s) (oparent s) (oname s) (oprim s) (ochildren s) (owires s) (oin s) (oout s) (oinout s) (wparent s) (wname s) (wwidth s) (wsource s) v (wbidir s) (wsources s) (pkind s) (pparent s) (pname s) (pwire s).
Definition set_wbidir (s : state) (v : nat -> bool) : state :=
  mkState (nobj s) (nwire s) (nport s) (oparent s) (oname s) (oprim s) (ochildren s) (owires s) (oin s) (oout s) (oinout s) (wparent s) (wname s) (wwidth s) (wsource s) (wsinks s) v (wsources s) (pkind s) (pparent s) (pname s) (pwire s).
Definition set_wsources (s : state) (v : nat -> list nat) : state :=
  mkState (nobj s) (nwire s) (nport s) (oparent s) (oname s) (oprim s) (ochildren s) (owires s) (oin s) (oout s) (oinout s) (wparent s) (wname s) (wwidth s) (wsource s) (wsinks s) (wbidir s) v (pkind s) (pparent s) (pname s) (pwire s).
Definition set_pkind (s : state) (v : nat -> portkind) : state :=
  mkState (nobj s) (nwire s) (nport s) (oparent s) (oname s) (oprim s) (ochildren s) (owires s) (oin s) (oout s) (oinout s) (wparent s) (wname s) (wwidth s) (wsource s) (wsinks s) (wbidir s) (wsources s) v (pparent s) (pname s) (pwire s).
Definition set_pparent (s : state) (v : nat -> nat) : state :=
  mkState (nobj s) (nwire s) (nport s) (oparent s) (oname s) (oprim s) (ochildren s) (owires s) (oin s) (oout s) (oinout s) (wparent s) (wname s) (wwidth s) (wsource s) (wsinks s) (wbidir s) (wsources s) (pkind s) v (pname s) (pwire s).
Definition set_pname (s : state) (v : nat -> name) : state :=
  mkState (nobj s) (nwire s) (nport s) (oparent s) (oname s) (oprim s) (ochildren s) (owires s) (oin s) (oout s) (oinout s) (wparent s) (wname s) (wwidth s) (wsource s) (wsinks s) (wbidir s) (wsources s) (pkind s) (pparent s) v (pwire s).
Definition set_pwire (s : state) (v : nat -> nat) : state :=
  mkState (nobj s) (nwire s) (nport s) (oparent s) (oname s) (oprim s) (ochildren s) (owires s) (oin s) (oout s) (oinout s) (wparent s) (wname s) (wwidth s) (wsource s) (wsinks s) (wbidir s) (wsources s) (pkind s) (pparent s) (pname s) v.

Definition init : state :=
  mkState 0 0 0 (fun _ => None) (fun _ => 0%Z) (fun _ => false) (fun _ => []) (fun _ => [])
          (fun _ => []) (fun _ => []) (fun _ => [])
          (fun _ => 0) (fun _ => 0%Z) (fun _ => 0%Z) (fun _ => None) (fun _ => []) (fun _ => false) (fun _ => [])
          (fun _ => PIn) (fun _ => 0) (fun _ => 0%Z) (fun _ => 0).

Inductive op :=
| NewLogic (parent : option nat) (n : name) (prim : bool)   (* SomeLogicSubclass(parent, name); prim = the class has propagate()/clock() *)
| NewWire (parent : nat) (n : name) (width : Z)             (* Wire(parent, name, width) *)
| NewBidir (parent : nat) (n : name) (width : Z)            (* BidirWire(parent, name, width) / parent.bidir_wire(name, width) *)
| AddIn (o : nat) (n : name) (w : nat)                      (* o.addIn(name, w) *)
| AddOut (o : nat) (n : name) (w : nat)                     (* o.addOut(name, w) *)
| AddInOut (o : nat) (n : name) (w : nat)                   (* o.addInOut(name, w)  (w an ordinary Wire) *)
| Rename (w : nat) (n : name)                               (* w.rename(n) *)
| Reparent (w : nat) (p : nat)                              (* w.reparent(p) *)
| ReparentAndRename (w : nat) (p : nat) (n : name).         (* w.reparentAndRename(p, n) *)

Inductive conflict :=
| CChild (p : nat) (n : name)     (* Logic.__init__: 'there is already a child named ..' *)
| CWire (p : nat) (n : name)      (* Logic.appendWire: 'a wire named .. already exist' *)
| CDriver (w : nat)               (* Wire.setSource: 'Source of wire .. already connected' *)
| CKey (p : nat) (n : name).      (* KeyError of `del self.parent._wires[self.name]` *)
Inductive outcome := Ok | Raise (c : conflict) | BadRef.

(* Logic.__init__ after the duplicate check: register in the parent, then fresh attribute values *)
Definition alloc_obj (s : state) (par : option nat) (n : name) (prim : bool) : state :=
  let id := nobj s in
  let s := set_oparent s (upd (oparent s) id par) in
  let s := set_oname s (upd (oname s) id n) in
  let s := set_oprim s (upd (oprim s) id prim) in
  let s := set_ochildren s (upd (ochildren s) id []) in
  let s := set_owires s (upd (owires s) id []) in
  let s := set_oin s (upd (oin s) id []) in
  let s := set_oout s (upd (oout s) id []) in
  let s := set_oinout s (upd (oinout s) id []) in
  set_nobj s (S id).

Definition new_logic (s : state) (par : option nat) (n : name) (prim : bool) : state * outcome :=
  match par with
  | None => (alloc_obj s None n prim, Ok)
  | Some p =>
    if negb (p <? nobj s) then (s, BadRef)
    else if tmem (ochildren s p) n then (s, Raise (CChild p n))       (* raised before anything is stored *)
    else (alloc_obj (set_ochildren s (upd (ochildren s) p (tput (ochildren s p) n (nobj s)))) par n prim, Ok)
  end.

(* Wire.__init__ / BidirWire.__init__: attributes, then parent.appendWire(self) which raises on a duplicate name;
   the half-built wire is unreachable afterwards.  Both classes live in the same _wires table.  A BidirWire has a
   list `sources` and NO attribute `source`. *)
Definition new_wire (s : state) (p : nat) (n : name) (width : Z) (bidir : bool) : state * outcome :=
  if negb (p <? nobj s) then (s, BadRef)
  else if tmem (owires s p) n then (s, Raise (CWire p n))
  else
    let id := nwire s in
    let s := set_owires s (upd (owires s) p (tput (owires s p) n id)) in
    let s := set_wparent s (upd (wparent s) id p) in
    let s := set_wname s (upd (wname s) id n) in
    let s := set_wwidth s (upd (wwidth s) id width) in
    let s := set_wsource s (upd (wsource s) id None) in
    let s := set_wsinks s (upd (wsinks s) id []) in
    let s := set_wbidir s (upd (wbidir s) id bidir) in
    let s := set_wsources s (upd (wsources s) id []) in
    (set_nwire s (S id), Ok).

Definition drives (k : portkind) : bool := match k with PIn => false | _ => true end.
Definition reads (k : portkind) : bool := match k with POut => false | _ => true end.
Definition is_some {A : Type} (x : option A) : bool := match x with Some _ => true | None => false end.

(* Logic.addIn/addOut/addInOut: the port constructor runs first (parent.isPrimitive() is evaluated THERE,
   i.e. at port-creation time, and is a property of the class: having propagate()/clock(), not of having
   children); OutPort/InOutPort call wire.addSource -> setSource, which raises if a source exists; only
   after the constructor returns is the port appended to the parent's list. *)
Definition add_port_ok (s : state) (k : portkind) (o : nat) (n : name) (w : nat) : state :=
    let q := nport s in
    let s := set_pkind s (upd (pkind s) q k) in
    let s := set_pparent s (upd (pparent s) q o) in
    let s := set_pname s (upd (pname s) q n) in
    let s := set_pwire s (upd (pwire s) q w) in
    (* Wire.addSource -> setSource (single source, raises if there is one);  BidirWire.addSource appends and never raises *)
    let s := set_wsource s (upd (wsource s) w (if oprim s o && drives k && negb (wbidir s w) then Some q else wsource s w)) in
    let s := set_wsources s (upd (wsources s) w (if oprim s o && drives k && wbidir s w then wsources s w ++ [q] else wsources s w)) in
    let s := set_wsinks s (upd (wsinks s) w (if oprim s o && reads k then wsinks s w ++ [q] else wsinks s w)) in
    let s := set_oin s (upd (oin s) o (match k with PIn => oin s o ++ [q] | _ => oin s o end)) in
    let s := set_oout s (upd (oout s) o (match k with POut => oout s o ++ [q] | _ => oout s o end)) in
    let s := set_oinout s (upd (oinout s) o (match k with PInOut => oinout s o ++ [q] | _ => oinout s o end)) in
    set_nport s (S q).

Definition add_port (s : state) (k : portkind) (o : nat) (n : name) (w : nat) : state * outcome :=
  if negb ((o <? nobj s) && (w <? nwire s)) then (s, BadRef)
  else if oprim s o && drives k && negb (wbidir s w) && is_some (wsource s w) then (s, Raise (CDriver w))
  else (add_port_ok s k o n w, Ok).

(* Wire.rename / reparent / reparentAndRename AND the textual copies BidirWire.rename / reparent / reparentAndRename
   (same statements; the real-side executor calls whichever the wire's class defines) (after /repo commits a702577 + 0cca5f4):
     if <new name> in <new parent>._wires and <new parent>._wires[<new name>] is not self: raise
                                                      (tested FIRST: nothing has been changed; moving a wire onto
                                                       its OWN slot is not a collision)
     del self.parent._wires[self.name]                (KeyError if that key is absent)
     self.name = newname ; self.parent = newparent
     newparent.appendWire(self)                       (its duplicate test is still executed; Proofs/C11/Conflict.v
                                                       shows it cannot fire in a constructed netlist) *)
Definition holds_other (t : tbl) (n : name) (w : nat) : bool :=
  match tget t n with Some w' => negb (Nat.eqb w' w) | None => false end.

Definition move (s : state) (w : nat) (np : option nat) (nn : option name) : state * outcome :=
  if negb (w <? nwire s) then (s, BadRef)
  else
    let p := wparent s w in
    let n := wname s w in
    let p' := match np with Some x => x | None => p end in
    let n' := match nn with Some x => x | None => n end in
    if negb (p' <? nobj s) then (s, BadRef)
    else if holds_other (owires s p') n' w then (s, Raise (CWire p' n'))
    else if negb (tmem (owires s p) n) then (s, Raise (CKey p n))
    else
      let s1 := set_owires s (upd (owires s) p (tdel (owires s p) n)) in
      let s1 := set_wname s1 (upd (wname s1) w n') in
      let s1 := set_wparent s1 (upd (wparent s1) w p') in
      if tmem (owires s1 p') n' then (s1, Raise (CWire p' n'))
      else (set_owires s1 (upd (owires s1) p' (tput (owires s1 p') n' w)), Ok).

Definition step (s : state) (o : op) : state * outcome :=
  match o with
  | NewLogic par n prim => new_logic s par n prim
  | NewWire p n width => new_wire s p n width false
  | NewBidir p n width => new_wire s p n width true
  | AddIn o n w => add_port s PIn o n w
  | AddOut o n w => add_port s POut o n w
  | AddInOut o n w => add_port s PInOut o n w
  | Rename w n => move s w None (Some n)
  | Reparent w p => move s w (Some p) None
  | ReparentAndRename w p n => move s w (Some p) (Some n)
  end.

Definition exec (s : state) (o : op) : state := fst (step s o).
Definition run_from (s : state) (ops : list op) : state := fold_left exec ops s.
Definition run (ops : list op) : state := run_from init ops.

(* ---------------------------------------------------------------- py4hw.debug.checkIntegrity *)
Inductive ires := IOk | IRaise | IFuel.

Definition memb (x : nat) (l : list nat) : bool := existsb (Nat.eqb x) l.

(* in-port loop: wire.getSource(): on a BidirWire this is `return self.source`, an attribute that does not exist
   (AttributeError: the check raises); source == None -> raise; then checkPort(source): the source port must be in
   its parent's inPorts, outPorts or inOutPorts (after /repo commit 0845e1f) *)
Definition in_bad (s : state) (q : nat) : bool :=
  wbidir s (pwire s q) ||
  match wsource s (pwire s q) with
  | None => true
  | Some sp => negb (memb sp (oin s (pparent s sp)) || memb sp (oout s (pparent s sp)) || memb sp (oinout s (pparent s sp)))
  end.
Definition out_bad (s : state) (q : nat) : bool := wbidir s (pwire s q) || negb (is_some (wsource s (pwire s q))).
Definition obj_bad (s : state) (o : nat) : bool :=
  existsb (in_bad s) (oin s o) || existsb (out_bad s) (oout s o).

Fixpoint check (fuel : nat) (s : state) (o : nat) : ires :=
  match fuel with
  | O => IFuel
  | S f =>
    if obj_bad s o then IRaise
    else fold_left (fun acc c => match acc with IOk => check f s c | x => x end) (map snd (ochildren s o)) IOk
  end.
(* children are created after their parent, so the depth below o is at most nobj - o *)
Definition checkIntegrity (s : state) (o : nat) : ires := check (nobj s) s o.

(* ---------------------------------------------------------------- canonical dump (for the correspondence check) *)
Definition zn (n : nat) : Z := Z.of_nat n.
Definition zo (x : option nat) : Z := match x with Some n => zn n | None => (-1)%Z end.
Definition zb (b : bool) : Z := if b then 1%Z else 0%Z.
Definition zk (k : portkind) : Z := match k with PIn => 0%Z | POut => 1%Z | PInOut => 2%Z end.
(* tables are dumped sorted by name: dict insertion order is not part of the property (it only decides WHICH
   error checkIntegrity reports first), so a rewrite that changes it must not break the correspondence *)
Fixpoint tins (k : name) (v : nat) (t : tbl) : tbl :=
  match t with
  | [] => [(k, v)]
  | (k', v') :: r => if (k <=? k')%Z then (k, v) :: t else (k', v') :: tins k v r
  end.
Definition tsort (t : tbl) : tbl := fold_right (fun '(k, v) acc => tins k v acc) [] t.
Definition ztbl (t : tbl) : list Z := flat_map (fun '(k, v) => [k; zn v]) (tsort t).

Definition dump_obj (s : state) (i : nat) : list (list Z) :=
  [[zo (oparent s i); oname s i; zb (oprim s i)]; ztbl (ochildren s i); ztbl (owires s i);
   map zn (oin s i); map zn (oout s i); map zn (oinout s i)].
Definition dump_wire (s : state) (i : nat) : list (list Z) :=
  [[zn (wparent s i); wname s i; wwidth s i; zo (wsource s i); zb (wbidir s i)]; map zn (wsinks s i); map zn (wsources s i)].
Definition dump_port (s : state) (i : nat) : list (list Z) :=
  [[zk (pkind s i); zn (pparent s i); pname s i; zn (pwire s i)]].
Definition dump (s : state) : list (list (list (list Z))) :=
  [map (dump_obj s) (seq 0 (nobj s)); map (dump_wire s) (seq 0 (nwire s)); map (dump_port s) (seq 0 (nport s))].

Definition raised (o : outcome) : Z := match o with Ok => 0%Z | Raise _ => 1%Z | BadRef => 2%Z end.

Fixpoint list_eqb {A : Type} (e : A -> A -> bool) (a b : list A) : bool :=
  match a, b with
  | [], [] => true
  | x :: a', y :: b' => e x y && list_eqb e a' b'
  | _, _ => false
  end.
Definition dump_eqb := list_eqb (list_eqb (list_eqb (list_eqb Z.eqb))).

(* first operation index at which the model and the recorded real behaviour (raise flag, state) differ *)
Fixpoint first_diff (s : state) (ops : list op) (expected : list (Z * list (list (list (list Z))))) (i : Z)
  : option (Z * Z * list (list (list (list Z)))) :=
  match ops, expected with
  | o :: ops', (r, d) :: ex' =>
    let '(s', out) := step s o in
    if Z.eqb (raised out) r && dump_eqb (dump s') d then first_diff s' ops' ex' (i + 1)%Z
    else Some (i, raised out, dump s')
  | [], [] => None
  | _, _ => Some (i, 9%Z, [])
  end.
