(* Abstract syntax of the Verilog subset py4hw emits (structural emitter + Python->Verilog transpiler).
   The term for a concrete text is produced by py/vparse.py, which also prints the term back to a token stream
   that must equal the text's own token stream (so a parser slip is caught per design).  No proofs here. *)
From Coq Require Export String ZArith List Bool.
Export ListNotations.
Open Scope Z_scope.

Inductive unop := UNot | ULNot | UNeg.                       (* ~  !  - *)
Inductive binop :=
  | BAdd | BSub | BMul | BDiv | BMod | BAnd | BOr | BXor | BShl | BShr
  | BEq | BNe | BLt | BLe | BGt | BGe | BLAnd | BLOr.

Inductive expr :=
  | EId (x : string)
  | ENum (n : Z)                     (* unsized decimal literal: 32 bit, signed *)
  | ESized (w n : Z)                 (* w'b.. / w'd.. / w'h.. : w bit, unsigned *)
  | EBit (x : string) (i : expr)     (* x[i]  (bit select of a vector, or word select of a memory) *)
  | EPart (x : string) (hi lo : Z)   (* x[hi:lo] *)
  | EUn (o : unop) (e : expr)
  | EBin (o : binop) (a b : expr)
  | ECond (c a b : expr)
  | EConcat (a b : expr)             (* {a, b}; {a,b,c} is {a,{b,c}} *)
  | ERepl (n : Z) (e : expr)         (* {n{e}} *)
  | ESigned (e : expr).              (* $signed(e) *)

Inductive lval :=
  | LId (x : string)
  | LPart (x : string) (hi lo : Z)
  | LIdx (x : string) (i : expr).    (* x[i] <= ... : memory word (or bit) write *)

(* `case` is desugared by the parser into an if-chain on (e == k) (first match wins; py4hw only emits integer labels) *)
Inductive stmt :=
  | SSkip
  | SSeq (a b : stmt)
  | SIf (c : expr) (t e : stmt)
  | SBlk (l : lval) (e : expr)       (* l = e;  *)
  | SNba (l : lval) (e : expr).      (* l <= e; *)

Inductive dir := DIn | DOut | DInOut.
Record port := { p_dir : dir; p_reg : bool; p_width : Z; p_name : string }.

Inductive event := EvPos (clk : string) | EvNeg (clk : string) | EvStar.

Inductive item :=
  | IWire (x : string) (w : Z)
  | IReg (x : string) (w : Z) (init : option Z)
  | IInteger (x : string)
  | IMem (x : string) (w depth : Z)
  | IAssign (l : lval) (e : expr)
  | IAlways (ev : event) (s : stmt)
  | IInitial (s : stmt)
  | IInst (m : string) (params : list (string * expr)) (iname : string) (conns : list (string * expr)).

Record vmodule := { m_name : string; m_params : list string; m_ports : list port; m_items : list item }.
Definition design := list vmodule.
