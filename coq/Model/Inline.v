(* Hand-written rendering of py4hw's Inline* emitters (rtl_generation.py:266-438) and BodyReg as RESOLVED
   Verilog (Model/VSem.rexpr): what each emitter prints for one primitive instance, as a function of the
   net ids / widths / constructor constants of that instance.  Compared with the real emitted text on
   every design (exact syntactic equality after elaboration), so it cannot drift silently.  NO PROOFS. *)
From V Require Import Base.PyInt Model.VSyntax Model.VSem.

Definition nid := (nat * Z)%type.                 (* flat net id, declared width *)
Definition rid (n : nid) : rexpr := RId (fst n) (snd n) false.
Definition whole (n : nid) : rlval := RLId (fst n) (snd n).

(* "{}".format(v) of a Python int: a negative number prints as unary minus applied to a literal *)
Definition pynum (v : Z) : rexpr := if v <? 0 then RUn UNeg (RNum (- v)) else RNum v.

Definition inl_constant (r : nid) (v : Z) : list (rlval * rexpr) :=
  [(if 1 <? snd r then RLPart (fst r) (snd r - 1) 0 else whole r, pynum v)].
Definition inl_shl (r a : nid) (n : Z) := [(whole r, RBin BShl (rid a) (pynum n))].
Definition inl_shr (r a : nid) (n : Z) := [(whole r, RBin BShr (rid a) (pynum n))].
Definition inl_not (r a : nid) := [(whole r, RUn UNot (rid a))].
Definition inl_buf (r a : nid) := [(whole r, rid a)].
(* getBitSelect: a 1-bit wire is a scalar net, its only bit is written as the bare name *)
Definition bit_select (a : nid) (k : Z) : rexpr :=
  if (snd a =? 1) && (k =? 0) then rid a else RBit (fst a) (snd a) (pynum k).
(* a result that is not wider than the operand has nothing to replicate: `assign r = a;` *)
Definition inl_signextend (r a : nid) :=
  if snd r <=? snd a then [(whole r, rid a)]
  else [(whole r, RConcat (RRepl (snd r - snd a) (bit_select a (snd a - 1))) (rid a))].
Definition inl_bin (o : binop) (r a b : nid) := [(whole r, RBin o (rid a) (rid b))].
Definition inl_nbin (o : binop) (r a b : nid) := [(whole r, RUn UNot (RBin o (rid a) (rid b)))].
Definition inl_mux2 (r sel s0 s1 : nid) := [(whole r, RCond (RBin BAnd (rid sel) (RNum 1)) (rid s1) (rid s0))].
Definition inl_addci (r a b ci : nid) := [(whole r, RBin BAdd (RBin BAdd (rid a) (rid b)) (rid ci))].
Definition inl_smul (r a b : nid) := [(whole r, RBin BMul (RSigned (rid a)) (RSigned (rid b)))].
Definition inl_equalconst (r a : nid) (v : Z) := [(whole r, RCond (RBin BEq (rid a) (pynum v)) (RNum 1) (RNum 0))].
Definition inl_equal (r a b : nid) := [(whole r, RCond (RBin BEq (rid a) (rid b)) (RNum 1) (RNum 0))].
Definition inl_range (r a : nid) (hi lo : Z) :=
  if (snd a =? 1) && (hi =? 0) && (lo =? 0) then [(whole r, rid a)] else [(whole r, RPart (fst a) hi lo)].
Definition inl_bit (r a : nid) (k : Z) := [(whole r, bit_select a k)].
Definition inl_bits (a : nid) (bits : list nid) : list (rlval * rexpr) :=
  match bits with
  | [b] => [(whole b, rid a)]
  | _ => map (fun p => (whole (snd p), RBit (fst a) (snd a) (RNum (Z.of_nat (fst p))))) (combine (seq 0 (length bits)) bits)
  end.
Fixpoint concat_of (l : list rexpr) : rexpr :=
  match l with [] => RNum 0 | [x] => x | x :: t => RConcat x (concat_of t) end.
Definition inl_repeat (r i : nid) := [(whole r, if snd r =? 1 then rid i else concat_of (repeat (rid i) (Z.to_nat (snd r))))].
Definition inl_concat (r : nid) (ins : list nid) := [(whole r, concat_of (map rid ins))].
Fixpoint chain (o : binop) (acc : rexpr) (l : list rexpr) : rexpr :=
  match l with [] => acc | x :: t => chain o (RBin o acc x) t end.
Definition inl_nary (o : binop) (r : nid) (ins : list nid) :=
  match ins with [] => [] | x :: t => [(whole r, chain o (rid x) (map rid t))] end.
Definition inl_nnary (o : binop) (r : nid) (ins : list nid) :=
  match ins with [] => [] | x :: t => [(whole r, RUn UNot (chain o (rid x) (map rid t)))] end.

(* BodyReg: reg [w-1:0] rq = reset_value; always @(posedge clk) [if (r == 1) rq <= rv; else] [if (e != 0)] rq <= d; assign q = rq; *)
Definition body_reg_proc (rq d : nid) (e r : option nid) (rv : Z) : rstmt :=
  let load := RNba (whole rq) (rid d) in
  let en := match e with Some e' => RIf (RBin BNe (rid e') (RNum 0)) load RSkip | None => load end in
  match r with
  | Some r' => RIf (RBin BEq (rid r') (RNum 1)) (RNba (whole rq) (pynum rv)) en
  | None => en
  end.

(* decidable syntactic equality, used by the per-design matcher *)
Definition unop_eqb (a b : unop) := match a, b with UNot, UNot | ULNot, ULNot | UNeg, UNeg => true | _, _ => false end.
Definition binop_tag (o : binop) : Z :=
  match o with BAdd => 0 | BSub => 1 | BMul => 2 | BDiv => 3 | BMod => 4 | BAnd => 5 | BOr => 6 | BXor => 7 | BShl => 8 | BShr => 9
             | BEq => 10 | BNe => 11 | BLt => 12 | BLe => 13 | BGt => 14 | BGe => 15 | BLAnd => 16 | BLOr => 17 end.
Fixpoint rexpr_eqb (a b : rexpr) : bool :=
  match a, b with
  | RNum x, RNum y => x =? y
  | RSized w x, RSized w' y => (w =? w') && (x =? y)
  | RId i w s, RId i' w' s' => Nat.eqb i i' && (w =? w') && Bool.eqb s s'
  | RBit i w x, RBit i' w' y => Nat.eqb i i' && (w =? w') && rexpr_eqb x y
  | RPart i h l, RPart i' h' l' => Nat.eqb i i' && (h =? h') && (l =? l')
  | RUn o x, RUn o' y => unop_eqb o o' && rexpr_eqb x y
  | RBin o x1 x2, RBin o' y1 y2 => (binop_tag o =? binop_tag o') && rexpr_eqb x1 y1 && rexpr_eqb x2 y2
  | RCond c x1 x2, RCond c' y1 y2 => rexpr_eqb c c' && rexpr_eqb x1 y1 && rexpr_eqb x2 y2
  | RConcat x1 x2, RConcat y1 y2 => rexpr_eqb x1 y1 && rexpr_eqb x2 y2
  | RRepl n x, RRepl n' y => (n =? n') && rexpr_eqb x y
  | RSigned x, RSigned y => rexpr_eqb x y
  | _, _ => false
  end.
Definition rlval_eqb (a b : rlval) : bool :=
  match a, b with
  | RLId i w, RLId i' w' => Nat.eqb i i' && (w =? w')
  | RLPart i h l, RLPart i' h' l' => Nat.eqb i i' && (h =? h') && (l =? l')
  | RLIdx i w x, RLIdx i' w' y => Nat.eqb i i' && (w =? w') && rexpr_eqb x y
  | _, _ => false
  end.
Fixpoint rstmt_eqb (a b : rstmt) : bool :=
  match a, b with
  | RSkip, RSkip => true
  | RSeq x1 x2, RSeq y1 y2 => rstmt_eqb x1 y1 && rstmt_eqb x2 y2
  | RIf c x1 x2, RIf c' y1 y2 => rexpr_eqb c c' && rstmt_eqb x1 y1 && rstmt_eqb x2 y2
  | RBlk l e, RBlk l' e' => rlval_eqb l l' && rexpr_eqb e e'
  | RNba l e, RNba l' e' => rlval_eqb l l' && rexpr_eqb e e'
  | _, _ => false
  end.
Definition assign_eqb (a b : rlval * rexpr) := rlval_eqb (fst a) (fst b) && rexpr_eqb (snd a) (snd b).
Definition has_assign (f : flat) (a : rlval * rexpr) : bool := existsb (assign_eqb a) (f_assigns f).
Definition has_assigns (f : flat) (l : list (rlval * rexpr)) : bool := forallb (has_assign f) l.
Definition has_posedge_proc (f : flat) (s : rstmt) : bool :=
  existsb (fun p => match fst p with TPos _ => rstmt_eqb (snd p) s | _ => false end) (f_procs f).
