(* C12 — hand-written model of class FloatingPointHelper (py4hw/helper.py:1137-1506) over DYADIC RATIONALS.
   A finite Python float is exactly (-1)^neg * n / 2^d; every float operation these functions perform
   (m / 2, m * 2, m - 1 for 1 <= m < 2, scaling by a power of two inside the double range, math.pow(2, k),
   (+-1) * 2^k * m with an exactly representable result) is EXACT in IEEE double arithmetic, so the model uses Q,
   and round() is round-half-to-even of an exactly known value (Spec.C12.rne).  That exactness argument is not
   proved here: this file is tied to the code by bit-exact correspondence only (py/props/c12.py).
   No proofs in this file. *)
From V Require Import Base.PyInt Spec.C12 Model.HelperInt.

(* a Python float: nan, +-inf, or the finite double (-1)^neg * n / 2^d with n >= 0, d >= 0 (-0.0 = PFin true 0 0) *)
Inductive pyfloat := PNaN | PInf (neg : bool) | PFin (neg : bool) (n d : Z).

Definition pf_value (x : pyfloat) : xq :=
  match x with
  | PNaN => XNaN
  | PInf neg => XInf neg
  | PFin neg n d => XFin (sgnq neg * (inject_Z n * two_pow (- d)))
  end.
Definition pf_neg (x : pyfloat) : bool := match x with PNaN => false | PInf neg => neg | PFin neg _ _ => neg end.

(* format parameters as the code spells them: layout, bias (127 / 1023), mantissa bits, NaN mantissa returned by
   *_to_ieee754_parts ((1<<23)-1, resp. (1<<51)-1), and whether a zero keeps its sign (dp: yes; sp: yes since 8d56487, no before = finding #16) *)
Record fphfmt := mkFphFmt { H_lay : layout; H_bias : Z; H_mw : Z; H_nanm : Z; H_zero_sign : bool }.
Definition fph_sp_with (zs : bool) : fphfmt := mkFphFmt layout_sp 127 23 8388607 zs.
Definition fph_sp : fphfmt := fph_sp_with true.                      (* /repo today (since 8d56487) *)
Definition fph_sp_before_8d56487 : fphfmt := fph_sp_with false.      (* HISTORY: finding #16, the sign of -0.0 was lost *)
Definition fph_dp : fphfmt := mkFphFmt layout_dp 1023 52 2251799813685247 true.

(* fp_to_parts(v), v finite non-zero: (s, e, m) with 1 <= m < 2 and |v| = m * 2^e.
   The two float loops (m / 2 while m >= 2; m * 2 while m < 1) have the closed form e = floor(log2 |v|) = log2 n - d *)
Definition fp_to_parts_e (n d : Z) : Z := Z.log2 n - d.
Definition fp_to_parts_m (n d : Z) : Q := inject_Z n * two_pow (- Z.log2 n).

(* sp_to_ieee754_parts / dp_to_ieee754_parts *)
Definition FPH_to_parts (H : fphfmt) (v : pyfloat) : Z * Z * Z :=
  let emax := 2 * H_bias H + 1 in
  match v with
  | PInf neg => (b2z neg, emax, 0)
  | PNaN => (0, emax, H_nanm H)
  | PFin neg n d =>
      if n =? 0 then ((if H_zero_sign H then b2z neg else 0), 0, 0)
      else
        let s := b2z neg in
        let e := fp_to_parts_e n d in
        let m := fp_to_parts_m n d in
        if e >=? H_bias H + 1 then (s, emax, 0)
        else if e <=? - H_bias H then
          let m' := (m * two_pow (- (- H_bias H - e)))%Q in          (* m / math.pow(2, -bias - e) *)
          (s, 0, rne (m' * inject_Z (py_shl 1 (H_mw H - 1))))
        else
          let im := rne ((m - 1) * inject_Z (py_shl 1 (H_mw H))) in
          let '(e, m) := if im >=? py_shl 1 (H_mw H) then (e + 1, (m / (2 # 1))%Q) else (e, m) in
          (s, H_bias H + e, rne ((m - 1) * inject_Z (py_shl 1 (H_mw H))))
  end.

(* sp_to_ieee754 / dp_to_ieee754 *)
Definition FPH_to_ieee754 (H : fphfmt) (v : pyfloat) : Z :=
  let '(s, e, m) := FPH_to_parts H v in FPH_assemble (H_lay H) s e m.

(* ieee754_parts_to_sp / ieee754_parts_to_dp *)
Definition FPH_parts_to_float (H : fphfmt) (s e m : Z) : pyfloat :=
  if (e =? 0) && (m =? 0) then PFin (s =? 1) 0 0
  else
    let '(ef, mn) := if e =? 0 then (1 - H_bias H, m) else (e - H_bias H, Z.lor (py_shl 1 (H_mw H)) m) in
    (* parts_to_fp(s, ef, mn / 2^mw) = (-1)^s * 2^ef * mn / 2^mw *)
    let k := ef - H_mw H in
    if k >=? 0 then PFin (Z.odd s) (mn * 2 ^ k) 0 else PFin (Z.odd s) mn (- k).

(* ieee754_to_sp / ieee754_to_dp *)
Definition FPH_from_ieee754 (H : fphfmt) (v : Z) : pyfloat :=
  if v =? 0 then PFin false 0 0
  else
    let '(s, e, m) := FPH_unpack (H_lay H) v in
    if e =? 2 * H_bias H + 1 then (if m =? 0 then PInf (s =? 1) else PNaN)
    else FPH_parts_to_float H s e m.

(* ieee754_stored_internally (sp) *)
Definition FPH_stored_internally (v : pyfloat) : pyfloat :=
  let '(s, e, m) := FPH_to_parts fph_sp v in FPH_parts_to_float fph_sp s e m.

(* FixedPoint.floatToFixedPoint: int(v * (1 << fw)) & mask   (int() truncates toward zero) *)
Definition FixedPoint_floatToFixedPoint (sw iw fw : Z) (v : pyfloat) : option Z :=
  match v with
  | PFin neg n d =>
      if neg && negb (n =? 0) && (sw =? 0) then None
      else
        let w := sw + iw + fw in
        let q := Z.quot ((if neg then - n else n) * 2 ^ fw) (2 ^ d) in
        Some (Z.land q (py_shl 1 w - 1))
  | _ => None
  end.
