(* C09 — glue for the correspondence check, reference-machine side.  Depends on Spec/C09.v only (NOT on the regenerated
   definitions), so the search impl-vs-spec still runs when a regenerated leaf no longer fits the block models.
   A trace maps a history of input ROWS (list Z, in the order the harness pokes them) to one observation row per edge:
   pre-edge outputs (inputs poked, propagateAll, before the edge) ++ post-edge outputs.  NO PROOFS. *)
From V Require Import Base.PyInt Spec.C09.

Section Trace.
Context {S : Type}.
Variable step : S -> list Z -> S.
Variable pre : S -> list Z -> list Z.
Variable post : S -> list Z -> list Z.
Fixpoint trace (s : S) (h : list (list Z)) : list (list Z) :=
  match h with
  | [] => []
  | i :: h' => let s' := step s i in (pre s i ++ post s' i) :: trace s' h'
  end.
(* models: row 0 is the power-up observation (no input poked yet) *)
Definition mtrace (s : S) (h : list (list Z)) : list (list Z) := post s [] :: trace s h.
End Trace.

(* a block embedded in a larger design whose other logic drives its inputs: the inputs change at every edge too, so what is
   visible after edge k is  post S_k (inputs visible NOW),  while edge k+1 samples the inputs given as step inputs.
   i0 = inputs visible at power-up; h = list of (inputs sampled at the edge, inputs visible after the edge). *)
Fixpoint etrace_go {S} (step : S -> list Z -> S) (post : S -> list Z -> list Z) (s : S) (h : list (list Z * list Z)) : list (list Z) :=
  match h with
  | [] => []
  | (si, oi) :: h' => let s' := step s si in post s' oi :: etrace_go step post s' h'
  end.
Definition etrace {S} (step : S -> list Z -> S) (pre post : S -> list Z -> list Z) (s : S) (i0 : list Z) (h : list (list Z * list Z)) : list (list Z) :=
  post s i0 :: etrace_go step post s h.

Definition nopre {S} (_ : S) (_ : list Z) : list Z := [].
(* ---- Reg: row [d; e; r] -> [q; value] *)
Definition reg_spec_trace (w : Z) (he hr : bool) (rv : Z) :=
  trace (fun s i => match i with [d; e; r] => reg_spec w he hr rv s (d, e, r) | _ => s end) nopre
        (fun s _ => [s]) (reg_spec_init w rv).

(* ---- TReg: row [t; e; r] -> [q; value] *)
Definition treg_spec_trace (he hr : bool) :=
  trace (fun s i => match i with [t; e; r] => treg_spec he hr s (t, e, r) | _ => s end) nopre (fun s _ => [s]) 0.

(* ---- Counter: row [reset; inc] -> [q; value] *)
Definition counter_spec_trace (w : Z) (hi hr : bool) :=
  trace (fun s i => match i with [r; n] => counter_spec w hi hr s (r, n) | _ => s end) nopre (fun s _ => [s]) 0.

(* ---- ModuloCounter: row [reset; inc] -> [q; carry; value] *)
Definition modcounter_spec_trace (m : Z) :=
  trace (fun s i => match i with [r; n] => modcounter_spec m s (r, n) | _ => s end) nopre
        (fun s _ => [s; modcounter_carry_spec m s]) 0.

(* ---- StepUpCounter: row [reset; inc; step] -> [q; value] *)
Definition stepup_spec_trace (w : Z) (hr : bool) :=
  trace (fun s i => match i with [r; n; st] => stepup_spec w hr s (r, n, st) | _ => s end) nopre (fun s _ => [s]) 0.

(* ---- DelayLine: row [a; en; reset] -> pre [r], post [r] ++ q's ++ values *)
Definition delay_spec_trace (w wr : Z) (he hr : bool) (delay : nat) :=
  trace (fun log i => match i with [a; e; r] => delay_log he hr log (a, e, r) | _ => log end)
        (fun log i => [delay_spec_out w wr delay log (hd 0 i)])
        (fun log i => [delay_spec_out w wr delay log (hd 0 i)]) [].

(* ---- PipelinePhase: row ins ++ [reset] -> outs ++ values *)
Definition pipe_spec_trace (ws : list Z) :=
  trace (fun (_ : list Z) i => pipe_spec ws (removelast i) (last i 0)) nopre (fun s _ => s) [].

(* ---- EdgeDetector: row [a] -> pre [r], post [r; z1; value] *)
Definition edge_spec_trace (k : edge_kind) :=
  trace (fun (_ : Z) i => hd 0 i) (fun prev i => [edge_spec k prev (hd 0 i)])
        (fun prev i => [edge_spec k prev (hd 0 i)]) 0.

(* ---- ClockDivider: row [reset] (or [] without a reset port) -> [clkout; q; t; counter value; toggle value] *)
Definition clkdiv_spec_trace (n : Z) (hr : bool) :=
  trace (fun c i => if hr then clkdiv_count c (hd 0 i) else c + 1) nopre (fun c _ => [clkdiv_spec_out n c]) 0.

(* ---- ShiftRegisterBidirectional: row [left_in; right_in; shift_left; shift_right] -> [left_out; right_out] ++ q's ++ values *)
Definition srb_spec_trace (w : Z) (depth : nat) :=
  trace (fun l i => match i with [li; ri; sl; sr] => srb_spec w l (li, ri, sl, sr) | _ => l end) nopre
        (fun l _ => [hd 0 l; last l 0]) (repeat 0 depth).

(* ---- Stack_ShiftRegister: row [din; push; pop] -> [dout] ++ q's ++ values ++ [dout register value] *)
Definition stack_spec_trace (w : Z) (depth : nat) :=
  trace (fun s i => match i with [d; pu; po] => stack_spec w depth s (d, pu, po) | _ => s end) nopre
        (fun s _ => [snd s]) ([], 0).

(* ---- SynchronousMemory: row [ra; wa; we; wd] -> [readdata] ++ data *)
Definition mem_spec_trace (wr : Z) :=
  trace (fun s i => match i with [ra; wa; we; wd] => mem_spec wr s (ra, wa, we, wd) | _ => s end) nopre
        (fun s _ => [snd s]) mem_spec_init.

(* ---- AutoReset: row [] -> [reset; state] *)
Definition dp_spec_trace (wra wrb : Z) :=
  trace (fun s i => match i with [raa; waa; wa; wda; rab; wab; wb; wdb] => dp_spec wra wrb s ((raa, waa, wa, wda), (rab, wab, wb, wdb)) | _ => s end) nopre
        (fun s _ => [fst (snd s); snd (snd s)]) dp_spec_init.
Definition ar_spec_trace (w : Z) :=
  trace (fun k (_ : list Z) => S k) nopre (fun k _ => [autoreset_spec w k]) O.

(* ---- comparison with the implementation's rows: Some (step, (column, impl, ours)) at the first difference *)
Fixpoint diff_row (k : nat) (e g : list Z) : option (nat * Z * Z) :=
  match e, g with
  | [], [] => None
  | x :: e', y :: g' => if x =? y then diff_row (S k) e' g' else Some (k, x, y)
  | x :: _, [] => Some (k, x, -1)
  | [], y :: _ => Some (k, -1, y)
  end.
Fixpoint first_diff_from (t : nat) (exp got : list (list Z)) : option (nat * (nat * Z * Z)) :=
  match exp, got with
  | [], [] => None
  | e :: exp', g :: got' =>
      match diff_row 0 e g with Some r => Some (t, r) | None => first_diff_from (S t) exp' got' end
  | _, _ => Some (t, (O, -7, -7))
  end.
(* impl rows are full rows (row 0 = power-up, which the reference machines do not describe); the spec rows cover the first (length spec row) columns of them *)
Fixpoint prefix_rows (exp got : list (list Z)) : list (list Z) :=
  match exp, got with
  | e :: exp', g :: got' => firstn (length g) e :: prefix_rows exp' got'
  | _, _ => exp
  end.
Definition cmp (impl model spec : list (list Z)) : option (nat * (nat * Z * Z)) * option (nat * (nat * Z * Z)) :=
  (first_diff_from 0 impl model, first_diff_from 1 (prefix_rows (tl impl) spec) spec).
(* the same for the LAST row only (row number n): used for the exploration cases, whose prefixes are cases of their own *)
Definition cmp_last (n : nat) (row : list Z) (model spec : list (list Z)) : option (nat * (nat * Z * Z)) * option (nat * (nat * Z * Z)) :=
  (match diff_row 0 row (last model []) with Some r => Some (n, r) | None => None end,
   match diff_row 0 (firstn (length (last spec [])) row) (last spec []) with Some r => Some (n, r) | None => None end).
(* keep only the failing cases of a batch *)
Definition failing (rs : list (option (nat * (nat * Z * Z)) * option (nat * (nat * Z * Z)))) :=
  filter (fun p => match snd p with (None, None) => false | _ => true end) (combine (seq 0 (length rs)) rs).

(* embedded runs: every row (power-up included) is compared with the model and, on the output columns, with the reference machine *)
Definition ecmp (impl model spec : list (list Z)) : option (nat * (nat * Z * Z)) * option (nat * (nat * Z * Z)) :=
  (first_diff_from 0 impl model, first_diff_from 0 (prefix_rows impl spec) spec).
Definition ecmp_spec (impl spec : list (list Z)) : option (nat * (nat * Z * Z)) * option (nat * (nat * Z * Z)) :=
  (None, first_diff_from 0 (prefix_rows impl spec) spec).
(* spec-only comparison *)
Definition cmp_spec (impl spec : list (list Z)) : option (nat * (nat * Z * Z)) * option (nat * (nat * Z * Z)) :=
  (None, first_diff_from 1 (prefix_rows (tl impl) spec) spec).
Definition cmp_last_spec (n : nat) (row : list Z) (spec : list (list Z)) : option (nat * (nat * Z * Z)) * option (nat * (nat * Z * Z)) :=
  (None, match diff_row 0 (firstn (length (last spec [])) row) (last spec []) with Some r => Some (n, r) | None => None end).

(* ---- the same machines observed inside a larger design (see etrace): generated from the definitions above *)
Definition reg_spec_etrace (w : Z) (he hr : bool) (rv : Z) :=
  etrace (fun s i => match i with [d; e; r] => reg_spec w he hr rv s (d, e, r) | _ => s end) nopre
        (fun s _ => [s]) (reg_spec_init w rv).
Definition treg_spec_etrace (he hr : bool) :=
  etrace (fun s i => match i with [t; e; r] => treg_spec he hr s (t, e, r) | _ => s end) nopre (fun s _ => [s]) 0.
Definition counter_spec_etrace (w : Z) (hi hr : bool) :=
  etrace (fun s i => match i with [r; n] => counter_spec w hi hr s (r, n) | _ => s end) nopre (fun s _ => [s]) 0.
Definition modcounter_spec_etrace (m : Z) :=
  etrace (fun s i => match i with [r; n] => modcounter_spec m s (r, n) | _ => s end) nopre
        (fun s _ => [s; modcounter_carry_spec m s]) 0.
Definition stepup_spec_etrace (w : Z) (hr : bool) :=
  etrace (fun s i => match i with [r; n; st] => stepup_spec w hr s (r, n, st) | _ => s end) nopre (fun s _ => [s]) 0.
Definition delay_spec_etrace (w wr : Z) (he hr : bool) (delay : nat) :=
  etrace (fun log i => match i with [a; e; r] => delay_log he hr log (a, e, r) | _ => log end)
        (fun log i => [delay_spec_out w wr delay log (hd 0 i)])
        (fun log i => [delay_spec_out w wr delay log (hd 0 i)]) [].
Definition pipe_spec_etrace (ws : list Z) :=
  etrace (fun (_ : list Z) i => pipe_spec ws (removelast i) (last i 0)) nopre (fun s _ => s) [].
Definition edge_spec_etrace (k : edge_kind) :=
  etrace (fun (_ : Z) i => hd 0 i) (fun prev i => [edge_spec k prev (hd 0 i)])
        (fun prev i => [edge_spec k prev (hd 0 i)]) 0.
Definition clkdiv_spec_etrace (n : Z) (hr : bool) :=
  etrace (fun c i => if hr then clkdiv_count c (hd 0 i) else c + 1) nopre (fun c _ => [clkdiv_spec_out n c]) 0.
Definition srb_spec_etrace (w : Z) (depth : nat) :=
  etrace (fun l i => match i with [li; ri; sl; sr] => srb_spec w l (li, ri, sl, sr) | _ => l end) nopre
        (fun l _ => [hd 0 l; last l 0]) (repeat 0 depth).
Definition stack_spec_etrace (w : Z) (depth : nat) :=
  etrace (fun s i => match i with [d; pu; po] => stack_spec w depth s (d, pu, po) | _ => s end) nopre
        (fun s _ => [snd s]) ([], 0).
Definition mem_spec_etrace (wr : Z) :=
  etrace (fun s i => match i with [ra; wa; we; wd] => mem_spec wr s (ra, wa, we, wd) | _ => s end) nopre
        (fun s _ => [snd s]) mem_spec_init.
Definition dp_spec_etrace (wra wrb : Z) :=
  etrace (fun s i => match i with [raa; waa; wa; wda; rab; wab; wb; wdb] => dp_spec wra wrb s ((raa, waa, wa, wda), (rab, wab, wb, wdb)) | _ => s end) nopre
        (fun s _ => [fst (snd s); snd (snd s)]) dp_spec_init.
Definition ar_spec_etrace (w : Z) :=
  etrace (fun k (_ : list Z) => S k) nopre (fun k _ => [autoreset_spec w k]) O.
