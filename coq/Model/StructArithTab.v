(* C07 — uniform case-file interface to the models: widths/constants W, input values I -> output values.
   Used only by the correspondence sweep (py/props/c07.py); nothing is proved about these wrappers. *)
From V Require Import Base.PyInt Gen.WireOps Gen.Helpers Gen.Prims Model.StructArith.

Definition gi (l : list Z) (i : nat) : Z := nth i l 0.
Definition pr (p : Z * Z) : list Z := [fst p; snd p].

(* W = [wa; wb; wci; wr] *)
Definition mt_AddCarryIn W I := [AddCarryIn_propagate (gi W 3) (gi I 0) (gi I 1) (gi I 2)].
Definition mt_Add W I := [m_Add (gi W 3) None (gi I 0) (gi I 1)].
Definition mt_Add_ci W I := [m_Add (gi W 3) (Some (gi I 2)) (gi I 0) (gi I 1)].
Definition mt_Add_co W I := pr (m_Add_co (gi W 3) 1 None (gi I 0) (gi I 1)).
Definition mt_Add_ci_co W I := pr (m_Add_co (gi W 3) 1 (Some (gi I 2)) (gi I 0) (gi I 1)).
Definition mt_SignedAdd W I := [m_SignedAdd (gi W 0) (gi W 1) (gi W 3) None (gi I 0) (gi I 1)].
Definition mt_SignedAdd_ci W I := [m_SignedAdd (gi W 0) (gi W 1) (gi W 3) (Some (gi I 2)) (gi I 0) (gi I 1)].
Definition mt_SignedAdd_co W I := pr (m_SignedAdd_co (gi W 0) (gi W 1) (gi W 3) 1 None (gi I 0) (gi I 1)).
Definition mt_SignedAdd_ci_co W I := pr (m_SignedAdd_co (gi W 0) (gi W 1) (gi W 3) 1 (Some (gi I 2)) (gi I 0) (gi I 1)).

Definition mt_SubBorrowIn W I := [SubBorrowIn_propagate (gi W 3) (gi I 0) (gi I 1) (gi I 2)].

(* W = [wa; wb; wr] *)
Definition mt_Sub W I := [Sub_propagate (gi W 2) (gi I 0) (gi I 1)].
Definition mt_SignedSub W I := [m_SignedSub (gi W 0) (gi W 1) (gi W 2) (gi I 0) (gi I 1)].
Definition mt_Mul W I := [Mul_propagate (gi W 2) (gi I 0) (gi I 1)].
Definition mt_SignedMul W I := [SignedMul_propagate (gi W 0) (gi W 1) (gi W 2) (gi I 0) (gi I 1)].
Definition mt_Div W I := [Div_propagate (gi W 2) 0 (gi I 0) (gi I 1)].
Definition mt_Mod W I := [Mod_propagate (gi W 2) 0 (gi I 0) (gi I 1)].
Definition mt_SignedDiv W I := [m_SignedDiv (gi W 0) (gi W 1) (gi W 2) 0 (gi I 0) (gi I 1)].
Definition mt_ShiftRightL W I := [m_ShiftRight ALogical (gi W 0) (gi W 1) (gi W 2) (gi I 0) (gi I 1)].
Definition mt_ShiftRightA W I := [m_ShiftRight AArith (gi W 0) (gi W 1) (gi W 2) (gi I 0) (gi I 1)].
Definition mt_ShiftRightW W I := [m_ShiftRight (AWire (gi I 2)) (gi W 0) (gi W 1) (gi W 2) (gi I 0) (gi I 1)].
Definition mt_ShiftLeft W I := [m_ShiftLeft (gi W 0) (gi W 1) (gi W 2) (gi I 0) (gi I 1)].
Definition mt_RotateRight W I := [m_RotateRight (gi W 0) (gi W 1) (gi W 2) (gi I 0) (gi I 1)].
Definition mt_RotateLeft W I := [m_RotateLeft (gi W 0) (gi W 1) (gi W 2) (gi I 0) (gi I 1)].

(* W = [wa; wr] *)
Definition mt_Neg W I := [m_Neg (gi W 1) (gi I 0)].
Definition mt_Abs W I := [m_Abs (gi W 0) (gi W 1) (gi I 0)].
Definition mt_Abs_inv W I := [m_Abs (gi W 0) (gi W 1) (gi I 0); m_Sign (gi W 0) (gi I 0)].
Definition mt_Sign W I := [m_Sign (gi W 0) (gi I 0)].
Definition mt_SignExtend W I := [SignExtend_propagate (gi W 0) (gi W 1) (gi I 0)].
Definition mt_ZeroExtend W I := [ZeroExtend_propagate (gi W 1) (gi I 0)].
Definition mt_CountLeadingZeros W I := pr (m_CountLeadingZeros (gi W 0) (gi W 1) (gi I 0)).
Definition mt_BinaryToBCD W I := [m_BinaryToBCD (gi W 0) (gi W 1) 0 (gi I 0)].

(* W = [wa; n; wr] *)
Definition mt_ShiftLeftConstant W I := [ShiftLeftConstant_propagate (gi W 2) (gi W 1) (gi I 0)].
Definition mt_ShiftRightConstant W I := [ShiftRightConstant_propagate (gi W 2) (gi W 1) (gi I 0)].
Definition mt_RotateLeftConstant W I := [RotateLeftConstant_propagate (gi W 0) (gi W 2) (gi W 1) (gi I 0)].
Definition mt_RotateRightConstant W I := [RotateRightConstant_propagate (gi W 0) (gi W 2) (gi W 1) (gi I 0)].

(* W = [w] *)
Definition mt_c2_to_signed W I := [IntegerHelper_c2_to_signed (gi I 0) (gi W 0)].
Definition mt_signed_to_c2 W I := [IntegerHelper_signed_to_c2 (gi I 0) (gi W 0)].

(* all input tuples of the given ranges, lexicographic, first component slowest (itertools.product order) *)
Fixpoint prodZ (ns : list Z) : list (list Z) :=
  match ns with
  | [] => [[]]
  | n :: t => flat_map (fun x => map (cons x) (prodZ t)) (seqZ 0 n)
  end.
