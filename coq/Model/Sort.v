(* Hand-written, step-for-step model of Simulator.topologicalSort and Simulator.findFirstDependentPosition
   (py4hw/simulation.py).  NO PROOFS here.

   Leaves are numbered (nat); the list is Simulator.propagatables.  The dependency graph is
       succ x = the propagatable sinks of the out-wires of leaf x, in the order the code collects them
                (for port in obj.outPorts: for sinkPort in port.wire.getSinks(): if sink.isPropagatable()).

   findFirstDependentPosition(obj):  -1 when there is no sink, else the minimum of propagatables.index(sink).
       first_dep l x = None | Some (min index).   list.index raises ValueError for an absent element; the model's
       index_of returns length l instead, and every theorem assumes `closed` (each sink is in the list), which is
       what the real code needs not to raise.

   topologicalSort:   while anyChange:  loopcount += 1; anyChange = False; if loopcount > 1000: raise 'Excessive loop count'
                          for i in range(len(propagatables)):
                              leaf = propagatables[i]; pos = findFirstDependentPosition(leaf)
                              if pos == i: raise 'Combinational loop: <leaf> drives one of its own inputs'
                              if pos >= 0 and pos < i:  swap positions pos and i;  anyChange = True
       pass_from n i l ch = the for loop from index i with n iterations left, over the CURRENT list l:
                            PassOk l' ch' | PassLoop x (the raise, x = the leaf named in the message);
       sort_fuel K l      = at most K passes: Sorted l' when a pass reports no change, LoopError x, or LimitError
                            (the code's constant is K = 1000: passes 1..1000 run, the 1001st raises). *)
From Coq Require Import List Arith Bool PeanoNat.
Import ListNotations.

Section Sort.
Variable succ : nat -> list nat.

Fixpoint index_of (x : nat) (l : list nat) : nat :=
  match l with [] => 0 | y :: t => if Nat.eqb x y then 0 else S (index_of x t) end.

(* minPos = index(sinks[0]); for s in sinks: pos = index(s); if pos < minPos: minPos = pos *)
Definition first_dep (l : list nat) (x : nat) : option nat :=
  match succ x with
  | [] => None
  | s0 :: ss => Some (fold_left (fun m s => Nat.min m (index_of s l)) (s0 :: ss) (index_of s0 l))
  end.

Fixpoint set_nth (l : list nat) (i v : nat) : list nat :=
  match l, i with
  | [], _ => []
  | _ :: t, 0 => v :: t
  | y :: t, S i' => y :: set_nth t i' v
  end.

(* first = l[p]; l[p] = l[i]; l[i] = first *)
Definition swap (l : list nat) (p i : nat) : list nat :=
  set_nth (set_nth l p (nth i l 0)) i (nth p l 0).

Inductive pass_result := PassOk (l : list nat) (ch : bool) | PassLoop (x : nat).
Inductive sort_result := Sorted (l : list nat) | LoopError (x : nat) | LimitError.

Fixpoint pass_from (n i : nat) (l : list nat) (ch : bool) : pass_result :=
  match n with
  | 0 => PassOk l ch
  | S n' =>
      match first_dep l (nth i l 0) with
      | Some p => if Nat.eqb p i then PassLoop (nth i l 0)
                  else if Nat.ltb p i then pass_from n' (S i) (swap l p i) true
                  else pass_from n' (S i) l ch
      | None => pass_from n' (S i) l ch
      end
  end.

Definition pass (l : list nat) : pass_result := pass_from (length l) 0 l false.

Fixpoint sort_fuel (K : nat) (l : list nat) : sort_result :=
  match K with
  | 0 => LimitError
  | S K' => match pass l with
            | PassLoop x => LoopError x
            | PassOk l' ch => if ch then sort_fuel K' l' else Sorted l'
            end
  end.
End Sort.

(* the graph as a table (used by the correspondence cases): succ x = nth x tbl [] *)
Definition succ_tbl (tbl : list (list nat)) (x : nat) : list nat := nth x tbl [].

(* Simulator.topologicalSort on a netlist whose n propagatable leaves were instantiated in the order 0..n-1 *)
Definition py4hw_loop_limit : nat := 1000.
Definition topologicalSort (tbl : list (list nat)) : sort_result :=
  sort_fuel (succ_tbl tbl) py4hw_loop_limit (seq 0 (length tbl)).

(* the pass limit as the code computes it from the number of leaves; the check reads the expression of the
   `if (loopcount > ...)` test from /repo on every run and evaluates it for each netlist (constant 1000 at the pinned
   commit; max(1000, n + 1) with fixes/C04-passlimit.diff) *)
Definition topologicalSort_with (lim : nat) (tbl : list (list nat)) : sort_result :=
  sort_fuel (succ_tbl tbl) lim (seq 0 (length tbl)).
Definition scaled_limit (n : nat) : nat := Nat.max py4hw_loop_limit (S n).

(* printable encoding for the correspondence cases: (0, order) | (1, [leaf named by the loop error]) | (2, []) *)
Definition encode (r : sort_result) : nat * list nat :=
  match r with Sorted l => (0, l) | LoopError x => (1, [x]) | LimitError => (2, []) end.
