(* C14 — the software reference py4hw.helper.FixedPoint (add / sub / mult on raw encodings), by hand;
   `signExtend` is the REGENERATED helper function (Gen/Helpers.v).  No proofs here.
   Every operation first builds the result object `FixedPoint(sw, iw, fw, 0)`, whose intToFixedPoint
   evaluates `(1 << iw) >> 1` (since /repo 6fe767a, finding C12-23; before: `1 << (iw-1)`, which raised for iw = 0):
   ValueError only for a negative iw — modelled as None.  The check `0 > maxv` never fires (maxv >= 0). *)
From V Require Import Base.PyInt Gen.Helpers Model.Fxp.

Definition fxh_new_ok (F : fmt) : bool := negb (fint F <? 0).

(* r.v = (self.v + b.v) & ((1<<w)-1) *)
Definition fxh_add (F : fmt) (a b : Z) : option Z :=
  if fxh_new_ok F then
    let w := fsign F + fint F + ffrac F in
    Some (Z.land (a + b) ((py_shl 1 w) - 1))
  else None.

Definition fxh_sub (F : fmt) (a b : Z) : option Z :=
  if fxh_new_ok F then
    let w := fsign F + fint F + ffrac F in
    Some (Z.land (a - b) ((py_shl 1 w) - 1))
  else None.

(* av = signExtend(self.v, w, w*2); bv = signExtend(b.v, w, w*2); r.v = ((av*bv) >> self.fw) & ((1<<w)-1) *)
Definition fxh_mult (F : fmt) (a b : Z) : option Z :=
  if fxh_new_ok F then
    let w := fsign F + fint F + ffrac F in
    let av := signExtend a w (w * 2) in
    let bv := signExtend b w (w * 2) in
    Some (Z.land (py_shr (av * bv) (ffrac F)) ((py_shl 1 w) - 1))
  else None.
