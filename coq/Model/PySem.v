(* Python's own meaning of the PySyntax subset: unbounded Z, floor // and %, truthiness, and/or returning an
   operand, Wire.put / Wire.prepare masking to the port width, prepares applied in order by Wire.settleAll.
   One evaluator, parameterised by a guard g on the values at the positions where Verilog's fixed-width
   arithmetic is NOT a ring homomorphism of Z (operands of // % >> comparisons and/or/not, conditions, shift
   amounts, values stored in integer variables):
     g = g_all  : Python's semantics, nothing else (None = Python raises / construct outside the subset);
     g = g_dom  : additionally None as soon as such a value leaves [0, 2^31)  -- "the domain the property grants".
   Results of + - * & | ^ ~ unary- << that only flow into other such operators or into put/prepare (which mask)
   are NOT constrained: a weaker hypothesis than "every intermediate value in [0,2^31)", hence a stronger theorem.
   NO PROOFS in this file. *)
From V Require Import Base.PyInt Model.PySyntax.
Local Open Scope string_scope.
Local Open Scope Z_scope.

Definition store := string -> Z.
Definition lstore := string -> option Z.
Definition upd (s : store) (x : string) (v : Z) : store := fun y => if String.eqb y x then v else s y.
Definition lupd (s : lstore) (x : string) (v : Z) : lstore := fun y => if String.eqb y x then Some v else s y.

Record pystate := { ps_wires : store; ps_attrs : store; ps_locals : lstore; ps_pend : list (string * Z) }.

Definition g_all (v : Z) : bool := true.
Definition g_dom (v : Z) : bool := (0 <=? v) && (v <? 2 ^ 31).

Definition obind {A B} (o : option A) (f : A -> option B) : option B := match o with Some a => f a | None => None end.
Definition guard (g : Z -> bool) (o : option Z) : option Z := obind o (fun v => if g v then Some v else None).

Definition hom_op (o : pybinop) : bool :=
  match o with PAdd | PSub | PMul | PBitAnd | PBitOr | PBitXor => true | _ => false end.
Definition hom_fun (o : pybinop) (a b : Z) : Z :=
  match o with
  | PAdd => a + b | PSub => a - b | PMul => a * b
  | PBitAnd => Z.land a b | PBitOr => Z.lor a b | PBitXor => Z.lxor a b
  | _ => 0
  end.
Definition cmp_fun (o : pycmp) (a b : Z) : bool :=
  match o with PEq => a =? b | PNe => negb (a =? b) | PLt => a <? b | PLe => a <=? b | PGt => b <? a | PGe => b <=? a end.

Section Eval.
Variable g : Z -> bool.
Variable st : pystate.

Fixpoint pyev (e : pyexpr) : option Z :=
  match e with
  | PConst n => Some n
  | PGet p => Some (ps_wires st p)
  | PAttr x => Some (ps_attrs st x)
  | PLocal x => ps_locals st x                       (* UnboundLocalError = None *)
  | PBin o a b =>
      if hom_op o then obind (pyev a) (fun va => obind (pyev b) (fun vb => Some (hom_fun o va vb)))
      else match o with
           | PFloorDiv => obind (guard g (pyev a)) (fun va => obind (guard g (pyev b)) (fun vb =>
                            if vb =? 0 then None else Some (va / vb)))
           | PMod => obind (guard g (pyev a)) (fun va => obind (guard g (pyev b)) (fun vb =>
                            if vb =? 0 then None else Some (va mod vb)))
           | PLShift => obind (pyev a) (fun va => obind (guard g (pyev b)) (fun vb =>
                            if vb <? 0 then None else Some (py_shl va vb)))
           | _ => obind (guard g (pyev a)) (fun va => obind (guard g (pyev b)) (fun vb =>
                            if vb <? 0 then None else Some (py_shr va vb)))
           end
  | PUn PInvert a => obind (pyev a) (fun va => Some (Z.lnot va))
  | PUn PUSub a => obind (pyev a) (fun va => Some (- va))
  | PUn PNot a => obind (guard g (pyev a)) (fun va => Some (b2z (va =? 0)))
  | PCmp o a b => obind (guard g (pyev a)) (fun va => obind (guard g (pyev b)) (fun vb => Some (b2z (cmp_fun o va vb))))
  | PBool PAnd a b => obind (guard g (pyev a)) (fun va => if va =? 0 then Some va else guard g (pyev b))
  | PBool POr a b => obind (guard g (pyev a)) (fun va => if va =? 0 then guard g (pyev b) else Some va)
  | PIfExp c a b => obind (guard g (pyev c)) (fun vc => if vc =? 0 then pyev b else pyev a)
  | PUnsupported _ => None
  end.
End Eval.

Definition set_wires (st : pystate) (w : store) := {| ps_wires := w; ps_attrs := ps_attrs st; ps_locals := ps_locals st; ps_pend := ps_pend st |}.
Definition set_attrs (st : pystate) (a : store) := {| ps_wires := ps_wires st; ps_attrs := a; ps_locals := ps_locals st; ps_pend := ps_pend st |}.
Definition set_locals (st : pystate) (l : lstore) := {| ps_wires := ps_wires st; ps_attrs := ps_attrs st; ps_locals := l; ps_pend := ps_pend st |}.
Definition set_pend (st : pystate) (p : list (string * Z)) := {| ps_wires := ps_wires st; ps_attrs := ps_attrs st; ps_locals := ps_locals st; ps_pend := p |}.

Fixpoint assoc (l : list (string * Z)) (x : string) : option Z :=
  match l with [] => None | (y, v) :: t => if String.eqb x y then Some v else assoc t x end.
Definition width_in (l : list (string * Z)) (p : string) : Z := match assoc l p with Some w => w | None => 0 end.

(* widths: the output ports of the block (name, width) *)
Fixpoint pyexec (g : Z -> bool) (outs : list (string * Z)) (s : pystmt) (st : pystate) : option pystate :=
  match s with
  | PSPass => Some st
  | PSSeq a b => obind (pyexec g outs a st) (pyexec g outs b)
  | PSIf c t e => obind (guard g (pyev g st c)) (fun vc => if vc =? 0 then pyexec g outs e st else pyexec g outs t st)
  | PSCase subj k body rest => obind (guard g (pyev g st subj)) (fun vs => if vs =? k then pyexec g outs body st else pyexec g outs rest st)
  | PSAttr x e => obind (guard g (pyev g st e)) (fun v => Some (set_attrs st (upd (ps_attrs st) x v)))
  | PSLocal x e => obind (guard g (pyev g st e)) (fun v => Some (set_locals st (lupd (ps_locals st) x v)))
  | PSPrepare p e => obind (pyev g st e) (fun v => Some (set_pend st (ps_pend st ++ [(p, v mod 2 ^ width_in outs p)])))
  | PSPut p e => obind (pyev g st e) (fun v => Some (set_wires st (upd (ps_wires st) p (v mod 2 ^ width_in outs p))))
  | PSUnsupported _ => None
  end.

(* ---------------------------------------------------------------- the block under the cycle simulator *)
Definition py_init (b : pyblock) : pystate :=
  {| ps_wires := fun _ => 0;
     ps_attrs := fun x => match assoc (b_attrs b) x with Some v => v | None => 0 end;
     ps_locals := fun _ => None; ps_pend := [] |}.

(* external pokes of input wires (Wire.put masks to the width) *)
Definition py_poke (b : pyblock) (st : pystate) (ins : list (string * Z)) : pystate :=
  set_wires st (fold_left (fun w p => upd w (fst p) (snd p mod 2 ^ width_in (b_ins b) (fst p))) ins (ps_wires st)).

(* Wire.settleAll: the prepared wires take their next value, in the order they were prepared *)
Definition py_settle (st : pystate) : pystate :=
  set_pend (set_wires st (fold_left (fun w p => upd w (fst p) (snd p)) (ps_pend st) (ps_wires st))) [].

(* one call of the method: locals are fresh *)
Definition py_call (g : Z -> bool) (b : pyblock) (st : pystate) : option pystate :=
  obind (pyexec g (b_outs b) (b_body b) (set_locals st (fun _ => None))) (fun st' => Some (py_settle st')).

Fixpoint py_cycles (g : Z -> bool) (b : pyblock) (n : nat) (st : pystate) : option pystate :=
  match n with O => Some st | S k => obind (py_call g b st) (py_cycles g b k) end.

(* one simulator step: poke inputs, then n clock cycles (clock blocks) / one propagate (propagate blocks, n ignored) *)
Definition py_step (g : Z -> bool) (b : pyblock) (st : pystate) (ins : list (string * Z)) (n : nat) : option pystate :=
  match b_kind b with
  | KClock => py_cycles g b n (py_poke b st ins)
  | KPropagate => py_call g b (py_poke b st ins)
  end.

Definition py_obs (st : pystate) (ports attrs : list string) : list Z := map (ps_wires st) ports ++ map (ps_attrs st) attrs.

(* trajectory of (output ports ++ attributes) after each step; stops (flag false) at the first step that is not defined
   under g *)
Fixpoint py_run (g : Z -> bool) (b : pyblock) (st : pystate) (steps : list (list (string * Z) * nat)) (ports attrs : list string)
  : list (list Z) * bool :=
  match steps with
  | [] => ([], true)
  | (ins, n) :: rest =>
      match py_step g b st ins n with
      | None => ([], false)
      | Some st' => let '(tr, ok) := py_run g b st' rest ports attrs in (py_obs st' ports attrs :: tr, ok)
      end
  end.

(* the state the simulator starts from: Simulator.__init__ calls propagateAll(), so a propagate block has run once *)
Definition py_start (g : Z -> bool) (b : pyblock) : option pystate :=
  match b_kind b with KClock => Some (py_init b) | KPropagate => py_call g b (py_init b) end.

Definition py_sim (g : Z -> bool) (b : pyblock) (steps : list (list (string * Z) * nat)) (ports attrs : list string)
  : list (list Z) * bool :=
  match py_start g b with
  | None => ([], false)
  | Some st0 => let '(tr, ok) := py_run g b st0 steps ports attrs in (py_obs st0 ports attrs :: tr, ok)
  end.
