(* Model/BuildCheck.v -- glue evaluated by the correspondence check (py/props/c11.py) inside Coq:
   loading a recorded REAL state (canonical dump) as a Model/Build.v state, scanning a recorded real run
   against the Spec/C11.v predicates, and the three integrity verdicts.  No proofs. *)
From Coq Require Import ZArith List Bool Arith.
From V Require Import Model.Build Spec.C11.
Import ListNotations.

Definition dumpT := list (list (list (list Z))).
Definition fld (e : list (list Z)) (i j : nat) : Z := nth j (nth i e []) 0%Z.
Definition unz (z : Z) : nat := Z.to_nat z.
Definition unzo (z : Z) : option nat := if (z <? 0)%Z then None else Some (Z.to_nat z).
Fixpoint untbl (l : list Z) : tbl :=
  match l with k :: v :: r => (k, unz v) :: untbl r | _ => [] end.
Definition unk (z : Z) : portkind := if (z =? 0)%Z then PIn else if (z =? 1)%Z then POut else PInOut.

Definition load (d : dumpT) : state :=
  let os := nth 0 d [] in let ws := nth 1 d [] in let ps := nth 2 d [] in
  let fo {A} (f : list (list Z) -> A) (dflt : A) := tab (map f os) dflt in
  let fw {A} (f : list (list Z) -> A) (dflt : A) := tab (map f ws) dflt in
  let fp {A} (f : list (list Z) -> A) (dflt : A) := tab (map f ps) dflt in
  mkState (length os) (length ws) (length ps)
    (fo (fun e => unzo (fld e 0 0)) None) (fo (fun e => fld e 0 1) 0%Z) (fo (fun e => Z.eqb (fld e 0 2) 1) false)
    (fo (fun e => untbl (nth 1 e [])) []) (fo (fun e => untbl (nth 2 e [])) [])
    (fo (fun e => map unz (nth 3 e [])) []) (fo (fun e => map unz (nth 4 e [])) []) (fo (fun e => map unz (nth 5 e [])) [])
    (fw (fun e => unz (fld e 0 0)) 0) (fw (fun e => fld e 0 1) 0%Z) (fw (fun e => fld e 0 2) 0%Z)
    (fw (fun e => unzo (fld e 0 3)) None) (fw (fun e => map unz (nth 1 e [])) [])
    (fw (fun e => Z.eqb (fld e 0 4) 1) false) (fw (fun e => map unz (nth 2 e [])) [])
    (fp (fun e => unk (fld e 0 0)) PIn) (fp (fun e => unz (fld e 0 1)) 0) (fp (fun e => fld e 0 2) 0%Z) (fp (fun e => unz (fld e 0 3)) 0).

(* bit i of the result is set when clause i FAILS on the recorded real step  s --op--> s'  (r = 1: the call raised) *)
Definition spec_bits (s : state) (o : op) (r : Z) (s' : state) : Z :=
  let b (i : Z) (ok : bool) := if ok then 0%Z else (2 ^ i)%Z in
  (b 0 (single_driver_b s') + b 1 (unique_children_b s') + b 2 (unique_wires_b s')
   + b 3 (children_stay_b s s') + b 4 (drivers_stay_b s s') + b 5 (wires_stay_b s o s')
   + b 6 (match conflict_of s o with Some _ => Z.eqb r 1 | None => true end)
   + b 7 (sinks_exact_b s')
   + b 8 (negb (Z.eqb r 1) || dump_eqb (dump s) (dump s'))     (* a raising call leaves the object graph untouched *)
   + b 9 (all_registered_b s')
   + b 10 (sources_exact_b s'))%Z.

(* failing steps of a recorded real run: (index, failing clauses, was the subject wire registered before the call) *)
Fixpoint spec_scan (s : state) (ops : list op) (rec : list (Z * dumpT)) (i : Z) : list (Z * Z * bool) :=
  match ops, rec with
  | o :: ops', (r, d) :: rec' =>
    let s' := load d in
    let bits := spec_bits s o r s' in
    (if Z.eqb bits 0 then [] else [(i, bits, subject_registered_b s o)]) ++ spec_scan s' ops' rec' (i + 1)%Z
  | _, _ => []
  end.

(* integrity of hierarchy h of a (loaded) state: model verdict (1 = raises, 0 = accepts, 2 = out of fuel),
   spec verdict (some visited port is undriven), and whether a visited in-port has a source that is in
   none of inPorts / outPorts / inOutPorts of its block (the checkPort clause; impossible in a constructed netlist) *)
Definition stray_b (s : state) (h : nat) : bool :=
  existsb (fun o => anc_b (nobj s) s h o &&
                    existsb (fun q => is_some (wsource s (pwire s q)) && in_bad s q) (oin s o))
          (seq 0 (nobj s)).
(* single-fault variant evaluated on the Coq side: the source of wire w removed *)
Definition clear_source (s : state) (w : nat) : state := set_wsource s (upd (wsource s) w None).
(* some visited port is attached to a BidirWire (there getSource fails whatever drives the wire: finding F3) *)
Definition bidir_port_b (s : state) (h : nat) : bool :=
  existsb (fun o => anc_b (nobj s) s h o && existsb (fun q => wbidir s (pwire s q)) (oin s o ++ oout s o)) (seq 0 (nobj s)).
Definition integrity3 (s : state) (h : nat) : Z * bool * Z :=
  ((match checkIntegrity s h with IOk => 0 | IRaise => 1 | IFuel => 2 end)%Z, undriven_port_b s h,
   ((if stray_b s h then 1 else 0) + (if bidir_port_b s h then 2 else 0))%Z).

(* ---------------------------------------------------------------- fast path of the per-call comparison
   The real side sends, per call, its raise flag and a fingerprint of its canonical dump; as long as both agree with
   the model, the model state IS the real state and the Spec clauses are evaluated on it.  At the first disagreement
   the scan stops and returns the model's outcome and dump (the harness then re-sends that sequence with full dumps). *)
Definition mix (h x : Z) : Z := ((h * 1000003 + x + 7) mod 2305843009213693951)%Z.
Definition fp_row (h : Z) (l : list Z) : Z := fold_left mix l (mix h (Z.of_nat (length l))).
Definition fp_ent (h : Z) (e : list (list Z)) : Z := fold_left fp_row e (mix h (Z.of_nat (length e))).
Definition fp_part (h : Z) (p : list (list (list Z))) : Z := fold_left fp_ent p (mix h (Z.of_nat (length p))).
Definition fp_dump (d : dumpT) : Z := fold_left fp_part d 1%Z.

Fixpoint scan_fp (s : state) (ops : list op) (rec : list (Z * Z)) (i : Z)
  : option (Z * Z * dumpT) * list (Z * Z * bool) * state :=
  match ops, rec with
  | o :: ops', (r, fp) :: rec' =>
    let '(s', out) := step s o in
    if Z.eqb (raised out) r && Z.eqb (fp_dump (dump s')) fp then
      let bits := spec_bits s o r s' in
      let '(d, l, sf) := scan_fp s' ops' rec' (i + 1)%Z in
      (d, (if Z.eqb bits 0 then [] else [(i, bits, subject_registered_b s o)]) ++ l, sf)
    else (Some (i, raised out, dump s'), [], s)
  | _, _ => (None, [], s)
  end.
Definition scan_fast (ops : list op) (rec : list (Z * Z)) (hs : list nat)
  : option (Z * Z * dumpT) * list (Z * Z * bool) * list (Z * bool * Z) :=
  let '(d, l, sf) := scan_fp init ops rec 0%Z in
  (d, l, match d with None => map (integrity3 sf) hs | Some _ => [] end).

(* the same scan after a prefix of calls that is executed on the model without comparison (exhaustive sweeps share
   their set-up prefix; the prefix itself is compared once as an ordinary sequence) *)
Definition scan_fast_from (pre ops : list op) (rec : list (Z * Z)) (hs : list nat)
  : option (Z * Z * dumpT) * list (Z * Z * bool) * list (Z * bool * Z) :=
  let '(d, l, sf) := scan_fp (run pre) ops rec 0%Z in
  (d, l, match d with None => map (integrity3 sf) hs | Some _ => [] end).

(* well-formedness clauses of a hierarchy read off real objects (bit set = clause FAILS): single driver (the source of
   every wire is exactly the out/inout port of a block WITH BEHAVIOUR attached to it), unique children, unique wires *)
Definition wf_bits (s : state) : Z :=
  let b (i : Z) (ok : bool) := if ok then 0%Z else (2 ^ i)%Z in
  (b 0 (single_driver_b s) + b 1 (unique_children_b s) + b 2 (unique_wires_b s) + b 10 (sources_exact_b s))%Z.
