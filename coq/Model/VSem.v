(* Meaning of the emitted Verilog subset, after IEEE 1364-2005 clauses 5.4/5.5 (expression sizing and
   signedness), 6.1 (continuous assignment), 9.2 (blocking / non-blocking), 12 (hierarchy by elaboration).
   Two-valued (relaxed) semantics: an uninitialised reg/integer is 0 (FPGA power-up convention); the
   strict reading (x) is handled by a separate static check "every reg has an initialiser".
   Cycle abstraction of the event scheduler for synchronous designs: set inputs, settle the continuous
   assignments / @* processes to their fixpoint, run every posedge process of the (single) clock with
   blocking assignments immediate and non-blocking ones queued, apply the queue, settle.
   Memories (`reg [w-1:0] m [0:d-1]`) are elaborated into d word nets (power-up 0, as the Python `[0]*d`): a word read m[i] is the
   selection chain (i == 0) ? m0 : (i == 1) ? m1 : ... : m(d-1) (an index beyond the depth, x in Verilog, reads the last word: the
   emitted memories have depth 2^(address width) or an index reduced modulo the depth) and a word write m[i] = e / m[i] <= e is
   `if (i == 0) m0 = e; if (i == 1) m1 = e; ...` (at most one fires; the emitted index never depends on the written word).
   Out of model (elaboration returns an error): x/z, delays, derived or gated clocks, negedge.
   NO PROOFS in this file. *)
From V Require Import Base.PyInt Model.VSyntax.
Local Open Scope string_scope.
Local Open Scope list_scope.
Local Open Scope Z_scope.

(* ---------------------------------------------------------------- resolved syntax *)
Inductive rexpr :=
  | RNum (n : Z) | RSized (w n : Z)
  | RId (i : nat) (w : Z) (sg : bool)
  | RBit (i : nat) (w : Z) (idx : rexpr)
  | RPart (i : nat) (hi lo : Z)
  | RUn (o : unop) (e : rexpr) | RBin (o : binop) (a b : rexpr) | RCond (c a b : rexpr)
  | RConcat (a b : rexpr) | RRepl (n : Z) (e : rexpr) | RSigned (e : rexpr).

Inductive rlval := RLId (i : nat) (w : Z) | RLPart (i : nat) (hi lo : Z) | RLIdx (i : nat) (w : Z) (idx : rexpr).

Inductive rstmt :=
  | RSkip | RSeq (a b : rstmt) | RIf (c : rexpr) (t e : rstmt) | RBlk (l : rlval) (e : rexpr) | RNba (l : rlval) (e : rexpr).

Record fnet := { fn_name : string; fn_width : Z; fn_signed : bool; fn_init : Z; fn_isreg : bool }.
Inductive ptrig := TPos (clk : nat) | TStar | TInit.
Record flat := { f_nets : list fnet; f_assigns : list (rlval * rexpr); f_procs : list (ptrig * rstmt) }.

(* ---------------------------------------------------------------- sizes and types (Table 5-22, 5.5.1) *)
Definition arith_op (o : binop) : bool :=
  match o with BAdd | BSub | BMul | BDiv | BMod | BAnd | BOr | BXor => true | _ => false end.
Definition shift_op (o : binop) : bool := match o with BShl | BShr => true | _ => false end.

Fixpoint rsize (e : rexpr) : Z :=
  match e with
  | RNum _ => 32 | RSized w _ => w | RId _ w _ => w | RBit _ _ _ => 1 | RPart _ hi lo => hi - lo + 1
  | RUn ULNot _ => 1 | RUn _ e => rsize e
  | RBin o a b => if arith_op o then Z.max (rsize a) (rsize b) else if shift_op o then rsize a else 1
  | RCond _ a b => Z.max (rsize a) (rsize b)
  | RConcat a b => rsize a + rsize b
  | RRepl n e => n * rsize e
  | RSigned e => rsize e
  end.

Fixpoint rsigned (e : rexpr) : bool :=
  match e with
  | RNum _ => true | RSized _ _ => false | RId _ _ sg => sg | RBit _ _ _ => false | RPart _ _ _ => false
  | RUn ULNot _ => false | RUn _ e => rsigned e
  | RBin o a b => if arith_op o then rsigned a && rsigned b else if shift_op o then rsigned a else false
  | RCond _ a b => rsigned a && rsigned b
  | RConcat _ _ => false | RRepl _ _ => false | RSigned _ => true
  end.

(* ---------------------------------------------------------------- values *)
Definition vtrunc (w v : Z) : Z := v mod 2 ^ w.
Definition to_signed (w v : Z) : Z := if 2 ^ (w - 1) <=? v then v - 2 ^ w else v.
(* a value v of width lw taken to width w: sign-extended iff sg *)
Definition extend (sg : bool) (lw w v : Z) : Z := if sg then vtrunc w (to_signed lw v) else vtrunc w v.
Definition getv (env : list Z) (i : nat) : Z := nth i env 0.

Definition bop (o : binop) (a b : Z) : Z :=
  match o with
  | BAdd => a + b | BSub => a - b | BMul => a * b
  | BAnd => Z.land a b | BOr => Z.lor a b | BXor => Z.lxor a b
  | _ => 0
  end.

(* evaluate e in a context of width w and propagated type sg; result in [0, 2^w) *)
Fixpoint reval (env : list Z) (w : Z) (sg : bool) (e : rexpr) {struct e} : Z :=
  let self x := reval env (rsize x) (rsigned x) x in
  match e with
  | RNum n => extend sg 32 w (vtrunc 32 n)
  | RSized lw n => extend sg lw w (vtrunc lw n)
  | RId i lw _ => extend sg lw w (getv env i)
  | RBit i lw idx =>
      let k := self idx in
      if (0 <=? k) && (k <? lw) then vtrunc w (Z.land (Z.shiftr (getv env i) k) 1) else 0
  | RPart i hi lo => vtrunc w (vtrunc (hi - lo + 1) (Z.shiftr (getv env i) lo))
  | RUn UNot a => vtrunc w (Z.lnot (reval env w sg a))
  | RUn UNeg a => vtrunc w (- reval env w sg a)
  | RUn ULNot a => vtrunc w (b2z (self a =? 0))
  | RBin o a b =>
      if arith_op o then
        match o with
        | BDiv => let x := reval env w sg a in let y := reval env w sg b in
                  if sg then vtrunc w (Z.quot (to_signed w x) (to_signed w y)) else vtrunc w (Z.quot x y)
        | BMod => let x := reval env w sg a in let y := reval env w sg b in
                  if sg then vtrunc w (Z.rem (to_signed w x) (to_signed w y)) else vtrunc w (Z.rem x y)
        | _ => vtrunc w (bop o (reval env w sg a) (reval env w sg b))
        end
      else if shift_op o then
        match o with
        | BShl => vtrunc w (Z.shiftl (reval env w sg a) (self b))
        | _ => vtrunc w (Z.shiftr (reval env w sg a) (self b))
        end
      else
        match o with
        | BLAnd => vtrunc w (b2z (negb (self a =? 0) && negb (self b =? 0)))
        | BLOr => vtrunc w (b2z (negb (self a =? 0) || negb (self b =? 0)))
        | _ =>
            let cw := Z.max (rsize a) (rsize b) in
            let csg := rsigned a && rsigned b in
            let x := reval env cw csg a in let y := reval env cw csg b in
            let x' := if csg then to_signed cw x else x in
            let y' := if csg then to_signed cw y else y in
            vtrunc w (b2z (match o with
                           | BEq => x' =? y' | BNe => negb (x' =? y') | BLt => x' <? y' | BLe => x' <=? y'
                           | BGt => y' <? x' | _ => y' <=? x' end))
        end
  | RCond c a b => if self c =? 0 then reval env w sg b else reval env w sg a
  | RConcat a b => vtrunc w (Z.lor (Z.shiftl (self a) (rsize b)) (self b))
  | RRepl n a =>
      let v := self a in let k := rsize a in
      vtrunc w (fold_left (fun acc _ => Z.lor (Z.shiftl acc k) v) (seq 0 (Z.to_nat n)) 0)
  | RSigned a => extend sg (rsize a) w (self a)
  end.

Definition rself (env : list Z) (e : rexpr) : Z := reval env (rsize e) (rsigned e) e.

Definition lwidth (l : rlval) : Z :=
  match l with RLId _ w => w | RLPart _ hi lo => hi - lo + 1 | RLIdx _ _ _ => 1 end.

(* the value an assignment l = e stores: context = max(width l, size e), then truncation to l *)
Definition assign_value (env : list Z) (l : rlval) (e : rexpr) : Z :=
  vtrunc (lwidth l) (reval env (Z.max (lwidth l) (rsize e)) (rsigned e) e).

(* a resolved write target: net, low bit, width *)
Definition target := (nat * Z * Z)%type.
Definition ltarget (env : list Z) (l : rlval) : option target :=
  match l with
  | RLId i w => Some (i, 0, w)
  | RLPart i hi lo => Some (i, lo, hi - lo + 1)
  | RLIdx i w idx => let k := rself env idx in if (0 <=? k) && (k <? w) then Some (i, k, 1) else None
  end.

Definition write (env : list Z) (t : target) (v : Z) : list Z :=
  let '(i, lo, w) := t in
  let old := getv env i in
  let cleared := old - Z.shiftl (vtrunc w (Z.shiftr old lo)) lo in
  set_nth env i (cleared + Z.shiftl (vtrunc w v) lo).

(* ---------------------------------------------------------------- continuous assignment / settle *)
Definition do_assign (env : list Z) (a : rlval * rexpr) : list Z :=
  match ltarget env (fst a) with
  | Some t => write env t (assign_value env (fst a) (snd a))
  | None => env
  end.

(* procedural execution: blocking writes are immediate, non-blocking ones are queued *)
Fixpoint exec (s : rstmt) (st : list Z * list (target * Z)) : list Z * list (target * Z) :=
  match s with
  | RSkip => st
  | RSeq a b => exec b (exec a st)
  | RIf c t e => if rself (fst st) c =? 0 then exec e st else exec t st
  | RBlk l e => match ltarget (fst st) l with
                | Some t => (write (fst st) t (assign_value (fst st) l e), snd st)
                | None => st end
  | RNba l e => match ltarget (fst st) l with
                | Some t => (fst st, snd st ++ [(t, assign_value (fst st) l e)])
                | None => st end
  end.

Definition apply_nbas (env : list Z) (q : list (target * Z)) : list Z :=
  fold_left (fun env p => write env (fst p) (snd p)) q env.

Definition run_star (f : flat) (env : list Z) : list Z :=
  fold_left (fun env p => match fst p with
                          | TStar => let '(e1, q) := exec (snd p) (env, []) in apply_nbas e1 q
                          | _ => env end) (f_procs f) env.

Definition settle_pass (f : flat) (env : list Z) : list Z := run_star f (fold_left do_assign (f_assigns f) env).

Fixpoint list_eqb (a b : list Z) : bool :=
  match a, b with [] , [] => true | x :: a', y :: b' => (x =? y) && list_eqb a' b' | _, _ => false end.

Fixpoint settle (f : flat) (fuel : nat) (env : list Z) : list Z * bool :=
  match fuel with
  | O => (env, false)
  | S k => let env' := settle_pass f env in if list_eqb env env' then (env, true) else settle f k env'
  end.

Definition settle_fuel (f : flat) : nat := S (S (length (f_assigns f) + length (f_procs f))).

(* ---------------------------------------------------------------- power-up and clock cycle *)
Definition power_up (f : flat) : list Z :=
  let env0 := map (fun n => vtrunc (fn_width n) (fn_init n)) (f_nets f) in
  fold_left (fun env p => match fst p with
                          | TInit => let '(e1, q) := exec (snd p) (env, []) in apply_nbas e1 q
                          | _ => env end) (f_procs f) env0.

Definition set_inputs (f : flat) (env : list Z) (ins : list (nat * Z)) : list Z :=
  fold_left (fun env p => set_nth env (fst p) (vtrunc (fn_width (nth (fst p) (f_nets f) {| fn_name := ""; fn_width := 0; fn_signed := false; fn_init := 0; fn_isreg := false |})) (snd p))) ins env.

Definition edge (f : flat) (clk : nat) (env : list Z) : list Z :=
  let '(e1, q) := fold_left (fun st p => match fst p with
                                         | TPos c => if Nat.eqb c clk then exec (snd p) st else st
                                         | _ => st end) (f_procs f) (env, []) in
  apply_nbas e1 q.

(* one simulator step: poke inputs, then n clock cycles (n = 0: combinational settle only).
   Returns the environment and whether every settle reached a fixpoint. *)
Fixpoint vcycles (f : flat) (clk : option nat) (n : nat) (env : list Z) (ok : bool) : list Z * bool :=
  match n with
  | O => (env, ok)
  | S k =>
      match clk with
      | None => (env, ok)
      | Some c => let '(e2, ok2) := settle f (settle_fuel f) (edge f c env) in vcycles f clk k e2 (ok && ok2)
      end
  end.

Definition vstep (f : flat) (clk : option nat) (env : list Z) (ins : list (nat * Z)) (n : nat) : list Z * bool :=
  let '(e1, ok1) := settle f (settle_fuel f) (set_inputs f env ins) in
  vcycles f clk n e1 ok1.

(* ---------------------------------------------------------------- elaboration (flattening with renaming) *)
Inductive binding := BNet (i : nat) (w : Z) (sg : bool) | BParam (v : Z) | BMem (base : nat) (w : Z) (depth : nat).

(* word k, k+1, ..., k+n of a memory whose first word is net `base` *)
Fixpoint mem_read (base : nat) (w : Z) (k n : nat) (idx : rexpr) : rexpr :=
  match n with
  | O => RId (base + k) w false
  | S n' => RCond (RBin BEq idx (RNum (Z.of_nat k))) (RId (base + k) w false) (mem_read base w (S k) n' idx)
  end.
Fixpoint mem_write (nb : bool) (base : nat) (w : Z) (k n : nat) (idx e : rexpr) : rstmt :=
  match n with
  | O => RSkip
  | S n' => RSeq (RIf (RBin BEq idx (RNum (Z.of_nat k))) ((if nb then RNba else RBlk) (RLId (base + k) w) e) RSkip)
                 (mem_write nb base w (S k) n' idx e)
  end.
Definition scope := list (string * binding).

Fixpoint lookup (sc : scope) (x : string) : option binding :=
  match sc with [] => None | (y, b) :: t => if String.eqb x y then Some b else lookup t x end.

Fixpoint res_expr (sc : scope) (e : expr) : option rexpr :=
  match e with
  | EId x => match lookup sc x with Some (BNet i w sg) => Some (RId i w sg) | Some (BParam v) => Some (RNum v) | _ => None end
  | ENum n => Some (RNum n)
  | ESized w n => Some (RSized w n)
  | EBit x i => match lookup sc x, res_expr sc i with
               | Some (BNet k w _), Some i' => Some (RBit k w i')
               | Some (BMem base w (S n)), Some i' => Some (mem_read base w 0 n i')
               | _, _ => None end
  | EPart x hi lo => match lookup sc x with Some (BNet k w _) => Some (RPart k hi lo) | _ => None end
  | EUn o a => option_map (RUn o) (res_expr sc a)
  | EBin o a b => match res_expr sc a, res_expr sc b with Some a', Some b' => Some (RBin o a' b') | _, _ => None end
  | ECond c a b => match res_expr sc c, res_expr sc a, res_expr sc b with Some c', Some a', Some b' => Some (RCond c' a' b') | _, _, _ => None end
  | EConcat a b => match res_expr sc a, res_expr sc b with Some a', Some b' => Some (RConcat a' b') | _, _ => None end
  | ERepl n a => option_map (RRepl n) (res_expr sc a)
  | ESigned a => option_map RSigned (res_expr sc a)
  end.

Definition res_lval (sc : scope) (l : lval) : option rlval :=
  match l with
  | LId x => match lookup sc x with Some (BNet i w _) => Some (RLId i w) | _ => None end
  | LPart x hi lo => match lookup sc x with Some (BNet i _ _) => Some (RLPart i hi lo) | _ => None end
  | LIdx x i => match lookup sc x, res_expr sc i with Some (BNet k w _), Some i' => Some (RLIdx k w i') | _, _ => None end
  end.

(* a write to a memory word (the l-value did not resolve to a net) *)
Definition res_mem_write (sc : scope) (nb : bool) (l : lval) (e' : rexpr) : option rstmt :=
  match l with
  | LIdx x i => match lookup sc x, res_expr sc i with
                | Some (BMem base w depth), Some i' => Some (mem_write nb base w 0 depth i' e')
                | _, _ => None end
  | _ => None
  end.

Fixpoint res_stmt (sc : scope) (s : stmt) : option rstmt :=
  match s with
  | SSkip => Some RSkip
  | SSeq a b => match res_stmt sc a, res_stmt sc b with Some a', Some b' => Some (RSeq a' b') | _, _ => None end
  | SIf c t e => match res_expr sc c, res_stmt sc t, res_stmt sc e with Some c', Some t', Some e' => Some (RIf c' t' e') | _, _, _ => None end
  | SBlk l e => match res_lval sc l, res_expr sc e with
                | Some l', Some e' => Some (RBlk l' e')
                | None, Some e' => res_mem_write sc false l e'
                | _, _ => None end
  | SNba l e => match res_lval sc l, res_expr sc e with
                | Some l', Some e' => Some (RNba l' e')
                | None, Some e' => res_mem_write sc true l e'
                | _, _ => None end
  end.

Fixpoint find_module (d : design) (name : string) : option vmodule :=
  match d with [] => None | m :: t => if String.eqb (m_name m) name then Some m else find_module t name end.

Inductive elab_err := ErrFuel | ErrNoModule (m : string) | ErrUnresolved (where_ : string) | ErrConn (inst port : string)
                    | ErrUnsupported (what : string) | ErrWidth (inst port : string).

Definition eflat := (list fnet * list (rlval * rexpr) * list (ptrig * rstmt))%type.

Definition mk_net (name : string) (w : Z) (sg : bool) (init : Z) (isreg : bool) : fnet :=
  {| fn_name := name; fn_width := w; fn_signed := sg; fn_init := init; fn_isreg := isreg |}.

Definition add_net (acc : eflat) (n : fnet) : eflat * nat :=
  let '(nets, asg, procs) := acc in ((nets ++ [n], asg, procs), length nets).

(* one module body: declarations first (so uses may precede declarations in text order, as py4hw emits
   instances before some assigns), then the behavioural items *)
Section Elab.
Variable d : design.

Fixpoint declare (prefix : string) (items : list item) (sc : scope) (acc : eflat) : scope * eflat :=
  match items with
  | [] => (sc, acc)
  | IWire x w :: t => let '(acc', i) := add_net acc (mk_net (String.append prefix x) w false 0 false) in declare prefix t ((x, BNet i w false) :: sc) acc'
  | IReg x w init :: t => let '(acc', i) := add_net acc (mk_net (String.append prefix x) w false (match init with Some v => v | None => 0 end) true) in
                          declare prefix t ((x, BNet i w false) :: sc) acc'
  | IInteger x :: t => let '(acc', i) := add_net acc (mk_net (String.append prefix x) 32 true 0 true) in declare prefix t ((x, BNet i 32 true) :: sc) acc'
  | IMem x w depth :: t =>
      let '(nets, asg, procs) := acc in
      let n := Z.to_nat depth in
      let cells := repeat (mk_net (String.append prefix (String.append x "[]")) w false 0 true) n in
      declare prefix t ((x, BMem (length nets) w n) :: sc) (nets ++ cells, asg, procs)
  | _ :: t => declare prefix t sc acc
  end.

Fixpoint bind_ports (iname : string) (ports : list port) (conns : list (string * expr)) (parent : scope) (child : scope)
  : elab_err + scope :=
  match ports with
  | [] => inr child
  | p :: t =>
      match find (fun c => String.eqb (fst c) (p_name p)) conns with
      | Some (_, EId x) =>
          match lookup parent x with
          | Some (BNet i w sg) => if w =? p_width p then bind_ports iname t conns parent ((p_name p, BNet i w false) :: child)
                                  else inl (ErrWidth iname (p_name p))
          | _ => inl (ErrConn iname (p_name p))
          end
      | _ => inl (ErrConn iname (p_name p))
      end
  end.

Fixpoint elab_items (fuel : nat) (prefix : string) (items : list item) (sc : scope) (acc : eflat) {struct fuel} : elab_err + eflat :=
  match fuel with
  | O => inl ErrFuel
  | S fuel' =>
    match items with
    | [] => inr acc
    | it :: t =>
      let k acc' := elab_items fuel' prefix t sc acc' in
      match it with
      | IWire _ _ | IReg _ _ _ | IInteger _ => elab_items fuel' prefix t sc acc
      | IMem _ _ _ => elab_items fuel' prefix t sc acc
      | IAssign l e =>
          match res_lval sc l, res_expr sc e with
          | Some l', Some e' => let '(nets, asg, procs) := acc in k (nets, asg ++ [(l', e')], procs)
          | _, _ => inl (ErrUnresolved (String.append prefix "assign"))
          end
      | IAlways ev s =>
          match res_stmt sc s with
          | None => inl (ErrUnresolved (String.append prefix "always"))
          | Some s' =>
              let '(nets, asg, procs) := acc in
              match ev with
              | EvStar => k (nets, asg, procs ++ [(TStar, s')])
              | EvPos c => match lookup sc c with
                           | Some (BNet i _ _) => k (nets, asg, procs ++ [(TPos i, s')])
                           | _ => inl (ErrUnresolved (String.append prefix c)) end
              | EvNeg c => inl (ErrUnsupported (String.append "negedge " c))
              end
          end
      | IInitial s =>
          match res_stmt sc s with
          | None => inl (ErrUnresolved (String.append prefix "initial"))
          | Some s' => let '(nets, asg, procs) := acc in k (nets, asg, procs ++ [(TInit, s')])
          end
      | IInst mname params iname conns =>
          match find_module d mname with
          | None => inl (ErrNoModule mname)
          | Some m =>
              match bind_ports iname (m_ports m) conns sc [] with
              | inl e => inl e
              | inr csc0 =>
                  (* parameters: overrides must be integer literals or parent parameters *)
                  let csc1 := fold_left (fun s p => match snd p with
                                                    | ENum v => (fst p, BParam v) :: s
                                                    | EId x => match lookup sc x with Some (BParam v) => (fst p, BParam v) :: s | _ => s end
                                                    | _ => s end) params csc0 in
                  let prefix' := String.append prefix (String.append iname ".") in
                  let '(csc, acc1) := declare prefix' (m_items m) csc1 acc in
                  match elab_items fuel' prefix' (m_items m) csc acc1 with
                  | inl e => inl e
                  | inr acc2 => k acc2
                  end
              end
          end
      end
    end
  end.

Fixpoint top_ports (ports : list port) (sc : scope) (acc : eflat) : scope * eflat :=
  match ports with
  | [] => (sc, acc)
  | p :: t => let '(acc', i) := add_net acc (mk_net (p_name p) (p_width p) false 0 (p_reg p)) in
              top_ports t ((p_name p, BNet i (p_width p) false) :: sc) acc'
  end.

Definition elaborate (fuel : nat) (top : string) : elab_err + flat :=
  match find_module d top with
  | None => inl (ErrNoModule top)
  | Some m =>
      let '(sc0, acc0) := top_ports (m_ports m) [] ([], [], []) in
      let '(sc, acc1) := declare "" (m_items m) sc0 acc0 in
      match elab_items fuel "" (m_items m) sc acc1 with
      | inl e => inl e
      | inr (nets, asg, procs) => inr {| f_nets := nets; f_assigns := asg; f_procs := procs |}
      end
  end.
End Elab.

Fixpoint net_index (nets : list fnet) (name : string) (k : nat) : option nat :=
  match nets with [] => None | n :: t => if String.eqb (fn_name n) name then Some k else net_index t name (S k) end.

(* ---------------------------------------------------------------- running a stimulus *)
(* steps: (input values by top-level port name, number of cycles); observed: values of the named nets after each step *)
Definition resolve_names (f : flat) (names : list string) : list nat :=
  map (fun x => match net_index (f_nets f) x 0 with Some i => i | None => length (f_nets f) end) names.

Fixpoint vrun (f : flat) (clk : option nat) (env : list Z) (ok : bool) (steps : list (list (string * Z) * nat)) (obs : list nat)
  : list (list Z) * bool :=
  match steps with
  | [] => ([], ok)
  | (ins, n) :: rest =>
      let ins' := map (fun p => (match net_index (f_nets f) (fst p) 0 with Some i => i | None => length (f_nets f) end, snd p)) ins in
      let '(env', ok') := vstep f clk env ins' n in
      let '(tr, okf) := vrun f clk env' (ok && ok') rest obs in
      (map (getv env') obs :: tr, okf)
  end.

Definition vsim (f : flat) (clkname : string) (steps : list (list (string * Z) * nat)) (outs : list string) : list (list Z) * bool :=
  let env0 := power_up f in
  let '(e1, ok1) := settle f (settle_fuel f) env0 in
  let obs := resolve_names f outs in
  let '(tr, ok) := vrun f (net_index (f_nets f) clkname 0) e1 ok1 steps obs in
  (map (getv e1) obs :: tr, ok).
