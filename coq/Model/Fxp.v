(* C14 — fixed-point blocks of py4hw/logic/arithmetic_fxp.py and FixedPointComparator of
   py4hw/logic/relational.py, as compositions of the REGENERATED leaf primitives (Gen/Prims.v),
   wired exactly as the constructors wire them.  No proofs here (they are under Proofs/C14).

   A fixed-point format is the tuple the library passes around: (sign_bits, int_bits, frac_bits);
   the wire that carries an encoding has width sign+int+frac (the constructors assert it).
   `None` models an exception of the real code:
     - the AssertionError of FixedPointAdd/Sub (af == bf == rf required, "by now we only support same format"),
     - the AssertionError of FixedPointSign (af[0] == 1),
     - the ValueError "negative shift count" that Range.propagate raises when the product window
       starts below bit 0 (frac(rf) > frac(af)+frac(bf)). *)
From V Require Import Base.PyInt Gen.WireOps Gen.Helpers Gen.Prims.

Definition fmt : Type := (Z * Z * Z)%type.
Definition fsign (F : fmt) : Z := let '(s, _, _) := F in s.
Definition fint  (F : fmt) : Z := let '(_, i, _) := F in i.
Definition ffrac (F : fmt) : Z := let '(_, _, f) := F in f.
Definition fwidth (F : fmt) : Z := fsign F + fint F + ffrac F.            (* sum(af) *)
Definition fmt_eqb (F G : fmt) : bool :=
  (fsign F =? fsign G) && (fint F =? fint G) && (ffrac F =? ffrac G).

(* arithmetic.Add(a, b, r) without ci/co:  ci = 1-bit wire driven by Constant 0;  AddCarryIn(a, b, r, ci) *)
Definition add_block (wr a b : Z) : Z :=
  let ci := Constant_propagate 1 0 in
  AddCarryIn_propagate wr a b ci.

(* FixedPointAdd(a, af, b, bf, r, rf):  Add(self, 'q', a, b, r) *)
Definition fxadd (af bf rf : fmt) (a b : Z) : option Z :=
  if fmt_eqb af bf && fmt_eqb af rf then Some (add_block (fwidth rf) a b) else None.

(* FixedPointSub(a, af, b, bf, r, rf):  Sub(self, 'q', a, b, r)   (arithmetic.Sub is a leaf) *)
Definition fxsub (af bf rf : fmt) (a b : Z) : option Z :=
  if fmt_eqb af bf && fmt_eqb af rf then Some (Sub_propagate (fwidth rf) a b) else None.

(* FixedPointSign(a, af, s):  Bit(self, 'sign', a, af[1]+af[2], s)   (s is a 1-bit wire) *)
Definition fxsign (af : fmt) (a : Z) : option Z :=
  if fsign af =? 1 then Some (Bit_propagate 1 (fint af + ffrac af) a) else None.

(* FixedPointMult(a, af, b, bf, r, rf):
     sa, sb, m : wires of width pw;  SignExtend(a, sa); SignExtend(b, sb); Mul(sa, sb, m);
     low = af[2]+bf[2]-rf[2]; high = low + r.getWidth(); Range(m, high, low, r).
   The product width pw is the one thing repair fixes/C14-F1.diff changes, so it is a parameter:
     wide = false:  pw = wa+wb                     (/repo before the repair of finding C14-F1)
     wide = true :  pw = max(wa+wb, low+wr)        (after it: the window always lies inside a correctly signed product)
   The check reads the width of the real `m` wire and uses the matching instance; both are proved. *)
Definition fxmul_w (pw : Z) (af bf rf : fmt) (a b : Z) : option Z :=
  let wa := fwidth af in
  let wb := fwidth bf in
  let wr := fwidth rf in
  let sa := SignExtend_propagate wa pw a in
  let sb := SignExtend_propagate wb pw b in
  let m := Mul_propagate pw sa sb in
  let low := ffrac af + ffrac bf - ffrac rf in
  let high := low + wr in
  if low <? 0 then None else Some (Range_propagate wr high low m).

Definition mul_pw (wide : bool) (af bf rf : fmt) : Z :=
  if wide then Z.max (fwidth af + fwidth bf) (ffrac af + ffrac bf - ffrac rf + fwidth rf)
  else fwidth af + fwidth bf.

Definition fxmul_v (wide : bool) (af bf rf : fmt) (a b : Z) : option Z := fxmul_w (mul_pw wide af bf rf) af bf rf a b.
Definition fxmul := fxmul_v false.
Definition fxmul_fixed := fxmul_v true.

(* bitwise.And(ins, r): Buf for one input, otherwise the And2 ladder (and0 = in0 & in1, and_k = and_{k-1} & in_{k+1});
   for two inputs the ladder is the single And2 the constructor special-cases. *)
Definition and_block (wr : Z) (ins : list Z) : Z :=
  match ins with
  | [] => 0
  | [x] => Buf_propagate wr x
  | x :: rest => fold_left (fun acc y => And2_propagate wr acc y) rest x
  end.

(* relational.EqualConstant(a, 0, r):  w == 1: Not(a, r);
   otherwise bits = w 1-bit wires, BitsLSBF(a, bits); Minterm(bits, 0, r) = every bit through a Not, And(parts, r) *)
Definition eqconst0_block (w a : Z) : Z :=
  if w =? 1 then Not_propagate 1 a
  else
    let bits := BitsLSBF_propagate w (repeat 1 (Z.to_nat w)) a in
    let parts := map (fun b => Not_propagate 1 b) bits in
    and_block 1 parts.

(* FixedPointComparator(a, af, b, bf, gt, eq, lt):
     sub (width of a) = FixedPointSub(a, af, b, bf, sub, af);  lt = FixedPointSign(sub, af);
     eq = EqualConstant(sub, 0);  gt = And2(Not eq, Not lt).   Result (gt, eq, lt). *)
Definition fxcmp (af bf : fmt) (a b : Z) : option (Z * Z * Z) :=
  match fxsub af bf af a b with
  | None => None
  | Some sub =>
    match fxsign af sub with
    | None => None
    | Some lt =>
      let eq := eqconst0_block (fwidth af) sub in
      let nlt := Not_propagate 1 lt in
      let neq := Not_propagate 1 eq in
      Some (And2_propagate 1 neq nlt, eq, lt)
    end
  end.
