(* Deep embedding of the Python subset the py4hw transpiler claims to support for behavioural blocks
   (bodies of clock() / propagate()).  The term for a concrete method is produced by py/props/c02_dump.py from the
   `ast` of inspect.getsource of the LIVE class (what the transpiler itself reads); everything outside the
   subset is dumped as PUnsupported / PSUnsupported.  No proofs here.

   Dumper conventions (each is a semantics-preserving reading of the Python ast, none looks at the transpiler):
   - `self.<a>.get()` / `.put(e)` / `.prepare(e)` carry the NAME OF THE PORT the attribute <a> is bound to in the
     live object (the wire the call really touches), not the attribute name;
   - `self.<x>` for an int-valued instance attribute is PAttr x (its value after construction is in b_attrs);
   - True/False are PConst 1/0, ord('c') is PConst (ord c);  `x op= e` is `x = x op e` (ints are immutable);
   - `elif` is the nested If Python's own ast already has; `match e: case k: s ... case _: d` is the chain
     PSCase e k s (...  d) (expressions of the subset have no side effects, so re-evaluating e is harmless);
   - `a and b and c` is PBool PAnd (PBool PAnd a b) c (Python's n-ary and/or is associative, value included);
   - print(...) / assert / docstrings / pass are PSPass (no effect on wires or attributes). *)
From Coq Require Export String ZArith List Bool.
Export ListNotations.
Open Scope Z_scope.

Inductive pybinop := PAdd | PSub | PMul | PFloorDiv | PMod | PBitAnd | PBitOr | PBitXor | PLShift | PRShift.
Inductive pycmp := PEq | PNe | PLt | PLe | PGt | PGe.
Inductive pyunop := PInvert | PNot | PUSub.
Inductive pyboolop := PAnd | POr.

Inductive pyexpr :=
  | PConst (n : Z)
  | PGet (port : string)                 (* self.<attr bound to port>.get() *)
  | PAttr (x : string)                   (* self.x, an integer attribute *)
  | PLocal (x : string)
  | PBin (o : pybinop) (a b : pyexpr)
  | PUn (o : pyunop) (a : pyexpr)
  | PCmp (o : pycmp) (a b : pyexpr)      (* single comparison; chained ones are PUnsupported *)
  | PBool (o : pyboolop) (a b : pyexpr)
  | PIfExp (c a b : pyexpr)              (* a if c else b *)
  | PUnsupported (what : string).

Inductive pystmt :=
  | PSPass
  | PSSeq (a b : pystmt)
  | PSIf (c : pyexpr) (t e : pystmt)
  | PSCase (subj : pyexpr) (k : Z) (body rest : pystmt)   (* one arm of match/case on an int literal *)
  | PSAttr (x : string) (e : pyexpr)                      (* self.x = e *)
  | PSLocal (x : string) (e : pyexpr)                     (* x = e *)
  | PSPrepare (port : string) (e : pyexpr)                (* self.p.prepare(e)   (clock) *)
  | PSPut (port : string) (e : pyexpr)                    (* self.p.put(e)       (propagate) *)
  | PSUnsupported (what : string).

Inductive pykind := KClock | KPropagate.

Record pyblock := {
  b_kind : pykind;
  b_ins : list (string * Z);       (* input ports: name, width *)
  b_outs : list (string * Z);      (* output ports: name, width *)
  b_attrs : list (string * Z);     (* integer attributes of the constructed object: name, value after __init__ *)
  b_body : pystmt }.
