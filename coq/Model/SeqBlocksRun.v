(* C09 — glue for the correspondence check, block-model side: every block model (Model/SeqBlocks.v) as a function from a
   history of input rows to observation rows (row 0 = power-up; then pre-edge outputs ++ post-edge outputs ++ internal
   state: q wires, leaf attributes).  The reference-machine traces and the comparison functions are in Model/SeqSpecRun.v.
   NO PROOFS.  The harness compares these rows with what the real py4hw objects show. *)
From V Require Import Base.PyInt Gen.WireOps Gen.Helpers Gen.Prims Gen.Seq Model.SeqBlocks Spec.C09.
From V Require Export Model.SeqSpecRun.

Definition cells_obs (cs : list cell) : list Z := map cell_q cs ++ map cell_value cs.

(* ---- Reg: row [d; e; r] -> [q; value] *)
Definition reg_trace (w : Z) (he hr : bool) (rv : Z) :=
  mtrace (fun c i => match i with [d; e; r] => reg_m w he hr rv c (d, e, r) | _ => c end) nopre
        (fun c _ => [cell_q c; cell_value c]) (cell_init w rv).
(* ---- TReg: row [t; e; r] -> [q; value] *)
Definition treg_trace (wq : Z) (he hr : bool) :=
  mtrace (fun c i => match i with [t; e; r] => treg_m wq he hr c (t, e, r) | _ => c end) nopre
        (fun c _ => [cell_q c; cell_value c]) cell_zero.
(* ---- Counter: row [reset; inc] -> [q; value] *)
Definition counter_trace (w : Z) (hi hr : bool) :=
  mtrace (fun c i => match i with [r; n] => counter_m w hi hr c (r, n) | _ => c end) nopre
        (fun c _ => [cell_q c; cell_value c]) cell_zero.
(* ---- ModuloCounter: row [reset; inc] -> [q; carry; value] *)
Definition modcounter_trace (w wc m : Z) :=
  mtrace (fun c i => match i with [r; n] => modcounter_m w wc m c (r, n) | _ => c end) nopre
        (fun c _ => [cell_q c; modcounter_carry w wc m c; cell_value c]) cell_zero.
(* ---- StepUpCounter: row [reset; inc; step] -> [q; value] *)
Definition stepup_trace (w : Z) (hr : bool) :=
  mtrace (fun c i => match i with [r; n; st] => stepup_m w hr c (r, n, st) | _ => c end) nopre
        (fun c _ => [cell_q c; cell_value c]) cell_zero.
(* ---- DelayLine: row [a; en; reset] -> pre [r], post [r] ++ q's ++ values *)
Definition delay_trace (w wr : Z) (he hr : bool) (delay : nat) :=
  mtrace (fun cs i => match i with [a; e; r] => delay_m w he hr cs (a, e, r) | _ => cs end)
        (fun cs i => [delay_out wr cs (hd 0 i)])
        (fun cs i => delay_out wr cs (hd 0 i) :: cells_obs cs) (delay_init delay).
(* ---- PipelinePhase: row ins ++ [reset] -> outs ++ values *)
Definition pipe_trace (ws : list Z) :=
  mtrace (fun cs i => pipe_m ws cs (removelast i, last i 0)) nopre (fun cs _ => cells_obs cs) (pipe_init ws).
(* ---- EdgeDetector: row [a] -> pre [r], post [r; z1; value] *)
Definition edge_trace (dir : direction) (wr : Z) :=
  mtrace (fun c i => edge_step c (hd 0 i)) (fun c i => [edge_out dir wr c (hd 0 i)])
        (fun c i => [edge_out dir wr c (hd 0 i); cell_q c; cell_value c]) cell_zero.
(* ---- ClockDivider: row [reset] (or [] without a reset port) -> [clkout; q; t; counter value; toggle value] *)
Definition clkdiv_trace (n qw wclk : Z) (hr : bool) :=
  mtrace (fun s i => clkdiv_step n qw wclk hr s (hd 0 i)) nopre
        (fun s _ => [clkdiv_out s; cell_q (fst s); modcounter_carry qw 1 n (fst s); cell_value (fst s); cell_value (snd s)])
        clkdiv_init.
(* ---- ShiftRegisterBidirectional: row [left_in; right_in; shift_left; shift_right] -> [left_out; right_out] ++ q's ++ values *)
Definition srb_trace (w : Z) (depth : nat) :=
  mtrace (fun cs i => match i with [li; ri; sl; sr] => srb_m w cs (li, ri, sl, sr) | _ => cs end) nopre
        (fun cs _ => srb_left_out w cs :: srb_right_out w cs :: cells_obs cs) (srb_init depth).
(* ---- Stack_ShiftRegister: row [din; push; pop] -> [dout] ++ q's ++ values ++ [dout register value] *)
Definition stack_trace (w : Z) (depth : nat) :=
  mtrace (fun s i => match i with [d; pu; po] => stack_m w s (d, pu, po) | _ => s end) nopre
        (fun s _ => stack_dout s :: cells_obs (fst s) ++ [cell_value (snd s)]) (stack_init depth).
(* ---- SynchronousMemory: row [ra; wa; we; wd] -> [readdata] ++ data *)
Definition mem_trace (aw wr : Z) :=
  mtrace (fun s i => match i with [ra; wa; we; wd] => mem_m wr s (ra, wa, we, wd) | _ => s end) nopre
        (fun s _ => mem_out s :: mem_data s) (mem_init aw).
(* ---- AutoReset: row [] -> [reset; state] *)
(* ---- DualPortSynchronousMemory: row [raa; waa; wa; wda; rab; wab; wb; wdb] -> [readdata_a; readdata_b] ++ data *)
Definition dp_trace (aw wra wrb : Z) :=
  mtrace (fun s i => match i with [raa; waa; wa; wda; rab; wab; wb; wdb] => dp_step wra wrb s ((raa, waa, wa, wda), (rab, wab, wb, wdb)) | _ => s end) nopre
        (fun s _ => dp_out_a s :: dp_out_b s :: dp_data s) (dp_init aw).
Definition ar_trace (w : Z) :=
  mtrace (fun s (_ : list Z) => ar_step w s) nopre (fun s _ => [ar_out s; AutoReset_s_state (fst s)]) ar_init.
(* ---- comparison with the implementation's rows: Some (step, (column, impl, ours)) at the first difference *)
(* ---- the same machines observed inside a larger design (see etrace): generated from the definitions above *)
Definition reg_etrace (w : Z) (he hr : bool) (rv : Z) :=
  etrace (fun c i => match i with [d; e; r] => reg_m w he hr rv c (d, e, r) | _ => c end) nopre
        (fun c _ => [cell_q c; cell_value c]) (cell_init w rv).
Definition treg_etrace (wq : Z) (he hr : bool) :=
  etrace (fun c i => match i with [t; e; r] => treg_m wq he hr c (t, e, r) | _ => c end) nopre
        (fun c _ => [cell_q c; cell_value c]) cell_zero.
Definition counter_etrace (w : Z) (hi hr : bool) :=
  etrace (fun c i => match i with [r; n] => counter_m w hi hr c (r, n) | _ => c end) nopre
        (fun c _ => [cell_q c; cell_value c]) cell_zero.
Definition modcounter_etrace (w wc m : Z) :=
  etrace (fun c i => match i with [r; n] => modcounter_m w wc m c (r, n) | _ => c end) nopre
        (fun c _ => [cell_q c; modcounter_carry w wc m c; cell_value c]) cell_zero.
Definition stepup_etrace (w : Z) (hr : bool) :=
  etrace (fun c i => match i with [r; n; st] => stepup_m w hr c (r, n, st) | _ => c end) nopre
        (fun c _ => [cell_q c; cell_value c]) cell_zero.
Definition delay_etrace (w wr : Z) (he hr : bool) (delay : nat) :=
  etrace (fun cs i => match i with [a; e; r] => delay_m w he hr cs (a, e, r) | _ => cs end)
        (fun cs i => [delay_out wr cs (hd 0 i)])
        (fun cs i => delay_out wr cs (hd 0 i) :: cells_obs cs) (delay_init delay).
Definition pipe_etrace (ws : list Z) :=
  etrace (fun cs i => pipe_m ws cs (removelast i, last i 0)) nopre (fun cs _ => cells_obs cs) (pipe_init ws).
Definition edge_etrace (dir : direction) (wr : Z) :=
  etrace (fun c i => edge_step c (hd 0 i)) (fun c i => [edge_out dir wr c (hd 0 i)])
        (fun c i => [edge_out dir wr c (hd 0 i); cell_q c; cell_value c]) cell_zero.
Definition clkdiv_etrace (n qw wclk : Z) (hr : bool) :=
  etrace (fun s i => clkdiv_step n qw wclk hr s (hd 0 i)) nopre
        (fun s _ => [clkdiv_out s; cell_q (fst s); modcounter_carry qw 1 n (fst s); cell_value (fst s); cell_value (snd s)])
        clkdiv_init.
Definition srb_etrace (w : Z) (depth : nat) :=
  etrace (fun cs i => match i with [li; ri; sl; sr] => srb_m w cs (li, ri, sl, sr) | _ => cs end) nopre
        (fun cs _ => srb_left_out w cs :: srb_right_out w cs :: cells_obs cs) (srb_init depth).
Definition stack_etrace (w : Z) (depth : nat) :=
  etrace (fun s i => match i with [d; pu; po] => stack_m w s (d, pu, po) | _ => s end) nopre
        (fun s _ => stack_dout s :: cells_obs (fst s) ++ [cell_value (snd s)]) (stack_init depth).
Definition mem_etrace (aw wr : Z) :=
  etrace (fun s i => match i with [ra; wa; we; wd] => mem_m wr s (ra, wa, we, wd) | _ => s end) nopre
        (fun s _ => mem_out s :: mem_data s) (mem_init aw).
Definition dp_etrace (aw wra wrb : Z) :=
  etrace (fun s i => match i with [raa; waa; wa; wda; rab; wab; wb; wdb] => dp_step wra wrb s ((raa, waa, wa, wda), (rab, wab, wb, wdb)) | _ => s end) nopre
        (fun s _ => dp_out_a s :: dp_out_b s :: dp_data s) (dp_init aw).
Definition ar_etrace (w : Z) :=
  etrace (fun s (_ : list Z) => ar_step w s) nopre (fun s _ => [ar_out s; AutoReset_s_state (fst s)]) ar_init.
