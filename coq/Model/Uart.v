(* C17 — executable cycle models of the UART blocks.  NO PROOFS here.

   Each FSM is the REGENERATED clock() function (Gen/Seq.v: UARTSerializer_clock, UARTDeserializer_clock,
   ClockSyncFSM_clock, Reg_clock) wrapped in the closed-loop cycle semantics of a sequential leaf of
   Model/SimKernel.v:  one step = X_clock on (current attribute state, current values of the input wires);
   an output wire takes the prepared value (Some v) or keeps its value (None: nothing prepared this edge).
   All UART wires are 1 bit wide except the 8-bit data wires (this is how HILWrapperUART.py and the check wire them).

   ClockGenerationAndRecovery is structural in py4hw (no clock() of its own), so it is modelled by hand from
   the block structure in py4hw/logic/protocol/uart/clock.py and py4hw/logic/clock.py:
     ClockDivider  = ModuloCounter(mod = n) + TReg          (n = int(sysFreq / (2*uartFreq)),  q width = log2 n + 1)
     EdgeDetector  = Reg + Not + And2
   Registers are the generated Reg_clock, gates the generated And2/Not/Or2/Mux2 propagate functions (Gen/Prims.v);
   the counter's adder (Add -> AddCarryIn) and comparator (EqualConstant -> BitsLSBF + Minterm) are structural
   composites and are written as  (q + 1) land mask  and  q =? n - 1.
   The hand model is compared with the real blocks cycle by cycle on every run (py/props/c17.py). *)
From V Require Import Base.PyInt Gen.WireOps Gen.Prims Gen.Seq.

Definition upd (old : Z) (o : option Z) : Z := match o with Some v => v | None => old end.

(* states after each edge / state after the last edge *)
Section Run.
Context {S I : Type}.
Variable step : S -> I -> S.
Fixpoint runs (s : S) (ins : list I) : list S :=
  match ins with [] => [] | i :: r => let s' := step s i in s' :: runs s' r end.
Definition final (s : S) (ins : list I) : S := fold_left step ins s.
End Run.

(* ------------------------------------------------------------------ serializer *)
Record ser := { s_fsm : UARTSerializer_state; s_tx : Z; s_ready : Z }.
Record ser_in := { si_valid : Z; si_v : Z; si_pulse : Z }.

(* power-up: attributes as in __init__, every wire 0 *)
Definition ser_init : ser :=
  {| s_fsm := {| UARTSerializer_s_state := 0; UARTSerializer_s_count := 0; UARTSerializer_s_txv := 0 |};
     s_tx := 0; s_ready := 0 |}.

Definition ser_step (s : ser) (i : ser_in) : ser :=
  let '(st', o) := UARTSerializer_clock 1 1 (s_fsm s) (si_valid i) (si_v i) (si_pulse i) in
  {| s_fsm := st'; s_tx := upd (s_tx s) (UARTSerializer_o_tx o); s_ready := upd (s_ready s) (UARTSerializer_o_ready o) |}.

(* the READY state: line idle high, ready asserted, waiting for valid *)
Definition ser_ready_state (cnt txv : Z) : ser :=
  {| s_fsm := {| UARTSerializer_s_state := 1; UARTSerializer_s_count := cnt; UARTSerializer_s_txv := txv |};
     s_tx := 1; s_ready := 1 |}.

(* ------------------------------------------------------------------ deserializer *)
Record des := { d_fsm : UARTDeserializer_state; d_valid : Z; d_v : Z; d_desync : Z }.
Record des_in := { di_rx : Z; di_ready : Z; di_sample : Z }.

Definition des_init : des :=
  {| d_fsm := {| UARTDeserializer_s_state := 0; UARTDeserializer_s_count := 0;
                 UARTDeserializer_s_state_v := 0; UARTDeserializer_s_temp := 0 |};
     d_valid := 0; d_v := 0; d_desync := 0 |}.

Definition des_step (s : des) (i : des_in) : des :=
  let '(st', o) := UARTDeserializer_clock 1 8 1 (d_fsm s) (di_rx i) (di_ready i) (di_sample i) in
  {| d_fsm := st'; d_valid := upd (d_valid s) (UARTDeserializer_o_valid o);
     d_v := upd (d_v s) (UARTDeserializer_o_v o); d_desync := upd (d_desync s) (UARTDeserializer_o_clock_desync o) |}.

(* a ready/valid transfer happens at a clock edge at which the valid wire and the consumer's ready are both high;
   the value transferred is what the v wire holds at that edge *)
Definition des_xfer (s : des) (i : des_in) : list Z :=
  if py_truth (d_valid s) && py_truth (di_ready i) then [d_v s] else [].

Fixpoint des_transfers (s : des) (ins : list des_in) : list Z :=
  match ins with [] => [] | i :: r => des_xfer s i ++ des_transfers (des_step s i) r end.

(* ------------------------------------------------------------------ clock generation and recovery *)
Definition reg_q (w : Z) (has_e has_r : bool) (q d e r : Z) : Z :=
  snd (Reg_clock w has_e has_r 0 {| Reg_s_value := q |} d e r).

Definition and1 (a b : Z) : Z := And2_propagate 1 a b.
Definition or1 (a b : Z) : Z := Or2_propagate 1 a b.
Definition not1 (a : Z) : Z := Not_propagate 1 a.

(* EdgeDetector: z1 is the registered copy of a *)
Definition edge_pos (a z1 : Z) : Z := and1 a (not1 z1).
Definition edge_neg (a z1 : Z) : Z := and1 (not1 a) z1.
Definition edge_step (a z1 : Z) : Z := reg_q 1 false false z1 a 0 0.

(* ModuloCounter(mod = n, inc = 1): carryout, next q *)
Definition qwidth (n : Z) : Z := Z.log2 n + 1.
Definition mc_carry (n q : Z) : Z := if q =? n - 1 then 1 else 0.
Definition mc_step (n q reset : Z) : Z :=
  let w := qwidth n in
  let add := Wire_put w (q + 1) in
  let d1 := Mux2_propagate w 1 q add in
  let d := Mux2_propagate w (or1 reset (mc_carry n q)) d1 0 in
  reg_q w true false q d (or1 reset 1) 0.

(* TReg(t, enable = 1, reset) *)
Definition treg_step (clk t reset : Z) : Z :=
  reg_q 1 true true clk (Mux2_propagate 1 t clk (not1 clk)) 1 reset.

Record cdiv := { cd_q : Z; cd_clk : Z }.
Definition cdiv_step (n : Z) (c : cdiv) (reset : Z) : cdiv :=
  {| cd_q := mc_step n (cd_q c) reset; cd_clk := treg_step (cd_clk c) (mc_carry n (cd_q c)) reset |}.

Record cgr := { g_tx : cdiv; g_zpos : Z;          (* free-running divider + its edge detector register *)
                g_rx : cdiv; g_zsamp : Z;         (* resettable divider + its edge detector register *)
                g_zrx : Z;                        (* register of the rx falling-edge detector *)
                g_fsm : ClockSyncFSM_state; g_sync : Z; g_active : Z }.

Definition cgr_init : cgr :=
  {| g_tx := {| cd_q := 0; cd_clk := 0 |}; g_zpos := 0; g_rx := {| cd_q := 0; cd_clk := 0 |}; g_zsamp := 0; g_zrx := 0;
     g_fsm := {| ClockSyncFSM_s_state := 0 |}; g_sync := 0; g_active := 0 |}.

(* combinational outputs, functions of the registered state and the rx input wire *)
Definition cgr_pulse (c : cgr) : Z := edge_pos (cd_clk (g_tx c)) (g_zpos c).
Definition cgr_start (c : cgr) (rx : Z) : Z := and1 (edge_neg rx (g_zrx c)) (not1 (g_active c)).
Definition cgr_sample (c : cgr) : Z := and1 (edge_pos (cd_clk (g_rx c)) (g_zsamp c)) (g_active c).

Definition cgr_step (n : Z) (c : cgr) (rx desync : Z) : cgr :=
  let start := cgr_start c rx in
  let '(f', o) := ClockSyncFSM_clock 1 1 (g_fsm c) start desync in
  {| g_tx := cdiv_step n (g_tx c) 0; g_zpos := edge_step (cd_clk (g_tx c)) (g_zpos c);
     g_rx := cdiv_step n (g_rx c) start; g_zsamp := edge_step (cd_clk (g_rx c)) (g_zsamp c);
     g_zrx := edge_step rx (g_zrx c);
     g_fsm := f'; g_sync := upd (g_sync c) (ClockSyncFSM_o_sync o); g_active := upd (g_active c) (ClockSyncFSM_o_active o) |}.

(* ------------------------------------------------------------------ the full link *)
(* serializer.tx -> (rx of) ClockGenerationAndRecovery and deserializer;  deserializer.clock_desync -> desync *)
Record link := { l_ser : ser; l_cgr : cgr; l_des : des }.
Record link_in := { li_valid : Z; li_v : Z; li_ready : Z }.      (* producer's valid/v, consumer's ready *)

Definition link_init : link := {| l_ser := ser_init; l_cgr := cgr_init; l_des := des_init |}.

Definition link_step (n : Z) (l : link) (i : link_in) : link :=
  let tx := s_tx (l_ser l) in
  {| l_ser := ser_step (l_ser l) {| si_valid := li_valid i; si_v := li_v i; si_pulse := cgr_pulse (l_cgr l) |};
     l_cgr := cgr_step n (l_cgr l) tx (d_desync (l_des l));
     l_des := des_step (l_des l) {| di_rx := tx; di_ready := li_ready i; di_sample := cgr_sample (l_cgr l) |} |}.

(* observations at one edge: byte accepted by the serializer (ready wire and valid both high), byte handed over by the deserializer *)
Definition link_accept (l : link) (i : link_in) : list Z :=
  if py_truth (s_ready (l_ser l)) && py_truth (li_valid i) then [li_v i] else [].
Definition link_deliver (l : link) (i : link_in) : list Z :=
  if py_truth (d_valid (l_des l)) && py_truth (li_ready i) then [d_v (l_des l)] else [].

Fixpoint link_accepted (n : Z) (l : link) (ins : list link_in) : list Z :=
  match ins with [] => [] | i :: r => link_accept l i ++ link_accepted n (link_step n l i) r end.
Fixpoint link_delivered (n : Z) (l : link) (ins : list link_in) : list Z :=
  match ins with [] => [] | i :: r => link_deliver l i ++ link_delivered n (link_step n l i) r end.

(* wire vector observed by the differential: tx, ready, pulse, sample, desync, valid, v *)
Definition link_obs (l : link) : list Z :=
  [s_tx (l_ser l); s_ready (l_ser l); cgr_pulse (l_cgr l); cgr_sample (l_cgr l); d_desync (l_des l); d_valid (l_des l); d_v (l_des l)].

(* per-clock events of a link run, as seen on wires: (clock_desync is high after this edge = a frame completed at it, consumer's ready) *)
Fixpoint link_events (n : Z) (l : link) (ins : list link_in) : list (bool * Z) :=
  match ins with
  | [] => []
  | i :: r => let l' := link_step n l i in (d_desync (l_des l') =? 1, li_ready i) :: link_events n l' r
  end.
