(* C16 — gate-level models of py4hw/emulation/vitiswrapping.py Axi2Reg and Reg2Axi.   NO PROOFS here.
   Every gate is the REGENERATED primitive (Gen/Prims.v) and every register the regenerated Reg_clock (Gen/Seq.v),
   wired exactly as the constructors do (read gate by gate; the n-ary Or is py4hw's ladder of Or2).
   One step = one Simulator.clk(1) with the cycle's inputs poked before it:
     propagateAll (network from the current register outputs and the inputs) ; every Reg.clock() on those wires ;
     settle (register outputs take the prepared values) ; propagateAll (outputs recomputed from the new registers).
   W  = width of the register side (q / reg_in);  DW = width of stream.tdata;  KW = width of stream.tkeep (DW/8).
   All control wires are 1 bit wide (the constructors create them with the default width; the callers pass 1-bit wires). *)
From V Require Import Base.PyInt Gen.WireOps Gen.Helpers Gen.Prims Gen.Seq.
From V Require Import Spec.C16.

(* ------------------------------------------------------------------ Axi2Reg *)
(* state = the three Reg objects (their .value) and the wires they drive *)
Record a2r_st := { ga_rdata : Reg_state; ga_rloaded : Reg_state; ga_ractive : Reg_state;
                   ga_q : Z; ga_loaded : Z; ga_active : Z }.
Definition a2r_st0 : a2r_st :=
  {| ga_rdata := {| Reg_s_value := 0 |}; ga_rloaded := {| Reg_s_value := 0 |}; ga_ractive := {| Reg_s_value := 0 |};
     ga_q := 0; ga_loaded := 0; ga_active := 0 |}.

(* the combinational network, in the order of the constructor; the wires the registers read *)
Record a2r_net := { na_tready : Z; na_tdata : Z; na_active_handshake : Z; na_reset_loaded : Z; na_reset_active : Z }.
Definition a2r_comb (W : Z) (s : a2r_st) (i : a2r_in) : a2r_net :=
  let ap_start := b2z (a_start i) in let ap_reset := b2z (a_reset i) in let ap_done := b2z (a_done i) in
  let tvalid := b2z (a_tvalid i) in
  let active := ga_active s in
  let tready := Buf_propagate 1 active in                                   (* Buf 'tready' (active -> stream.tready) *)
  let inactive := Not_propagate 1 active in                                  (* Not 'inactive' *)
  let handshake := And2_propagate 1 tvalid tready in                         (* And2 'handshake' *)
  let ap_start_inactive := And2_propagate 1 inactive ap_start in             (* And2 'ap_start_inactive' *)
  let active_handshake := And2_propagate 1 active handshake in               (* And2 'active_handshake' *)
  let tdata := Range_propagate W (W - 1) 0 (a_tdata i) in                    (* Range 'range_data' [W-1:0] *)
  let or0 := Or2_propagate 1 ap_reset ap_start_inactive in                   (* Or [ap_reset, ap_start_inactive, ap_done]: ladder *)
  let reset_loaded := Or2_propagate 1 or0 ap_done in
  let reset_active := Or2_propagate 1 ap_reset ap_done in                    (* Or2 'reset_active' *)
  {| na_tready := tready; na_tdata := tdata; na_active_handshake := active_handshake;
     na_reset_loaded := reset_loaded; na_reset_active := reset_active |}.

Definition a2r_step (W : Z) (s : a2r_st) (i : a2r_in) : a2r_st :=
  let n := a2r_comb W s i in
  let ap_start := b2z (a_start i) in
  (* Reg 'reg_data' d=tdata enable=active_handshake reset=reset_loaded *)
  let '(rd, q) := Reg_clock W true true 0 (ga_rdata s) (na_tdata n) (na_active_handshake n) (na_reset_loaded n) in
  (* Reg 'loaded'   d=active_handshake enable=active_handshake reset=reset_loaded *)
  let '(rl, ld) := Reg_clock 1 true true 0 (ga_rloaded s) (na_active_handshake n) (na_active_handshake n) (na_reset_loaded n) in
  (* Reg 'active'   d=ap_start enable=ap_start reset=reset_active *)
  let '(ra, ac) := Reg_clock 1 true true 0 (ga_ractive s) ap_start ap_start (na_reset_active n) in
  {| ga_rdata := rd; ga_rloaded := rl; ga_ractive := ra; ga_q := q; ga_loaded := ld; ga_active := ac |}.

Definition a2r_run (W : Z) (ins : list a2r_in) : a2r_st := fold_left (a2r_step W) ins a2r_st0.

(* observable wires: q, loaded, active, stream.tready (a Buf of active) *)
Definition a2r_q (s : a2r_st) : Z := ga_q s.
Definition a2r_loaded (s : a2r_st) : Z := ga_loaded s.
Definition a2r_active (s : a2r_st) : Z := ga_active s.
Definition a2r_tready (s : a2r_st) : Z := Buf_propagate 1 (ga_active s).
Definition a2r_obs (s : a2r_st) : list Z := [a2r_q s; a2r_loaded s; a2r_active s; a2r_tready s].

(* observations after every cycle of a schedule (for the correspondence runs) *)
Fixpoint a2r_trace_from (W : Z) (s : a2r_st) (ins : list a2r_in) : list (list Z) :=
  match ins with [] => [] | i :: rest => let s' := a2r_step W s i in a2r_obs s' :: a2r_trace_from W s' rest end.
Definition a2r_trace (W : Z) (ins : list a2r_in) := a2r_trace_from W a2r_st0 ins.

(* ------------------------------------------------------------------ Reg2Axi *)
Record r2a_st := { gb_rtvalid : Reg_state; gb_rtdata : Reg_state; gb_rsent : Reg_state; gb_ractive : Reg_state;
                   gb_tvalid : Z; gb_tdata : Z; gb_sent : Z; gb_active : Z }.
Definition r2a_st0 : r2a_st :=
  {| gb_rtvalid := {| Reg_s_value := 0 |}; gb_rtdata := {| Reg_s_value := 0 |}; gb_rsent := {| Reg_s_value := 0 |};
     gb_ractive := {| Reg_s_value := 0 |}; gb_tvalid := 0; gb_tdata := 0; gb_sent := 0; gb_active := 0 |}.

Record r2a_net := { nb_active_handshake : Z; nb_reset_tvalid : Z; nb_set_tvalid : Z; nb_reset_sent : Z; nb_reset_active : Z }.
Definition r2a_comb (s : r2a_st) (i : r2a_in) : r2a_net :=
  let ap_start := b2z (b_start i) in let ap_reset := b2z (b_reset i) in let ap_done := b2z (b_done i) in
  let load_outs := b2z (b_load i) in let tready := b2z (b_tready i) in
  let active := gb_active s in let tvalid := gb_tvalid s in
  let inactive := Not_propagate 1 active in                                  (* Not 'inactive' *)
  let handshake := And2_propagate 1 tvalid tready in                         (* And2 'handshake' *)
  let ap_start_inactive := And2_propagate 1 inactive ap_start in             (* And2 'ap_start_inactive' *)
  let active_handshake := And2_propagate 1 active handshake in               (* And2 'active_handshake' *)
  let reset_tvalid := Or2_propagate 1 ap_reset active_handshake in           (* Or [ap_reset, active_handshake] = one Or2 *)
  let set_tvalid := And2_propagate 1 load_outs active in                     (* And2 'set_tvalid' *)
  let or0 := Or2_propagate 1 ap_reset ap_start_inactive in                   (* Or [ap_reset, ap_start_inactive, ap_done]: ladder *)
  let reset_sent := Or2_propagate 1 or0 ap_done in
  let reset_active := Or2_propagate 1 ap_reset ap_done in                    (* Or2 'reset_active' *)
  {| nb_active_handshake := active_handshake; nb_reset_tvalid := reset_tvalid; nb_set_tvalid := set_tvalid;
     nb_reset_sent := reset_sent; nb_reset_active := reset_active |}.

Definition r2a_step (DW : Z) (s : r2a_st) (i : r2a_in) : r2a_st :=
  let n := r2a_comb s i in
  let ap_start := b2z (b_start i) in
  (* Reg 'tvalid' d=set_tvalid enable=set_tvalid reset=reset_tvalid *)
  let '(rv, tv) := Reg_clock 1 true true 0 (gb_rtvalid s) (nb_set_tvalid n) (nb_set_tvalid n) (nb_reset_tvalid n) in
  (* Reg 'tdata_ext' d=reg_in enable=set_tvalid (no reset) q=stream.tdata *)
  let '(rt, td) := Reg_clock DW true false 0 (gb_rtdata s) (b_regin i) (nb_set_tvalid n) 0 in
  (* Reg 'sent' d=active_handshake enable=active_handshake reset=reset_sent *)
  let '(rs, se) := Reg_clock 1 true true 0 (gb_rsent s) (nb_active_handshake n) (nb_active_handshake n) (nb_reset_sent n) in
  (* Reg 'active' d=ap_start enable=ap_start reset=reset_active *)
  let '(ra, ac) := Reg_clock 1 true true 0 (gb_ractive s) ap_start ap_start (nb_reset_active n) in
  {| gb_rtvalid := rv; gb_rtdata := rt; gb_rsent := rs; gb_ractive := ra;
     gb_tvalid := tv; gb_tdata := td; gb_sent := se; gb_active := ac |}.

Definition r2a_run (DW : Z) (ins : list r2a_in) : r2a_st := fold_left (r2a_step DW) ins r2a_st0.

(* the constructor's  n_bytes_valid = math.ceil(W / 8);  tkeep_val = (1 << n_bytes_valid) - 1  *)
Definition tkeep_val (W : Z) : Z := py_shl 1 ((W + 7) / 8) - 1.

Definition r2a_tvalid (s : r2a_st) : Z := gb_tvalid s.
Definition r2a_tdata (s : r2a_st) : Z := gb_tdata s.
Definition r2a_tlast (s : r2a_st) : Z := Buf_propagate 1 (gb_tvalid s).                   (* Buf 'tlast_buf' *)
Definition r2a_tkeep (W KW : Z) : Z := Constant_propagate KW (tkeep_val W).               (* Constant 'tkeep_const' *)
Definition r2a_sent (s : r2a_st) : Z := gb_sent s.
Definition r2a_active (s : r2a_st) : Z := gb_active s.
Definition r2a_obs (W KW : Z) (s : r2a_st) : list Z :=
  [r2a_tvalid s; r2a_tdata s; r2a_tlast s; r2a_tkeep W KW; r2a_sent s; r2a_active s].

Fixpoint r2a_trace_from (W DW KW : Z) (s : r2a_st) (ins : list r2a_in) : list (list Z) :=
  match ins with [] => [] | i :: rest => let s' := r2a_step DW s i in r2a_obs W KW s' :: r2a_trace_from W DW KW s' rest end.
Definition r2a_trace (W DW KW : Z) (ins : list r2a_in) := r2a_trace_from W DW KW r2a_st0 ins.

(* what the peer sees during a cycle, read off the gate-level wires *)
Definition r2a_valid_now (s : r2a_st) : bool := r2a_tvalid s =? 1.
Definition r2a_active_now (s : r2a_st) : bool := r2a_active s =? 1.

(* the property's environment assumption along a schedule started in state s: in every cycle with ap_done (and no
   ap_reset) VALID is low and no load pulse is given  (Spec.r2a_done_ok, with the VALID of the gate-level block) *)
Fixpoint r2a_env_ok (DW : Z) (s : r2a_st) (ins : list r2a_in) : Prop :=
  match ins with
  | [] => True
  | i :: rest => r2a_done_ok (r2a_valid_now s) i /\ r2a_env_ok DW (r2a_step DW s i) rest
  end.

(* no load pulse while a beat is pending, and no reset: the stricter environment of the exactly-once clause *)
Fixpoint r2a_env_strict (DW : Z) (s : r2a_st) (ins : list r2a_in) : Prop :=
  match ins with
  | [] => True
  | i :: rest => b_reset i = false /\ (r2a_valid_now s = true -> b_load i = false) /\ r2a_env_strict DW (r2a_step DW s i) rest
  end.

(* (accepted beats, effective load pulses) along a schedule started in state s, counted on the gate-level wires *)
Fixpoint r2a_counts (DW : Z) (s : r2a_st) (ins : list r2a_in) : Z * Z :=
  match ins with
  | [] => (0, 0)
  | i :: rest =>
      let '(acc, lds) := r2a_counts DW (r2a_step DW s i) rest in
      (acc + b2z (r2a_accepted (r2a_valid_now s) i), lds + b2z (r2a_loadp (r2a_active_now s) i))
  end.

(* ------------------------------------------------------------------ control FSMs (generated clock() + the wires they prepare) *)
Definition vk_state (st : VitisKernelFSM_state) : Z := VitisKernelFSM_s_state st.
Definition vk_done (o : VitisKernelFSM_out) : option Z := VitisKernelFSM_o_ap_done o.
Definition vk_step (st : VitisKernelFSM_state) (start load sent : bool) : VitisKernelFSM_state * VitisKernelFSM_out :=
  VitisKernelFSM_clock 1 1 1 st (b2z start) (b2z load) (b2z sent).
(* a prepared value replaces the wire's value at the edge; no prepare = the wire keeps its value *)
Definition upd (old : Z) (o : option Z) : Z := match o with Some v => v | None => old end.
(* FSM state + the ap_done / ap_idle / ap_ready wires *)
Record vk_sys := { vs_st : VitisKernelFSM_state; vs_done : Z; vs_idle : Z; vs_ready : Z }.
Definition vk_sys0 := {| vs_st := {| VitisKernelFSM_s_state := 0 |}; vs_done := 0; vs_idle := 0; vs_ready := 0 |}.
Definition vk_sys_step (s : vk_sys) (i : bool * bool * bool) : vk_sys :=
  let '(start, load, sent) := i in
  let '(st', o) := vk_step (vs_st s) start load sent in
  {| vs_st := st'; vs_done := upd (vs_done s) (VitisKernelFSM_o_ap_done o);
     vs_idle := upd (vs_idle s) (VitisKernelFSM_o_ap_idle o); vs_ready := upd (vs_ready s) (VitisKernelFSM_o_ap_ready o) |}.
Definition vk_sys_run (ins : list (bool * bool * bool)) : vk_sys := fold_left vk_sys_step ins vk_sys0.

(* Axi2ClkFSM + its three output wires (clk_count is cw bits wide and is read back by the FSM) *)
Record a2c_sys := { cs_st : Axi2ClkFSM_state; cs_count : Z; cs_clk : Z; cs_load : Z }.
Definition a2c_idle (count : Z) : a2c_sys :=
  {| cs_st := {| Axi2ClkFSM_s_state := 0; Axi2ClkFSM_s_target := 0 |}; cs_count := count; cs_clk := 0; cs_load := 0 |}.
Definition a2c_step (cw : Z) (s : a2c_sys) (i : bool * Z) : a2c_sys :=
  let '(st', o) := Axi2ClkFSM_clock cw 1 1 (cs_st s) (b2z (fst i)) (snd i) (cs_count s) in
  {| cs_st := st'; cs_count := upd (cs_count s) (Axi2ClkFSM_o_clk_count o);
     cs_clk := upd (cs_clk s) (Axi2ClkFSM_o_clk_out o); cs_load := upd (cs_load s) (Axi2ClkFSM_o_load_outs o) |}.
Fixpoint a2c_trace (cw : Z) (s : a2c_sys) (ins : list (bool * Z)) : list (Z * Z) :=
  match ins with [] => [] | i :: rest => let s' := a2c_step cw s i in (cs_clk s', cs_load s') :: a2c_trace cw s' rest end.

Definition a2c_mk (st tgt c x l : Z) : a2c_sys :=
  {| cs_st := {| Axi2ClkFSM_s_state := st; Axi2ClkFSM_s_target := tgt |}; cs_count := c; cs_clk := x; cs_load := l |}.

(* HISTORY ONLY: hand copy of Axi2ClkFSM.clock as it was before the repair 03e7104 (finding C16-F2): the counter was cleared
   only in an IDLE cycle without a handshake.  Not tied to /repo; used by one Example in Properties/C16.v. *)
Definition a2c_step_before_03e7104 (cw : Z) (s : a2c_sys) (i : bool * Z) : a2c_sys :=
  let st := Axi2ClkFSM_s_state (cs_st s) in let tgt := Axi2ClkFSM_s_target (cs_st s) in
  if st =? 0 then (if fst i then a2c_mk 1 (snd i) (cs_count s) (cs_clk s) 0 else a2c_mk 0 tgt 0 0 0)
  else if st =? 1 then a2c_mk 2 tgt (Wire_prepare cw (cs_count s + 1)) 1 (cs_load s)
  else if st =? 2 then a2c_mk (if cs_count s =? tgt then 3 else 1) tgt (cs_count s) 0 (cs_load s)
  else if st =? 3 then a2c_mk 0 tgt (cs_count s) (cs_clk s) 1
  else s.
Fixpoint a2c_trace_before_03e7104 (cw : Z) (s : a2c_sys) (ins : list (bool * Z)) : list (Z * Z) :=
  match ins with [] => [] | i :: rest => let s' := a2c_step_before_03e7104 cw s i in (cs_clk s', cs_load s') :: a2c_trace_before_03e7104 cw s' rest end.

(* ------------------------------------------------------------------ helpers for the correspondence case files *)
Definition zb (z : Z) : bool := negb (z =? 0).
(* (start, reset, done, tvalid, tdata) *)
Definition mkA (t : Z * Z * Z * Z * Z) : a2r_in :=
  let '(s, r, d, v, x) := t in {| a_start := zb s; a_reset := zb r; a_done := zb d; a_tvalid := zb v; a_tdata := x |}.
(* (start, reset, done, load_outs, tready, reg_in) *)
Definition mkB (t : Z * Z * Z * Z * Z * Z) : r2a_in :=
  let '(s, r, d, l, y, x) := t in
  {| b_start := zb s; b_reset := zb r; b_done := zb d; b_load := zb l; b_tready := zb y; b_regin := x |}.

(* state of the model rebuilt from a snapshot of the real block: (Reg.value ..., wire values ...) *)
Definition a2r_of_snapshot (t : Z * Z * Z * Z * Z * Z) : a2r_st :=
  let '(vd, vl, va, q, l, a) := t in
  {| ga_rdata := {| Reg_s_value := vd |}; ga_rloaded := {| Reg_s_value := vl |}; ga_ractive := {| Reg_s_value := va |};
     ga_q := q; ga_loaded := l; ga_active := a |}.
Definition a2r_snapshot (s : a2r_st) : list Z :=
  [Reg_s_value (ga_rdata s); Reg_s_value (ga_rloaded s); Reg_s_value (ga_ractive s); ga_q s; ga_loaded s; ga_active s].
Definition r2a_of_snapshot (t : Z * Z * Z * Z * Z * Z * Z * Z) : r2a_st :=
  let '(vv, vt, vs, va, tv, td, se, ac) := t in
  {| gb_rtvalid := {| Reg_s_value := vv |}; gb_rtdata := {| Reg_s_value := vt |}; gb_rsent := {| Reg_s_value := vs |};
     gb_ractive := {| Reg_s_value := va |}; gb_tvalid := tv; gb_tdata := td; gb_sent := se; gb_active := ac |}.
Definition r2a_snapshot (s : r2a_st) : list Z :=
  [Reg_s_value (gb_rtvalid s); Reg_s_value (gb_rtdata s); Reg_s_value (gb_rsent s); Reg_s_value (gb_ractive s);
   gb_tvalid s; gb_tdata s; gb_sent s; gb_active s].

(* first index where two traces differ: None = equal *)
Fixpoint trace_diff (k : nat) (a b : list (list Z)) : option (nat * list Z * list Z) :=
  match a, b with
  | [], [] => None
  | x :: a', y :: b' => if forallb (fun p => fst p =? snd p) (combine x y) && (length x =? length y)%nat
                        then trace_diff (S k) a' b' else Some (k, x, y)
  | x :: _, [] => Some (k, x, [])
  | [], y :: _ => Some (k, [], y)
  end.

Fixpoint a2r_ref_trace_from (W : Z) (s : a2r_ref) (ins : list a2r_in) : list (list Z) :=
  match ins with [] => [] | i :: rest => let s' := a2r_ref_step W s i in a2r_ref_obs s' :: a2r_ref_trace_from W s' rest end.
Fixpoint r2a_ref_trace_from (W DW : Z) (s : r2a_ref) (ins : list r2a_in) : list (list Z) :=
  match ins with [] => [] | i :: rest => let s' := r2a_ref_step DW s i in r2a_ref_obs W s' :: r2a_ref_trace_from W DW s' rest end.
(* the history reading evaluated after every prefix of the schedule *)
Fixpoint a2r_hist_trace (W : Z) (pre : list a2r_in) (ins : list a2r_in) : list (list Z) :=
  match ins with [] => [] | i :: rest => a2r_expected W (pre ++ [i]) :: a2r_hist_trace W (pre ++ [i]) rest end.

(* one-transition checks from a snapshot of the real block (exhaustive state x input sweep) *)
Definition eq_list (a b : list Z) : bool := forallb (fun p => fst p =? snd p) (combine a b) && (length a =? length b)%nat.
Fixpoint bad_idx {A} (f : A -> bool) (k : nat) (l : list A) : list nat :=
  match l with [] => [] | x :: r => if f x then bad_idx f (S k) r else k :: bad_idx f (S k) r end.
(* expected = snapshot after the edge ++ observed outputs *)
Definition a2r_trans_ok (W : Z) (t : (Z * Z * Z * Z * Z * Z) * (Z * Z * Z * Z * Z) * list Z) : bool :=
  let '(snap, inp, exp) := t in
  let s' := a2r_step W (a2r_of_snapshot snap) (mkA inp) in eq_list (a2r_snapshot s' ++ a2r_obs s') exp.
Definition a2r_ref_trans_ok (W : Z) (t : (Z * Z * Z * Z * Z * Z) * (Z * Z * Z * Z * Z) * list Z) : bool :=
  let '(snap, inp, exp) := t in let '(_, _, _, q, l, a) := snap in
  let s' := a2r_ref_step W {| ra_q := q; ra_loaded := zb l; ra_active := zb a |} (mkA inp) in
  eq_list (a2r_ref_obs s') (skipn 6 exp).
Definition r2a_trans_ok (W DW KW : Z) (t : (Z * Z * Z * Z * Z * Z * Z * Z) * (Z * Z * Z * Z * Z * Z) * list Z) : bool :=
  let '(snap, inp, exp) := t in
  let s' := r2a_step DW (r2a_of_snapshot snap) (mkB inp) in eq_list (r2a_snapshot s' ++ r2a_obs W KW s') exp.
Definition r2a_ref_trans_ok (W DW : Z) (t : (Z * Z * Z * Z * Z * Z * Z * Z) * (Z * Z * Z * Z * Z * Z) * list Z) : bool :=
  let '(snap, inp, exp) := t in let '(_, _, _, _, tv, td, se, ac) := snap in
  let s' := r2a_ref_step DW {| rb_tvalid := zb tv; rb_tdata := td; rb_sent := zb se; rb_active := zb ac |} (mkB inp) in
  eq_list (r2a_ref_obs W s') (skipn 8 exp).

(* the same as tables computed here and compared outside: for every given snapshot and every given input,
   [state after the edge ++ outputs of the gate-level model ++ outputs of the reference machine] *)
Definition a2r_table (W : Z) (snaps : list (Z * Z * Z * Z * Z * Z)) (inputs : list (Z * Z * Z * Z * Z)) : list (list (list Z)) :=
  map (fun sn => map (fun i =>
         let s' := a2r_step W (a2r_of_snapshot sn) (mkA i) in
         let '(_, _, _, q, l, a) := sn in
         a2r_snapshot s' ++ a2r_obs s' ++ a2r_ref_obs (a2r_ref_step W {| ra_q := q; ra_loaded := zb l; ra_active := zb a |} (mkA i)))
       inputs) snaps.
Definition r2a_table (W DW KW : Z) (snaps : list (Z * Z * Z * Z * Z * Z * Z * Z)) (inputs : list (Z * Z * Z * Z * Z * Z)) : list (list (list Z)) :=
  map (fun sn => map (fun i =>
         let s' := r2a_step DW (r2a_of_snapshot sn) (mkB i) in
         let '(_, _, _, _, tv, td, se, ac) := sn in
         r2a_snapshot s' ++ r2a_obs W KW s' ++
         r2a_ref_obs W (r2a_ref_step DW {| rb_tvalid := zb tv; rb_tdata := td; rb_sent := zb se; rb_active := zb ac |} (mkB i)))
       inputs) snaps.

(* ------------------------------------------------------------------ composition: Reg2Axi -> one stream -> Axi2Reg *)
(* one cycle of the two gate-level adapters sharing a stream: the consumer's READY and the producer's VALID/DATA of the
   current state are what the other side samples at the edge.  Inputs (start_p, start_c, reset, done, load_outs, reg_in);
   reset and done are shared, each kernel has its own start.  Outputs: Reg2Axi's six, then Axi2Reg's four. *)
Definition link_step (W Q DW : Z) (s : r2a_st * a2r_st) (t : Z * Z * Z * Z * Z * Z) : r2a_st * a2r_st :=
  let '(sp, sc, r, d, l, x) := t in
  let '(sb, sa) := s in
  let tready := a2r_tready sa in let tvalid := r2a_tvalid sb in let tdata := r2a_tdata sb in
  (r2a_step DW sb (mkB (sp, r, d, l, tready, x)), a2r_step Q sa (mkA (sc, r, d, tvalid, tdata))).
Fixpoint link_trace_from (W Q DW KW : Z) (s : r2a_st * a2r_st) (ins : list (Z * Z * Z * Z * Z * Z)) : list (list Z) :=
  match ins with
  | [] => []
  | i :: rest => let s' := link_step W Q DW s i in (r2a_obs W KW (fst s') ++ a2r_obs (snd s')) :: link_trace_from W Q DW KW s' rest
  end.
Definition link_trace (W Q DW KW : Z) ins := link_trace_from W Q DW KW (r2a_st0, a2r_st0) ins.
(* the observations at the given cycle indices only (a test bench that advances several cycles per clk() call) *)
Definition pick {A} (l : list A) (d : A) (idx : list nat) : list A := map (fun k => nth k l d) idx.
