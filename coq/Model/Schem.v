(* C18 — data model of "what a block really is" (circuit) and "what its schematic shows" (layout), and the
   executable validator  schem_ok : circuit -> layout -> bool  that is run by vm_compute on every dumped result
   of the real  Schematic(obj)  (py/props/c18_dump.py writes these terms).   NO proofs in this file; the validator
   is proved sound against Spec/C18.v in Proofs/C18/Sound.v. *)
From Coq Require Import List ZArith Bool Arith.
Import ListNotations.

(* ------------------------------------------------------------------ the block itself *)
Inductive elem := EIn (i : nat) | EChild (k : nat) | EOut (j : nat).      (* block in-port / child instance / block out-port *)
Record pin := Pin { p_el : elem; p_out : bool; p_ix : nat }.               (* owner, is-an-output-of-its-owner, index *)
Record wconn := WC { w_id : nat; w_drv : pin; w_rd : list pin }.           (* a wire: the pin driving it, the pins reading it *)
Record circuit := Circ { c_nin : nat; c_nout : nat; c_ch : list (nat * nat) (* per child: #in pins, #out pins *); c_wires : list wconn }.

(* ------------------------------------------------------------------ the picture *)
Inductive skind := KInst | KIn | KOut | KInOut | KPass | KFbStart | KFbStop | KMissing | KOther.
Record sym := Sym { s_id : nat; s_kind : skind; s_for : option elem; s_row : Z; s_col : Z; s_x : Z; s_y : Z; s_w : Z; s_h : Z }.
Record nend := End { e_sym : nat; e_pin : option pin }.                    (* a net end: the symbol it is attached to, the pin it names *)
(* n_from / n_to: first and last point of the polyline routed for the net (None = never routed, i.e. not drawn) *)
Record net := Net { n_wire : nat; n_src : nend; n_snk : nend; n_from : option (Z * Z); n_to : option (Z * Z) }.
(* where a symbol draws one of its pins: symbol id, pin, absolute x, y  (symbol.x + getPortSourcePos/getPortSinkPos) *)
Record pinat := PinAt { a_sym : nat; a_pin : pin; a_x : Z; a_y : Z }.
(* what the symbol's draw() really PAINTS for a pin: the bounding box of the pin marker (recorded on a canvas that only logs the
   drawing calls; which marker belongs to which port is read off the label text / the drawing order — an independent source) *)
Record markat := MarkAt { m_sym : nat; m_pin : pin; m_x0 : Z; m_y0 : Z; m_x1 : Z; m_y1 : Z }.
Record layout := Lay { l_syms : list sym; l_nets : list net; l_pins : list pinat; l_marks : list markat }.

Definition node := (nat * option pin)%type.                                (* an attachment point: symbol id, pin *)

(* pass-through and feedback markers: everything attached to one marker is the same electrical point *)
Definition virtual (k : skind) : bool := match k with KPass | KFbStart | KFbStop => true | _ => false end.

(* ------------------------------------------------------------------ decidable equalities *)
Definition elem_eqb (a b : elem) : bool :=
  match a, b with
  | EIn i, EIn j => Nat.eqb i j | EChild i, EChild j => Nat.eqb i j | EOut i, EOut j => Nat.eqb i j
  | _, _ => false
  end.
Definition pin_eqb (p q : pin) : bool := elem_eqb (p_el p) (p_el q) && Bool.eqb (p_out p) (p_out q) && Nat.eqb (p_ix p) (p_ix q).
Definition opin_eqb (a b : option pin) : bool :=
  match a, b with None, None => true | Some p, Some q => pin_eqb p q | _, _ => false end.
Definition oelem_eqb (a b : option elem) : bool :=
  match a, b with None, None => true | Some p, Some q => elem_eqb p q | _, _ => false end.
Definition node_eqb (a b : node) : bool := Nat.eqb (fst a) (fst b) && opin_eqb (snd a) (snd b).
Definition skind_eqb (a b : skind) : bool :=
  match a, b with
  | KInst, KInst | KIn, KIn | KOut, KOut | KInOut, KInOut | KPass, KPass | KFbStart, KFbStart | KFbStop, KFbStop
  | KMissing, KMissing | KOther, KOther => true
  | _, _ => false
  end.

Fixpoint nodupb {A} (eqb : A -> A -> bool) (l : list A) : bool :=
  match l with [] => true | x :: t => negb (existsb (eqb x) t) && nodupb eqb t end.
Fixpoint all_pairs {A} (f : A -> A -> bool) (l : list A) : bool :=
  match l with [] => true | x :: t => forallb (f x) t && all_pairs f t end.
Fixpoint count {A} (f : A -> bool) (l : list A) : nat :=
  match l with [] => O | x :: t => (if f x then 1 else 0) + count f t end.

(* ------------------------------------------------------------------ the circuit dump is a connectivity *)
Definition kind_of_elem (e : elem) : skind := match e with EIn _ => KIn | EChild _ => KInst | EOut _ => KOut end.
Definition elem_ok (c : circuit) (e : elem) : bool :=
  match e with EIn i => Nat.ltb i (c_nin c) | EChild k => Nat.ltb k (length (c_ch c)) | EOut j => Nat.ltb j (c_nout c) end.
Definition elems (c : circuit) : list elem :=
  map EIn (seq 0 (c_nin c)) ++ map EChild (seq 0 (length (c_ch c))) ++ map EOut (seq 0 (c_nout c)).

Definition drv_pin_ok (c : circuit) (p : pin) : bool :=
  p_out p &&
  match p_el p with
  | EIn i => Nat.ltb i (c_nin c) && Nat.eqb (p_ix p) 0
  | EChild k => match nth_error (c_ch c) k with Some io => Nat.ltb (p_ix p) (snd io) | None => false end
  | EOut _ => false
  end.
Definition rd_pin_ok (c : circuit) (p : pin) : bool :=
  negb (p_out p) &&
  match p_el p with
  | EOut j => Nat.ltb j (c_nout c) && Nat.eqb (p_ix p) 0
  | EChild k => match nth_error (c_ch c) k with Some io => Nat.ltb (p_ix p) (fst io) | None => false end
  | EIn _ => false
  end.
Definition wire_pins (w : wconn) : list pin := w_drv w :: w_rd w.
Definition circ_ok (c : circuit) : bool :=
  nodupb Nat.eqb (map w_id (c_wires c)) &&
  forallb (fun w => drv_pin_ok c (w_drv w) && forallb (rd_pin_ok c) (w_rd w)) (c_wires c) &&
  nodupb pin_eqb (flat_map wire_pins (c_wires c)).

Definition pin_of_wire (w : wconn) (p : pin) : bool := existsb (pin_eqb p) (wire_pins w).
Definition find_wire (c : circuit) (i : nat) : option wconn := find (fun w => Nat.eqb (w_id w) i) (c_wires c).

(* ------------------------------------------------------------------ clause 1: one symbol per child / port *)
Definition is_real (s : sym) : bool := negb (virtual (s_kind s)).
Definition real_syms (l : layout) : list sym := filter is_real (l_syms l).
Definition find_sym (l : layout) (i : nat) : option sym := find (fun s => Nat.eqb (s_id s) i) (l_syms l).
Definition stands_for (e : elem) (s : sym) : bool := oelem_eqb (s_for s) (Some e).
Definition sym_of (l : layout) (e : elem) : option sym := find (stands_for e) (real_syms l).

Definition chk_ids (l : layout) : bool := nodupb Nat.eqb (map s_id (l_syms l)).
Definition chk_only (c : circuit) (l : layout) : bool :=
  forallb (fun s => match s_for s with Some e => elem_ok c e && skind_eqb (s_kind s) (kind_of_elem e) | None => false end) (real_syms l).
Definition chk_each (c : circuit) (l : layout) : bool :=
  forallb (fun e => Nat.eqb (count (stands_for e) (real_syms l)) 1) (elems c).

(* ------------------------------------------------------------------ clause 2: no two of them in one cell / overlapping *)
Definition same_cellb (a b : sym) : bool := Z.eqb (s_row a) (s_row b) && Z.eqb (s_col a) (s_col b).
Definition overlapb (a b : sym) : bool :=
  Z.ltb (s_x a) (s_x b + s_w b) && Z.ltb (s_x b) (s_x a + s_w a) && Z.ltb (s_y a) (s_y b + s_h b) && Z.ltb (s_y b) (s_y a + s_h a).
Definition apartb (a b : sym) : bool := negb (same_cellb a b) && negb (overlapb a b).
Definition chk_geom (l : layout) : bool :=
  forallb (fun s => Z.ltb 0 (s_w s) && Z.ltb 0 (s_h s)) (real_syms l) && all_pairs apartb (real_syms l).

(* ------------------------------------------------------------------ clause 4: what a net end may name *)
Definition end_ok (l : layout) (w : wconn) (e : nend) : bool :=
  match find_sym l (e_sym e) with
  | None => false                                                           (* attached to something that is not drawn *)
  | Some s =>
      if virtual (s_kind s)
      then match e_pin e with None => true | Some p => pin_of_wire w p end
      else match e_pin e with
           | None => false                                                  (* touches an instance / port symbol at no stated pin *)
           | Some p => pin_of_wire w p && stands_for (p_el p) s
           end
  end.
Definition net_ok (c : circuit) (l : layout) (n : net) : bool :=
  match find_wire c (n_wire n) with
  | None => false                                                           (* a net of a wire that is not in the block *)
  | Some w => end_ok l w (n_src n) && end_ok l w (n_snk n)
  end.
Definition chk_ends (c : circuit) (l : layout) : bool := forallb (net_ok c l) (l_nets l).

(* ------------------------------------------------------------------ clause 3: per wire, one connected figure *)
Definition nnode (l : layout) (e : nend) : node :=
  match find_sym l (e_sym e) with
  | Some s => if virtual (s_kind s) then (e_sym e, None) else (e_sym e, e_pin e)
  | None => (e_sym e, e_pin e)
  end.
Definition edges (l : layout) (wid : nat) : list (node * node) :=
  map (fun n => (nnode l (n_src n), nnode l (n_snk n))) (filter (fun n => Nat.eqb (n_wire n) wid) (l_nets l)).

Definition mem (a : node) (R : list node) : bool := existsb (node_eqb a) R.
Definition grow1 (acc : list node) (e : node * node) : list node :=
  if mem (fst e) acc then (if mem (snd e) acc then acc else snd e :: acc)
  else if mem (snd e) acc then fst e :: acc else acc.
Definition grow (E : list (node * node)) (R : list node) : list node := fold_left grow1 E R.
Fixpoint reach (fuel : nat) (E : list (node * node)) (R : list node) : list node :=
  match fuel with
  | O => R
  | S f => let R' := grow E R in if Nat.eqb (length R') (length R) then R else reach f E R'
  end.

(* the closure stops as soon as a pass adds nothing; every productive pass adds a point, and there are at most
   1 + 2|E| points, so this fuel always reaches the fixpoint (proved in Proofs/C18/Complete.v) *)
Definition fuel_for (E : list (node * node)) : nat := S (S (2 * length E)).

Definition chk_wire (l : layout) (w : wconn) : bool :=
  match sym_of l (p_el (w_drv w)) with
  | None => false
  | Some sd =>
      let E := edges l (w_id w) in
      let R := reach (fuel_for E) E [(s_id sd, Some (w_drv w))] in
      forallb (fun e => mem (fst e) R && mem (snd e) R) E &&
      forallb (fun p => match sym_of l (p_el p) with Some sp => mem (s_id sp, Some p) R | None => false end) (w_rd w)
  end.
Definition chk_wires (c : circuit) (l : layout) : bool := forallb (chk_wire l) (c_wires c).

(* ------------------------------------------------------------------ clause 5: pin geometry *)
(* two pins drawn at ONE point must be pins of one wire (else a net ending there touches a pin of another wire) *)
Definition same_wire_pins (c : circuit) (p q : pin) : bool :=
  forallb (fun w => forallb (fun w' => negb (pin_of_wire w p && pin_of_wire w' q) || Nat.eqb (w_id w) (w_id w')) (c_wires c)) (c_wires c).
Definition same_pt (a b : pinat) : bool := Z.eqb (a_x a) (a_x b) && Z.eqb (a_y a) (a_y b).
Definition pins_apartb (c : circuit) (a b : pinat) : bool := if same_pt a b then same_wire_pins c (a_pin a) (a_pin b) else true.
Definition chk_pinpts (c : circuit) (l : layout) : bool := all_pairs (pins_apartb c) (l_pins l).

(* every net is routed, and an end on an instance / port symbol is drawn exactly at the point where that symbol draws the named pin *)
Definition at_pin_pt (i : nat) (p : pin) (xy : Z * Z) (a : pinat) : bool :=
  Nat.eqb (a_sym a) i && pin_eqb (a_pin a) p && Z.eqb (a_x a) (fst xy) && Z.eqb (a_y a) (snd xy).
Definition geo_end (l : layout) (e : nend) (pt : option (Z * Z)) : bool :=
  match find_sym l (e_sym e) with
  | None => false
  | Some s =>
      if virtual (s_kind s) then true
      else match e_pin e, pt with
           | Some p, Some xy => existsb (at_pin_pt (e_sym e) p xy) (l_pins l)
           | _, _ => false
           end
  end.
Definition is_some {A} (o : option A) : bool := match o with Some _ => true | None => false end.
Definition net_geo (l : layout) (n : net) : bool :=
  is_some (n_from n) && is_some (n_to n) && geo_end l (n_src n) (n_from n) && geo_end l (n_snk n) (n_to n).
Definition chk_geo (l : layout) : bool := forallb (net_geo l) (l_nets l).

(* the point a symbol computes for a pin lies on the marker the symbol paints for that pin *)
Definition on_mark (m : markat) (a : pinat) : bool :=
  Z.leb (m_x0 m) (a_x a) && Z.leb (a_x a) (m_x1 m) && Z.leb (m_y0 m) (a_y a) && Z.leb (a_y a) (m_y1 m).
Definition mark_ok (l : layout) (m : markat) : bool :=
  forallb (fun a => if Nat.eqb (a_sym a) (m_sym m) && pin_eqb (a_pin a) (m_pin m) then on_mark m a else true) (l_pins l).
Definition chk_marks (l : layout) : bool := forallb (mark_ok l) (l_marks l).

(* ------------------------------------------------------------------ the validator *)
Definition schem_ok (c : circuit) (l : layout) : bool :=
  circ_ok c && chk_ids l && chk_only c l && chk_each c l && chk_geom l && chk_ends c l && chk_wires c l && chk_pinpts c l && chk_geo l && chk_marks l.

(* diagnosis printed by the harness when schem_ok = false: which clause, which symbols / nets / wires
   (only nat / bool / list / tuple values, so that the harness can parse the printed term) *)
Definition elem_code (e : elem) : nat * nat := match e with EIn i => (0, i) | EChild k => (1, k) | EOut j => (2, j) end.
Definition bad_pairs (l : layout) : list (nat * nat) :=
  flat_map (fun a => flat_map (fun b => if Nat.ltb (s_id a) (s_id b) && negb (apartb a b) then [(s_id a, s_id b)] else []) (real_syms l)) (real_syms l).
(* (wire id, has a driver symbol, positions in w_rd of the reader pins not reached, number of nets not connected to the driver) *)
Definition wire_diag (l : layout) (w : wconn) : nat * bool * list nat * nat :=
  match sym_of l (p_el (w_drv w)) with
  | None => (w_id w, false, [], O)
  | Some sd =>
      let E := edges l (w_id w) in
      let R := reach (fuel_for E) E [(s_id sd, Some (w_drv w))] in
      (w_id w, true,
       map fst (filter (fun kp => match sym_of l (p_el (snd kp)) with Some sp => negb (mem (s_id sp, Some (snd kp)) R) | None => true end)
                       (combine (seq 0 (length (w_rd w))) (w_rd w))),
       length (filter (fun e => negb (mem (fst e) R && mem (snd e) R)) E))
  end.
Definition coincident_pins (c : circuit) (l : layout) : list (nat * nat * Z * Z) :=      (* (symbol a, symbol b, x, y) of clashing pins *)
  flat_map (fun ka => flat_map (fun kb => if Nat.ltb (fst ka) (fst kb) && negb (pins_apartb c (snd ka) (snd kb))
                                          then [(a_sym (snd ka), a_sym (snd kb), a_x (snd ka), a_y (snd ka))] else [])
                               (combine (seq 0 (length (l_pins l))) (l_pins l)))
           (combine (seq 0 (length (l_pins l))) (l_pins l)).
Definition schem_diag (c : circuit) (l : layout) :=
  ( (circ_ok c, chk_ids l, chk_only c l, chk_each c l, chk_geom l, chk_ends c l, chk_wires c l, chk_pinpts c l, chk_geo l, chk_marks l),
    map elem_code (filter (fun e => negb (Nat.eqb (count (stands_for e) (real_syms l)) 1)) (elems c)),   (* elements without exactly one symbol *)
    map s_id (filter (fun s => match s_for s with Some e => negb (elem_ok c e && skind_eqb (s_kind s) (kind_of_elem e)) | None => true end) (real_syms l)),
    bad_pairs l,                                                                                   (* instance/port symbols in one cell or overlapping *)
    map fst (filter (fun kn => negb (net_ok c l (snd kn))) (combine (seq 0 (length (l_nets l))) (l_nets l))),    (* indices of bad nets *)
    map (wire_diag l) (filter (fun w => negb (chk_wire l w)) (c_wires c)),                         (* wires whose figure is wrong *)
    coincident_pins c l,                                                                           (* pins of different wires drawn at one point *)
    map fst (filter (fun kn => negb (net_geo l (snd kn))) (combine (seq 0 (length (l_nets l))) (l_nets l))),     (* nets not routed / not ending on the pin *)
    map fst (filter (fun km => negb (mark_ok l (snd km))) (combine (seq 0 (length (l_marks l))) (l_marks l))) ). (* markers whose pin is computed elsewhere *)
