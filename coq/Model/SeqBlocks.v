(* C09 — the sequential library blocks of py4hw/logic/{storage,arithmetic,clock}.py as step functions.
   NO PROOFS in this file.

   Leaves are the REGENERATED definitions (Gen/Seq.v: Reg_clock, SynchronousMemory_clock, AutoReset_clock;
   Gen/Prims.v: the combinational primitives).  Structural blocks are composed from them exactly as the
   constructors wire them (line references to /repo); every intermediate wire's width is explicit because
   every primitive truncates its result to the width of the wire it drives.

   How a block runs under the cycle simulator (Simulator.clk(1) = propagateAll; clock all; settleAll; propagateAll):
   the combinational wires seen by the clocked leaves at an edge are functions of the CURRENT register outputs
   and the CURRENT (poked) inputs; all clocked leaves sample simultaneously; afterwards the combinational
   wires are recomputed from the new register outputs and the same inputs.
   So each block is   step : state -> inputs -> state   and   out : state -> inputs -> outputs.

   A register is a `cell` = (the leaf's attribute self.value [UNMASKED], the value of its q wire).
   At power-up value = reset_value and the constructor puts it on q (storage.py:90-91: self.q.put(self.value)),
   so the q wire shows reset_value masked to its width from construction on. *)
From V Require Import Base.PyInt Gen.WireOps Gen.Helpers Gen.Prims Gen.Seq Spec.C09.

(* ------------------------------------------------------------------ Reg (storage.py:31-110) *)
Definition cell := (Reg_state * Z)%type.
(* Reg.__init__: self.value = reset_value; self.q.put(self.value) *)
Definition cell_init (w rv : Z) : cell := ({| Reg_s_value := rv |}, Wire_put w rv).
(* every register inside the structural blocks has reset_value 0: cell_init w 0 for every w (Wire_put w 0 computes to 0) *)
Definition cell_zero : cell := ({| Reg_s_value := 0 |}, 0).
Definition cell_value (c : cell) : Z := Reg_s_value (fst c).
Definition cell_q (c : cell) : Z := snd c.
(* one edge: Reg.clock() then settle of q.  he/hr: the enable / reset port exists *)
Definition reg_edge (w : Z) (he hr : bool) (rv : Z) (c : cell) (d e r : Z) : cell :=
  Reg_clock w he hr rv (fst c) d e r.

(* ------------------------------------------------------------------ TReg (storage.py:121-143)
   nq[1] <- Not(q);  d[1] <- Mux2(sel=t, sel0=q, sel1=nq);  Reg(d, q, enable, reset), reset_value 0 *)
Definition treg_d (q t : Z) : Z :=
  let nq := Not_propagate 1 q in
  Mux2_propagate 1 t q nq.
Definition treg_step (wq : Z) (he hr : bool) (c : cell) (t e r : Z) : cell :=
  reg_edge wq he hr 0 c (treg_d (cell_q c) t) e r.

(* ------------------------------------------------------------------ Counter (arithmetic.py:711-768)
   one,zero,add,d,d1 : w bits; e_add : 1 bit.  inc=None -> inc := one; reset=None -> reset := zero.
   Add(q, one, add) = AddCarryIn(q, one, add, ci) with ci[1] <- Constant 0  (arithmetic.py:44-58) *)
Definition add_m (wr a b : Z) : Z := AddCarryIn_propagate wr a b (Constant_propagate 1 0).
Definition counter_comb (w : Z) (hi hr : bool) (q reset inc : Z) : Z * Z :=
  let one := Constant_propagate w 1 in
  let zero := Constant_propagate w 0 in
  let inc' := if hi then inc else one in
  let reset' := if hr then reset else zero in
  let d1 := Mux2_propagate w inc' q (add_m w q one) in
  let d := Mux2_propagate w reset' d1 zero in
  let e_add := Or2_propagate 1 reset' inc' in
  (d, e_add).
Definition counter_step (w : Z) (hi hr : bool) (c : cell) (reset inc : Z) : cell :=
  let '(d, e) := counter_comb w hi hr (cell_q c) reset inc in
  reg_edge w true false 0 c d e 0.

(* ------------------------------------------------------------------ EqualConstant (relational.py:77-119)
   width 1: Not (v == 0) / Buf (otherwise);  else BitsLSBF into 1-bit wires, Minterm (bitwise.py:1184-1194:
   bit i of the constant 0 -> Not on a 1-bit wire), And ladder (bitwise.py:44-69) on wires of r's width *)
Definition and_ladder (wr : Z) (ins : list Z) : Z :=
  match ins with
  | [] => 0                       (* cannot be built *)
  | [a] => Buf_propagate wr a
  | a :: rest => fold_left (fun acc x => And2_propagate wr acc x) rest a
  end.
Fixpoint minterm_parts (i value : Z) (bits : list Z) : list Z :=
  match bits with
  | [] => []
  | b :: t => (if Z.land (py_shr value i) 1 =? 0 then Not_propagate 1 b else b) :: minterm_parts (i + 1) value t
  end.
Definition equal_constant (wa wr v a : Z) : Z :=
  if wa =? 1 then (if v =? 0 then Not_propagate wr a else Buf_propagate wr a)
  else and_ladder wr (minterm_parts 0 v (BitsLSBF_propagate wa (repeat 1 (Z.to_nat wa)) a)).

(* ------------------------------------------------------------------ ModuloCounter (arithmetic.py:770-828)
   carryout[wc] <- EqualConstant(q, mod-1); anyreset[1] <- Or2(reset, carryout); d1 <- Mux2(inc, q, add);
   d <- Mux2(anyreset, d1, zero); e_add[1] <- Or2(reset, inc); Reg(d, q, enable=e_add) *)
Definition modcounter_comb (w wc m : Z) (q reset inc : Z) : Z * Z * Z :=
  let one := Constant_propagate w 1 in
  let zero := Constant_propagate w 0 in
  let carry := equal_constant w wc (m - 1) q in
  let anyreset := Or2_propagate 1 reset carry in
  let d1 := Mux2_propagate w inc q (add_m w q one) in
  let d := Mux2_propagate w anyreset d1 zero in
  let e_add := Or2_propagate 1 reset inc in
  (d, e_add, carry).
Definition modcounter_step (w wc m : Z) (c : cell) (reset inc : Z) : cell :=
  let '(d, e, _) := modcounter_comb w wc m (cell_q c) reset inc in
  reg_edge w true false 0 c d e 0.
Definition modcounter_carry (w wc m : Z) (c : cell) : Z := equal_constant w wc (m - 1) (cell_q c).

(* ------------------------------------------------------------------ StepUpCounter (arithmetic.py:1049-1107)
   as Counter with add <- Add(q, step); inc=None raises NameError in the constructor, so inc is always a port *)
Definition stepup_comb (w : Z) (hr : bool) (q reset inc step : Z) : Z * Z :=
  let zero := Constant_propagate w 0 in
  let reset' := if hr then reset else zero in
  let d1 := Mux2_propagate w inc q (add_m w q step) in
  let d := Mux2_propagate w reset' d1 zero in
  let e_add := Or2_propagate 1 reset' inc in
  (d, e_add).
Definition stepup_step (w : Z) (hr : bool) (c : cell) (reset inc step : Z) : cell :=
  let '(d, e) := stepup_comb w hr (cell_q c) reset inc step in
  reg_edge w true false 0 c d e 0.

(* ------------------------------------------------------------------ DelayLine (storage.py:145-187)
   last := a; `delay` times: Reg(last, r_i[w], enable=en, reset=reset); last := r_i.  Buf(last, r[wr]).
   All registers sample at the same edge: register i sees the OLD output of register i-1. *)
Fixpoint delay_step (w : Z) (he hr : bool) (cs : list cell) (a e r : Z) : list cell :=
  match cs with
  | [] => []
  | c :: rest => reg_edge w he hr 0 c a e r :: delay_step w he hr rest (cell_q c) e r
  end.
Definition delay_init (delay : nat) : list cell := repeat cell_zero delay.
Definition delay_out (wr : Z) (cs : list cell) (a : Z) : Z := Buf_propagate wr (last (map cell_q cs) a).

(* ------------------------------------------------------------------ PipelinePhase (storage.py:190-202)
   one Reg(ins[i], outs[i], reset=reset) per lane; ws = widths of the outs wires *)
Fixpoint pipe_step (ws : list Z) (cs : list cell) (ins : list Z) (reset : Z) : list cell :=
  match ws, cs, ins with
  | w :: ws', c :: cs', a :: ins' => reg_edge w false true 0 c a 0 reset :: pipe_step ws' cs' ins' reset
  | _, _, _ => []
  end.
Definition pipe_init (ws : list Z) : list cell := map (fun _ => cell_zero) ws.

(* ------------------------------------------------------------------ EdgeDetector (clock.py:63-93)
   a is 1 bit (checked by the constructor); z1, na, nz1 1 bit; Reg(a, z1).
   pos: r <- And2(a, Not z1); neg: r <- And2(Not a, z1); both: r <- Xor2(a, z1) = four Nand2 (bitwise.py:736-766,
   Nand2 = And2 into a wire of its first operand's width, then Not: bitwise.py:397-422) *)
Inductive direction := Pos | Neg | Both.
(* direction = 'pos' | 'neg' | 'both' and the reference machine's name for it *)
Definition dir_kind (d : direction) : edge_kind := match d with Pos => Rising | Neg => Falling | Both => AnyEdge end.
Definition nand2_m (wa wr a b : Z) : Z := Not_propagate wr (And2_propagate wa a b).
Definition xor2_m (wa wb wr a b : Z) : Z :=
  let mid := nand2_m wa wa a b in
  let xout := nand2_m wa wa a mid in
  let yout := nand2_m wb wa b mid in
  nand2_m wa wr xout yout.
Definition edge_out (dir : direction) (wr : Z) (c : cell) (a : Z) : Z :=
  let z1 := cell_q c in
  match dir with
  | Pos => And2_propagate wr a (Not_propagate 1 z1)
  | Neg => And2_propagate wr (Not_propagate 1 a) z1
  | Both => xor2_m 1 1 wr a z1
  end.
Definition edge_step (c : cell) (a : Z) : cell := reg_edge 1 false false 0 c a 0 0.

(* ------------------------------------------------------------------ ClockDivider (clock.py:23-60)
   n = int(freq_in/(2*freq_out)), q has qw = int(log2(freq_in/(2*freq_out)))+1 bits, t is 1 bit, inc <- Constant(1) [1 bit],
   reset <- Constant(0) [1 bit] when no reset port.  ModuloCounter(mod=n, inc, reset, q, carryout=t);
   TReg(t, enable=inc, q=clkout, reset=reset).  State: (counter register, toggle register). *)
Definition clkdiv_state := (cell * cell)%type.
Definition clkdiv_init : clkdiv_state := (cell_zero, cell_zero).
Definition clkdiv_step (n qw wclk : Z) (hr : bool) (s : clkdiv_state) (reset : Z) : clkdiv_state :=
  let inc := Constant_propagate 1 1 in
  let reset' := if hr then reset else Constant_propagate 1 0 in
  let t := modcounter_carry qw 1 n (fst s) in
  (modcounter_step qw 1 n (fst s) reset' inc, treg_step wclk true true (snd s) t inc reset').
Definition clkdiv_out (s : clkdiv_state) : Z := cell_q (snd s).

(* ------------------------------------------------------------------ ShiftRegisterBidirectional (storage.py:377-425)
   shift[1] <- Or2(shift_left, shift_right);  register i: rd_i[w] <- Mux2(sel=shift_left, sel0=vl, sel1=vr),
   vl = left_in (i=0) or q[i-1], vr = right_in (i=depth-1) or q[i+1];  Reg(rd_i, q[i], enable=shift).
   left_out <- Buf(q[0]); right_out <- Buf(q[depth-1]).   `vl` is threaded through the recursion. *)
Fixpoint srb_step (w : Z) (cs : list cell) (vl right_in sl shift : Z) : list cell :=
  match cs with
  | [] => []
  | c :: rest =>
      let vr := match rest with [] => right_in | c2 :: _ => cell_q c2 end in
      reg_edge w true false 0 c (Mux2_propagate w sl vl vr) shift 0 :: srb_step w rest (cell_q c) right_in sl shift
  end.
Definition srb_edge (w : Z) (cs : list cell) (left_in right_in sl sr : Z) : list cell :=
  srb_step w cs left_in right_in sl (Or2_propagate 1 sl sr).
Definition srb_init (depth : nat) : list cell := repeat cell_zero depth.
Definition srb_left_out (w : Z) (cs : list cell) : Z := Buf_propagate w (hd 0 (map cell_q cs)).
Definition srb_right_out (w : Z) (cs : list cell) : Z := Buf_propagate w (last (map cell_q cs) 0).

(* ------------------------------------------------------------------ Stack_ShiftRegister (storage.py:427-457)
   zerow[w] <- Constant 0; ShiftRegisterBidirectional(left_in=din, right_in=zerow, left_out=pre_dout, right_out=rout,
   shift_left=pop, shift_right=push, depth);  Reg(pre_dout, dout, enable=pop).
   (the `empty` / `full` ports are declared but nothing drives them) *)
Definition stack_state := (list cell * cell)%type.
Definition stack_init (depth : nat) : stack_state := (srb_init depth, cell_zero).
Definition stack_step (w : Z) (s : stack_state) (din push pop : Z) : stack_state :=
  let zerow := Constant_propagate w 0 in
  let pre_dout := srb_left_out w (fst s) in
  (srb_edge w (fst s) din zerow pop push, reg_edge w true false 0 (snd s) pre_dout pop 0).
Definition stack_dout (s : stack_state) : Z := cell_q (snd s).

(* ------------------------------------------------------------------ SynchronousMemory (storage.py:262-290)
   state = (the list self.data, the readdata wire); 2^aw cells, all 0 *)
Definition mem_state := (SynchronousMemory_state * Z)%type.
Definition mem_init (aw : Z) : mem_state := ({| SynchronousMemory_s_data := repeat 0 (Z.to_nat (2 ^ aw)) |}, 0).
Definition mem_step (wr : Z) (s : mem_state) (ra wa we wd : Z) : mem_state :=
  SynchronousMemory_clock wr (fst s) ra wa we wd.
Definition mem_data (s : mem_state) : list Z := SynchronousMemory_s_data (fst s).
Definition mem_out (s : mem_state) : Z := snd s.

(* ------------------------------------------------------------------ DualPortSynchronousMemory (storage.py:309-353)
   the REGENERATED clock(): prepare readdata_a, prepare readdata_b, then port a's write, then port b's write.
   state = (self.data, (readdata_a wire, readdata_b wire)); input = (port a, port b), each (read_address, write_address, write, writedata) *)
Definition dp_state := (DualPortSynchronousMemory_state * (Z * Z))%type.
Definition dp_init (aw : Z) : dp_state := ({| DualPortSynchronousMemory_s_data := repeat 0 (Z.to_nat (2 ^ aw)) |}, (0, 0)).
Definition dp_step (wra wrb : Z) (s : dp_state) (i : (Z * Z * Z * Z) * (Z * Z * Z * Z)) : dp_state :=
  let '((raa, waa, wa, wda), (rab, wab, wb, wdb)) := i in
  let '(st, o) := DualPortSynchronousMemory_clock wra wrb (fst s) raa waa wa wda rab wab wb wdb in
  (st, (DualPortSynchronousMemory_o_readdata_a o, DualPortSynchronousMemory_o_readdata_b o)).
Definition dp_data (s : dp_state) : list Z := DualPortSynchronousMemory_s_data (fst s).
Definition dp_out_a (s : dp_state) : Z := fst (snd s).
Definition dp_out_b (s : dp_state) : Z := snd (snd s).

(* ------------------------------------------------------------------ AutoReset (clock.py:97-113)
   a clock() that prepares nothing leaves the wire as it is *)
Definition ar_state := (AutoReset_state * Z)%type.
Definition ar_init : ar_state := ({| AutoReset_s_state := 0 |}, 0).
Definition ar_step (w : Z) (s : ar_state) : ar_state :=
  let '(st, o) := AutoReset_clock w (fst s) in
  (st, match o with Some v => v | None => snd s end).
Definition ar_out (s : ar_state) : Z := snd s.

(* ------------------------------------------------------------------ the same steps on input TUPLES (one tuple per edge),
   so that a history is a list and a run is a fold *)
Definition reg_m (w : Z) (he hr : bool) (rv : Z) (c : cell) (i : Z * Z * Z) : cell :=
  let '(d, e, r) := i in reg_edge w he hr rv c d e r.
Definition treg_m (wq : Z) (he hr : bool) (c : cell) (i : Z * Z * Z) : cell :=
  let '(t, e, r) := i in treg_step wq he hr c t e r.
Definition counter_m (w : Z) (hi hr : bool) (c : cell) (i : Z * Z) : cell :=
  let '(reset, inc) := i in counter_step w hi hr c reset inc.
Definition modcounter_m (w wc m : Z) (c : cell) (i : Z * Z) : cell :=
  let '(reset, inc) := i in modcounter_step w wc m c reset inc.
Definition stepup_m (w : Z) (hr : bool) (c : cell) (i : Z * Z * Z) : cell :=
  let '(reset, inc, step) := i in stepup_step w hr c reset inc step.
Definition delay_m (w : Z) (he hr : bool) (cs : list cell) (i : Z * Z * Z) : list cell :=
  let '(a, e, r) := i in delay_step w he hr cs a e r.
Definition pipe_m (ws : list Z) (cs : list cell) (i : list Z * Z) : list cell := pipe_step ws cs (fst i) (snd i).
Definition srb_m (w : Z) (cs : list cell) (i : Z * Z * Z * Z) : list cell :=
  let '(left_in, right_in, sl, sr) := i in srb_edge w cs left_in right_in sl sr.
Definition stack_m (w : Z) (s : stack_state) (i : Z * Z * Z) : stack_state :=
  let '(din, push, pop) := i in stack_step w s din push pop.
Definition mem_m (wr : Z) (s : mem_state) (i : Z * Z * Z * Z) : mem_state :=
  let '(ra, wa, we, wd) := i in mem_step wr s ra wa we wd.
