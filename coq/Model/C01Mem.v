(* C01: the hand-written Verilog bodies of the memories (py4hw/logic/storage.py verilogBody) as RESOLVED Verilog, i.e. after VSem's
   elaboration of `reg [w-1:0] mem [0:d-1]` into d word nets base .. base+d-1, of a word read into `mem_read` and of a procedural word
   write into `mem_write`.  NO PROOFS. *)
From V Require Import Base.PyInt Base.Bits Gen.WireOps Gen.Prims Gen.Seq Model.VSyntax Model.VSem Model.Inline.
Local Open Scope Z_scope.

(* the words of a memory, as the environment holds them *)
Definition mem_cells (env : list Z) (base d : nat) : list Z := map (fun j => getv env (base + j)) (seq 0 d).

(* an index expression that compares like the number i: `idx == k` is true exactly for k = i, for every literal k the emitter can print *)
Definition idx_is (env : list Z) (idx : rexpr) (i : Z) : Prop :=
  forall k, 0 <= k < 2 ^ 31 -> rself env (RBin BEq idx (RNum k)) = b2z (i =? k).

(* SynchronousMemory:   always @(posedge clk) begin if (write) mem[write_address] <= writedata; rreaddata <= mem[read_address]; end
                        assign readdata = rreaddata;
   one port (rr: the registered read data; ra wa we wd: the port's nets) over the memory base / w / d *)
Definition mem_port_proc (base : nat) (w : Z) (d : nat) (rr ra wa we wd : nid) : rstmt :=
  RSeq (RIf (rid we) (mem_write true base w 0 d (rid wa) (rid wd)) RSkip)
       (RNba (whole rr) (mem_read base w 0 (d - 1) (rid ra))).
Definition body_syncmem_proc := mem_port_proc.

(* what the port's process queues when it runs in env: the word write (if write != 0), then the registered read *)
Definition mem_port_queue (env : list Z) (base : nat) (w : Z) (d : nat) (rr ra wa we wd : nid) : list (target * Z) :=
  (if getv env (fst we) =? 0 then []
   else [(((base + Z.to_nat (getv env (fst wa)))%nat, 0, w), assign_value env (RLId (base + Z.to_nat (getv env (fst wa))) w) (rid wd))]) ++
  [((fst rr, 0, snd rr), assign_value env (whole rr) (mem_read base w 0 (d - 1) (rid ra)))].

(* AsynchronousMemory:  assign readdata = mem[read_address];   always @( * ) begin if (write) mem[write_address] = writedata; end *)
Definition body_asyncmem_read (base : nat) (w : Z) (d : nat) (rd ra : nid) : rlval * rexpr :=
  (whole rd, mem_read base w 0 (d - 1) (rid ra)).
Definition body_asyncmem_proc (base : nat) (w : Z) (d : nat) (wa we wd : nid) : rstmt :=
  RIf (rid we) (mem_write false base w 0 d (rid wa) (rid wd)) RSkip.

(* ---------------------------------------------------------------- per-design syntactic match: the elaborated text of a memory instance IS the modelled body *)
Definition has_star_proc (f : flat) (s : rstmt) : bool :=
  existsb (fun p => match fst p with TStar => rstmt_eqb (snd p) s | _ => false end) (f_procs f).
(* d consecutive word nets of width w at base, declared `reg` without initialiser *)
Definition mem_nets_ok (f : flat) (base : nat) (w : Z) (d : nat) : bool :=
  forallb (fun j => match nth_error (f_nets f) (base + j) with
                    | Some n => (fn_width n =? w) && (fn_init n =? 0) && fn_isreg n
                    | None => false end) (seq 0 d).
Definition match_syncmem (f : flat) (base : nat) (w : Z) (d : nat) (rr ra wa we wd rd : nid) : bool :=
  mem_nets_ok f base w d && has_posedge_proc f (body_syncmem_proc base w d rr ra wa we wd) && has_assign f (whole rd, rid rr).
(* position of the first posedge process with body s *)
Fixpoint proc_index (procs : list (ptrig * rstmt)) (s : rstmt) (k : nat) : option nat :=
  match procs with
  | [] => None
  | p :: t => if (match fst p with TPos _ => rstmt_eqb (snd p) s | _ => false end) then Some k else proc_index t s (S k)
  end.
(* both port processes, port a's BEFORE port b's (the order decides which write wins on equal addresses) *)
Definition match_dualmem (f : flat) (base : nat) (w : Z) (d : nat) (rra raa waa wea wda rda rrb rab wab web wdb rdb : nid) : bool :=
  mem_nets_ok f base w d &&
  match proc_index (f_procs f) (mem_port_proc base w d rra raa waa wea wda) 0, proc_index (f_procs f) (mem_port_proc base w d rrb rab wab web wdb) 0 with
  | Some ia, Some ib => (ia <? ib)%nat
  | _, _ => false
  end &&
  has_assign f (whole rda, rid rra) && has_assign f (whole rdb, rid rrb).
Definition match_asyncmem (f : flat) (base : nat) (w : Z) (d : nat) (rd ra wa we wd : nid) : bool :=
  mem_nets_ok f base w d && has_assign f (body_asyncmem_read base w d rd ra) && has_star_proc f (body_asyncmem_proc base w d wa we wd).

(* ---------------------------------------------------------------- whole histories of one SynchronousMemory: a 5-net environment [ra; wa; we; wd; rr] followed by
   the words; the state is (words, rreaddata); inputs (ra, wa, we, wd) arrive before each edge *)
Definition smem_env (inp : Z * Z * Z * Z) (rrv : Z) (cells : list Z) : list Z :=
  let '(ra, wa, we, wd) := inp in [ra; wa; we; wd; rrv] ++ cells.
Definition vmem_next (aw w wwe wwd : Z) (stt : list Z * Z) (inp : Z * Z * Z * Z) : list Z * Z :=
  let d := Z.to_nat (2 ^ aw) in
  let env := smem_env inp (snd stt) (fst stt) in
  let '(env1, q) := exec (body_syncmem_proc 5 w d (4%nat, w) (0%nat, aw) (1%nat, aw) (2%nat, wwe) (3%nat, wwd)) (env, []) in
  let env' := apply_nbas env1 q in
  (mem_cells env' 5 d, getv env' 4).
Fixpoint vmem_traj aw w wwe wwd (stt : list Z * Z) (ins : list (Z * Z * Z * Z)) : list Z :=
  match ins with [] => [] | i :: t => let n := vmem_next aw w wwe wwd stt i in snd n :: vmem_traj aw w wwe wwd n t end.
Fixpoint smem_traj (w : Z) (st : SynchronousMemory_state) (ins : list (Z * Z * Z * Z)) : list Z :=
  match ins with
  | [] => []
  | (ra, wa, we, wd) :: t => let '(st', rd) := SynchronousMemory_clock w st ra wa we wd in rd :: smem_traj w st' t
  end.
Definition mem_in_ok (aw wwe wwd : Z) (i : Z * Z * Z * Z) : Prop :=
  let '(ra, wa, we, wd) := i in 0 <= ra < 2 ^ aw /\ 0 <= wa < 2 ^ aw /\ 0 <= we < 2 ^ wwe /\ 0 <= wd < 2 ^ wwd.
