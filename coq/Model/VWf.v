(* Executable well-formedness checker for the emitted Verilog subset (property C03).
   wf_design ext d : bool      — the decision (proved sound w.r.t. Spec/C03.v WF in Proofs/C03/Sound.v)
   wf_report ext d             — diagnostics only (clause, module, identifier) for every failing clause; NOT proved,
                                 the Python side checks on every text that (wf_design = true) <-> (wf_report = []).
   NO PROOFS in this file. *)
From V Require Import Model.VSyntax Model.VSem Spec.C03.
Local Open Scope string_scope.
Local Open Scope list_scope.
Local Open Scope Z_scope.

(* ---------------------------------------------------------------- small list utilities *)
Fixpoint assoc {A : Type} (l : list (string * A)) (x : string) : option A :=
  match l with [] => None | (y, a) :: t => if String.eqb x y then Some a else assoc t x end.

Fixpoint mem_str (x : string) (l : list string) : bool :=
  match l with [] => false | y :: t => String.eqb x y || mem_str x t end.

Fixpoint nodup_str (l : list string) : bool :=
  match l with [] => true | x :: t => negb (mem_str x t) && nodup_str t end.

Fixpoint enum_from {A : Type} (k : nat) (l : list A) : list (nat * A) :=
  match l with [] => [] | a :: t => (k, a) :: enum_from (S k) t end.

Definition dir_eqb (a b : dir) : bool :=
  match a, b with DIn, DIn | DOut, DOut | DInOut, DInOut => true | _, _ => false end.

(* ---------------------------------------------------------------- expressions, l-values, statements *)
Definition const_in (i : expr) (n : Z) : bool :=
  match const_index i with Some c => (0 <=? c) && (c <? n) | None => true end.

Definition in_range (w hi lo : Z) : bool := (2 <=? w) && (0 <=? lo) && (lo <=? hi) && (hi <? w).

Fixpoint wf_expr (E : env) (e : expr) : bool :=
  match e with
  | EId x => match assoc E x with Some k => readable k | None => false end
  | ENum _ => true
  | ESized w _ => 1 <=? w
  | EBit x i =>
      wf_expr E i &&
      match assoc E x with
      | Some (KMem _ dp) => const_in i dp
      | Some k => match kwidth k with Some w => (2 <=? w) && const_in i w | None => false end
      | None => false
      end
  | EPart x hi lo =>
      match assoc E x with
      | Some k => match kwidth k with Some w => in_range w hi lo | None => false end
      | None => false
      end
  | EUn _ a => wf_expr E a
  | EBin _ a b => wf_expr E a && wf_expr E b
  | ECond c a b => wf_expr E c && wf_expr E a && wf_expr E b
  | EConcat a b => wf_expr E a && wf_expr E b
  | ERepl n a => (1 <=? n) && wf_expr E a
  | ESigned a => wf_expr E a
  end.

Definition wf_lval (E : env) (proc : bool) (l : lval) : bool :=
  match l with
  | LId x => match assoc E x with Some k => target_kind proc k | None => false end
  | LPart x hi lo =>
      match assoc E x with
      | Some k => target_kind proc k && match kwidth k with Some w => in_range w hi lo | None => false end
      | None => false
      end
  | LIdx x i =>
      wf_expr E i &&
      match assoc E x with
      | Some (KMem _ dp) => proc && const_in i dp
      | Some k => target_kind proc k &&
                  match kwidth k with Some w => (2 <=? w) && const_in i w | None => false end &&
                  (proc || match const_index i with Some _ => true | None => false end)
      | None => false
      end
  end.

Fixpoint wf_stmt (E : env) (s : stmt) : bool :=
  match s with
  | SSkip => true
  | SSeq a b => wf_stmt E a && wf_stmt E b
  | SIf c t e => wf_expr E c && wf_stmt E t && wf_stmt E e
  | SBlk l e | SNba l e => wf_lval E true l && wf_expr E e
  end.

Definition wf_event (E : env) (ev : event) : bool :=
  match ev with
  | EvStar => true
  | EvPos c | EvNeg c => match assoc E c with Some k => match kwidth k with Some w => w =? 1 | None => false end | None => false end
  end.

(* ---------------------------------------------------------------- instances *)
Definition find_port (c : vmodule) (p : string) : option port :=
  find (fun q => String.eqb (p_name q) p) (m_ports c).

Definition wf_conn (E : env) (q : port) (e : expr) : bool :=
  match e with
  | EId x => match assoc E x with
             | Some k => match kwidth k with
                         | Some w => (w =? p_width q) && (dir_eqb (p_dir q) DIn || net_kind k)
                         | None => false end
             | None => false end
  | _ => false
  end.

Definition wf_item (ext : list string) (d : design) (E : env) (it : item) : bool :=
  match it with
  | IWire _ w => 1 <=? w
  | IReg _ w _ => 1 <=? w
  | IInteger _ => true
  | IMem _ w dp => (1 <=? w) && (1 <=? dp)
  | IAssign l e => wf_lval E false l && wf_expr E e
  | IAlways ev s => wf_event E ev && wf_stmt E s
  | IInitial s => wf_stmt E s
  | IInst mn params iname conns =>
      nodup_str (map fst conns) && nodup_str (map fst params) &&
      match find_module d mn with
      | Some c =>
          forallb (fun pe => mem_str (fst pe) (m_params c) && wf_expr E (snd pe)) params &&
          forallb (fun pe => match find_port c (fst pe) with Some q => wf_conn E q (snd pe) | None => false end) conns &&
          forallb (fun q => mem_str (p_name q) (map fst conns)) (m_ports c)
      | None =>
          mem_str mn ext &&
          forallb (fun pe => wf_expr E (snd pe)) params &&
          forallb (fun pe => wf_expr E (snd pe)) conns
      end
  end.

(* ---------------------------------------------------------------- drivers *)
Definition occ := (nat * nat * string * Z * Z)%type.      (* item index, connection index, net, lo, hi *)

Definition lval_range (E : env) (l : lval) : option (string * Z * Z) :=
  match l with
  | LId x => match assoc E x with
             | Some k => match kwidth k with Some w => Some (x, 0, w - 1) | None => None end
             | None => None end
  | LPart x hi lo => Some (x, lo, hi)
  | LIdx x i => match const_index i with Some c => Some (x, c, c) | None => None end
  end.

Definition item_occs (d : design) (E : env) (ii : nat * item) : list occ :=
  let '(i, it) := ii in
  match it with
  | IAssign l _ => match lval_range E l with Some (x, lo, hi) => [(i, 0%nat, x, lo, hi)] | None => [] end
  | IInst mn _ _ conns =>
      match find_module d mn with
      | Some c =>
          flat_map (fun jc : nat * (string * expr) =>
                      let '(j, (p, e)) := jc in
                      match e, find_port c p with
                      | EId x, Some q => if dir_eqb (p_dir q) DIn then [] else [(i, j, x, 0, p_width q - 1)]
                      | _, _ => []
                      end) (enum_from 0 conns)
      | None => []
      end
  | _ => []
  end.

Definition occs (d : design) (m : vmodule) : list occ := flat_map (item_occs d (decls m)) (enum_from 0 (m_items m)).

Definition occ_compat (a b : occ) : bool :=
  let '(i, j, x, lo, hi) := a in
  let '(i', j', x', lo', hi') := b in
  (Nat.eqb i i' && Nat.eqb j j') || negb (String.eqb x x') || (hi <? lo') || (hi' <? lo).

Definition one_driver (os : list occ) : bool := forallb (fun a => forallb (occ_compat a) os) os.

Definition covers (x : string) (b : Z) (o : occ) : bool :=
  let '(_, _, x', lo, hi) := o in String.eqb x x' && (lo <=? b) && (b <=? hi).

Fixpoint zrange (lo : Z) (n : nat) : list Z := match n with O => [] | S k => lo :: zrange (lo + 1) k end.

Definition ext_conn_names (ext : list string) (d : design) (m : vmodule) : list string :=
  flat_map (fun it => match it with
                      | IInst mn _ _ conns =>
                          if mem_str mn ext
                          then flat_map (fun pe : string * expr => match snd pe with EId x => [x] | _ => [] end) conns
                          else []
                      | _ => [] end) (m_items m).

Definition driven (ext : list string) (d : design) (m : vmodule) (os : list occ) (xk : string * kind) : bool :=
  let '(x, k) := xk in
  if must_drive k then
    match kwidth k with
    | Some w => mem_str x (ext_conn_names ext d m) || forallb (fun b => existsb (covers x b) os) (zrange 0 (Z.to_nat w))
    | None => true
    end
  else true.

(* ---------------------------------------------------------------- processes *)
Definition always_targets (m : vmodule) : list (nat * list string) :=
  flat_map (fun ii : nat * item => match snd ii with IAlways _ s => [(fst ii, stmt_targets s)] | _ => [] end)
           (enum_from 0 (m_items m)).

Definition is_mem (E : env) (x : string) : bool := match assoc E x with Some (KMem _ _) => true | _ => false end.

Definition one_process (m : vmodule) : bool :=
  let ps := always_targets m in
  forallb (fun a => forallb (fun b => Nat.eqb (fst a) (fst b) ||
                                       forallb (fun x => negb (mem_str x (snd b)) || is_mem (decls m) x) (snd a)) ps) ps.

(* ---------------------------------------------------------------- module *)
Definition wf_ports (m : vmodule) : bool :=
  forallb (fun p => (1 <=? p_width p) && (negb (p_reg p) || dir_eqb (p_dir p) DOut)) (m_ports m).

Definition wf_module (ext : list string) (d : design) (m : vmodule) : bool :=
  let E := decls m in
  let os := occs d m in
  nodup_str (map fst E) &&
  forallb (fun x => negb (mem_str x reserved)) (m_name m :: map fst E) &&
  wf_ports m &&
  forallb (wf_item ext d E) (m_items m) &&
  one_driver os &&
  forallb (driven ext d m os) E &&
  one_process m.

(* ---------------------------------------------------------------- hierarchy: a ranking certificate *)
Fixpoint inst_names (its : list item) : list string :=
  match its with [] => [] | IInst mn _ _ _ :: t => mn :: inst_names t | _ :: t => inst_names t end.

(* search (untrusted): round r ranks every unranked module all of whose defined children are ranked *)
Definition rank_round (d : design) (r : nat) (tbl : list (string * nat)) : list (string * nat) :=
  tbl ++ flat_map (fun m => match assoc tbl (m_name m) with
                            | Some _ => []
                            | None => if forallb (fun mn => match find_module d mn with
                                                            | None => true
                                                            | Some _ => match assoc tbl mn with Some _ => true | None => false end
                                                            end) (inst_names (m_items m))
                                      then [(m_name m, r)] else []
                            end) d.

Fixpoint rank_rounds (d : design) (n r : nat) (tbl : list (string * nat)) : list (string * nat) :=
  match n with O => tbl | S n' => rank_rounds d n' (S r) (rank_round d r tbl) end.

Definition rank_table (d : design) : list (string * nat) := rank_rounds d (length d) 0 [].

(* check (trusted by proof): the table is a strictly decreasing ranking bounded by |d| *)
Definition rank_of (tbl : list (string * nat)) (x : string) : nat := match assoc tbl x with Some r => r | None => O end.

Definition check_rank (d : design) (tbl : list (string * nat)) : bool :=
  forallb (fun m => match assoc tbl (m_name m) with
                    | Some r => Nat.leb r (length d) &&
                                forallb (fun mn => match find_module d mn with
                                                   | None => true
                                                   | Some _ => Nat.ltb (rank_of tbl mn) r
                                                   end) (inst_names (m_items m))
                    | None => false
                    end) d.

Definition wf_design (ext : list string) (d : design) : bool :=
  nodup_str (map m_name d) &&
  forallb (fun m => negb (mem_str (m_name m) ext)) d &&
  forallb (wf_module ext d) d &&
  check_rank d (rank_table d).

(* ================================================================ diagnostics (not proved) *)
Definition diag := (string * string * string)%type.          (* clause, module, identifier *)

Fixpoint dups (l : list string) : list string :=
  match l with [] => [] | x :: t => (if mem_str x t then [x] else []) ++ dups t end.

Fixpoint expr_diag (E : env) (e : expr) : list (string * string) :=
  match e with
  | EId x => match assoc E x with
             | Some k => if readable k then [] else [("not_readable", x)]
             | None => [("undeclared", x)] end
  | ENum _ => []
  | ESized w _ => if 1 <=? w then [] else [("literal_width", "")]
  | EBit x i =>
      expr_diag E i ++
      match assoc E x with
      | Some (KMem _ dp) => if const_in i dp then [] else [("index_out_of_range", x)]
      | Some k => match kwidth k with
                  | Some w => if 2 <=? w then (if const_in i w then [] else [("index_out_of_range", x)])
                              else [("scalar_select", x)]
                  | None => [("select_of_non_vector", x)] end
      | None => [("undeclared", x)]
      end
  | EPart x hi lo =>
      match assoc E x with
      | Some k => match kwidth k with
                  | Some w => if 2 <=? w then (if in_range w hi lo then [] else [("part_select_range", x)])
                              else [("scalar_select", x)]
                  | None => [("select_of_non_vector", x)] end
      | None => [("undeclared", x)]
      end
  | EUn _ a => expr_diag E a
  | EBin _ a b => expr_diag E a ++ expr_diag E b
  | ECond c a b => expr_diag E c ++ expr_diag E a ++ expr_diag E b
  | EConcat a b => expr_diag E a ++ expr_diag E b
  | ERepl n a => (if 1 <=? n then [] else [("replication_count", "")]) ++ expr_diag E a
  | ESigned a => expr_diag E a
  end.

Definition lval_name (l : lval) : string := match l with LId x | LPart x _ _ | LIdx x _ => x end.

Definition lval_diag (E : env) (proc : bool) (l : lval) : list (string * string) :=
  if wf_lval E proc l then [] else
  match assoc E (lval_name l) with
  | None => [("undeclared", lval_name l)]
  | Some k =>
      if (match k with KMem _ _ => proc | _ => target_kind proc k end) then
        match l with
        | LId _ => [("lvalue", lval_name l)]
        | LPart x hi lo => match kwidth k with
                           | Some w => if 2 <=? w then [("part_select_range", x)] else [("scalar_select", x)]
                           | None => [("select_of_non_vector", x)] end
        | LIdx x i => expr_diag E i ++
                      match kwidth k with
                      | Some w => if 2 <=? w then [("index_out_of_range", x)] else [("scalar_select", x)]
                      | None => [("index_out_of_range", x)] end
        end
      else [(if proc then "lvalue_not_variable" else "lvalue_not_net", lval_name l)]
  end.

Fixpoint stmt_diag (E : env) (s : stmt) : list (string * string) :=
  match s with
  | SSkip => []
  | SSeq a b => stmt_diag E a ++ stmt_diag E b
  | SIf c t e => expr_diag E c ++ stmt_diag E t ++ stmt_diag E e
  | SBlk l e | SNba l e => lval_diag E true l ++ expr_diag E e
  end.

Definition item_diag (ext : list string) (d : design) (E : env) (it : item) : list (string * string) :=
  if wf_item ext d E it then [] else
  match it with
  | IWire x _ | IReg x _ _ => [("declared_width", x)]
  | IInteger _ => []
  | IMem x _ _ => [("declared_width", x)]
  | IAssign l e => lval_diag E false l ++ expr_diag E e
  | IAlways ev s =>
      (if wf_event E ev then [] else [("event", match ev with EvPos c | EvNeg c => c | EvStar => "" end)]) ++ stmt_diag E s
  | IInitial s => stmt_diag E s
  | IInst mn params iname conns =>
      map (fun x => ("port_connected_twice", String.append iname (String.append "." x))) (dups (map fst conns)) ++
      map (fun x => ("parameter_overridden_twice", String.append iname (String.append "." x))) (dups (map fst params)) ++
      match find_module d mn with
      | Some c =>
          flat_map (fun pe : string * expr =>
                      (if mem_str (fst pe) (m_params c) then [] else [("unknown_parameter", String.append iname (String.append "." (fst pe)))])
                      ++ expr_diag E (snd pe)) params ++
          flat_map (fun pe : string * expr =>
                      match find_port c (fst pe) with
                      | None => [("unknown_port", String.append iname (String.append "." (fst pe)))]
                      | Some q =>
                          if wf_conn E q (snd pe) then [] else
                          match snd pe with
                          | EId x => match assoc E x with
                                     | None => [("undeclared", x)]
                                     | Some k => match kwidth k with
                                                 | Some w => if w =? p_width q then [("output_to_non_net", x)]
                                                             else [("port_width", String.append iname (String.append "." (fst pe)))]
                                                 | None => [("not_readable", x)] end
                                     end
                          | _ => [("connection_not_identifier", String.append iname (String.append "." (fst pe)))]
                          end
                      end) conns ++
          flat_map (fun q => if mem_str (p_name q) (map fst conns) then []
                             else [("port_unconnected", String.append iname (String.append "." (p_name q)))]) (m_ports c)
      | None =>
          (if mem_str mn ext then [] else [("undefined_module", mn)]) ++
          flat_map (fun pe : string * expr => expr_diag E (snd pe)) params ++
          flat_map (fun pe : string * expr => expr_diag E (snd pe)) conns
      end
  end.

Definition occ_name (o : occ) : string := let '(_, _, x, _, _) := o in x.

Definition module_diag (ext : list string) (d : design) (m : vmodule) : list diag :=
  let E := decls m in
  let os := occs d m in
  let tag := fun cx : string * string => (fst cx, m_name m, snd cx) in
  map (fun x => ("duplicate_declaration", m_name m, x)) (dups (map fst E)) ++
  map (fun x => ("reserved_word", m_name m, x)) (filter (fun x => mem_str x reserved) (m_name m :: map fst E)) ++
  flat_map (fun p => (if 1 <=? p_width p then [] else [("declared_width", m_name m, p_name p)]) ++
                     (if negb (p_reg p) || dir_eqb (p_dir p) DOut then [] else [("reg_on_non_output", m_name m, p_name p)])) (m_ports m) ++
  map tag (flat_map (item_diag ext d E) (m_items m)) ++
  flat_map (fun a => if forallb (occ_compat a) os then [] else [("multiple_drivers", m_name m, occ_name a)]) os ++
  flat_map (fun xk => if driven ext d m os xk then [] else [("undriven", m_name m, fst xk)]) E ++
  (if one_process m then [] else [("assigned_in_two_processes", m_name m, "")]).

Definition wf_report (ext : list string) (d : design) : list diag :=
  map (fun x => ("module_defined_twice", x, x)) (dups (map m_name d)) ++
  flat_map (fun m => if mem_str (m_name m) ext then [("module_shadows_black_box", m_name m, m_name m)] else []) d ++
  flat_map (module_diag ext d) d ++
  (if check_rank d (rank_table d) then [] else [("instantiation_cycle", "", "")]).
