(* C05/C10: running the reference machine over a stimulus (same shape as Model/Trace.v). No proofs. *)
From V Require Import Base.PyInt Gen.WireOps Model.SimKernel Model.Trace Spec.C05.

Section R.
Context {St : Type}.

Definition ref_do_step (d : design St) (s : state St) (st : step_t) : state St :=
  ref_clk d (snd st) (fold_left (fun s p => poke d s (fst p) (snd p)) (fst st) s).

Fixpoint ref_run_states (d : design St) (s : state St) (steps : list step_t) : list (state St) :=
  s :: match steps with [] => [] | st :: rest => ref_run_states d (ref_do_step d s st) rest end.

Definition ref_run_trace (d : design St) (s : state St) (steps : list step_t) : list (list Z) :=
  map vals (ref_run_states d s steps).

Definition final_state (d : design St) (s : state St) (steps : list step_t) : state St :=
  last (run_states d s steps) s.
End R.
