(* C03 — what "the emitted Verilog is a closed, legal design" MEANS.
   Declarative, inductive statement over the abstract syntax (Model/VSyntax.v).  Written independently of
   py4hw: the reserved-word list below is IEEE Std 1364-2005 Annex B, NOT py4hw's isReservedVerilogKeyword.
   The executable checker is Model/VWf.v; Properties/C03.v proves  wf_design ext d = true -> WF ext d.
   The only functions here are projections of the syntax (decls, kwidth, const_index, stmt_targets) and
   classification tables of declaration kinds; every judgement is a Prop. *)
From V Require Import Model.VSyntax.
Local Open Scope string_scope.
Local Open Scope list_scope.
Local Open Scope Z_scope.

(* ---------------------------------------------------------------- IEEE 1364-2005, Annex B: keywords *)
Definition reserved : list string :=
  [ "always"; "and"; "assign"; "automatic";
    "begin"; "buf"; "bufif0"; "bufif1";
    "case"; "casex"; "casez"; "cell"; "cmos"; "config";
    "deassign"; "default"; "defparam"; "design"; "disable";
    "edge"; "else"; "end"; "endcase"; "endconfig"; "endfunction"; "endgenerate"; "endmodule"; "endprimitive";
    "endspecify"; "endtable"; "endtask"; "event";
    "for"; "force"; "forever"; "fork"; "function";
    "generate"; "genvar";
    "highz0"; "highz1";
    "if"; "ifnone"; "incdir"; "include"; "initial"; "inout"; "input"; "instance"; "integer";
    "join";
    "large"; "liblist"; "library"; "localparam";
    "macromodule"; "medium"; "module";
    "nand"; "negedge"; "nmos"; "nor"; "noshowcancelled"; "not"; "notif0"; "notif1";
    "or"; "output";
    "parameter"; "pmos"; "posedge"; "primitive"; "pull0"; "pull1"; "pulldown"; "pullup";
    "pulsestyle_onevent"; "pulsestyle_ondetect";
    "rcmos"; "real"; "realtime"; "reg"; "release"; "repeat"; "rnmos"; "rpmos"; "rtran"; "rtranif0"; "rtranif1";
    "scalared"; "showcancelled"; "signed"; "small"; "specify"; "specparam"; "strong0"; "strong1"; "supply0"; "supply1";
    "table"; "task"; "time"; "tran"; "tranif0"; "tranif1"; "tri"; "tri0"; "tri1"; "triand"; "trior"; "trireg";
    "unsigned"; "use"; "uwire";
    "vectored";
    "wait"; "wand"; "weak0"; "weak1"; "while"; "wire"; "wor";
    "xnor"; "xor" ].

(* ---------------------------------------------------------------- what a module declares *)
Inductive kind :=
  | KParam
  | KPort (d : dir) (isreg : bool) (w : Z)
  | KWire (w : Z)
  | KReg (w : Z)
  | KInt
  | KMem (w depth : Z)
  | KInst.

Definition item_decl (it : item) : list (string * kind) :=
  match it with
  | IWire x w => [(x, KWire w)]
  | IReg x w _ => [(x, KReg w)]
  | IInteger x => [(x, KInt)]
  | IMem x w dp => [(x, KMem w dp)]
  | IInst _ _ iname _ => [(iname, KInst)]
  | _ => []
  end.

(* every identifier the module introduces, in text order: parameters, ports, then body declarations *)
Definition decls (m : vmodule) : list (string * kind) :=
  map (fun p => (p, KParam)) (m_params m)
  ++ map (fun p => (p_name p, KPort (p_dir p) (p_reg p) (p_width p))) (m_ports m)
  ++ flat_map item_decl (m_items m).

(* vector view of an object that can be read / selected: its number of bits *)
Definition kwidth (k : kind) : option Z :=
  match k with
  | KPort _ _ w | KWire w | KReg w => Some w
  | KInt => Some 32
  | KParam | KMem _ _ | KInst => None
  end.

Definition readable (k : kind) : bool :=
  match k with KParam => true | KMem _ _ | KInst => false | _ => true end.

(* may be the target of a continuous assignment or of an instance output: a net that nothing outside drives *)
Definition net_kind (k : kind) : bool :=
  match k with
  | KWire _ => true
  | KPort DOut false _ | KPort DInOut false _ => true
  | _ => false
  end.

(* may be the target of a procedural assignment *)
Definition var_kind (k : kind) : bool :=
  match k with
  | KReg _ | KInt => true
  | KPort DOut true _ => true
  | _ => false
  end.

(* must have a driver inside the module (inout pins may be driven from outside only) *)
Definition must_drive (k : kind) : bool :=
  match k with KWire _ => true | KPort DOut false _ => true | _ => false end.

Definition const_index (i : expr) : option Z :=
  match i with
  | ENum c => Some c
  | EUn UNeg (ENum c) => Some (- c)
  | _ => None
  end.

Definition env := list (string * kind).

(* ---------------------------------------------------------------- expressions *)
Inductive expr_ok (E : env) : expr -> Prop :=
  | OkId x k : In (x, k) E -> readable k = true -> expr_ok E (EId x)
  | OkNum n : expr_ok E (ENum n)
  | OkSized w n : 1 <= w -> expr_ok E (ESized w n)
  (* bit select: only of a VECTOR (a scalar net has no bits to select), constant index inside the range *)
  | OkBit x k w i : In (x, k) E -> kwidth k = Some w -> 2 <= w -> expr_ok E i ->
                    (forall c, const_index i = Some c -> 0 <= c < w) -> expr_ok E (EBit x i)
  | OkWord x w dp i : In (x, KMem w dp) E -> expr_ok E i ->
                    (forall c, const_index i = Some c -> 0 <= c < dp) -> expr_ok E (EBit x i)
  | OkPart x k w hi lo : In (x, k) E -> kwidth k = Some w -> 2 <= w -> 0 <= lo -> lo <= hi -> hi < w ->
                    expr_ok E (EPart x hi lo)
  | OkUn o a : expr_ok E a -> expr_ok E (EUn o a)
  | OkBin o a b : expr_ok E a -> expr_ok E b -> expr_ok E (EBin o a b)
  | OkCond c a b : expr_ok E c -> expr_ok E a -> expr_ok E b -> expr_ok E (ECond c a b)
  | OkConcat a b : expr_ok E a -> expr_ok E b -> expr_ok E (EConcat a b)
  | OkRepl n a : 1 <= n -> expr_ok E a -> expr_ok E (ERepl n a)
  | OkSigned a : expr_ok E a -> expr_ok E (ESigned a).

(* ---------------------------------------------------------------- l-values
   proc = false: target of `assign` (a net; index must be constant)
   proc = true : target of = / <= in always/initial (reg, integer, output reg, memory word) *)
Definition target_kind (proc : bool) (k : kind) : bool := if proc then var_kind k else net_kind k.

Inductive lval_ok (E : env) (proc : bool) : lval -> Prop :=
  | LokId x k : In (x, k) E -> target_kind proc k = true -> lval_ok E proc (LId x)
  | LokPart x k w hi lo : In (x, k) E -> target_kind proc k = true -> kwidth k = Some w -> 2 <= w ->
                    0 <= lo -> lo <= hi -> hi < w -> lval_ok E proc (LPart x hi lo)
  | LokIdx x k w i : In (x, k) E -> target_kind proc k = true -> kwidth k = Some w -> 2 <= w -> expr_ok E i ->
                    (forall c, const_index i = Some c -> 0 <= c < w) ->
                    (proc = false -> const_index i <> None) -> lval_ok E proc (LIdx x i)
  | LokWord x w dp i : proc = true -> In (x, KMem w dp) E -> expr_ok E i ->
                    (forall c, const_index i = Some c -> 0 <= c < dp) -> lval_ok E proc (LIdx x i).

Inductive stmt_ok (E : env) : stmt -> Prop :=
  | SokSkip : stmt_ok E SSkip
  | SokSeq a b : stmt_ok E a -> stmt_ok E b -> stmt_ok E (SSeq a b)
  | SokIf c t e : expr_ok E c -> stmt_ok E t -> stmt_ok E e -> stmt_ok E (SIf c t e)
  | SokBlk l e : lval_ok E true l -> expr_ok E e -> stmt_ok E (SBlk l e)
  | SokNba l e : lval_ok E true l -> expr_ok E e -> stmt_ok E (SNba l e).

Inductive event_ok (E : env) : event -> Prop :=
  | EokStar : event_ok E EvStar
  | EokPos c k : In (c, k) E -> kwidth k = Some 1 -> event_ok E (EvPos c)
  | EokNeg c k : In (c, k) E -> kwidth k = Some 1 -> event_ok E (EvNeg c).

(* ---------------------------------------------------------------- instances *)
(* "module name mn is defined by c in d" *)
Definition defines (d : design) (mn : string) (c : vmodule) : Prop := In c d /\ m_name c = mn.

(* a connection .p(e) to port q of the instantiated module: an identifier of the same width; an output or
   inout port must land on a net of the instantiating module (never on an input port, a reg or an integer) *)
Definition conn_ok (E : env) (q : port) (e : expr) : Prop :=
  exists x k, e = EId x /\ In (x, k) E /\ kwidth k = Some (p_width q) /\
              (p_dir q <> DIn -> net_kind k = true).

Inductive item_ok (ext : list string) (d : design) (E : env) : item -> Prop :=
  | IokWire x w : 1 <= w -> item_ok ext d E (IWire x w)
  | IokReg x w init : 1 <= w -> item_ok ext d E (IReg x w init)
  | IokInteger x : item_ok ext d E (IInteger x)
  | IokMem x w dp : 1 <= w -> 1 <= dp -> item_ok ext d E (IMem x w dp)
  | IokAssign l e : lval_ok E false l -> expr_ok E e -> item_ok ext d E (IAssign l e)
  | IokAlways ev s : event_ok E ev -> stmt_ok E s -> item_ok ext d E (IAlways ev s)
  | IokInitial s : stmt_ok E s -> item_ok ext d E (IInitial s)
  (* an instance of a module defined in the text: every connection names a port of THAT module, with the port's
     width; every port is connected exactly once; overrides name declared parameters *)
  | IokInst mn params iname conns c :
      defines d mn c ->
      NoDup (map fst conns) -> NoDup (map fst params) ->
      (forall p e, In (p, e) params -> In p (m_params c) /\ expr_ok E e) ->
      (forall p e, In (p, e) conns -> exists q, In q (m_ports c) /\ p_name q = p /\ conn_ok E q e) ->
      (forall q, In q (m_ports c) -> In (p_name q) (map fst conns)) ->
      item_ok ext d E (IInst mn params iname conns)
  (* an instance of a declared external black box (vendor IP): only resolution can be checked *)
  | IokExt mn params iname conns :
      In mn ext ->
      NoDup (map fst conns) -> NoDup (map fst params) ->
      (forall p e, In (p, e) params -> expr_ok E e) ->
      (forall p e, In (p, e) conns -> expr_ok E e) ->
      item_ok ext d E (IInst mn params iname conns).

(* ---------------------------------------------------------------- drivers
   A driver occurrence is identified by (item index i, connection index j) and drives bits lo..hi of net x:
   - item i is `assign l = e` (j = 0): the bits l denotes;
   - item i is an instance of a module defined in d whose j-th connection is .p(x) with p an output/inout port
     of that module: all bits of x.
   Decision (documented in docs/C03.md): drivers are counted PER BIT, so part-select assigns to disjoint ranges
   of one net are one driver each for their bits (py4hw emits `assign w[7:0] = k` and per-bit assigns). *)
Inductive lrange (E : env) : lval -> string -> Z -> Z -> Prop :=
  | LrId x k w : In (x, k) E -> kwidth k = Some w -> lrange E (LId x) x 0 (w - 1)
  | LrPart x hi lo : lrange E (LPart x hi lo) x lo hi
  | LrIdx x i c : const_index i = Some c -> lrange E (LIdx x i) x c c.

Inductive drives (d : design) (m : vmodule) : nat -> nat -> string -> Z -> Z -> Prop :=
  | DrAssign i l e x lo hi :
      nth_error (m_items m) i = Some (IAssign l e) -> lrange (decls m) l x lo hi -> drives d m i 0 x lo hi
  | DrInst i j mn params iname conns p x c q :
      nth_error (m_items m) i = Some (IInst mn params iname conns) -> nth_error conns j = Some (p, EId x) ->
      defines d mn c -> In q (m_ports c) -> p_name q = p -> p_dir q <> DIn ->
      drives d m i j x 0 (p_width q - 1).

(* x is handed to a black box: it may be driven there *)
Definition ext_connected (ext : list string) (m : vmodule) (x : string) : Prop :=
  exists mn params iname conns p, In (IInst mn params iname conns) (m_items m) /\ In mn ext /\ In (p, EId x) conns.

Fixpoint stmt_targets (s : stmt) : list string :=
  match s with
  | SSkip => []
  | SSeq a b => stmt_targets a ++ stmt_targets b
  | SIf _ t e => stmt_targets t ++ stmt_targets e
  | SBlk l _ | SNba l _ => [match l with LId x | LPart x _ _ | LIdx x _ => x end]
  end.

(* ---------------------------------------------------------------- one module *)
Record WFm (ext : list string) (d : design) (m : vmodule) : Prop := {
  (* every identifier is declared exactly once *)
  wfm_nodup : NoDup (map fst (decls m));
  (* no identifier (nor the module's own name) is a reserved word *)
  wfm_reserved : forall x, In x (m_name m :: map fst (decls m)) -> ~ In x reserved;
  (* ports: width >= 1; `reg` only on outputs *)
  wfm_ports : forall p, In p (m_ports m) -> 1 <= p_width p /\ (p_reg p = true -> p_dir p = DOut);
  (* every item is legal and every identifier it uses resolves *)
  wfm_items : forall it, In it (m_items m) -> item_ok ext d (decls m) it;
  (* no bit of a net has two drivers *)
  wfm_one_driver : forall i j i' j' x lo hi lo' hi',
      drives d m i j x lo hi -> drives d m i' j' x lo' hi' -> (i, j) <> (i', j') -> hi < lo' \/ hi' < lo;
  (* every bit of a local wire / plain output has a driver (or the net goes to a black box) *)
  wfm_driven : forall x k w b, In (x, k) (decls m) -> must_drive k = true -> kwidth k = Some w -> 0 <= b < w ->
      (exists i j lo hi, drives d m i j x lo hi /\ lo <= b <= hi) \/ ext_connected ext m x;
  (* a variable is assigned in at most one always block (memories may have several write ports) *)
  wfm_one_process : forall i i' ev s ev' s' x,
      nth_error (m_items m) i = Some (IAlways ev s) -> nth_error (m_items m) i' = Some (IAlways ev' s') -> i <> i' ->
      In x (stmt_targets s) -> In x (stmt_targets s') -> exists w dp, In (x, KMem w dp) (decls m)
}.

(* ---------------------------------------------------------------- the design *)
Record WF (ext : list string) (d : design) : Prop := {
  (* every module is defined exactly once, and not under the name of a black box *)
  wf_names : NoDup (map m_name d);
  wf_not_ext : forall m, In m d -> ~ In (m_name m) ext;
  wf_modules : forall m, In m d -> WFm ext d m;
  (* no instantiation cycle: the modules can be ranked (by naturals <= |d|) so that instantiation goes strictly down *)
  wf_acyclic : exists rank : string -> nat,
      (forall m, In m d -> (rank (m_name m) <= length d)%nat) /\
      (forall m mn params iname conns c, In m d -> In (IInst mn params iname conns) (m_items m) -> defines d mn c ->
                                         (rank mn < rank (m_name m))%nat)
}.

(* ---------------------------------------------------------------- the fragment Model/VSem.v elaborates
   (no negedge processes, no parameters; memories are elaborated into one net per word) and the fuel `elaborate` needs: one unit per item on
   the way down, and an instantiation chain is at most |d| deep *)
Definition item_in_fragment (it : item) : Prop :=
  match it with
  | IAlways (EvNeg _) _ => False
  | IInst _ params _ _ => params = []
  | _ => True
  end.

Definition vsem_fragment (d : design) : Prop :=
  forall m, In m d -> m_params m = [] /\ forall it, In it (m_items m) -> item_in_fragment it.

Definition max_items (d : design) : nat := fold_right (fun m acc => Nat.max (length (m_items m)) acc) O d.

Definition elab_fuel (d : design) : nat := (S (length d) * S (max_items d))%nat.
