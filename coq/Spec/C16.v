(* C16 — AXI4-Stream adapters never lose, duplicate or corrupt a beat.     WHAT THE PROPERTY MEANS.
   No gates, no registers, no generated code here: schedules (one input record per clock cycle),
   two readings of "what the adapter must show after a schedule":
     (1) a forward reference machine (DESIGN.md section 5 C16), and
     (2) a backward "most recent event" reading of the history (no state is threaded: the value is found by
         looking back through the schedule for the latest relevant event),
   and the protocol predicates on one cycle of an observed trace.
   Convention: a schedule is a list of per-cycle inputs, oldest first; "after ins" = after len(ins) clock edges.
   During cycle t the peer sees the outputs after t edges together with the inputs of cycle t. *)
From V Require Import Base.Bits.

(* ------------------------------------------------------------------ kernel control (shared by both adapters) *)
(* active' = (ap_reset \/ ap_done) ? 0 : ap_start ? 1 : active *)
Definition next_active (act start reset done : bool) : bool :=
  if reset || done then false else if start then true else act.
(* clear of the payload/flag registers: ap_reset \/ ap_done \/ (ap_start /\ ~active)  ("restart") *)
Definition clear_of (act start reset done : bool) : bool := reset || done || (start && negb act).

(* history reading of `active`: the most recent cycle that carried a control event decides.  rctl: newest first. *)
Fixpoint active_hist (rctl : list (bool * bool * bool)) : bool :=
  match rctl with
  | [] => false
  | (start, reset, done) :: older =>
      if reset || done then false else if start then true else active_hist older
  end.

(* ------------------------------------------------------------------ Axi2Reg (stream -> register) *)
Record a2r_in := { a_start : bool; a_reset : bool; a_done : bool; a_tvalid : bool; a_tdata : Z }.
Definition a2r_ctl (i : a2r_in) := (a_start i, a_reset i, a_done i).

Record a2r_ref := { ra_q : Z; ra_loaded : bool; ra_active : bool }.
Definition a2r_ref0 := {| ra_q := 0; ra_loaded := false; ra_active := false |}.

Definition a2r_clear (act : bool) (i : a2r_in) : bool := clear_of act (a_start i) (a_reset i) (a_done i).
(* a beat is transferred in a cycle where the peer's VALID meets our READY (= active) *)
Definition a2r_beat (act : bool) (i : a2r_in) : bool := act && a_tvalid i.

Definition a2r_ref_step (W : Z) (s : a2r_ref) (i : a2r_in) : a2r_ref :=
  let act := ra_active s in
  {| ra_q := if a2r_clear act i then 0 else if a2r_beat act i then a_tdata i mod 2 ^ W else ra_q s;
     ra_loaded := if a2r_clear act i then false else if a2r_beat act i then true else ra_loaded s;
     ra_active := next_active act (a_start i) (a_reset i) (a_done i) |}.
Definition a2r_ref_run (W : Z) (ins : list a2r_in) : a2r_ref := fold_left (a2r_ref_step W) ins a2r_ref0.

(* history reading of (q, loaded): the most recent cycle that was a clear or a beat decides; a clear wins over a
   beat of the same cycle.  None = nothing loaded.  rins: newest first. *)
Fixpoint a2r_data_hist (W : Z) (rins : list a2r_in) : option Z :=
  match rins with
  | [] => None
  | i :: older =>
      let act := active_hist (map a2r_ctl older) in
      if a2r_clear act i then None
      else if a2r_beat act i then Some (a_tdata i mod 2 ^ W)
      else a2r_data_hist W older
  end.

(* what must be observable after a schedule: [q; loaded; active; tready] *)
Definition a2r_expected (W : Z) (ins : list a2r_in) : list Z :=
  let act := active_hist (map a2r_ctl (rev ins)) in
  match a2r_data_hist W (rev ins) with
  | Some v => [v; 1; b2z act; b2z act]
  | None => [0; 0; b2z act; b2z act]
  end.

Definition a2r_ref_obs (s : a2r_ref) : list Z :=
  [ra_q s; b2z (ra_loaded s); b2z (ra_active s); b2z (ra_active s)].

(* ------------------------------------------------------------------ Reg2Axi (register -> stream) *)
Record r2a_in := { b_start : bool; b_reset : bool; b_done : bool; b_load : bool; b_tready : bool; b_regin : Z }.
Definition r2a_ctl (i : r2a_in) := (b_start i, b_reset i, b_done i).

Record r2a_ref := { rb_tvalid : bool; rb_tdata : Z; rb_sent : bool; rb_active : bool }.
Definition r2a_ref0 := {| rb_tvalid := false; rb_tdata := 0; rb_sent := false; rb_active := false |}.

(* the beat on the bus is accepted when VALID meets the peer's READY *)
Definition r2a_accepted (tvalid : bool) (i : r2a_in) : bool := tvalid && b_tready i.
(* a load pulse counts while the adapter is active *)
Definition r2a_loadp (act : bool) (i : r2a_in) : bool := b_load i && act.

Definition r2a_ref_step (DW : Z) (s : r2a_ref) (i : r2a_in) : r2a_ref :=
  let act := rb_active s in
  let hs := act && r2a_accepted (rb_tvalid s) i in
  {| rb_tvalid := if b_reset i || hs then false else if r2a_loadp act i then true else rb_tvalid s;
     rb_tdata := if r2a_loadp act i then b_regin i mod 2 ^ DW else rb_tdata s;
     rb_sent := if clear_of act (b_start i) (b_reset i) (b_done i) then false else if hs then true else rb_sent s;
     rb_active := next_active act (b_start i) (b_reset i) (b_done i) |}.
Definition r2a_ref_run (DW : Z) (ins : list r2a_in) : r2a_ref := fold_left (r2a_ref_step DW) ins r2a_ref0.

(* TDATA after a history: the value presented at the most recent load pulse (0 before the first). newest first *)
Fixpoint r2a_data_hist (DW : Z) (rins : list r2a_in) : Z :=
  match rins with
  | [] => 0
  | i :: older => if r2a_loadp (active_hist (map r2a_ctl older)) i then b_regin i mod 2 ^ DW
                  else r2a_data_hist DW older
  end.

(* constant KEEP mask: ceil(W/8) low bytes valid *)
Definition tkeep_spec (W : Z) : Z := 2 ^ ((W + 7) / 8) - 1.

(* [tvalid; tdata; tlast; tkeep; sent; active] *)
Definition r2a_ref_obs (W : Z) (s : r2a_ref) : list Z :=
  [b2z (rb_tvalid s); rb_tdata s; b2z (rb_tvalid s); tkeep_spec W; b2z (rb_sent s); b2z (rb_active s)].

(* the property's environment assumption for Reg2Axi: done is only signalled after a completed transfer, i.e.
   in a cycle with ap_done (and no ap_reset, which clears everything anyway) no beat is pending and none is
   being loaded.  `tv` is the VALID the environment sees in that cycle. *)
Definition r2a_done_ok (tv : bool) (i : r2a_in) : Prop :=
  b_done i = true -> b_reset i = false -> tv = false /\ b_load i = false.


(* ------------------------------------------------------------------ control FSMs (extension) *)
(* VitisKernelFSM: IDLE(0) -start-> STARTED(1) -load_outs-> OUTPUTS LOADED(2) -all_sent-> DONE(3) -> IDLE *)
Definition vk_next (s : Z) (start load sent : bool) : Z :=
  if s =? 0 then (if start then 1 else 0)
  else if s =? 1 then (if load then 2 else 1)
  else if s =? 2 then (if sent then 3 else 2)
  else 0.

(* Axi2ClkFSM: what a handshake with target n must produce on (clk_out, load_outs), one pair per cycle:
   the handshake cycle itself, n clock pulses (high, low), load_outs for exactly one cycle, then idle *)
Definition a2c_expected (n : nat) : list (Z * Z) :=
  (0, 0) :: concat (repeat [(1, 0); (0, 0)] n) ++ [(0, 1); (0, 0)].
