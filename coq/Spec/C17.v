(* C17 — what "the UART line is 8N1 and the link delivers every byte once" means.  Short, never regenerated. *)
From V Require Import Base.PyInt.

(* bit i of a byte *)
Definition bit (b i : Z) : Z := Z.land (Z.shiftr b i) 1.

(* the 8N1 frame of a byte: low start bit, eight data bits least significant first, high stop bit *)
Definition frame_head (b : Z) : list Z := 0 :: map (bit b) [0; 1; 2; 3; 4; 5; 6; 7].
Definition frame8n1 (b : Z) : list Z := frame_head b ++ [1].

(* the value of eight received data bits, least significant first *)
Fixpoint byte_of (bits : list Z) : Z :=
  match bits with [] => 0 | x :: r => x + 2 * byte_of r end.

(* a line on which the k-th level is held for (nth k durs) system clocks *)
Fixpoint hold (durs : list nat) (levels : list Z) : list Z :=
  match durs, levels with
  | d :: ds, x :: xs => repeat x d ++ hold ds xs
  | _, _ => []
  end.

(* a baud pulse train given by its gaps: g clocks without pulse, then one clock with the pulse.
   Any phase (first gap) and any spacing; a divider of period P gives gaps P-1. *)
Definition pulses (gaps : list nat) : list Z := concat (map (fun g => repeat 0 g ++ [1]) gaps).

(* ---- the independent software receiver: waits for a falling edge, then samples mid-bit at the nominal bit period P *)
Fixpoint falling_from (t : nat) (prev : Z) (line : list Z) : option nat :=
  match line with
  | [] => None
  | x :: r => if (prev =? 1) && (x =? 0) then Some t else falling_from (S t) x r
  end.
(* index of the first clock at which the line is low after having been high (the line idles high before the record starts) *)
Definition falling_edge (line : list Z) : option nat := falling_from 0 1 line.

Fixpoint samples (line : list Z) (t P k : nat) : option (list Z) :=      (* k samples at t, t+P, ... ; None if the record is too short *)
  match k with
  | O => Some []
  | S k' => match nth_error line t, samples line (t + P) P k' with
            | Some x, Some r => Some (x :: r)
            | _, _ => None
            end
  end.

(* Some byte when a well-formed frame (start low, stop high) is sampled; None otherwise *)
Definition sw_rx (P : nat) (line : list Z) : option Z :=
  match falling_edge line with
  | None => None
  | Some e =>
      match samples line (e + P / 2) P 10 with
      | Some (st :: b0 :: b1 :: b2 :: b3 :: b4 :: b5 :: b6 :: b7 :: [sp]) =>
          if (st =? 0) && (sp =? 1) then Some (byte_of [b0; b1; b2; b3; b4; b5; b6; b7]) else None
      | _ => None
      end
  end.

(* ---- what the deserializer is shown: a sequence of clock cycles whose sample instants (rx_sample = 1) present the given
   levels in order.  Between sample instants rx is arbitrary; the consumer's ready is arbitrary throughout. *)
Section Presents.
Context {I : Type}.
Variables (rx sample : I -> Z).
Inductive presents : list Z -> list I -> Prop :=
| pr_nil : presents [] []
| pr_idle i ins xs : sample i = 0 -> presents xs ins -> presents xs (i :: ins)
| pr_sample i ins x xs : sample i = 1 -> rx i = x -> presents xs ins -> presents (x :: xs) (i :: ins).
(* number of cycles in which a 1-bit wire is high *)
Definition nhigh (f : I -> Z) (ins : list I) : nat := length (filter (fun i => negb (f i =? 0)) ins).
End Presents.

(* ---- "the consumer keeps up": between two consecutive frame completions (both edges included) the consumer's ready is high at
   two clock edges at least (the first raises valid, the second is the transfer).  Stated as a monitor over the per-clock events
   (a frame completes at this edge?, ready at this edge): hc = number of ready edges since the last completion edge, that edge
   included, capped at 2 (2 = the previous byte, if any, has been taken). *)
Definition hnext (hc : Z) (comp : bool) (ready : Z) : Z :=
  let hc0 := if comp then 0 else hc in
  if ready =? 0 then hc0 else Z.min 2 (hc0 + 1).
Fixpoint keeps_up (hc : Z) (evs : list (bool * Z)) : Prop :=
  match evs with
  | [] => True
  | (comp, ready) :: r =>
      (comp = true -> hc = 2 \/ (hc = 1 /\ ready <> 0)) /\ keeps_up (hnext hc comp ready) r
  end.
(* the monitor's value after a run: 2 = the consumer has been ready at two edges since the last completion (nothing is waiting for it) *)
Fixpoint hc_run (hc : Z) (evs : list (bool * Z)) : Z :=
  match evs with [] => hc | (comp, ready) :: r => hc_run (hnext hc comp ready) r end.

(* ---- the multi-frame software receiver (session 5).  The same receiver as sw_rx, repeated over the whole record:
   wait for a falling edge (index e; the line is high when the wait starts), sample at e + P/2 + k*P for k = 0..9 (mid-bit at the
   nominal bit period P), require start = 0 and stop = 1, collect the eight data bits LSB first, then go back to waiting, starting at
   the stop-bit sample instant (where the line has just been seen high).
     None        : framing error (a start sample that is not 0 or a stop sample that is not 1) somewhere in the record;
     Some bytes  : the bytes of all complete frames, in order.  The record may end idle or inside a frame (that last frame is dropped).
   fuel bounds the number of frames; every frame consumes at least 9*P + 1 >= 1 elements, so (length line) never runs out for P >= 1. *)
Fixpoint sw_rx_from (fuel P : nat) (line : list Z) : option (list Z) :=
  match fuel with
  | O => Some []
  | S fuel' =>
      match falling_edge line with
      | None => Some []
      | Some e =>
          match samples line (e + P / 2) P 10 with
          | Some (st :: b0 :: b1 :: b2 :: b3 :: b4 :: b5 :: b6 :: b7 :: [sp]) =>
              if (st =? 0) && (sp =? 1)
              then option_map (cons (byte_of [b0; b1; b2; b3; b4; b5; b6; b7])) (sw_rx_from fuel' P (skipn (e + P / 2 + 9 * P) line))
              else None
          | _ => Some []
          end
      end
  end.
Definition sw_rx_all (P : nat) (line : list Z) : option (list Z) := sw_rx_from (length line) P line.

(* a line made of whole 8N1 frames: for each (b, m) the ten levels of frame8n1 b held exactly P clocks each, then m clocks high *)
Fixpoint frames_line (P : nat) (fs : list (Z * nat)) : list Z :=
  match fs with
  | [] => []
  | (b, m) :: r => hold (repeat P 10) (frame8n1 b) ++ repeat 1 m ++ frames_line P r
  end.
