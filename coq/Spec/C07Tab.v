(* C07 — uniform case-file interface to the specifications (same shape as Model/StructArithTab.v). *)
From V Require Import Base.Bits Spec.C07.

Definition gi (l : list Z) (i : nat) : Z := nth i l 0.

(* W = [wa; wb; wci; wr] *)
Definition st_AddCarryIn W I := [spec_add (gi W 3) (gi I 0) (gi I 1) (gi I 2)].
Definition st_Add W I := [spec_add (gi W 3) (gi I 0) (gi I 1) 0].
Definition st_Add_ci W I := [spec_add (gi W 3) (gi I 0) (gi I 1) (gi I 2)].
Definition st_Add_co W I := [spec_add (gi W 3) (gi I 0) (gi I 1) 0; spec_add_co (gi W 3) (gi I 0) (gi I 1) 0].
Definition st_Add_ci_co W I := [spec_add (gi W 3) (gi I 0) (gi I 1) (gi I 2); spec_add_co (gi W 3) (gi I 0) (gi I 1) (gi I 2)].
Definition st_SignedAdd W I := [spec_sadd (gi W 0) (gi W 1) (gi W 3) (gi I 0) (gi I 1) 0].
Definition st_SignedAdd_ci W I := [spec_sadd (gi W 0) (gi W 1) (gi W 3) (gi I 0) (gi I 1) (gi I 2)].
Definition st_SignedAdd_co W I :=
  [spec_sadd (gi W 0) (gi W 1) (gi W 3) (gi I 0) (gi I 1) 0; spec_sadd_co (gi W 0) (gi W 1) (gi W 3) (gi I 0) (gi I 1) 0].
Definition st_SignedAdd_ci_co W I :=
  [spec_sadd (gi W 0) (gi W 1) (gi W 3) (gi I 0) (gi I 1) (gi I 2); spec_sadd_co (gi W 0) (gi W 1) (gi W 3) (gi I 0) (gi I 1) (gi I 2)].

Definition st_SubBorrowIn W I := [spec_sub_borrow (gi W 3) (gi I 0) (gi I 1) (gi I 2)].

(* W = [wa; wb; wr] *)
Definition st_Sub W I := [spec_sub (gi W 2) (gi I 0) (gi I 1)].
Definition st_SignedSub W I := [spec_ssub (gi W 0) (gi W 1) (gi W 2) (gi I 0) (gi I 1)].
Definition st_Mul W I := [spec_mul (gi W 2) (gi I 0) (gi I 1)].
Definition st_SignedMul W I := [spec_smul (gi W 0) (gi W 1) (gi W 2) (gi I 0) (gi I 1)].
Definition st_Div W I := [spec_div (gi W 2) (gi I 0) (gi I 1)].
Definition st_Mod W I := [spec_mod (gi W 2) (gi I 0) (gi I 1)].
Definition st_SignedDiv W I := [spec_sdiv (gi W 0) (gi W 1) (gi W 2) (gi I 0) (gi I 1)].
Definition st_ShiftRightL W I := [spec_shr (gi W 2) (gi I 0) (gi I 1)].
Definition st_ShiftRightA W I := [spec_sar (gi W 0) (gi W 2) (gi I 0) (gi I 1)].
Definition st_ShiftRightW W I :=
  [if Z.odd (gi I 2) then spec_sar (gi W 0) (gi W 2) (gi I 0) (gi I 1) else spec_shr (gi W 2) (gi I 0) (gi I 1)].
Definition st_ShiftLeft W I := [spec_shl (gi W 2) (gi I 0) (gi I 1)].
Definition st_RotateRight W I := [spec_rotr (gi W 0) (gi W 2) (gi I 0) (gi I 1)].
Definition st_RotateLeft W I := [spec_rotl (gi W 0) (gi W 2) (gi I 0) (gi I 1)].

(* W = [wa; wr] *)
Definition st_Neg W I := [spec_neg (gi W 1) (gi I 0)].
Definition st_Abs W I := [spec_abs (gi W 0) (gi W 1) (gi I 0)].
Definition st_Abs_inv W I := [spec_abs (gi W 0) (gi W 1) (gi I 0); spec_sign (gi W 0) (gi I 0)].
Definition st_Sign W I := [spec_sign (gi W 0) (gi I 0)].
Definition st_SignExtend W I := [spec_sext (gi W 0) (gi W 1) (gi I 0)].
Definition st_ZeroExtend W I := [spec_zext (gi W 1) (gi I 0)].
Definition st_CountLeadingZeros W I := [spec_clz (gi W 0) (gi W 1) (gi I 0); spec_clz_z (gi I 0)].
Definition st_BinaryToBCD W I := [spec_bcd (gi W 1) (gi I 0)].

(* W = [wa; n; wr] *)
Definition st_ShiftLeftConstant W I := [spec_shl (gi W 2) (gi I 0) (gi W 1)].
Definition st_ShiftRightConstant W I := [spec_shr (gi W 2) (gi I 0) (gi W 1)].
Definition st_RotateLeftConstant W I := [spec_rotl (gi W 0) (gi W 2) (gi I 0) (gi W 1)].
Definition st_RotateRightConstant W I := [spec_rotr (gi W 0) (gi W 2) (gi I 0) (gi W 1)].

(* W = [w] *)
Definition st_c2_to_signed W I := [spec_c2_to_signed (gi I 0) (gi W 0)].
Definition st_signed_to_c2 W I := [spec_signed_to_c2 (gi I 0) (gi W 0)].

Fixpoint prodZ (ns : list Z) : list (list Z) :=
  match ns with
  | [] => [[]]
  | n :: t => flat_map (fun x => map (cons x) (prodZ t)) (seqZ 0 n)
  end.
