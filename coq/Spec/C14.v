(* C14 — what the fixed-point blocks must compute, in exact integer / rational arithmetic.
   Independent of the models: only widths (w = sign+int+frac, with ONE sign bit) and fraction sizes appear.

   A w-bit encoding v in format (1, i, f) denotes the rational  sgn w v / 2^f  (two's complement over
   the whole word, binary point f bits from the right).  `fxint` is the scaled integer; the value itself, as a rational, is `fxQ` in Spec/C14Q.v. *)
From V Require Import Base.Bits.

Definition fxint (w v : Z) : Z := sgn w v.

(* encoding (mod 2^w: wrap-around on overflow) of the exact sum / difference; operands and result share one format,
   so the scaled integers add directly *)
Definition spec_add (w a b : Z) : Z := (fxint w a + fxint w b) mod 2 ^ w.
Definition spec_sub (w a b : Z) : Z := (fxint w a - fxint w b) mod 2 ^ w.

(* exact product  (sa/2^fa)*(sb/2^fb) = sa*sb / 2^(fa+fb),  rescaled to fr fraction bits by truncation
   towards minus infinity (floor), wrapped to the wr-bit result word *)
Definition spec_mul (wa fa wb fb wr fr a b : Z) : Z :=
  ((fxint wa a * fxint wb b) / 2 ^ (fa + fb - fr)) mod 2 ^ wr.
Definition spec_sign (w a : Z) : Z := if fxint w a <? 0 then 1 else 0.

(* (gt, eq, lt) on the denoted values; both operands share a format so the scaled integers order them *)
Definition spec_cmp (w a b : Z) : Z * Z * Z :=
  (b2z (fxint w b <? fxint w a), b2z (fxint w a =? fxint w b), b2z (fxint w a <? fxint w b)).

(* guard of the comparator clause: the exact difference is representable in the operands' format *)
Definition diff_representable (w a b : Z) : Prop :=
  - 2 ^ (w - 1) <= fxint w a - fxint w b < 2 ^ (w - 1).
