(* C13 — what "meets IEEE-754 within stated error bounds" MEANS for the single-precision blocks.
   Purely mathematical (div / mod / powers on Z, rationals on Q); independent of the circuit model.

   A 32-bit pattern a has fields  s = a / 2^31, e = (a / 2^23) mod 2^8, m = a mod 2^23.  It is *normal* when
   1 <= e <= 254 and then denotes the rational  val a = (-1)^s (2^23 + m) 2^(e - 150).
   All statements are made on the SCALED INTEGER  sval a = val a * 2^150 = (-1)^s (2^23 + m) 2^e  (e >= 0, so this is
   an integer): sums, products, order and distances of values are sums, products, order and distances of svals up to
   the common positive factor 2^150 (2^300 for products).  [Qval_sval] below states val a = sval a / 2^150 in Q. *)
From V Require Import Base.Bits.
From Coq Require Import QArith.
Open Scope Z_scope.

Definition word (a : Z) : Prop := 0 <= a < 2 ^ 32.
Definition expo (a : Z) : Z := (a / 2 ^ 23) mod 2 ^ 8.
Definition frac (a : Z) : Z := a mod 2 ^ 23.
Definition negative (a : Z) : bool := 2 ^ 31 <=? a.
Definition normal (a : Z) : Prop := word a /\ 1 <= expo a <= 254.

Definition sval (a : Z) : Z := (if negative a then -1 else 1) * ((2 ^ 23 + frac a) * 2 ^ expo a).

(* the same value as a rational, written as in the property text *)
Definition Qval (a : Z) : Q :=
  ((if negative a then -1 else 1) * inject_Z (2 ^ 23 + frac a) * Qpower 2 (expo a - 150))%Q.

(* one unit in the last place of a normal number with biased exponent e is 2^(e-150); scaled by 2^150 *)
Definition ulp_s (e : Z) : Z := 2 ^ e.

(* a real number x (given scaled: x * 2^k) is in the normal range when 2^-126 <= |x| < 2^128 *)
Definition normal_range (k x : Z) : Prop := 2 ^ (k - 126) <= Z.abs x < 2 ^ (k + 128).

(* ---- comparator: greater / equal / less exactly as the values (plain) or their magnitudes (absolute mode) *)
Definition cmp_spec (absolute : bool) (a b : Z) : bool * bool * bool :=
  let x := if absolute then Z.abs (sval a) else sval a in
  let y := if absolute then Z.abs (sval b) else sval b in
  (y <? x, x =? y, x <? y).

(* ---- integer -> float: truncation toward zero to 24 significant bits *)
Definition trunc_sig24 (n : Z) : Z := let sh := Z.max 0 (Z.log2 n - 23) in (n / 2 ^ sh) * 2 ^ sh.

Definition int2fp_spec (a r : Z) (p_lost : bool) : Prop :=
  let x := sgn 32 a in                                      (* the 32-bit pattern read as two's complement *)
  if x =? 0 then r = 0 /\ p_lost = false
  else normal r /\ sval r = Z.sgn x * trunc_sig24 (Z.abs x) * 2 ^ 150 /\
       (p_lost = true <-> trunc_sig24 (Z.abs x) <> Z.abs x).

(* ---- float -> integer: truncation toward zero (Z.quot rounds toward zero), flag = something was discarded *)
Definition fp2int_value (a : Z) : Z := Z.quot (sval a) (2 ^ 150).
Definition fp2int_discarded (a : Z) : Prop := Z.rem (sval a) (2 ^ 150) <> 0.
Definition fp2int_in_range (a : Z) : Prop := Z.abs (sval a) < 2 ^ 31 * 2 ^ 150.      (* |v| < 2^31 *)

(* ---- multiplier: |out - a*b| < 1 ulp(out), all scaled by 2^300 *)
Definition mul_exact_normal (a b : Z) : Prop := normal_range 300 (sval a * sval b).
Definition mul_spec (a b r : Z) : Prop :=
  normal r /\ Z.abs (sval r * 2 ^ 150 - sval a * sval b) < ulp_s (expo r) * 2 ^ 150.

(* ---- adder: sign of the exact sum, |out - (a+b)| < 2 ulp(larger operand), all scaled by 2^150 *)
Definition add_exact_normal (a b : Z) : Prop := normal_range 150 (sval a + sval b).
Definition add_spec (a b r : Z) : Prop :=
  normal r /\ negative r = (sval a + sval b <? 0) /\
  Z.abs (sval r - (sval a + sval b)) < 2 * ulp_s (Z.max (expo a) (expo b)).
