(* C14 — the product specification said with rationals (kept apart: QArith is slow to load and only this statement needs it). *)
From V Require Import Base.Bits Spec.C14.
From Coq Require Import QArith Qround.
Open Scope Z_scope.

(* the rational a w-bit encoding with f fraction bits denotes *)
Definition fxQ (w f v : Z) : Q := Qmake (fxint w v) (Z.to_pos (2 ^ f)).

(* floor of (value a) * (value b) * 2^fr, wrapped to the result word; proved equal to spec_mul for fa+fb-fr >= 0 (Proofs/C14/Helper.v) *)
Definition spec_mul_Q (wa fa wb fb wr fr a b : Z) : Z :=
  Qfloor (fxQ wa fa a * fxQ wb fb b * inject_Z (2 ^ fr)) mod 2 ^ wr.
