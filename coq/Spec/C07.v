(* C07 — what "computes its mathematical function" MEANS for every integer arithmetic block.
   Hand-written, never regenerated, no reference to the code.  Conventions:
     * a port of width w carries a value 0 <= v < 2^w (C06);  [umod w x] is "x reduced modulo 2**w";
     * [sgn w v] (Base/Bits.v) is the two's-complement reading of the w-bit pattern v;
     * division is only specified for a non-zero divisor (the theorems carry b <> 0);
     * [/] and [mod] on Z are floor division (Python's // and %), [Z.quot] truncates toward zero. *)
From V Require Import Base.Bits.

Definition umod (w x : Z) : Z := x mod 2 ^ w.

(* ---- addition / subtraction ------------------------------------------------------------------ *)
Definition spec_add (wr a b ci : Z) : Z := umod wr (a + b + ci).
(* carry out = bit wr of the exact sum *)
Definition spec_add_co (wr a b ci : Z) : Z := ((a + b + ci) / 2 ^ wr) mod 2.
Definition spec_sub (wr a b : Z) : Z := umod wr (a - b).
Definition spec_neg (wr a : Z) : Z := umod wr (- a).
Definition spec_sub_borrow (wr a b bi : Z) : Z := umod wr (a - b - bi).

(* signed variants: operands are wa / wb-bit two's complement numbers *)
Definition spec_sadd (wa wb wr a b ci : Z) : Z := umod wr (sgn wa a + sgn wb b + ci).
(* carry out of the wr-bit two's-complement addition (operands sign-extended to wr bits) *)
Definition spec_sadd_co (wa wb wr a b ci : Z) : Z :=
  ((umod wr (sgn wa a) + umod wr (sgn wb b) + ci) / 2 ^ wr) mod 2.
Definition spec_ssub (wa wb wr a b : Z) : Z := umod wr (sgn wa a - sgn wb b).

Definition spec_abs (wa wr a : Z) : Z := umod wr (Z.abs (sgn wa a)).
Definition spec_sign (wa a : Z) : Z := if sgn wa a <? 0 then 1 else 0.
Definition spec_sext (wa wr a : Z) : Z := umod wr (sgn wa a).
Definition spec_zext (wr a : Z) : Z := umod wr a.

(* ---- multiplication / division --------------------------------------------------------------- *)
Definition spec_mul (wr a b : Z) : Z := umod wr (a * b).
Definition spec_smul (wa wb wr a b : Z) : Z := umod wr (sgn wa a * sgn wb b).
Definition spec_div (wr a b : Z) : Z := umod wr (a / b).              (* b <> 0 *)
Definition spec_mod (wr a b : Z) : Z := umod wr (a mod b).            (* b <> 0 *)
(* signed division truncates toward zero; -2^(w-1) / -1 = 2^(w-1) wraps through umod *)
Definition spec_sdiv (wa wb wr a b : Z) : Z := umod wr (Z.quot (sgn wa a) (sgn wb b)).   (* b <> 0 *)

(* ---- shifts (amount n >= 0, any size: amounts >= the width give 0 / sign fill by themselves) -- *)
Definition spec_shl (wr a n : Z) : Z := umod wr (a * 2 ^ n).
Definition spec_shr (wr a n : Z) : Z := umod wr (a / 2 ^ n).
Definition spec_sar (wa wr a n : Z) : Z := umod wr (sgn wa a / 2 ^ n).     (* floor: sign fill *)

(* ---- rotations inside w bits; the amount is taken modulo w (n = w is the identity) ------------ *)
Definition rotl (w a n : Z) : Z := let k := n mod w in (a * 2 ^ k) mod 2 ^ w + a / 2 ^ (w - k).
Definition rotr (w a n : Z) : Z := let k := n mod w in a / 2 ^ k + (a mod 2 ^ k) * 2 ^ (w - k).
Definition spec_rotl (wa wr a n : Z) : Z := umod wr (rotl wa a n).
Definition spec_rotr (wa wr a n : Z) : Z := umod wr (rotr wa a n).

(* ---- leading zeros of an aw-bit value --------------------------------------------------------- *)
Definition clz (aw a : Z) : Z := if a =? 0 then aw else aw - 1 - Z.log2 a.
Definition spec_clz (aw wr a : Z) : Z := umod wr (clz aw a).
Definition spec_clz_z (a : Z) : Z := if a =? 0 then 1 else 0.

(* ---- binary to BCD: [digits] decimal digits, 4 bits each, least significant digit in bits 3..0 - *)
Fixpoint bcd (digits : nat) (a : Z) : Z :=
  match digits with
  | O => 0
  | S d => a mod 10 + 16 * bcd d (a / 10)
  end.
Definition spec_bcd (wr a : Z) : Z := bcd (Z.to_nat (wr / 4)) a.

(* ---- helper conversions (py4hw/helper.py IntegerHelper) ---------------------------------------- *)
Definition spec_signed_to_c2 (v w : Z) : Z := umod w v.
Definition spec_c2_to_signed (v w : Z) : Z := sgn w (umod w v).

(* value of an optional carry-in port (absent = 0) *)
Definition ci_val (ci : option Z) : Z := match ci with Some c => c | None => 0 end.
