(* C09 — reference state machines of the sequential library blocks.  What the property MEANS.
   Plain arithmetic on Z (mod 2^w), lists and functions; nothing here refers to the code's models.
   A history is the list of input tuples sampled at successive clock edges, oldest first, from power-up.
   `run step s0 h` = state after the whole history. *)
From V Require Import Base.PyInt.

Definition run {S I : Type} (step : S -> I -> S) (s0 : S) (h : list I) : S := fold_left step h s0.

(* control conventions of the code: a register's reset fires when the reset wire EQUALS 1, its enable when the enable
   wire is NON-ZERO (storage.py:96-101); a multiplexer select and the 1-bit Or2 outputs look at BIT 0 only *)
Definition bit0 (x : Z) : bool := Z.odd x.

(* ---- register: reset = 1 loads reset_value, else enable <> 0 loads d, else hold; contents are mod 2^w.
   he / hr: the enable / reset port exists (an absent enable = always enabled, an absent reset = never) *)
Definition reg_spec_init (w rv : Z) : Z := rv mod 2 ^ w.
Definition reg_spec (w : Z) (he hr : bool) (rv : Z) (s : Z) (i : Z * Z * Z) : Z :=
  let '(d, e, r) := i in
  if hr && (r =? 1) then rv mod 2 ^ w
  else if he && (e =? 0) then s
  else d mod 2 ^ w.

(* ---- toggle register (1 bit): reset -> 0, enabled and t -> complement, else hold *)
Definition treg_spec (he hr : bool) (s : Z) (i : Z * Z * Z) : Z :=
  let '(t, e, r) := i in
  if hr && (r =? 1) then 0
  else if he && (e =? 0) then s
  else if bit0 t then 1 - s else s.

(* ---- counters.  An absent reset never fires, an absent inc always fires. *)
Definition counter_spec (w : Z) (hi hr : bool) (s : Z) (i : Z * Z) : Z :=
  let '(reset, inc) := i in
  if hr && bit0 reset then 0
  else if negb hi || bit0 inc then (s + 1) mod 2 ^ w
  else s.
(* counts 0 .. m-1 and wraps; carry is high exactly in state m-1 *)
Definition modcounter_spec (m : Z) (s : Z) (i : Z * Z) : Z :=
  let '(reset, inc) := i in
  if bit0 reset then 0
  else if bit0 inc then (s + 1) mod m
  else s.
Definition modcounter_carry_spec (m s : Z) : Z := if s =? m - 1 then 1 else 0.
Definition stepup_spec (w : Z) (hr : bool) (s : Z) (i : Z * Z * Z) : Z :=
  let '(reset, inc, step) := i in
  if hr && bit0 reset then 0
  else if bit0 inc then (s + step) mod 2 ^ w
  else s.

(* ---- delay line: the unbounded log of the values sampled at enabled edges since the last reset edge, newest
   first.  The output of a line of `delay` registers is the entry made `delay` enabled edges ago (0 while the log
   is shorter); a line of 0 registers is a wire. *)
Definition delay_log (he hr : bool) (log : list Z) (i : Z * Z * Z) : list Z :=
  let '(a, e, r) := i in
  if hr && (r =? 1) then []
  else if he && (e =? 0) then log
  else a :: log.
Definition delay_spec_out (w wr : Z) (delay : nat) (log : list Z) (a_now : Z) : Z :=
  match delay with
  | O => a_now mod 2 ^ wr
  | S k => (nth k log 0 mod 2 ^ w) mod 2 ^ wr
  end.

(* ---- pipeline stage: after an edge every lane shows its input (mod its width), or 0 if reset was 1 *)
Definition pipe_spec (ws ins : list Z) (reset : Z) : list Z :=
  map (fun '(w, a) => if reset =? 1 then 0 else a mod 2 ^ w) (combine ws ins).

(* ---- edge detector on a 1-bit signal: compares the present value with the value sampled at the last edge *)
Inductive edge_kind := Rising | Falling | AnyEdge.
Definition edge_spec (k : edge_kind) (prev now : Z) : Z :=
  match k with
  | Rising => if (now =? 1) && (prev =? 0) then 1 else 0
  | Falling => if (now =? 0) && (prev =? 1) then 1 else 0
  | AnyEdge => if now =? prev then 0 else 1
  end.

(* ---- clock divider by 2n: c = number of edges since the last reset edge (or power-up);
   the output is low for n edges, high for n edges, ... *)
Definition clkdiv_count (c : Z) (reset : Z) : Z := if reset =? 1 then 0 else c + 1.
Definition clkdiv_spec_out (n c : Z) : Z := (c / n) mod 2.

(* ---- bidirectional shift register of `depth` cells, cell 0 at the left.
   shift_left has priority: everything moves one cell to the left, right_in enters at the right end;
   shift_right: everything moves one cell to the right, left_in enters at the left end. *)
Definition srb_spec (w : Z) (l : list Z) (i : Z * Z * Z * Z) : list Z :=
  let '(left_in, right_in, sl, sr) := i in
  if bit0 sl then tl l ++ [right_in mod 2 ^ w]
  else if bit0 sr then (left_in mod 2 ^ w) :: removelast l
  else l.

(* ---- stack (LIFO) bounded by depth.  State: the stack, newest first, at most `depth` long, and the output register.
   pop (priority over push): the output register takes the top (0 if the stack is empty), the top is removed.
   push: din (mod 2^w) becomes the top; an element pushed below `depth` is lost. *)
Definition stack_spec (w : Z) (depth : nat) (s : list Z * Z) (i : Z * Z * Z) : list Z * Z :=
  let '(din, push, pop) := i in
  let '(stk, dout) := s in
  if pop =? 1 then (tl stk, hd 0 stk)
  else if push =? 1 then (firstn depth ((din mod 2 ^ w) :: stk), dout)
  else (stk, dout).

(* the ideal, UNBOUNDED stack, and "the history never holds more than depth elements" *)
Definition ustack_spec (w : Z) (s : list Z * Z) (i : Z * Z * Z) : list Z * Z :=
  let '(din, push, pop) := i in
  let '(stk, dout) := s in
  if pop =? 1 then (tl stk, hd 0 stk)
  else if push =? 1 then ((din mod 2 ^ w) :: stk, dout)
  else (stk, dout).
Fixpoint never_above (w : Z) (depth : nat) (s : list Z * Z) (h : list (Z * Z * Z)) : Prop :=
  match h with
  | [] => True
  | i :: h' => let s' := ustack_spec w s i in (length (fst s') <= depth)%nat /\ never_above w depth s' h'
  end.

(* the registers of a depth-deep stack implementation holding the abstract stack stk: stk, then zeros *)
Definition pad (depth : nat) (stk : list Z) : list Z := stk ++ repeat 0 (depth - length stk).
(* push and pop are 1-bit wires *)
Definition ctl_ok (i : Z * Z * Z) : Prop := let '(din, push, pop) := i in (push = 0 \/ push = 1) /\ (pop = 0 \/ pop = 1).

(* ---- synchronous memory: a total map address -> content (all 0 at power-up).
   An edge returns the content of read_address BEFORE this edge's write (mod the read port width)
   and then stores writedata at write_address if write <> 0. *)
Definition mem_spec (wr : Z) (s : (Z -> Z) * Z) (i : Z * Z * Z * Z) : (Z -> Z) * Z :=
  let '(ra, wa, we, wd) := i in
  let '(m, _) := s in
  ((if we =? 0 then m else fun a => if a =? wa then wd else m a), m ra mod 2 ^ wr).
Definition mem_spec_init : (Z -> Z) * Z := (fun _ => 0, 0).

(* addresses come from aw-bit wires *)
Definition addr_ok (aw : Z) (i : Z * Z * Z * Z) : Prop := let '(ra, wa, we, wd) := i in 0 <= ra < 2 ^ aw /\ 0 <= wa < 2 ^ aw.

(* ---- dual-port synchronous memory: BOTH read ports return the content before the edge; then port a's write, then port b's
   write (b wins when both write the same cell) *)
Definition upd (m : Z -> Z) (we wa wd : Z) : Z -> Z := if we =? 0 then m else fun a => if a =? wa then wd else m a.
Definition dp_spec (wra wrb : Z) (s : (Z -> Z) * (Z * Z)) (i : (Z * Z * Z * Z) * (Z * Z * Z * Z)) : (Z -> Z) * (Z * Z) :=
  let '((raa, waa, wa, wda), (rab, wab, wb, wdb)) := i in
  let m := fst s in
  (upd (upd m wa waa wda) wb wab wdb, (m raa mod 2 ^ wra, m rab mod 2 ^ wrb)).
Definition dp_spec_init : (Z -> Z) * (Z * Z) := (fun _ => 0, (0, 0)).
Definition dp_addr_ok (aw : Z) (i : (Z * Z * Z * Z) * (Z * Z * Z * Z)) : Prop :=
  let '((raa, waa, wa, wda), (rab, wab, wb, wdb)) := i in
  0 <= raa < 2 ^ aw /\ 0 <= waa < 2 ^ aw /\ 0 <= rab < 2 ^ aw /\ 0 <= wab < 2 ^ aw.
(* ---- auto reset: high after the first and the second edge, low before and afterwards *)
Definition autoreset_spec (w : Z) (k : nat) : Z :=
  match k with 1%nat | 2%nat => 1 mod 2 ^ w | _ => 0 end.
Fixpoint iter {A} (n : nat) (f : A -> A) (x : A) : A := match n with O => x | S k => f (iter k f x) end.
