(* C18 — what "the schematic shows the circuit that exists" MEANS, stated declaratively over the dumped data
   (Model/Schem.v gives only the record types used here; none of its checking functions appear below except the
   classification  virtual : skind -> bool  of marker symbols and  kind_of_elem).

   circuit c : the block as it really is — in-ports, children (with pin counts), out-ports, and per wire the pin
               that drives it and the pins that read it.
   layout  l : what Schematic(obj) built — the symbols in its grid and the nets between them.                     *)
From Coq Require Import List ZArith Bool Arith.
Import ListNotations.
From V Require Import Model.Schem.

(* ------------------------------------------------------------------ the connectivity is one *)
Definition Elem (c : circuit) (e : elem) : Prop :=
  match e with
  | EIn i => (i < c_nin c)%nat | EChild k => (k < length (c_ch c))%nat | EOut j => (j < c_nout c)%nat
  end.
(* a pin that can drive a wire inside the block: a block in-port, or an output pin of a child *)
Definition DrvPin (c : circuit) (p : pin) : Prop :=
  p_out p = true /\
  match p_el p with
  | EIn i => (i < c_nin c)%nat /\ p_ix p = O
  | EChild k => exists io, nth_error (c_ch c) k = Some io /\ (p_ix p < snd io)%nat
  | EOut _ => False
  end.
(* a pin that can read one: a block out-port, or an input pin of a child *)
Definition RdPin (c : circuit) (p : pin) : Prop :=
  p_out p = false /\
  match p_el p with
  | EOut j => (j < c_nout c)%nat /\ p_ix p = O
  | EChild k => exists io, nth_error (c_ch c) k = Some io /\ (p_ix p < fst io)%nat
  | EIn _ => False
  end.
Definition PinOfWire (w : wconn) (p : pin) : Prop := p = w_drv w \/ In p (w_rd w).

Record CircWF (c : circuit) : Prop := {
  wf_ids  : NoDup (map w_id (c_wires c));
  wf_drv  : forall w, In w (c_wires c) -> DrvPin c (w_drv w);
  wf_rd   : forall w p, In w (c_wires c) -> In p (w_rd w) -> RdPin c p;
  wf_pins : NoDup (flat_map (fun w => w_drv w :: w_rd w) (c_wires c))          (* no pin is on two wires, or twice on one *)
}.

(* ------------------------------------------------------------------ symbols *)
(* a drawn symbol that is not a pass-through / feedback marker *)
Definition Real (l : layout) (s : sym) : Prop := In s (l_syms l) /\ virtual (s_kind s) = false.
Definition StandsFor (l : layout) (s : sym) (e : elem) : Prop := Real l s /\ s_for s = Some e /\ s_kind s = kind_of_elem e.
Definition IsMarker (l : layout) (i : nat) : Prop := exists s, In s (l_syms l) /\ s_id s = i /\ virtual (s_kind s) = true.

Definition same_cell (a b : sym) : Prop := s_row a = s_row b /\ s_col a = s_col b.
Definition overlap (a b : sym) : Prop :=      (* open rectangles [x, x+w) x [y, y+h) intersect *)
  (s_x a < s_x b + s_w b /\ s_x b < s_x a + s_w a /\ s_y a < s_y b + s_h b /\ s_y b < s_y a + s_h a)%Z.

(* ------------------------------------------------------------------ the figure drawn for one wire *)
(* where a net end is attached: all ends on one marker are one point; on an instance / port symbol the point is the pin *)
Inductive attach (l : layout) : nend -> node -> Prop :=
| at_marker e : IsMarker l (e_sym e) -> attach l e (e_sym e, None)
| at_pin e : ~ IsMarker l (e_sym e) -> attach l e (e_sym e, e_pin e).

(* two attachment points joined by one net labelled with wire wid (nets are undirected lines) *)
Inductive linked (l : layout) (wid : nat) : node -> node -> Prop :=
| link_fwd n a b : In n (l_nets l) -> n_wire n = wid -> attach l (n_src n) a -> attach l (n_snk n) b -> linked l wid a b
| link_bwd n a b : In n (l_nets l) -> n_wire n = wid -> attach l (n_src n) a -> attach l (n_snk n) b -> linked l wid b a.
(* connected by a path of such nets *)
Inductive connected (l : layout) (wid : nat) : node -> node -> Prop :=
| conn_refl a : connected l wid a a
| conn_step a b c : connected l wid a b -> linked l wid b c -> connected l wid a c.
(* some net of the wire ends at this point *)
Definition touches (l : layout) (wid : nat) (nd : node) : Prop :=
  exists n, In n (l_nets l) /\ n_wire n = wid /\ (attach l (n_src n) nd \/ attach l (n_snk n) nd).

(* what a net end may be: it sits on a drawn symbol; on a marker it names no pin or a pin of its wire; on an
   instance / port symbol it names a pin OF THAT symbol's element that is a pin of the net's wire and of no other wire *)
Definition EndOK (c : circuit) (l : layout) (w : wconn) (e : nend) : Prop :=
  exists s, In s (l_syms l) /\ s_id s = e_sym e /\
    (virtual (s_kind s) = true -> forall p, e_pin e = Some p -> PinOfWire w p) /\
    (virtual (s_kind s) = false ->
       exists p, e_pin e = Some p /\ s_for s = Some (p_el p) /\ PinOfWire w p /\
                 forall w', In w' (c_wires c) -> PinOfWire w' p -> w' = w).

(* ------------------------------------------------------------------ where the lines really end *)
(* a net end on an instance / port symbol is drawn at a point where that symbol draws the pin the end names *)
Definition GeoEnd (l : layout) (e : nend) (pt : option (Z * Z)) : Prop :=
  forall s, In s (l_syms l) -> s_id s = e_sym e -> virtual (s_kind s) = false ->
    exists p x y, e_pin e = Some p /\ In (PinAt (e_sym e) p x y) (l_pins l) /\ pt = Some (x, y).

(* ------------------------------------------------------------------ the property *)
Record SchemOK (c : circuit) (l : layout) : Prop := {
  ok_circ  : CircWF c;
  ok_ids   : NoDup (map s_id (l_syms l));
  (* exactly one symbol for each child instance and each port of the block ... *)
  ok_each  : forall e, Elem c e -> exists s, StandsFor l s e /\ forall s', Real l s' -> s_for s' = Some e -> s' = s;
  (* ... and no instance / port symbol for anything else *)
  ok_only  : forall s, Real l s -> exists e, Elem c e /\ StandsFor l s e;
  (* no two instance or port symbols in one grid cell or overlapping as rectangles (and none is degenerate) *)
  ok_size  : forall a, Real l a -> (0 < s_w a /\ 0 < s_h a)%Z;
  ok_apart : forall a b, Real l a -> Real l b -> s_id a <> s_id b -> ~ same_cell a b /\ ~ overlap a b;
  (* every net is a net of a wire of the block and its ends name only pins of that wire *)
  ok_ends  : forall n, In n (l_nets l) ->
               exists w, In w (c_wires c) /\ w_id w = n_wire n /\ EndOK c l w (n_src n) /\ EndOK c l w (n_snk n);
  (* for every wire: ONE connected figure, containing the real driver pin and every real reader pin *)
  ok_wire  : forall w, In w (c_wires c) ->
               exists sd, StandsFor l sd (p_el (w_drv w)) /\
                 let root := (s_id sd, Some (w_drv w)) in
                 (forall n nd, In n (l_nets l) -> n_wire n = w_id w -> attach l (n_src n) nd \/ attach l (n_snk n) nd ->
                               connected l (w_id w) root nd) /\
                 (forall p, In p (w_rd w) ->
                    exists sp, StandsFor l sp (p_el p) /\ connected l (w_id w) root (s_id sp, Some p) /\
                               touches l (w_id w) (s_id sp, Some p)) /\
                 (w_rd w <> [] -> touches l (w_id w) root);
  (* geometry of the pins: two pins that a symbol (or two symbols) draw at ONE point belong to one wire — otherwise a net
     that ends there touches a pin of another wire *)
  ok_pinpts : forall a b, In a (l_pins l) -> In b (l_pins l) -> a_x a = a_x b -> a_y a = a_y b ->
                forall w w', In w (c_wires c) -> In w' (c_wires c) -> PinOfWire w (a_pin a) -> PinOfWire w' (a_pin b) -> w = w';
  (* every net is routed (drawn), and its polyline starts / ends exactly on the pins its ends name *)
  ok_drawn : forall n, In n (l_nets l) ->
               (exists a b, n_from n = Some a /\ n_to n = Some b) /\ GeoEnd l (n_src n) (n_from n) /\ GeoEnd l (n_snk n) (n_to n);
  (* the point at which a symbol says a pin is (where the nets are made to end) lies on the marker the symbol PAINTS for that pin *)
  ok_marks : forall m a, In m (l_marks l) -> In a (l_pins l) -> a_sym a = m_sym m -> a_pin a = m_pin m ->
               (m_x0 m <= a_x a <= m_x1 m /\ m_y0 m <= a_y a <= m_y1 m)%Z
}.
