(* C05 — what "a clock edge is atomic" MEANS.
   The reference machine: every sequential leaf is evaluated on a FROZEN snapshot of the pre-edge state
   (wire values and its own state), then all prepared updates are applied together.
   Also: what a re-scheduling of the simulator's visit order is, and the design side-conditions
   (single writer per wire, every leaf registered once, combinational list in dependency order).
   Short, hand-written, never regenerated.  No proofs here. *)
From V Require Import Base.PyInt Gen.WireOps Model.SimKernel.
From Coq Require Export Permutation.

Section Spec.
Context {St : Type}.

(* ---------------------------------------------------------------- snapshot-then-apply reference *)

(* what leaf k computes from the frozen pre-edge state s: its next state and the updates it prepares *)
Definition snap (d : design St) (s : state St) (k : nat) : option (St * list (nat * Z)) :=
  match nth_error (seqs d) k, nth_error (sts s) k with
  | Some l, Some st =>
      let '(st', rs) := s_f l st (map (rd (vals s)) (s_in l)) in Some (st', prep (widths d) (s_out l) rs)
  | _, _ => None
  end.

Definition snap_upd (d : design St) (s : state St) (k : nat) : list (nat * Z) :=
  match snap d s k with Some (_, p) => p | None => [] end.

Definition snap_st (d : design St) (s : state St) (acc : list St) (k : nat) : list St :=
  match snap d s k with Some (st', _) => set_nth acc k st' | None => acc end.

(* the leaves visited at an edge: those of the drivers whose enable reads non-zero BEFORE the edge,
   in the simulator's visit order *)
Definition active (d : design St) (vs : list Z) : list nat :=
  flat_map (fun drv => if enabled vs drv then d_leaves drv else []) (drivers d).

Definition all_leaves (d : design St) : list nat := flat_map d_leaves (drivers d).

(* the reference edge for a visit list ks: all clock functions on the snapshot s, then all updates at once
   (updates still pending from before the edge are applied first, as Wire.settleAll does) *)
Definition ref_edge (d : design St) (s : state St) (ks : list nat) : state St :=
  {| vals := fold_left settle (pend s ++ flat_map (snap_upd d s) ks) (vals s);
     pend := [];
     sts := fold_left (snap_st d s) ks (sts s);
     total := total s |}.

Definition ref_cycle (d : design St) (s : state St) : state St :=
  let s2 := ref_edge d s (active d (vals s)) in
  {| vals := propagateAll d (vals s2); pend := []; sts := sts s2; total := S (total s2) |}.

Fixpoint ref_cycles (d : design St) (n : nat) (s : state St) : state St :=
  match n with O => s | S n' => ref_cycles d n' (ref_cycle d s) end.

(* Simulator.clk(n) with the reference cycle *)
Definition ref_clk (d : design St) (n : nat) (s : state St) : state St :=
  ref_cycles d n {| vals := propagateAll d (vals s); pend := pend s; sts := sts s; total := total s |}.

(* the value a wire receives from a list of prepared updates: the LAST one for that wire, if any *)
Fixpoint last_for (w : nat) (p : list (nat * Z)) : option Z :=
  match p with
  | [] => None
  | (i, v) :: p' => match last_for w p' with Some x => Some x | None => if Nat.eqb i w then Some v else None end
  end.

(* ---------------------------------------------------------------- instrumented edge (what each clock() SAW) *)

Definition seen := (nat * St * list Z)%type.      (* leaf, the own state it was given, the input values it read *)

Definition clock1_log (d : design St) (sl : state St * list seen) (k : nat) : state St * list seen :=
  let (s, log) := sl in
  match nth_error (seqs d) k, nth_error (sts s) k with
  | Some l, Some st => (clock1 d s k, log ++ [(k, st, map (rd (vals s)) (s_in l))])
  | _, _ => (clock1 d s k, log)
  end.

Definition clock_drivers_log (d : design St) (s : state St) : state St * list seen :=
  fold_left (fun sl drv => if enabled (vals (fst sl)) drv then fold_left (clock1_log d) (d_leaves drv) sl else sl)
            (drivers d) (s, []).

(* ---------------------------------------------------------------- schedules *)

(* same driver, clockables visited in another order *)
Definition drv_equiv (a b : driver) : Prop := d_enable a = d_enable b /\ Permutation (d_leaves a) (d_leaves b).

(* another order of the clockables inside each driver AND another order of the drivers *)
Definition resched (ds ds' : list driver) : Prop := exists mid, Forall2 drv_equiv ds mid /\ Permutation mid ds'.

Definition with_drivers (d : design St) (ds : list driver) : design St :=
  {| widths := widths d; combs := combs d; seqs := seqs d; drivers := ds |}.

(* ---------------------------------------------------------------- side conditions on the design *)

(* Wire.setSource: a wire is the out-port of at most one sequential leaf *)
Definition single_writer (d : design St) : Prop :=
  forall a b la lb, a <> b -> nth_error (seqs d) a = Some la -> nth_error (seqs d) b = Some lb ->
                    forall w, In w (s_out la) -> ~ In w (s_out lb).

(* topologicalSort registers every clockable leaf with exactly one driver, once *)
Definition registered_once (d : design St) : Prop := NoDup (all_leaves d).

(* a leaf prepares each of its out-ports at most once per clock() call *)
Definition outs_nodup (d : design St) : Prop := forall k l, nth_error (seqs d) k = Some l -> NoDup (s_out l).

End Spec.

(* the combinational evaluation list is in dependency order and single-driver:
   no leaf reads a wire written by itself or by a later leaf; no two leaves write the same wire *)
Fixpoint topo (cs : list cleaf) : Prop :=
  match cs with
  | [] => True
  | c :: cs' =>
      (forall w, In w (c_in c) -> ~ In w (c_out c)) /\
      (forall c', In c' cs' -> (forall w, In w (c_in c) -> ~ In w (c_out c')) /\
                               (forall w, In w (c_out c) -> ~ In w (c_out c'))) /\
      topo cs'
  end.

(* ---------------------------------------------------------------- executable checkers (used on dumped real designs) *)
Definition mem_b (x : nat) (l : list nat) : bool := existsb (Nat.eqb x) l.
Definition disj_b (a b : list nat) : bool := forallb (fun x => negb (mem_b x b)) a.

Fixpoint nodup_b (l : list nat) : bool :=
  match l with [] => true | x :: r => negb (mem_b x r) && nodup_b r end.

Fixpoint pairwise_disj_b (ls : list (list nat)) : bool :=
  match ls with [] => true | x :: r => forallb (disj_b x) r && pairwise_disj_b r end.

Fixpoint topo_b (cs : list cleaf) : bool :=
  match cs with
  | [] => true
  | c :: cs' => disj_b (c_in c) (c_out c)
                && forallb (fun c' => disj_b (c_in c) (c_out c') && disj_b (c_out c) (c_out c')) cs'
                && topo_b cs'
  end.

Definition single_writer_b {St} (d : design St) : bool := pairwise_disj_b (map s_out (seqs d)).
Definition registered_once_b {St} (d : design St) : bool := nodup_b (all_leaves d).
Definition outs_nodup_b {St} (d : design St) : bool := forallb (fun l => nodup_b (s_out l)) (seqs d).
