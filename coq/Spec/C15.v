(* C15 — what "the recorder holds exactly what the wires carried, and the WaveDrom rendering decodes back
   to it" MEANS.  Independent of Model/Waveform.v (nothing from it is imported): a reader of WaveDrom rows
   (decode), the reference watch-list normalisation (first occurrences), and the sequence of values a wire
   carries going into each clock edge of the kernel. *)
From V Require Import Base.PyInt Model.SimKernel.

(* ---------------------------------------------------------------- reading a WaveDrom row back *)
(* value of an upper-case hex digit character *)
Definition hexval (c : Z) : option Z :=
  if (48 <=? c) && (c <=? 57) then Some (c - 48)
  else if (65 <=? c) && (c <=? 70) then Some (c - 55)
  else None.

Fixpoint parse_hex_from (acc : Z) (s : list Z) : option Z :=
  match s with
  | [] => Some acc
  | c :: r => match hexval c with Some d => parse_hex_from (acc * 16 + d) r | None => None end
  end.
(* a data label: one or more upper-case hex digits *)
Definition parse_hex (s : list Z) : option Z := match s with [] => None | _ => parse_hex_from 0 s end.

Definition ocons (v : Z) (o : option (list Z)) : option (list Z) :=
  match o with Some l => Some (v :: l) | None => None end.

Definition same (last : option Z) (v : Z) : bool := match last with Some l => l =? v | None => false end.

(* the wave characters after the leading 'x', with the labels still unread; one sample per character:
   '.' repeats the previous sample; a 1-bit row carries '0'/'1'; a wider row carries '2' and consumes one
   label; a value character that merely repeats the previous sample is rejected (repeats are run-length
   encoded as dots: the rendering is canonical); the row must end with a single closing 'x' exactly when
   the labels are used up *)
Fixpoint decode_body (one_bit : bool) (last : option Z) (wave : list Z) (labels : list (list Z)) : option (list Z) :=
  match wave with
  | [] => None
  | c :: rest =>
      if c =? 120 then (match rest, labels with [], [] => Some [] | _, _ => None end)
      else if c =? 46 then
        (match last with Some v => ocons v (decode_body one_bit last rest labels) | None => None end)
      else if one_bit then
        (if c =? 48 then (if same last 0 then None else ocons 0 (decode_body one_bit (Some 0) rest labels))
         else if c =? 49 then (if same last 1 then None else ocons 1 (decode_body one_bit (Some 1) rest labels))
         else None)
      else if c =? 50 then
        (match labels with
         | lb :: ls => match parse_hex lb with
                       | Some v => if same last v then None else ocons v (decode_body one_bit (Some v) rest ls)
                       | None => None
                       end
         | [] => None
         end)
      else None
  end.

(* a row = (wave string, data labels) of a signal of width ww *)
Definition decode (ww : Z) (row : list Z * list (list Z)) : option (list Z) :=
  match fst row with
  | c :: body => if c =? 120 then decode_body (ww =? 1) None body (snd row) else None
  | [] => None
  end.

(* the clock row: 'P', one '.' per cycle, closing 'x'; returns the number of cycles *)
Fixpoint count_dots (s : list Z) : option nat :=
  match s with
  | [] => None
  | c :: r => if c =? 120 then (match r with [] => Some O | _ => None end)
              else if c =? 46 then (match count_dots r with Some n => Some (S n) | None => None end)
              else None
  end.
Definition decode_clock (s : list Z) : option nat :=
  match s with c :: r => if c =? 80 then count_dots r else None | [] => None end.

(* ---------------------------------------------------------------- watch-list normalisation *)
(* first occurrences, in order (seen: what was already met) *)
Fixpoint first_occ (seen l : list nat) : list nat :=
  match l with
  | [] => []
  | x :: r => if existsb (Nat.eqb x) seen then first_occ seen r else x :: first_occ (seen ++ [x]) r
  end.

(* ---------------------------------------------------------------- a recorder taken alone *)
(* clock() while the wires hold `vals`, or clear() *)
Inductive wop := WClock (vals : list Z) | WClear.
(* what wire w's sample list must be after a history of operations (acc: what it held before) *)
Fixpoint hist (w : nat) (acc : list Z) (ops : list wop) : list Z :=
  match ops with
  | [] => acc
  | WClock vs :: r => hist w (acc ++ [rd vs w]) r
  | WClear :: r => hist w [] r
  end.

(* ---------------------------------------------------------------- what a wire carried going into each edge *)
Section K.
Context {St : Type}.
(* value of wire w going into edge t (t = 0 is the first edge) of n consecutive cycles started in s *)
Definition pre_edge (d : design St) (s : state St) (w : nat) (t : nat) : Z := rd (vals (cycles d t s)) w.
Definition samples_of (d : design St) (s : state St) (w : nat) (n : nat) : list Z :=
  map (pre_edge d s w) (seq 0 n).
(* Simulator.clk(n) first propagates *)
Definition propagated (d : design St) (s : state St) : state St :=
  {| vals := propagateAll d (vals s); pend := pend s; sts := sts s; total := total s |}.
End K.

Definition fits (w v : Z) : Prop := 0 <= v < 2 ^ w.
