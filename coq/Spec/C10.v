(* C10 — what "a clock domain advances exactly when its enable is active" MEANS.
   A domain = one entry drv of the design's driver table (optional enable wire + its sequential leaves).
   The per-domain reference: what an edge does to the leaves and wires of drv, written as a function of drv, the
   leaf table and the PRE-edge state only (so it cannot depend on the other domains, on their enables, or on the
   order of anything).  No proofs here. *)
From V Require Import Base.PyInt Gen.WireOps Model.SimKernel Spec.C05.

Section Spec.
Context {St : Type}.

Definition leaf_outs (d : design St) (k : nat) : list nat :=
  match nth_error (seqs d) k with Some l => s_out l | None => [] end.

(* w is prepared only from domain drv: every registered leaf having w as an out-port belongs to drv *)
Definition only_from (d : design St) (drv : driver) (w : nat) : Prop :=
  forall k, In k (all_leaves d) -> In w (leaf_outs d k) -> In k (d_leaves drv).

(* the same domain with the gating removed *)
Definition ungate (drv : driver) : driver := {| d_enable := None; d_leaves := d_leaves drv |}.

(* next state of leaf k computed from the pre-edge snapshot (own state kept if the leaf does not exist) *)
Definition snap_state (d : design St) (s : state St) (k : nat) : option St :=
  match snap d s k with Some (st', _) => Some st' | None => nth_error (sts s) k end.

(* per-domain reference *)
Definition dom_state (d : design St) (s : state St) (drv : driver) (k : nat) : option St :=
  if enabled (vals s) drv then snap_state d s k else nth_error (sts s) k.

Definition dom_value (d : design St) (s : state St) (drv : driver) (w : nat) : Z :=
  if enabled (vals s) drv
  then match last_for w (flat_map (snap_upd d s) (d_leaves drv)) with Some x => x | None => rd (vals s) w end
  else rd (vals s) w.

End Spec.
