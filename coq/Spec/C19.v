(* C19 — what "generation is a pure, repeatable function of the circuit" MEANS.
   (1) the reference generator: NO cache, no generator object, no process state.  The text of a request is a
       function of the circuit, the object asked for, the flags, and the CONTENTS of the createdStructures list
       the caller passes (the only thing threaded through a request is the list of module names already emitted,
       which is what makes shared structures appear once);
   (2) canon: the comparison the property allows between two texts — declarations inside one module in any
       order, instance-unique "_<hex id>" suffixes replaced consistently.
   Short, never regenerated. *)
From Coq Require Import ZArith List Bool.
From V Require Import Model.GenState.
Import ListNotations.
Open Scope Z_scope.

(* ------------------------------------------------------------------ (1) reference generator *)
Definition ref_inline_names (pn : node) (ps : list port) : list vname :=
  map (fun p => if p_fake p then (0, p_wtok p) else lookup (names_of pn) p) ps.

Definition ref_item (pn k : node) : item :=
  if ninl k then IInline (ntname k) (ref_inline_names pn (nports k))
  else IInst (modname k false) (niname k) (map (fun p => (port_vname p, lookup (names_of pn) p)) (nports k)).

(* the module text of an object: depends on the object (and, for a primitive inlined out of scope, its parent) only *)
Definition ref_decls (n : node) : list vname :=
  map (lookup (names_of n)) (filter (fun p => negb (p_fake p)) (local_wires n)).

Definition ref_chunk (par : option node) (n : node) (sn : sname) : chunk :=
  match nkind n with
  | KInline => CInlineTop (ntname n) match par with Some pn => ref_inline_names pn (nports n) | None => [] end
  | KBody | KTrans => CModule sn (nclk n) (map port_vname (nports n)) (ref_decls n) [IOpaque (ntname n)]
  | KStruct => CModule sn (nclk n) (map port_vname (nports n)) (ref_decls n) (map (ref_item n) (nkids n))
  end.

Definition req_name (n : node) (noInst : bool) (force : option sname) : sname :=
  match force with Some f => f | None => modname n noInst end.

Definition ref_emit (par : option node) (n : node) (noInst : bool) (force : option sname) (created : list sname)
  : list sname * text :=
  let sn := req_name n noInst force in
  if existsb (eqb_sname sn) created then (created, [])
  else (match nkind n with KInline => created | _ => created ++ [sn] end, [ref_chunk par n sn]).

Fixpoint ref_hier (par : option node) (n : node) (noInst : bool) (force : option sname) (created : list sname)
  : list sname * text :=
  let '(c1, t) := ref_emit par n noInst force created in
  let '(c2, t2) :=
    (fix go (l : list node) (cr : list sname) : list sname * text :=
       match l with
       | [] => (cr, [])
       | k :: r => if ninl k then go r cr
                   else let '(ca, ta) := ref_hier (Some n) k false None cr in
                        let '(cb, tb) := go r ca in (cb, ta ++ tb)
       end) (nkids n) c1 in
  (c2, t ++ t2).

(* the answer a request deserves: env = the circuits as they are now, (ci, root) = what the generator was built
   for, pre = contents of the list passed as createdStructures ([] if none is passed) *)
Definition ref_answer (env : list node) (ci : nat) (root : oid) (r : req) (pre : list sname) : option text :=
  match nth_error env ci with
  | None => None
  | Some c =>
      match r with
      | RGetVerilog _ obj noInst force =>
          let o := match obj with Some o => o | None => root end in
          match find_node c o with
          | Some n => Some (snd (ref_emit (find_parent c o) n noInst force []))
          | None => None
          end
      | RGetHier _ obj noInstTop force _ =>
          let o := match obj with Some o => o | None => root end in
          match find_node c o with
          | Some n => Some (snd (ref_hier (find_parent c o) n noInstTop force pre))
          | None => None
          end
      | _ => None
      end
  end.

(* "the same request on a fresh generator": a new process with the same circuits, one generator for the same
   object, (for createdStructures) a new list with the given contents, then the request *)
Definition on_fresh_generator (env : list node) (ci : nat) (root : oid) (r : req) (pre : list sname) : option text :=
  let s0 := fst (step (init env) (RNewGen ci root)) in         (* generator 0, its own list is heap cell 0 *)
  let s1 := fst (step s0 (RNewList pre)) in                    (* heap cell 1 *)
  match r with
  | RGetVerilog _ obj noInst force => snd (step s1 (RGetVerilog 0 obj noInst force))
  | RGetHier _ obj noInstTop force cs =>
      snd (step s1 (RGetHier 0 obj noInstTop force match cs with Some _ => Some 1%nat | None => None end))
  | _ => None
  end.

(* what the request reads from the process besides the circuits: which generator, and the list it passes *)
Definition req_gen (r : req) : option nat :=
  match r with RGetVerilog g _ _ _ => Some g | RGetHier g _ _ _ _ => Some g | _ => None end.
Definition req_pre (s : pst) (r : req) : list sname :=
  match r with RGetHier _ _ _ _ (Some h) => nth h (p_heap s) [] | _ => [] end.
Definition req_ok (s : pst) (r : req) : bool :=
  match r with RGetHier _ _ _ _ (Some h) => (h <? length (p_heap s))%nat | _ => true end.

(* object identities are unique among the live objects (Python's id()) *)
Definition uniq_ids (U : list node) : Prop := forall a b, In a U -> In b U -> nid a = nid b -> a = b.
Definition all_nodes (env : list node) : list node := flat_map nodes env.

(* n is reached by the hierarchy walk from a (children that are inlined are not descended into) *)
Inductive walks : node -> node -> Prop :=
| walks_refl : forall n, walks n n
| walks_step : forall a k n, In k (nkids a) -> ninl k = false -> walks k n -> walks a n.

Definition chunk_name (c : chunk) : option sname :=
  match c with CModule s _ _ _ _ => Some s | CInlineTop _ _ => None end.
Definition find_module (s : sname) (t : text) : option chunk :=
  find (fun c => match chunk_name c with Some s' => eqb_sname s s' | None => false end) t.

(* the cache is coherent w.r.t. a set U of live objects: it is empty or holds what recomputation would give *)
Definition coh (U : list node) (st : gst) : Prop :=
  forall o m, g_cache st = Some (o, m) -> exists n, In n U /\ nid n = o /\ m = names_of n.
Definition par_in (U : list node) (par : option node) : Prop :=
  match par with Some pn => In pn U | None => True end.

Definition is_edit (r : req) : bool := match r with REdit _ _ => true | _ => false end.
Definition req_force (r : req) : option sname :=
  match r with RGetVerilog _ _ _ f => f | RGetHier _ _ _ f _ => f | _ => None end.

(* ------------------------------------------------------------------ (2) canon : comparison of two texts
   A text is its list of lines, a line the list of its character codes.
   (a) every identifier  <pre>_<suf>  whose part after the last '_' is six or more lowercase hex digits (how
       getVerilogModuleName prints id(obj)) is rewritten to  <pre>_<k>ID , k = rank of <suf> among such suffixes
       in order of first occurrence in the text: consistent replacement;
   (b) inside every maximal run of consecutive "wire ..." lines the lines are sorted. *)
Definition is_ident (c : Z) : bool :=
  ((48 <=? c) && (c <=? 57)) || ((65 <=? c) && (c <=? 90)) || ((97 <=? c) && (c <=? 122)) || (c =? 95).
Definition is_hex (c : Z) : bool := ((48 <=? c) && (c <=? 57)) || ((97 <=? c) && (c <=? 102)).

Definition flush (cur : list Z) : list (list Z) := match cur with [] => [] | _ => [cur] end.
(* maximal identifier runs, every other character on its own *)
Fixpoint tokens (cur : list Z) (l : list Z) : list (list Z) :=
  match l with
  | [] => flush cur
  | c :: r => if is_ident c then tokens (cur ++ [c]) r else flush cur ++ [c] :: tokens [] r
  end.

Fixpoint span (p : Z -> bool) (l : list Z) : list Z * list Z :=
  match l with
  | [] => ([], [])
  | c :: r => if p c then let '(a, b) := span p r in (c :: a, b) else ([], l)
  end.

(* Some (pre_, suf) for an instance-numbered identifier *)
Definition classify (t : list Z) : option (list Z * list Z) :=
  let '(rs, rest) := span is_hex (rev t) in
  match rest with
  | c :: _ => if (c =? 95) && (6 <=? length rs)%nat then Some (rev rest, rev rs) else None
  | [] => None
  end.

Fixpoint leqb (a b : list Z) : bool :=
  match a, b with
  | [], [] => true
  | x :: a', y :: b' => (x =? y) && leqb a' b'
  | _, _ => false
  end.
Fixpoint index (s : list Z) (tbl : list (list Z)) : nat :=
  match tbl with [] => O | x :: r => if leqb s x then O else S (index s r) end.
Fixpoint dec (fuel : nat) (n : Z) : list Z :=
  match fuel with
  | O => []
  | S f => if n <? 10 then [48 + n] else dec f (n / 10) ++ [48 + n mod 10]
  end.

Definition ren (tbl : list (list Z)) (t : list Z) : list Z :=
  match classify t with
  | Some (pre, suf) => pre ++ dec 20 (Z.of_nat (index suf tbl)) ++ [73; 68]
  | None => t
  end.
Definition sufs (t : list Z) : list (list Z) := match classify t with Some (_, suf) => [suf] | None => [] end.
Fixpoint nodupl (seen l : list (list Z)) : list (list Z) :=
  match l with
  | [] => []
  | x :: r => if existsb (leqb x) seen then nodupl seen r else x :: nodupl (x :: seen) r
  end.
Definition id_table (ls : list (list Z)) : list (list Z) :=
  nodupl [] (flat_map (fun l => flat_map sufs (tokens [] l)) ls).
Definition ren_line (tbl : list (list Z)) (l : list Z) : list Z := concat (map (ren tbl) (tokens [] l)).

Fixpoint ltb_lex (a b : list Z) : bool :=
  match a, b with
  | _, [] => false
  | [], _ :: _ => true
  | x :: a', y :: b' => if x <? y then true else if y <? x then false else ltb_lex a' b'
  end.
Fixpoint prefixb (p l : list Z) : bool :=
  match p, l with
  | [], _ => true
  | x :: p', y :: l' => (x =? y) && prefixb p' l'
  | _ :: _, [] => false
  end.
Definition is_decl (l : list Z) : bool := prefixb [119; 105; 114; 101; 32] l.      (* "wire " *)
Fixpoint ins (l : list Z) (out : list (list Z)) : list (list Z) :=
  match out with
  | [] => [l]
  | m :: r => if is_decl m && ltb_lex m l then m :: ins l r else l :: out
  end.
Definition place (l : list Z) (out : list (list Z)) : list (list Z) := if is_decl l then ins l out else l :: out.
Fixpoint sort_decls (ls : list (list Z)) : list (list Z) :=
  match ls with [] => [] | l :: r => place l (sort_decls r) end.

Definition canon (ls : list (list Z)) : list (list Z) := sort_decls (map (ren_line (id_table ls)) ls).
Definition canon_eq (a b : list (list Z)) : Prop := canon a = canon b.
(* a line that carries no instance-numbered identifier *)
Definition no_ids (l : list Z) : Prop := flat_map sufs (tokens [] l) = [].

(* ------------------------------------------------------------------ (3) the same design built again: other identities
   fo renames object identities, fw wire identities.  Names (vname) never contain an identity; module names do. *)
Definition ren_port (fw : Z -> Z) (p : port) : port :=
  {| p_name := p_name p; p_res := p_res p; p_wire := fw (p_wire p); p_wtok := p_wtok p; p_fake := p_fake p |}.
Fixpoint ren_node (fo fw : Z -> Z) (n : node) : node :=
  match n with
  | Node i a b c d e f ports kids => Node (fo i) a b c d e f (map (ren_port fw) ports) (map (ren_node fo fw) kids)
  end.
Definition ren_sname (fo : Z -> Z) (s : sname) : sname := (fst s, option_map fo (snd s)).
Definition ren_item (fo : Z -> Z) (i : item) : item :=
  match i with IInst m n cs => IInst (ren_sname fo m) n cs | _ => i end.
Definition ren_chunk (fo : Z -> Z) (c : chunk) : chunk :=
  match c with
  | CModule nm clk ps ds body => CModule (ren_sname fo nm) clk ps ds (map (ren_item fo) body)
  | CInlineTop _ _ => c
  end.
Definition injective (f : Z -> Z) : Prop := forall x y, f x = f y -> x = y.
