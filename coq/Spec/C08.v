(* C08 — what "implements its truth table exactly" MEANS for every logic / selection / comparison block.
   Mathematical reference functions over Z (wire values are naturals below 2^width), lists and bool.
   Depends on Base only; never regenerated.  `mod 2^w` is "what fits on a w-bit wire". *)
From V Require Import Base.Bits.

Definition bit (v i : Z) : Z := b2z (Z.testbit v i).
Definition fits (w v : Z) : Prop := 0 <= v < 2 ^ w.
Definition is_bit (v : Z) : Prop := v = 0 \/ v = 1.

(* ---------------------------------------------------------------- gates *)
Definition land_all (l : list Z) : Z := fold_right Z.land (-1) l.
Definition lor_all (l : list Z) : Z := fold_right Z.lor 0 l.
Definition lxor_all (l : list Z) : Z := fold_right Z.lxor 0 l.

Definition buf_spec (w a : Z) : Z := a mod 2 ^ w.
Definition not_spec (w a : Z) : Z := (2 ^ w - 1 - a) mod 2 ^ w.        (* one's complement on w bits *)
Definition and2_spec (w a b : Z) : Z := Z.land a b mod 2 ^ w.
Definition or2_spec (w a b : Z) : Z := Z.lor a b mod 2 ^ w.
Definition xor2_spec (w a b : Z) : Z := Z.lxor a b mod 2 ^ w.
Definition nand2_spec (w a b : Z) : Z := (2 ^ w - 1 - Z.land a b) mod 2 ^ w.
Definition nor2_spec (w a b : Z) : Z := (2 ^ w - 1 - Z.lor a b) mod 2 ^ w.
Definition and_spec (w : Z) (ins : list Z) : Z := land_all ins mod 2 ^ w.
Definition or_spec (w : Z) (ins : list Z) : Z := lor_all ins mod 2 ^ w.
Definition xor_spec (w : Z) (ins : list Z) : Z := lxor_all ins mod 2 ^ w.
Definition nor_spec (w : Z) (ins : list Z) : Z := (2 ^ w - 1 - lor_all ins) mod 2 ^ w.
Definition andbits_spec (wa a : Z) : Z := b2z (a =? 2 ^ wa - 1).        (* all wa bits set *)
Definition orbits_spec (a : Z) : Z := b2z (negb (a =? 0)).
Definition constant_spec (w c : Z) : Z := c mod 2 ^ w.

(* ---------------------------------------------------------------- bit manipulation *)
Definition bit_spec (a i : Z) : Z := bit a i.
Definition range_spec (hi lo a : Z) : Z := (a / 2 ^ lo) mod 2 ^ (hi - lo + 1).
Definition bits_lsbf_spec (w a : Z) : list Z := map (bit a) (seqZ 0 w).          (* element i = bit i *)
Definition bits_msbf_spec (w a : Z) : list Z := map (fun i => bit a (w - 1 - i)) (seqZ 0 w).   (* element 0 = MSB *)
Definition replicate_spec (w i : Z) : Z := if i =? 0 then 0 else 2 ^ w - 1.
Definition bufenable_spec (w a en : Z) : Z := if en =? 0 then 0 else a mod 2 ^ w.

(* concatenation of (width, value) items.  MSBF: the first item is the most significant;
   LSBF: the first item is the least significant. *)
Definition total_width (l : list (Z * Z)) : Z := fold_right (fun p acc => fst p + acc) 0 l.
Fixpoint msbf_spec (l : list (Z * Z)) : Z :=
  match l with [] => 0 | (w, v) :: t => v * 2 ^ total_width t + msbf_spec t end.
Fixpoint lsbf_spec (l : list (Z * Z)) : Z :=
  match l with [] => 0 | (w, v) :: t => v + 2 ^ w * lsbf_spec t end.

(* ---------------------------------------------------------------- selection *)
Definition mux2_spec (w sel s0 s1 : Z) : Z := (if Z.odd sel then s1 else s0) mod 2 ^ w.
Definition mux_spec (w sel : Z) (ins : list Z) : Z := nth (Z.to_nat sel) ins 0 mod 2 ^ w.
Definition decoder_spec (n a : Z) : list Z := map (fun i => b2z (a =? i)) (seqZ 0 n).
Definition demux_spec (wsel a sel : Z) : list Z := map (fun i => if sel =? i then a else 0) (seqZ 0 (2 ^ wsel)).
(* OR of the inputs whose select is asserted (no one-hot assumption) *)
Definition onehot_mux_spec (w : Z) (sels ins : list Z) : Z :=
  lor_all (map (fun p => if fst p =? 0 then 0 else snd p) (combine sels ins)) mod 2 ^ w.
Definition onehot_demux_spec (wo a : Z) (sels : list Z) : list Z :=
  map (fun s => if s =? 0 then 0 else a mod 2 ^ wo) sels.
(* the first asserted select wins, else the default *)
Fixpoint first_selected (sels ins : list Z) (d : Z) : Z :=
  match sels, ins with
  | s :: ss, x :: xs => if Z.odd s then x else first_selected ss xs d
  | _, _ => d
  end.
Definition select_default_spec (w : Z) (sels ins : list Z) (d : Z) : Z := first_selected sels ins d mod 2 ^ w.

(* priority encoder on 1-bit requests: output i is 1 iff request i is 1 and no request of higher priority is 1.
   inc_priority = true  : the HIGHEST index has the highest priority (behaviour pinned by Test_PriorityEncoder:
                          127 -> 64, and by the in-code comment; the docstring says the opposite);
   inc_priority = false : the LOWEST index has the highest priority. *)
Definition all_zero (l : list Z) : bool := forallb (Z.eqb 0) l.
Definition prio_spec (inc : bool) (a : list Z) : list Z :=
  map (fun i => b2z ((nth i a 0 =? 1) && all_zero (if inc then skipn (S i) a else firstn i a))) (seq 0 (length a)).

(* minterm over a list of 1-bit inputs: 1 iff input i equals bit i of the constant, for every i *)
Fixpoint minterm_match (i value : Z) (bits : list Z) : bool :=
  match bits with [] => true | b :: t => (b =? bit value i) && minterm_match (i + 1) value t end.
Definition minterm_spec (value : Z) (bits : list Z) : Z := b2z (minterm_match 0 value bits).
Definition sum_of_minterms_spec (wa a : Z) (ms : list Z) : Z := b2z (existsb (fun m => a =? m mod 2 ^ wa) ms).

(* ---------------------------------------------------------------- comparison *)
Definition equal_spec (a b : Z) : Z := b2z (a =? b).
Definition not_equal_spec (a b : Z) : Z := b2z (negb (a =? b)).
Definition any_equal_spec (ins : list Z) : Z :=
  b2z (existsb (fun p => negb (Nat.eqb (fst p) (snd p)) && (nth (fst p) ins 0 =? nth (snd p) ins 0))
               (list_prod (seq 0 (length ins)) (seq 0 (length ins)))).
(* (gt, eq, lt) on naturals *)
Definition cmp_spec (a b : Z) : Z * Z * Z := (b2z (b <? a), b2z (a =? b), b2z (a <? b)).
(* (gtu, eq, ltu, gt, lt): unsigned order on the naturals, signed order on the two's complement reading *)
Definition cmp_su_spec (w a b : Z) : Z * Z * Z * Z * Z :=
  (b2z (b <? a), b2z (a =? b), b2z (a <? b), b2z (sgn w b <? sgn w a), b2z (sgn w a <? sgn w b)).
Definition max2_spec (w a b : Z) : Z := Z.max a b mod 2 ^ w.
Definition min2_spec (w a b : Z) : Z := Z.min a b mod 2 ^ w.
(* the operand whose two's complement reading is the larger / smaller one (a on ties) *)
Definition smax2_spec (w wr a b : Z) : Z := (if sgn w a <? sgn w b then b else a) mod 2 ^ wr.
Definition smin2_spec (w wr a b : Z) : Z := (if sgn w b <? sgn w a then b else a) mod 2 ^ wr.
Definition swap_spec (wa wb a b swap : Z) : Z * Z :=
  if Z.odd swap then (b mod 2 ^ wa, a mod 2 ^ wb) else (a mod 2 ^ wa, b mod 2 ^ wb).
