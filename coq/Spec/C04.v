(* C04 — what "combinational settling is complete and independent of construction order" MEANS.
   Part 1: evaluation orders over the leaf-dependency graph.  Part 2: settled states of the kernel model. *)
From V Require Import Base.PyInt Model.SimKernel.
From Coq Require Import Permutation.

(* ------------------------------------------------------------------ Part 1: orders *)
Section Graph.
Local Open Scope nat_scope.
Variable succ : nat -> list nat.          (* succ x = the leaves that read a wire driven by leaf x *)

(* every dependent of a listed leaf is itself listed (what propagatables.index needs not to raise) *)
Definition closed (l : list nat) : Prop := forall x y, In x l -> In y (succ x) -> In y l.

(* every dependent of l[i] sits at a position >= i *)
Definition topo (l : list nat) : Prop :=
  forall i j x y, nth_error l i = Some x -> nth_error l j = Some y -> In y (succ x) -> i <= j.

(* ... and strictly after it: the order in which one evaluation pass settles the netlist *)
Definition strict_topo (l : list nat) : Prop :=
  forall i j x y, nth_error l i = Some x -> nth_error l j = Some y -> In y (succ x) -> i < j.

(* acyclicity witnessed by a ranking *)
Definition ranking (l : list nat) (d : nat -> nat) : Prop := forall x y, In x l -> In y (succ x) -> d x < d y.

(* y is reachable from x through at least one dependency edge *)
Inductive path : nat -> nat -> Prop :=
| path_edge x y : In y (succ x) -> path x y
| path_step x y z : In y (succ x) -> path y z -> path x z.

(* a combinational cycle through at least two distinct leaves of l *)
Definition has_cycle2 (l : list nat) : Prop := exists x y, In x l /\ x <> y /\ path x y /\ path y x.
Definition self_loop (x : nat) : Prop := In x (succ x).
End Graph.

(* ------------------------------------------------------------------ Part 2: settled states *)
Section Kernel.
Context {St : Type}.
Local Open Scope nat_scope.

(* leaf a drives a wire that leaf b reads *)
Definition feeds (a b : cleaf) : Prop := exists w, In w (c_out a) /\ In w (c_in b).

(* the evaluation list respects the dependencies strictly (no leaf reads a wire driven by itself or by a later leaf) *)
Definition ordered (cs : list cleaf) : Prop :=
  forall i j a b, nth_error cs i = Some a -> nth_error cs j = Some b -> feeds a b -> i < j.

(* Wire.setSource: every wire has at most one driver *)
Definition single_driver (cs : list cleaf) : Prop := NoDup (flat_map c_out cs).

Definition driven (cs : list cleaf) (w : nat) : Prop := In w (flat_map c_out cs).

(* a stateless block writes every out-port on every call *)
Definition definite (c : cleaf) : Prop :=
  forall ins, length (c_f c ins) = length (c_out c) /\ Forall (fun r => r <> None) (c_f c ins).

(* THE PROPERTY: re-evaluating any combinational leaf changes nothing, i.e. every driven wire holds what its
   block computes from the current values of its inputs *)
Definition settled (d : design St) (vs : list Z) : Prop :=
  forall c, In c (combs d) -> propagate1 d vs c = vs.

(* the same design with its combinational leaves in another order *)
Definition same_netlist (d1 d2 : design St) : Prop :=
  widths d1 = widths d2 /\ Permutation (combs d1) (combs d2).

(* the graph a sorter works on represents the netlist's dependencies (leaves numbered by position in cs) *)
Definition represents (cs : list cleaf) (succ : nat -> list nat) : Prop :=
  forall i j a b, nth_error cs i = Some a -> nth_error cs j = Some b -> (In j (succ i) <-> feeds a b).

(* the leaves picked in the order given by a list of positions *)
Definition reorder (cs : list cleaf) (l : list nat) : list cleaf :=
  flat_map (fun i => match nth_error cs i with Some c => [c] | None => [] end) l.

Definition with_combs (d : design St) (cs : list cleaf) : design St :=
  {| widths := widths d; combs := cs; seqs := seqs d; drivers := drivers d |}.
End Kernel.

(* executable versions used by the correspondence cases (compared inside Coq by vm_compute) *)
Fixpoint list_eqb (a b : list Z) : bool :=
  match a, b with
  | [], [] => true
  | x :: a', y :: b' => (x =? y) && list_eqb a' b'
  | _, _ => false
  end.
Definition settledb {St} (d : design St) (vs : list Z) : bool :=
  forallb (fun c => list_eqb (propagate1 d vs c) vs) (combs d).
Definition feedsb (a b : cleaf) : bool := existsb (fun w => existsb (Nat.eqb w) (c_in b)) (c_out a).
Fixpoint orderedb (cs : list cleaf) : bool :=
  match cs with
  | [] => true
  | b :: rest => negb (feedsb b b) && forallb (fun a => negb (feedsb a b)) rest && orderedb rest
  end.
