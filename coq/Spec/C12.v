(* C12 — what "bit-exact and arithmetically exact" MEANS.  Short, arithmetic only (div / mod / powers / Q):
   nothing here mentions a shift, a mask or a loop of the code. *)
From V Require Import Base.Bits.
From Coq Require Export QArith Qround.
Open Scope Z_scope.

(* ---------------------------------------------------------------- two's complement *)
(* the w-bit pattern of a signed value, and the signed reading of (the low w bits of) a pattern *)
Definition c2_encode (w v : Z) : Z := v mod 2 ^ w.
Definition c2_decode (w u : Z) : Z := sgn w (u mod 2 ^ w).
(* re-encoding the low w bits of v, read as signed, on nw bits *)
Definition sign_extend_spec (v w nw : Z) : Z := c2_encode nw (c2_decode w v).

(* ---------------------------------------------------------------- fixed point, raw encodings on w bits *)
Definition fx_add_spec (w a b : Z) : Z := (a + b) mod 2 ^ w.
Definition fx_sub_spec (w a b : Z) : Z := (a - b) mod 2 ^ w.
(* the product of the SIGNED readings, divided by 2^fw with floor (truncation of the low fraction bits), on w bits *)
Definition fx_mult_spec (w fw a b : Z) : Z := ((c2_decode w a * c2_decode w b) / 2 ^ fw) mod 2 ^ w.
Definition fx_of_int_spec (w fw v : Z) : Z := (v * 2 ^ fw) mod 2 ^ w.

(* ---------------------------------------------------------------- IEEE-754 binary interchange formats *)
(* ew exponent bits, mw trailing-significand bits; binary16 = (5,10), binary32 = (8,23), binary64 = (11,52) *)
Definition ieee_bias (ew : Z) : Z := 2 ^ (ew - 1) - 1.
Definition fld_s (ew mw v : Z) : Z := (v / 2 ^ (ew + mw)) mod 2.
Definition fld_e (ew mw v : Z) : Z := (v / 2 ^ mw) mod 2 ^ ew.
Definition fld_m (ew mw v : Z) : Z := v mod 2 ^ mw.
Definition ieee_compose (ew mw s e m : Z) : Z := (s * 2 ^ ew + e) * 2 ^ mw + m.

(* extended rationals: what a pattern denotes *)
Inductive xq : Type := XNaN | XInf (neg : bool) | XFin (q : Q).

Definition two_pow (k : Z) : Q := Qpower (2 # 1) k.
Definition sgnq (neg : bool) : Q := if neg then (-1 # 1) else (1 # 1).

(* magnitude of a finite pattern with biased exponent e and trailing significand m
   (IEEE 754-2008 section 3.4: e = 0 -> 2^(emin) * (m / 2^mw), emin = 1 - bias; otherwise 2^(e-bias) * (1 + m/2^mw)) *)
Definition ieee_mag (ew mw e m : Z) : Q :=
  if e =? 0 then inject_Z m * two_pow (1 - ieee_bias ew - mw)
  else inject_Z (2 ^ mw + m) * two_pow (e - ieee_bias ew - mw).

Definition ieee_value (ew mw v : Z) : xq :=
  let s := fld_s ew mw v in let e := fld_e ew mw v in let m := fld_m ew mw v in
  if e =? 2 ^ ew - 1 then (if m =? 0 then XInf (s =? 1) else XNaN)
  else XFin (sgnq (s =? 1) * ieee_mag ew mw e m).

(* the sign bit of a pattern (distinguishes +0 / -0, which ieee_value maps to Qeq-equal rationals) *)
Definition ieee_neg (ew mw v : Z) : bool := fld_s ew mw v =? 1.

Definition xeq (a b : xq) : Prop :=
  match a, b with
  | XNaN, XNaN => True
  | XInf s, XInf t => s = t
  | XFin p, XFin q => Qeq p q
  | _, _ => False
  end.

Definition xeqb (a b : xq) : bool :=
  match a, b with
  | XNaN, XNaN => true
  | XInf s, XInf t => Bool.eqb s t
  | XFin p, XFin q => Qeq_bool p q
  | _, _ => false
  end.

(* extended-rational arithmetic (IEEE 754 section 6.1/6.2 for the infinities; 0 * inf is NaN there) *)
Definition xadd (a b : xq) : xq :=
  match a, b with
  | XNaN, _ | _, XNaN => XNaN
  | XInf s, XInf t => if Bool.eqb s t then XInf s else XNaN
  | XInf s, XFin _ => XInf s
  | XFin _, XInf t => XInf t
  | XFin p, XFin q => XFin (p + q)
  end.
Definition xneg (a : xq) : xq :=
  match a with XNaN => XNaN | XInf s => XInf (negb s) | XFin q => XFin (- q) end.
Definition xsub (a b : xq) : xq := xadd a (xneg b).
Definition xmul_fin (a b : xq) : xq :=      (* only the finite case is claimed for mul, see docs/C12.md *)
  match a, b with XFin p, XFin q => XFin (p * q) | _, _ => XNaN end.

(* three-way comparison as the integer the code returns *)
Definition cmpZ (c : comparison) : Z := match c with Lt => -1 | Eq => 0 | Gt => 1 end.

(* the order of the extended rationals as the integer compare() returns (NaN is unordered: 0, as the code documents) *)
Definition xcmpZ (a b : xq) : Z :=
  match a, b with
  | XNaN, _ | _, XNaN => 0
  | XInf s, XInf t => if Bool.eqb s t then 0 else if s then -1 else 1
  | XInf s, XFin _ => if s then -1 else 1
  | XFin _, XInf t => if t then 1 else -1
  | XFin p, XFin q => cmpZ (Qcompare p q)
  end.

(* round half to even of a non-negative rational (Python 3 round() on an exactly known value) *)
Definition q_floor (q : Q) : Z := Qfloor q.
Definition rne (q : Q) : Z :=
  let f := Qfloor q in
  match Qcompare (q - inject_Z f) (1 # 2) with
  | Lt => f
  | Gt => f + 1
  | Eq => if Z.even f then f else f + 1
  end.
