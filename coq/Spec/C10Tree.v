(* C10 — "blocks inherit the nearest ancestor's clock driver": the specification side.  No proofs. *)
From V Require Import Base.PyInt Model.ClockTree.

(* the first driver met walking up: over the list [own field; parent's; grandparent's; ...; top's] *)
Fixpoint first_some {D} (l : list (option D)) : option D :=
  match l with [] => None | Some x :: _ => Some x | None :: r => first_some r end.

Definition nearest {D} (o : obj D) : option D := first_some (map o_drv (ancestors o)).

(* the ids (allLeaves positions) of the clockable leaves *)
Definition clockable_ids (leaves : list (nat * bool * option nat)) : list nat :=
  map (fun p => fst (fst p)) (filter (fun p => snd (fst p)) leaves).
