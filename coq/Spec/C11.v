(* Spec/C11.v -- what "ill-formed netlists are rejected" MEANS, over the attribute maps of Model/Build.v
   (the same maps are read off the real py4hw objects by py/props/c11.py, so every predicate below can be
   evaluated on a real netlist as well as on a model state).  Declarative (Prop) definitions first, then the
   executable (bool) transcriptions the correspondence check evaluates on REAL states; Proofs/C11/SpecRefl.v
   proves the transcriptions equivalent to the Prop forms. *)
From Coq Require Import ZArith List Bool Arith.
From V Require Import Model.Build.
Import ListNotations.

(* ---------------------------------------------------------------- well-formedness of a netlist under construction *)
(* a DRIVER of wire w: an out / inout port of a primitive block attached to w (what the port lists say,
   independently of the wire's `source` attribute) *)
Definition driver (s : state) (q w : nat) : Prop :=
  q < nport s /\ pwire s q = w /\ oprim s (pparent s q) = true /\ drives (pkind s q) = true.

(* an ORDINARY wire has at most one driver, and it is the registered source *)
Definition single_driver (s : state) : Prop :=
  forall w q, w < nwire s -> wbidir s w = false -> (driver s q w <-> wsource s w = Some q).

(* children tables: distinct names, and a block is the child of p under name n exactly when its own
   parent / name attributes say so (hence no two blocks share (parent, name)) *)
Definition unique_children (s : state) : Prop :=
  (forall p, p < nobj s -> NoDup (map fst (ochildren s p))) /\
  (forall p n c, p < nobj s -> In (n, c) (ochildren s p) ->
      c < nobj s /\ p < c /\ oparent s c = Some p /\ oname s c = n) /\
  (forall c p, c < nobj s -> oparent s c = Some p -> p < c /\ In (oname s c, c) (ochildren s p)).

(* wire tables: distinct names, the wire stored under a name carries that name and that parent
   (hence no wire is in two tables or under two names) *)
Definition unique_wires (s : state) : Prop :=
  (forall p, p < nobj s -> NoDup (map fst (owires s p))) /\
  (forall p n w, p < nobj s -> In (n, w) (owires s p) ->
      w < nwire s /\ wparent s w = p /\ wname s w = n).

(* the sinks of a wire are exactly the in / inout ports of primitive blocks attached to it, in creation order
   ("sinks are registered only for primitive leaves") *)
Definition reader_b (s : state) (w q : nat) : bool :=
  Nat.eqb (pwire s q) w && oprim s (pparent s q) && reads (pkind s q).
Definition sinks_exact (s : state) : Prop :=
  forall w, w < nwire s -> wsinks s w = filter (reader_b s w) (seq 0 (nport s)).
(* a BidirWire keeps ALL its drivers (in creation order) in `sources` and never gets a `source`; an ordinary wire has no `sources` *)
Definition driver_b (s : state) (w q : nat) : bool :=
  Nat.eqb (pwire s q) w && oprim s (pparent s q) && drives (pkind s q).
Definition sources_exact (s : state) : Prop :=
  forall w, w < nwire s ->
    wsources s w = (if wbidir s w then filter (driver_b s w) (seq 0 (nport s)) else []) /\
    (wbidir s w = true -> wsource s w = None).

(* every created wire is in its parent's table under its own name *)
Definition registered (s : state) (w : nat) : Prop := tget (owires s (wparent s w)) (wname s w) = Some w.
Definition all_registered (s : state) : Prop := forall w, w < nwire s -> registered s w.

(* ---------------------------------------------------------------- the conflict rule *)
Definition subject (o : op) : option nat :=
  match o with Rename w _ | Reparent w _ | ReparentAndRename w _ _ => Some w | _ => None end.
Definition subject_registered (s : state) (o : op) : Prop :=
  match subject o with Some w => registered s w | None => True end.

Definition wire_conflict (s : state) (w p' : nat) (n' : name) : option conflict :=
  match tget (owires s p') n' with
  | Some w' => if Nat.eqb w' w then None else Some (CWire p' n')
  | None => None
  end.

(* which call "would create the conflict" (second child / wire of that name, second driver) *)
Definition conflict_of (s : state) (o : op) : option conflict :=
  match o with
  | NewLogic (Some p) n _ => if tmem (ochildren s p) n then Some (CChild p n) else None
  | NewLogic None _ _ => None
  | NewWire p n _ | NewBidir p n _ => if tmem (owires s p) n then Some (CWire p n) else None
  | AddIn _ _ _ => None
  | AddOut o _ w | AddInOut o _ w => if oprim s o && negb (wbidir s w) && is_some (wsource s w) then Some (CDriver w) else None
  | Rename w n => wire_conflict s w (wparent s w) n
  | Reparent w p => wire_conflict s w p (wname s w)
  | ReparentAndRename w p n => wire_conflict s w p n
  end.

(* "the earlier driver, child or wire stays in place" between two states *)
Definition children_stay (s s' : state) : Prop :=
  forall p n c, p < nobj s -> tget (ochildren s p) n = Some c -> tget (ochildren s' p) n = Some c.
Definition drivers_stay (s s' : state) : Prop :=
  forall w q, w < nwire s -> wsource s w = Some q -> wsource s' w = Some q.
Definition wires_stay (s : state) (o : op) (s' : state) : Prop :=
  forall p n w, p < nobj s -> tget (owires s p) n = Some w -> subject o <> Some w -> tget (owires s' p) n = Some w.

(* the item a raising call names in its error: it is registered (and, the state being unchanged, stays so) *)
Definition names_existing (s : state) (c : conflict) : Prop :=
  match c with
  | CChild p n => exists ch, tget (ochildren s p) n = Some ch
  | CDriver w => exists q, wsource s w = Some q
  | CWire p n => exists w', tget (owires s p) n = Some w'
  | CKey _ _ => False          (* the KeyError of `del` cannot happen in a constructed netlist *)
  end.

(* ---------------------------------------------------------------- integrity *)
(* o' is in the hierarchy below o (through the children tables, as checkIntegrity walks it) *)
Inductive below (s : state) : nat -> nat -> Prop :=
| below_refl : forall o, below s o o
| below_step : forall o n c o', In (n, c) (ochildren s o) -> below s c o' -> below s o o'.

(* what checkIntegrity can see: wire.getSource() yields no driving port -- an ordinary wire without source, or ANY
   BidirWire (BidirWire.getSource reads `self.source`, an attribute a BidirWire never has: AttributeError) *)
Definition undriven (s : state) (q : nat) : Prop := wbidir s (pwire s q) = true \/ wsource s (pwire s q) = None.
(* what the property means by "a wire that no block drives" *)
Definition no_driver (s : state) (q : nat) : Prop :=
  if wbidir s (pwire s q) then wsources s (pwire s q) = [] else wsource s (pwire s q) = None.
Definition on_bidir (s : state) (q : nat) : Prop := wbidir s (pwire s q) = true.
(* the source port of q's wire is in none of inPorts / outPorts / inOutPorts of its own block (checkPort) *)
Definition stray_source (s : state) (q : nat) : Prop :=
  exists sp, wsource s (pwire s q) = Some sp /\
             ~ In sp (oin s (pparent s sp)) /\ ~ In sp (oout s (pparent s sp)) /\ ~ In sp (oinout s (pparent s sp)).
(* the ports checkIntegrity(h) visits: inPorts and outPorts (not inOutPorts) of every block below h *)
Definition visited (s : state) (h q : nat) : Prop :=
  exists o, below s h o /\ (In q (oin s o) \/ In q (oout s o)).

Definition tree_ok (s : state) : Prop :=
  forall p n c, p < nobj s -> In (n, c) (ochildren s p) -> p < c /\ c < nobj s.

(* ---------------------------------------------------------------- executable transcriptions (evaluated on real states) *)
Definition single_driver_b (s : state) : bool :=
  forallb (fun w => wbidir s w || list_eqb Nat.eqb (filter (driver_b s w) (seq 0 (nport s)))
                            (match wsource s w with Some q => [q] | None => [] end))
          (seq 0 (nwire s)).

Definition sources_exact_b (s : state) : bool :=
  forallb (fun w => list_eqb Nat.eqb (wsources s w) (if wbidir s w then filter (driver_b s w) (seq 0 (nport s)) else []) &&
                    (negb (wbidir s w) || negb (is_some (wsource s w))))
          (seq 0 (nwire s)).
Definition sinks_exact_b (s : state) : bool :=
  forallb (fun w => list_eqb Nat.eqb (wsinks s w) (filter (reader_b s w) (seq 0 (nport s)))) (seq 0 (nwire s)).

Fixpoint nodup_keys (t : tbl) : bool :=
  match t with [] => true | (k, _) :: r => negb (tmem r k) && nodup_keys r end.
Definition oeqb (a b : option nat) : bool :=
  match a, b with Some x, Some y => Nat.eqb x y | None, None => true | _, _ => false end.

Definition unique_children_b (s : state) : bool :=
  forallb (fun p => nodup_keys (ochildren s p) &&
                    forallb (fun '(n, c) => (c <? nobj s) && (p <? c) && oeqb (oparent s c) (Some p) && Z.eqb (oname s c) n)
                            (ochildren s p))
          (seq 0 (nobj s)) &&
  forallb (fun c => match oparent s c with
                    | Some p => (p <? c) && oeqb (tget (ochildren s p) (oname s c)) (Some c)
                    | None => true end)
          (seq 0 (nobj s)).

Definition unique_wires_b (s : state) : bool :=
  forallb (fun p => nodup_keys (owires s p) &&
                    forallb (fun '(n, w) => (w <? nwire s) && Nat.eqb (wparent s w) p && Z.eqb (wname s w) n)
                            (owires s p))
          (seq 0 (nobj s)).

Definition registered_b (s : state) (w : nat) : bool := oeqb (tget (owires s (wparent s w)) (wname s w)) (Some w).
Definition all_registered_b (s : state) : bool := forallb (registered_b s) (seq 0 (nwire s)).
Definition subject_registered_b (s : state) (o : op) : bool :=
  match subject o with Some w => registered_b s w | None => true end.

Definition children_stay_b (s s' : state) : bool :=
  forallb (fun p => forallb (fun '(n, c) => oeqb (tget (ochildren s' p) n) (Some c)) (ochildren s p)) (seq 0 (nobj s)).
Definition drivers_stay_b (s s' : state) : bool :=
  forallb (fun w => match wsource s w with Some q => oeqb (wsource s' w) (Some q) | None => true end) (seq 0 (nwire s)).
Definition wires_stay_b (s : state) (o : op) (s' : state) : bool :=
  forallb (fun p => forallb (fun '(n, w) => oeqb (subject o) (Some w) || oeqb (tget (owires s' p) n) (Some w)) (owires s p))
          (seq 0 (nobj s)).

(* parent-pointer reading of "o is below h" (independent of the children tables the real check walks) *)
Fixpoint anc_b (fuel : nat) (s : state) (h o : nat) : bool :=
  Nat.eqb o h ||
  match fuel with
  | O => false
  | S f => match oparent s o with Some p => anc_b f s h p | None => false end
  end.
(* some port in the hierarchy of h is attached to a wire that no block drives *)
Definition undriven_port_b (s : state) (h : nat) : bool :=
  existsb (fun o => anc_b (nobj s) s h o &&
                    existsb (fun q => if wbidir s (pwire s q) then match wsources s (pwire s q) with [] => true | _ => false end
                                      else negb (is_some (wsource s (pwire s q)))) (oin s o ++ oout s o))
          (seq 0 (nobj s)).

(* ---------------------------------------------------------------- side conditions used by the theorems *)
(* the call names only objects that exist (the Python caller holds references to them) *)
Definition valid_op (s : state) (o : op) : Prop :=
  match o with
  | NewLogic (Some p) _ _ => p < nobj s
  | NewLogic None _ _ => True
  | NewWire p _ _ | NewBidir p _ _ => p < nobj s
  | AddIn o _ w | AddOut o _ w | AddInOut o _ w => o < nobj s /\ w < nwire s
  | Rename w _ => w < nwire s
  | Reparent w p | ReparentAndRename w p _ => w < nwire s /\ p < nobj s
  end.
