(* C02 — what the property means, and the concrete witnesses of the known findings.
   A behavioural block b (PySyntax.pyblock: the ast of the real clock()/propagate() plus the port list and the integer
   attributes of the constructed object) and the module the transpiler emitted for it AGREE on a stimulus if the
   Verilog cycle semantics (VSem.vsim of the elaborated module) and Python's own semantics (PySem.py_sim) produce the
   same trajectory of (output ports ++ integer attributes), row by row, and the Verilog side settles.
   The stimulus must stay in the domain (PySem under the guard g_dom is defined on all of it). *)
From V Require Import Base.PyInt Model.VSyntax Model.VSem Model.PySyntax Model.PySem Model.Tv.
Local Open Scope string_scope.

Definition stimulus := list (list (string * Z) * nat).

(* names poked by a stimulus are input ports of the block *)
Definition pokes_inputs (b : pyblock) (steps : stimulus) : Prop :=
  Forall (fun st => Forall (fun p => assoc (b_ins b) (fst p) <> None) (fst st)) steps.

Definition in_domain (b : pyblock) (steps : stimulus) : Prop :=
  exists tr, py_sim g_dom b steps (map fst (b_outs b)) (map fst (b_attrs b)) = (tr, true).

(* rows after each step (row 0, before any step, is compared separately: a combinational block has already settled
   in Verilog when py4hw has not yet called propagate) *)
Definition agree_on (b : pyblock) (f : flat) (steps : stimulus) (ports attrs : list string) : Prop :=
  let '(vtr, vok) := vsim f (flat_clk f) steps (ports ++ attrs) in
  let '(ptr, pok) := py_sim g_dom b steps ports attrs in
  vok = true /\ tl vtr = tl ptr.

(* ------------------------------------------------------------------------------------------------------------
   Witnesses: source term dumped from py/props/c02_cases.py, target = parsed text the real transpiler returns at the
   pinned commit (re-produced on every run by the check, which reports them as KNOWN-FINDING). *)
Definition src_NarrowCond : pyblock :=
  {| b_kind := KClock; b_ins := [("a", 1); ("b", 1)]; b_outs := [("o", 1)]; b_attrs := [];
   b_body := (PSIf (PBin PAdd (PGet "a") (PGet "b")) (PSPrepare "o" (PConst 1)) (PSPrepare "o" (PConst 0))) |}.
Definition tgt_NarrowCond : design := [
  {| m_name := "NarrowCond"; m_params := []; m_ports := [{| p_dir := DIn; p_reg := false; p_width := 1; p_name := "clk" |}; {| p_dir := DIn; p_reg := false; p_width := 1; p_name := "a" |}; {| p_dir := DIn; p_reg := false; p_width := 1; p_name := "b" |}; {| p_dir := DOut; p_reg := true; p_width := 1; p_name := "o" |}];
     m_items := [
      IInitial SSkip;
      IAlways (EvPos "clk") (SIf (EBin BAdd (EId "a") (EId "b")) (SNba (LId "o") (ENum 1)) (SNba (LId "o") (ENum 0)))] |}].
Definition src_NarrowShift : pyblock :=
  {| b_kind := KClock; b_ins := [("a", 8); ("b", 8)]; b_outs := [("o", 8)]; b_attrs := [];
   b_body := (PSPrepare "o" (PBin PRShift (PBin PAdd (PGet "a") (PGet "b")) (PConst 1))) |}.
Definition tgt_NarrowShift : design := [
  {| m_name := "NarrowShift"; m_params := []; m_ports := [{| p_dir := DIn; p_reg := false; p_width := 1; p_name := "clk" |}; {| p_dir := DIn; p_reg := false; p_width := 8; p_name := "a" |}; {| p_dir := DIn; p_reg := false; p_width := 8; p_name := "b" |}; {| p_dir := DOut; p_reg := true; p_width := 8; p_name := "o" |}];
     m_items := [
      IInitial SSkip;
      IAlways (EvPos "clk") (SNba (LId "o") (EBin BShr (EBin BAdd (EId "a") (EId "b")) (ENum 1)))] |}].
Definition src_OrValue : pyblock :=
  {| b_kind := KClock; b_ins := [("a", 4); ("b", 4)]; b_outs := [("o", 4)]; b_attrs := [("x", 0)];
   b_body := (PSSeq (PSAttr "x" (PBool POr (PGet "a") (PGet "b"))) (PSPrepare "o" (PAttr "x"))) |}.
Definition tgt_OrValue : design := [
  {| m_name := "OrValue"; m_params := []; m_ports := [{| p_dir := DIn; p_reg := false; p_width := 1; p_name := "clk" |}; {| p_dir := DIn; p_reg := false; p_width := 4; p_name := "a" |}; {| p_dir := DIn; p_reg := false; p_width := 4; p_name := "b" |}; {| p_dir := DOut; p_reg := true; p_width := 4; p_name := "o" |}];
     m_items := [
      IInteger "x";
      IInitial (SBlk (LId "x") (ENum 0));
      IAlways (EvPos "clk") (SSeq (SBlk (LId "x") (EBin BLOr (EId "a") (EId "b"))) (SNba (LId "o") (EId "x")))] |}].
Definition src_PortName : pyblock :=
  {| b_kind := KClock; b_ins := [("a", 4); ("b", 4)]; b_outs := [("res", 5)]; b_attrs := [];
   b_body := (PSPrepare "res" (PBin PAdd (PGet "a") (PGet "b"))) |}.
Definition tgt_PortName : design := [
  {| m_name := "PortName"; m_params := []; m_ports := [{| p_dir := DIn; p_reg := false; p_width := 1; p_name := "clk" |}; {| p_dir := DIn; p_reg := false; p_width := 4; p_name := "a" |}; {| p_dir := DIn; p_reg := false; p_width := 4; p_name := "b" |}; {| p_dir := DOut; p_reg := true; p_width := 5; p_name := "res" |}];
     m_items := [
      IInitial SSkip;
      IAlways (EvPos "clk") (SNba (LId "result") (EBin BAdd (EId "a") (EId "b")))] |}].
Definition src_CmpRhs : pyblock :=
  {| b_kind := KClock; b_ins := [("a", 4); ("b", 1)]; b_outs := [("o", 1)]; b_attrs := [];
   b_body := (PSIf (PCmp PEq (PConst 5) (PBin PBitAnd (PGet "a") (PConst 7))) (PSPrepare "o" (PConst 1)) (PSPrepare "o" (PConst 0))) |}.
Definition tgt_CmpRhs : design := [
  {| m_name := "CmpRhs"; m_params := []; m_ports := [{| p_dir := DIn; p_reg := false; p_width := 1; p_name := "clk" |}; {| p_dir := DIn; p_reg := false; p_width := 4; p_name := "a" |}; {| p_dir := DIn; p_reg := false; p_width := 1; p_name := "b" |}; {| p_dir := DOut; p_reg := true; p_width := 1; p_name := "o" |}];
     m_items := [
      IInitial SSkip;
      IAlways (EvPos "clk") (SIf (EBin BAnd (EBin BEq (ENum 5) (EId "a")) (ENum 7)) (SNba (LId "o") (ENum 1)) (SNba (LId "o") (ENum 0)))] |}].

