(* C02 — what the property means, and the concrete witnesses of the known findings.
   A behavioural block b (PySyntax.pyblock: the ast of the real clock()/propagate() plus the port list and the integer
   attributes of the constructed object) and the module the transpiler emitted for it AGREE on a stimulus if the
   Verilog cycle semantics (VSem.vsim of the elaborated module) and Python's own semantics (PySem.py_sim) produce the
   same trajectory of (output ports ++ integer attributes), row by row, and the Verilog side settles.
   The stimulus must stay in the domain (PySem under the guard g_dom is defined on all of it). *)
From V Require Import Base.PyInt Model.VSyntax Model.VSem Model.PySyntax Model.PySem Model.Tv.
Local Open Scope string_scope.

Definition stimulus := list (list (string * Z) * nat).

(* names poked by a stimulus are input ports of the block *)
Definition pokes_inputs (b : pyblock) (steps : stimulus) : Prop :=
  Forall (fun st => Forall (fun p => assoc (b_ins b) (fst p) <> None) (fst st)) steps.

Definition in_domain (b : pyblock) (steps : stimulus) : Prop :=
  exists tr, py_sim g_dom b steps (map fst (b_outs b)) (map fst (b_attrs b)) = (tr, true).

Definition agree_on (b : pyblock) (f : flat) (steps : stimulus) (ports attrs : list string) : Prop :=
  let '(vtr, vok) := vsim f (flat_clk f) steps (ports ++ attrs) in
  let '(ptr, pok) := py_sim g_dom b steps ports attrs in
  vok = true /\ vtr = ptr.

(* ------------------------------------------------------------------------------------------------------------
   Witnesses: source term dumped from py/props/c02_cases.py, target = parsed text the real transpiler returns at the
   pinned commit (re-produced on every run by the check, which reports them as KNOWN-FINDING). *)
Definition src_NarrowCond : pyblock :=
  {| b_kind := KClock; b_ins := [("a", 1); ("b", 1)]; b_outs := [("o", 1)]; b_attrs := [];
   b_body := (PSIf (PBin PAdd (PGet "a") (PGet "b")) (PSPrepare "o" (PConst 1)) (PSPrepare "o" (PConst 0))) |}.
Definition tgt_NarrowCond : design := [
  {| m_name := "NarrowCond"; m_params := []; m_ports := [{| p_dir := DIn; p_reg := false; p_width := 1; p_name := "clk" |}; {| p_dir := DIn; p_reg := false; p_width := 1; p_name := "a" |}; {| p_dir := DIn; p_reg := false; p_width := 1; p_name := "b" |}; {| p_dir := DOut; p_reg := true; p_width := 1; p_name := "o" |}];
     m_items := [
      IInitial SSkip;
      IAlways (EvPos "clk") (SIf (EBin BAdd (EId "a") (EId "b")) (SNba (LId "o") (ENum 1)) (SNba (LId "o") (ENum 0)))] |}].
Definition src_NarrowShift : pyblock :=
  {| b_kind := KClock; b_ins := [("a", 8); ("b", 8)]; b_outs := [("o", 8)]; b_attrs := [];
   b_body := (PSPrepare "o" (PBin PRShift (PBin PAdd (PGet "a") (PGet "b")) (PConst 1))) |}.
Definition tgt_NarrowShift : design := [
  {| m_name := "NarrowShift"; m_params := []; m_ports := [{| p_dir := DIn; p_reg := false; p_width := 1; p_name := "clk" |}; {| p_dir := DIn; p_reg := false; p_width := 8; p_name := "a" |}; {| p_dir := DIn; p_reg := false; p_width := 8; p_name := "b" |}; {| p_dir := DOut; p_reg := true; p_width := 8; p_name := "o" |}];
     m_items := [
      IInitial SSkip;
      IAlways (EvPos "clk") (SNba (LId "o") (EBin BShr (EBin BAdd (EId "a") (EId "b")) (ENum 1)))] |}].
(* C02-boolop-value: repaired in /repo, switched by fixes/C02_switch.py *)
(* `x = a or b` as a value is refused by the transpiler now (TranspilationException): there is no target term any more *)
(* C02-portname: repaired in /repo, switched by fixes/C02_switch.py *)
Definition src_PortName : pyblock :=
  {| b_kind := KClock; b_ins := [("a", 4); ("b", 4)]; b_outs := [("res", 5)]; b_attrs := [];
   b_body := (PSPrepare "res" (PBin PAdd (PGet "a") (PGet "b"))) |}.
Definition tgt_PortName : design := [
  {| m_name := "PortName"; m_params := []; m_ports := [{| p_dir := DIn; p_reg := false; p_width := 1; p_name := "clk" |}; {| p_dir := DIn; p_reg := false; p_width := 4; p_name := "a" |}; {| p_dir := DIn; p_reg := false; p_width := 4; p_name := "b" |}; {| p_dir := DOut; p_reg := true; p_width := 5; p_name := "res" |}];
     m_items := [
      IInitial SSkip;
      IAlways (EvPos "clk") (SNba (LId "res") (EBin BAdd (EId "a") (EId "b")))] |}].
(* C02-cmp-rhs: repaired in /repo, switched by fixes/C02_switch.py *)
Definition src_CmpRhs : pyblock :=
  {| b_kind := KClock; b_ins := [("a", 4); ("b", 1)]; b_outs := [("o", 1)]; b_attrs := [];
   b_body := (PSIf (PCmp PEq (PConst 5) (PBin PBitAnd (PGet "a") (PConst 7))) (PSPrepare "o" (PConst 1)) (PSPrepare "o" (PConst 0))) |}.
Definition tgt_CmpRhs : design := [
  {| m_name := "CmpRhs"; m_params := []; m_ports := [{| p_dir := DIn; p_reg := false; p_width := 1; p_name := "clk" |}; {| p_dir := DIn; p_reg := false; p_width := 4; p_name := "a" |}; {| p_dir := DIn; p_reg := false; p_width := 1; p_name := "b" |}; {| p_dir := DOut; p_reg := true; p_width := 1; p_name := "o" |}];
     m_items := [
      IInitial SSkip;
      IAlways (EvPos "clk") (SIf (EBin BEq (ENum 5) (EBin BAnd (EId "a") (ENum 7))) (SNba (LId "o") (ENum 1)) (SNba (LId "o") (ENum 0)))] |}].


(* in-subset blocks of py/props/c02_cases.py (validated: used as non-vacuity examples of the soundness theorems) *)
Definition src_LastWriteWins : pyblock :=
  {| b_kind := KClock; b_ins := [("a", 6); ("b", 1)]; b_outs := [("o", 7)]; b_attrs := [("s", 0)];
   b_body := (PSSeq (PSPrepare "o" (PGet "a")) (PSSeq (PSAttr "s" (PBin PBitXor (PAttr "s") (PConst 1))) (PSIf (PBool PAnd (PCmp PEq (PAttr "s") (PConst 1)) (PUn PNot (PGet "b"))) (PSPrepare "o" (PBin PAdd (PGet "a") (PConst 1))) PSPass))) |}.
Definition tgt_LastWriteWins : design := [
  {| m_name := "LastWriteWins"; m_params := []; m_ports := [{| p_dir := DIn; p_reg := false; p_width := 1; p_name := "clk" |}; {| p_dir := DIn; p_reg := false; p_width := 6; p_name := "a" |}; {| p_dir := DIn; p_reg := false; p_width := 1; p_name := "b" |}; {| p_dir := DOut; p_reg := true; p_width := 7; p_name := "o" |}];
     m_items := [
      IInteger "s";
      IInitial (SBlk (LId "s") (ENum 0));
      IAlways (EvPos "clk") (SSeq (SNba (LId "o") (EId "a")) (SSeq (SBlk (LId "s") (EBin BXor (EId "s") (ENum 1))) (SIf (EBin BLAnd (EBin BEq (EId "s") (ENum 1)) (EUn ULNot (EId "b"))) (SNba (LId "o") (EBin BAdd (EId "a") (ENum 1))) SSkip)))] |}].
Definition src_MatchFsm : pyblock :=
  {| b_kind := KClock; b_ins := [("a", 8); ("b", 1)]; b_outs := [("o", 16)]; b_attrs := [("s", 0); ("acc", 0)];
   b_body := (PSCase (PAttr "s") 0 (PSIf (PGet "b") (PSSeq (PSAttr "s" (PConst 1)) (PSAttr "acc" (PGet "a"))) PSPass) (PSCase (PAttr "s") 1 (PSSeq (PSAttr "acc" (PBin PBitAnd (PBin PAdd (PBin PMul (PAttr "acc") (PConst 3)) (PGet "a")) (PConst 65535))) (PSSeq (PSPrepare "o" (PBin PRShift (PAttr "acc") (PConst 2))) (PSAttr "s" (PConst 2)))) (PSCase (PAttr "s") 2 (PSSeq (PSPrepare "o" (PBin PMod (PAttr "acc") (PConst 7))) (PSAttr "s" (PConst 0))) (PSAttr "s" (PConst 0))))) |}.
Definition tgt_MatchFsm : design := [
  {| m_name := "MatchFsm"; m_params := []; m_ports := [{| p_dir := DIn; p_reg := false; p_width := 1; p_name := "clk" |}; {| p_dir := DIn; p_reg := false; p_width := 8; p_name := "a" |}; {| p_dir := DIn; p_reg := false; p_width := 1; p_name := "b" |}; {| p_dir := DOut; p_reg := true; p_width := 16; p_name := "o" |}];
     m_items := [
      IInteger "s";
      IInteger "acc";
      IInitial (SSeq (SBlk (LId "s") (ENum 0)) (SBlk (LId "acc") (ENum 0)));
      IAlways (EvPos "clk") (SIf (EBin BEq (EId "s") (ENum 0)) (SIf (EId "b") (SSeq (SBlk (LId "s") (ENum 1)) (SBlk (LId "acc") (EId "a"))) SSkip) (SIf (EBin BEq (EId "s") (ENum 1)) (SSeq (SBlk (LId "acc") (EBin BAnd (EBin BAdd (EBin BMul (EId "acc") (ENum 3)) (EId "a")) (ENum 65535))) (SSeq (SNba (LId "o") (EBin BShr (EId "acc") (ENum 2))) (SBlk (LId "s") (ENum 2)))) (SIf (EBin BEq (EId "s") (ENum 2)) (SSeq (SNba (LId "o") (EBin BMod (EId "acc") (ENum 7))) (SBlk (LId "s") (ENum 0))) (SBlk (LId "s") (ENum 0)))))] |}].
Definition src_CombMux : pyblock :=
  {| b_kind := KPropagate; b_ins := [("a", 5); ("b", 2)]; b_outs := [("o", 8)]; b_attrs := [];
   b_body := (PSSeq (PSLocal "t" (PBin PBitAnd (PBin PRShift (PGet "a") (PConst 1)) (PConst 3))) (PSIf (PBool POr (PCmp PEq (PGet "b") (PConst 1)) (PCmp PEq (PLocal "t") (PConst 2))) (PSPut "o" (PBin PAdd (PLocal "t") (PConst 5))) (PSPut "o" (PBin PBitXor (PGet "a") (PConst 9))))) |}.
Definition tgt_CombMux : design := [
  {| m_name := "CombMux"; m_params := []; m_ports := [{| p_dir := DIn; p_reg := false; p_width := 5; p_name := "a" |}; {| p_dir := DIn; p_reg := false; p_width := 2; p_name := "b" |}; {| p_dir := DOut; p_reg := true; p_width := 8; p_name := "o" |}];
     m_items := [
      IInteger "t";
      IInitial SSkip;
      IAlways EvStar (SSeq (SBlk (LId "t") (EBin BAnd (EBin BShr (EId "a") (ENum 1)) (ENum 3))) (SIf (EBin BLOr (EBin BEq (EId "b") (ENum 1)) (EBin BEq (EId "t") (ENum 2))) (SNba (LId "o") (EBin BAdd (EId "t") (ENum 5))) (SNba (LId "o") (EBin BXor (EId "a") (ENum 9)))))] |}].
