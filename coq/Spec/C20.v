(* C20 — what "the HIL UART command codec decodes and encodes exactly" MEANS.
   Characters are ASCII codes (Z).  Nothing here refers to the implementation. *)
From V Require Import Base.Bits.

(* ------------------------------------------------------------------ hexadecimal numbers *)
Definition is_dec (c : Z) : bool := (c >=? 48) && (c <=? 57).        (* '0'..'9' *)
Definition is_hexu (c : Z) : bool := (c >=? 65) && (c <=? 70).       (* 'A'..'F' (upper case only) *)
Definition hexdigit (c : Z) : bool := is_dec c || is_hexu c.
Definition digit_val (c : Z) : Z := if is_dec c then c - 48 else c - 55.

(* value of a digit string, most significant digit first, continuing from accumulator a *)
Definition hexval_from (a : Z) (ds : list Z) : Z := fold_left (fun a c => 16 * a + digit_val c) ds a.
Definition hexval (ds : list Z) : Z := hexval_from 0 ds.

(* ------------------------------------------------------------------ decoder: observations and events *)
(* the nine output wires of the decoder sampled after a clock edge *)
Record rq_obs := { q_ready : Z; q_index_in : Z; q_v_in : Z; q_index_out : Z; q_set_index_in : Z; q_set_v_in : Z;
                   q_set_index_out : Z; q_clk_pulse : Z; q_start_resp : Z }.

Inductive ev :=
  | EvI (n : Z)      (* set_index_in is high, index_in = n *)
  | EvV (v : Z)      (* set_v_in is high, v_in = v *)
  | EvO (n : Z)      (* set_index_out is high, index_out = n *)
  | EvK              (* clk_pulse is high *)
  | EvS.             (* start_resp is high *)

Definition on (x : Z) : bool := negb (x =? 0).

(* what the downstream logic sees in ONE cycle: an enable that is high, with the data wire of that cycle *)
Definition ev_of (o : rq_obs) : list ev :=
  (if on (q_set_index_in o) then [EvI (q_index_in o)] else []) ++
  (if on (q_set_v_in o) then [EvV (q_v_in o)] else []) ++
  (if on (q_set_index_out o) then [EvO (q_index_out o)] else []) ++
  (if on (q_clk_pulse o) then [EvK] else []) ++
  (if on (q_start_resp o) then [EvS] else []).

(* one entry per cycle in which an enable is high: a 2-cycle pulse would show up as two events *)
Definition events (tr : list rq_obs) : list ev := flat_map ev_of tr.

Definition strobes (o : rq_obs) : list Z :=
  [q_set_index_in o; q_set_v_in o; q_set_index_out o; q_clk_pulse o; q_start_resp o].

(* no enable is high in two consecutive cycles (prev = the cycle before the trace): together with `events`
   this says that every event is a separate 1-cycle pulse *)
Fixpoint pulse1 (prev : rq_obs) (tr : list rq_obs) : Prop :=
  match tr with
  | [] => True
  | o :: t => Forall2 (fun a b => a = 0 \/ b = 0) (strobes prev) (strobes o) /\ pulse1 o t
  end.

(* ------------------------------------------------------------------ decoder: commands and their meaning *)
Inductive cmd :=
  | CmdI (ds : list Z)      (* 'I' <hex digits> '='   select input  *)
  | CmdV (ds : list Z)      (*     <hex digits> '!'   store value   *)
  | CmdO (ds : list Z)      (* 'O' <hex digits> '?'   select output, start the response *)
  | CmdK (ds : list Z)      (* 'K' <hex digits> ';'   that many clock pulses *)
  | CmdX (c : Z).           (* a separator character that is no command character and no digit, e.g. '\n' *)

Definition special (c : Z) : bool :=
  (c =? 73) || (c =? 61) || (c =? 79) || (c =? 75) || (c =? 33) || (c =? 63) || (c =? 59).

Definition encode (c : cmd) : list Z :=
  match c with
  | CmdI ds => 73 :: ds ++ [61]
  | CmdV ds => ds ++ [33]
  | CmdO ds => 79 :: ds ++ [63]
  | CmdK ds => 75 :: ds ++ [59]
  | CmdX x => [x]
  end.

Definition wf_cmd (c : cmd) : Prop :=
  match c with
  | CmdI ds | CmdV ds | CmdO ds | CmdK ds => Forall (fun d => hexdigit d = true) ds
  | CmdX x => special x = false /\ hexdigit x = false
  end.

(* wi / wv / wo: widths of the index_in / v_in / index_out wires *)
Definition expected (wi wv wo : Z) (c : cmd) : list ev :=
  match c with
  | CmdI ds => [EvI (hexval ds mod 2 ^ wi)]
  | CmdV ds => [EvV (hexval ds mod 2 ^ wv)]
  | CmdO ds => [EvO (hexval ds mod 2 ^ wo); EvS]
  | CmdK ds => repeat EvK (Z.to_nat (hexval ds))
  | CmdX _ => []
  end.

(* reference machine for ARBITRARY character streams (also malformed ones): accumulator -> accumulator, events *)
Definition parse_char (wi wv wo a c : Z) : Z * list ev :=
  if c =? 73 then (0, [])
  else if c =? 61 then (0, [EvI (a mod 2 ^ wi)])
  else if c =? 79 then (0, [])
  else if c =? 75 then (0, [])
  else if c =? 33 then (0, [EvV (a mod 2 ^ wv)])
  else if c =? 63 then (0, [EvO (a mod 2 ^ wo); EvS])
  else if c =? 59 then (0, repeat EvK (Z.to_nat a))
  else if hexdigit c then (16 * a + digit_val c, [])
  else (0, []).

Fixpoint parse_full (wi wv wo a : Z) (cs : list Z) : Z * list ev :=
  match cs with
  | [] => (a, [])
  | c :: r => let '(a1, e1) := parse_char wi wv wo a c in
              let '(a2, e2) := parse_full wi wv wo a1 r in (a2, e1 ++ e2)
  end.
Definition parse (wi wv wo a : Z) (cs : list Z) : list ev := snd (parse_full wi wv wo a cs).

(* ------------------------------------------------------------------ encoder *)
Record rs_obs := { r_valid : Z; r_v : Z }.

(* a character is transferred at a clock edge iff valid and ready are both high in the cycle before it *)
Definition xfer (o : rs_obs) (ready : Z) : list Z := if on (r_valid o) && on ready then [r_v o] else [].

Definition hexchar (d : Z) : Z := if d <=? 9 then 48 + d else 55 + d.      (* 0..15 -> '0'..'9','A'..'F' *)
Definition nibble (v i : Z) : Z := (v / 16 ^ i) mod 16.
(* the k low nibbles of v, most significant first *)
Fixpoint hexdigits (v : Z) (k : nat) : list Z :=
  match k with O => [] | S k' => hexchar (nibble v (Z.of_nat k')) :: hexdigits v k' end.
Definition response (v : Z) (k : nat) : list Z := 61 :: hexdigits v k ++ [33].     (* '=' digits '!' *)
