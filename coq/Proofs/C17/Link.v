(* C17: the universal end-to-end composition.  A ghost position g (where on the line the link is) indexes an invariant of the whole link
   state; one step of link_step preserves it for every n >= 2, every producer behaviour and every consumer that keeps up. *)
From V Require Import Base.Bits Gen.WireOps Gen.Prims Gen.Seq Model.Uart Spec.C17 Proofs.C17.Ser Proofs.C17.Des Proofs.C17.Cgr.

(* decide every integer comparison in the goal that lia can decide *)
Ltac zdec1 :=
  match goal with
  | |- context [?a =? ?b] =>
      first [ replace (a =? b) with true by (symmetry; apply Z.eqb_eq; lia)
            | replace (a =? b) with false by (symmetry; apply Z.eqb_neq; lia) ]
  | |- context [?a <? ?b] =>
      first [ replace (a <? b) with true by (symmetry; apply Z.ltb_lt; lia)
            | replace (a <? b) with false by (symmetry; apply Z.ltb_ge; lia) ]
  | |- context [?a <=? ?b] =>
      first [ replace (a <=? b) with true by (symmetry; apply Z.leb_le; lia)
            | replace (a <=? b) with false by (symmetry; apply Z.leb_gt; lia) ]
  end.
Ltac zdec := repeat (zdec1; cbv iota; cbn [andb orb negb]).

(* ------------------------------------------------------------------ ghost position *)
Inductive ghost :=
| GL (b k r : Z)        (* the line shows level k of byte b (0 = start bit, k = 1..8 data bit k-1) for the r-th clock, 0 <= r < 2n *)
| GT (b u r sp t : Z).  (* the line is high (stop bit, then idle) for the u-th clock; r = position in the bit period;
                           sp = serializer state (5, 0, 1, 2, 3), t = its txv (the accepted byte when sp = 2, 3); b = the last byte *)

Definition lvl (b k : Z) : Z := if k =? 0 then 0 else bit b (k - 1).
Definition stS (k : Z) : Z := if k =? 0 then 3 else if k <=? 8 then 4 else 5.
Definition stC (k : Z) : Z := if k =? 0 then 7 else if k <=? 8 then 8 - k else 0.
Definition stT (b k : Z) : Z := if k =? 0 then b else Z.shiftr b (k - 1).

(* phase of the free-running divider as a function of the position in the bit period (the line changes level at phase n + 2) *)
Definition ptf (n r : Z) : Z := if r <? n - 2 then n + 2 + r else r + 2 - n.
Definition rnext (n r : Z) : Z := if r =? 2 * n - 1 then 0 else r + 1.

Definition gnext_r (n : Z) (g : ghost) : Z := match g with GL _ _ r => rnext n r | GT _ _ r _ _ => rnext n r end.
Definition g_r (g : ghost) : Z := match g with GL _ _ r => r | GT _ _ r _ _ => r end.

(* ---- transmit side: serializer + free-running divider *)
Definition gser (n : Z) (g : ghost) (s : ser) : Prop :=
  match g with
  | GL b k r =>
      0 <= b < 256 /\ 0 <= k <= 8 /\ 0 <= r < 2 * n /\
      let kk := if r <=? 2 * n - 2 then k else k + 1 in
      s = mkser (stS kk) (stC kk) (stT b kk) (lvl b k) 0
  | GT b u r sp t =>
      0 <= b < 256 /\ 0 <= u /\ 0 <= r < 2 * n /\ (u < 2 * n -> r = u) /\
      s = mkser sp 0 t 1 (if sp =? 1 then 1 else 0) /\
      ((sp = 5 /\ u <= 2 * n - 2) \/ (sp = 0 /\ u = 2 * n - 1) \/ (sp = 1 /\ 2 * n <= u) \/
       (sp = 2 /\ 2 * n + 1 <= u /\ 0 <= t < 256) \/ (sp = 3 /\ 2 * n + 1 <= u /\ r = 2 * n - 1 /\ 0 <= t < 256))
  end.
Definition TInv (n : Z) (g : ghost) (s : ser) (c : cgr) : Prop :=
  div_phase n (ptf n (g_r g)) (g_tx c) (g_zpos c) /\ gser n g s.

(* the ghost position after one clock, given what the producer does *)
Definition gstep (n : Z) (g : ghost) (valid v : Z) : ghost :=
  match g with
  | GL b k r => if r =? 2 * n - 1 then (if k =? 8 then GT b 0 0 5 (Z.shiftr b 8) else GL b (k + 1) 0) else GL b k (r + 1)
  | GT b u r sp t =>
      let r' := rnext n r in
      if sp =? 5 then (if r =? 2 * n - 2 then GT b (u + 1) r' 0 t else GT b (u + 1) r' 5 t)
      else if sp =? 0 then GT b (u + 1) r' 1 t
      else if sp =? 1 then (if valid =? 0 then GT b (u + 1) r' 1 t else GT b (u + 1) r' 2 v)
      else if sp =? 2 then (if r =? 2 * n - 2 then GT b (u + 1) r' 3 t else GT b (u + 1) r' 2 t)
      else GL t 0 0
  end.

Lemma ptf_range n r : 2 <= n -> 0 <= r < 2 * n -> 0 <= ptf n r < 2 * n.
Proof. intros; unfold ptf; destruct (Z.ltb_spec r (n - 2)); lia. Qed.

Lemma adv_ptf n r : 2 <= n -> 0 <= r < 2 * n -> adv n (ptf n r) = ptf n (rnext n r).
Proof. intros Hn Hr. unfold adv, ptf, rnext. zbool; lia. Qed.

Lemma ptf_pulse n r : 2 <= n -> 0 <= r < 2 * n -> (ptf n r =? n) = (r =? 2 * n - 2).
Proof. intros Hn Hr. unfold ptf. zbool; lia. Qed.

Lemma g_r_gstep n g valid v : 0 <= g_r g < 2 * n ->
  (match g with GT _ _ r sp _ => (sp = 3 -> r = 2 * n - 1) /\ (sp = 5 \/ sp = 0 \/ sp = 1 \/ sp = 2 \/ sp = 3) | _ => True end) ->
  g_r (gstep n g valid v) = rnext n (g_r g).
Proof.
  destruct g as [b k r | b u r sp t]; cbn [g_r gstep]; intros Hr H; unfold rnext.
  - destruct (Z.eqb_spec r (2 * n - 1)); [destruct (k =? 8)|]; reflexivity.
  - destruct H as [H3 H]. destruct H as [-> | [-> | [-> | [-> | ->]]]]; cbn [Z.eqb Pos.eqb].
    + destruct (r =? 2 * n - 2); reflexivity.
    + reflexivity.
    + destruct (valid =? 0); reflexivity.
    + destruct (r =? 2 * n - 2); reflexivity.
    + cbn [g_r]. rewrite (H3 eq_refl). now rewrite Z.eqb_refl.
Qed.

(* ---- one clock of the transmit side *)
Definition gline (g : ghost) : Z := match g with GL b k _ => lvl b k | GT _ _ _ _ _ => 1 end.
Definition gready (g : ghost) : Z := match g with GT _ _ _ sp _ => if sp =? 1 then 1 else 0 | _ => 0 end.

Lemma tinv_div n g s c rx d : 2 <= n -> TInv n g s c ->
  cgr_pulse c = (if g_r g =? 2 * n - 2 then 1 else 0) /\
  div_phase n (ptf n (rnext n (g_r g))) (g_tx (cgr_step n c rx d)) (g_zpos (cgr_step n c rx d)).
Proof.
  intros Hn [Hd Hg].
  assert (Hr : 0 <= g_r g < 2 * n) by (destruct g; cbn [g_r gser] in *; tauto).
  destruct (div_phase_step n _ _ _ ltac:(lia) Hd) as [Hs Hp].
  destruct (cgr_step_tx n c rx d) as [E1 E2]. rewrite E1, E2, <- adv_ptf by lia. split; [|exact Hs].
  unfold cgr_pulse. rewrite Hp. now rewrite ptf_pulse by lia.
Qed.

Lemma shiftr_step b k : 1 <= k -> Z.shiftr (Z.shiftr b (k - 1)) 1 = Z.shiftr b (k + 1 - 1).
Proof. intros. rewrite Z.shiftr_shiftr by lia. f_equal. lia. Qed.

Lemma tinv_ser n g s c valid v :
  2 <= n -> TInv n g s c -> 0 <= v < 256 ->
  let s' := ser_step s {| si_valid := valid; si_v := v; si_pulse := (if g_r g =? 2 * n - 2 then 1 else 0) |} in
  s_tx s = gline g /\ s_ready s = gready g /\ gser n (gstep n g valid v) s'.
Proof.
  intros Hn [_ Hg] Hv s'. subst s'. unfold gser in *.
  destruct g as [b k r | b u r sp t]; cbn [g_r gline gready gstep].
  - destruct Hg as (Hb & Hk & Hr & ->). cbv zeta. cbn [s_tx s_ready mkser]. split; [reflexivity|]. split; [reflexivity|].
    rewrite ser_step_ref. cbn [si_valid si_v si_pulse].
    destruct (Z.eqb_spec r (2 * n - 1)) as [E1|E1].
    + (* the serializer has already moved on; the line changes level now *)
      subst r. destruct (Z.eqb_spec k 8) as [E8|E8].
      * subst k. repeat split; try lia. 
        unfold ser_ref, stS, stC, stT, lvl. zdec. reflexivity.
      * repeat split; try lia. cbv zeta.
        unfold ser_ref, stS, stC, stT, lvl. zdec. unfold bit. replace (k + 1 - 1) with k by lia. reflexivity.
    + repeat split; try lia. cbv zeta.
      destruct (Z.eqb_spec r (2 * n - 2)) as [E2|E2].
      * subst r. unfold ser_ref, stS, stC, stT, lvl. 
        destruct (Z.eqb_spec k 0) as [E0|E0]; [subst k; zdec; reflexivity|].
        destruct (Z.eqb_spec k 8) as [E8|E8]; [subst k; zdec; unfold bit; reflexivity|].
        zdec. unfold bit. rewrite shiftr_step by lia. f_equal; lia.
      * unfold ser_ref, stS, stC, stT, lvl.
        destruct (Z.eqb_spec k 0) as [E0|E0]; [subst k; zdec; reflexivity|].
        zdec. unfold bit. reflexivity.
  - destruct Hg as (Hb & Hu & Hr & Hur & -> & Hsp). cbn [s_tx s_ready mkser]. split; [reflexivity|]. split; [reflexivity|].
    rewrite ser_step_ref. cbn [si_valid si_v si_pulse]. unfold rnext.
    destruct Hsp as [[-> H]|[[-> H]|[[-> H]|[[-> H]|[-> H]]]]]; cbn [Z.eqb Pos.eqb].
    + destruct (Z.eqb_spec r (2 * n - 2)); repeat split; try lia; unfold ser_ref; zdec; try reflexivity; zbool; lia.
    + repeat split; try lia; unfold ser_ref; zdec; try reflexivity; zbool; lia.
    + destruct (Z.eqb_spec valid 0); repeat split; try lia; unfold ser_ref; zdec; try reflexivity; zbool; lia.
    + destruct (Z.eqb_spec r (2 * n - 2)); repeat split; try lia; unfold ser_ref; zdec; try reflexivity; zbool; lia.
    + repeat split; try lia. cbv zeta. unfold ser_ref, stS, stC, stT, lvl. zdec. reflexivity.
Qed.

(* ------------------------------------------------------------------ receive side *)
(* the deserializer step, split into the receive FSM (state, count, temp, desync) and the hand-over FSM (state_v, valid, v) *)
Definition rxK (k c rx sample : Z) : Z :=
  if k =? 0 then (if negb (sample =? 0) && (rx =? 0) then 2 else 0)
  else if k =? 2 then (if sample =? 0 then 2 else if c =? 8 then 0 else 2) else k.
Definition rxC (k c sample : Z) : Z :=
  if k =? 0 then 0 else if k =? 2 then (if sample =? 0 then c else if c =? 8 then c else c + 1) else c.
Definition rxT (k c tmp rx sample : Z) : Z :=
  if k =? 0 then 0 else if k =? 2 then (if sample =? 0 then tmp else if c =? 8 then tmp else Z.lor tmp (Z.shiftl rx c)) else tmp.
Definition rxD (k c ds sample : Z) : Z :=
  if k =? 0 then 0 else if k =? 2 then (if sample =? 0 then ds else if c =? 8 then 1 else ds) else ds.
Definition completes (k c sample : Z) : bool := (k =? 2) && negb (sample =? 0) && (c =? 8).

Lemma des_step_split k c sv tmp va v ds i :
  des_step (mkdes k c sv tmp va v ds) i =
  let rx := di_rx i in let sample := di_sample i in
  let comp := completes k c sample in
  mkdes (rxK k c rx sample) (rxC k c sample) (fst (vfsm (if comp then 1 else sv) va (di_ready i))) (rxT k c tmp rx sample)
        (snd (vfsm (if comp then 1 else sv) va (di_ready i))) (if comp then Wire_prepare 8 tmp else v) (rxD k c ds sample).
Proof.
  rewrite des_step_ref. unfold des_ref, rxK, rxC, rxT, rxD, completes. cbv zeta.
  destruct (k =? 0) eqn:E0; [apply Z.eqb_eq in E0; subst k; cbn [Z.eqb andb]; destruct (vfsm sv va (di_ready i)); reflexivity|].
  destruct (k =? 2) eqn:E2; cbn [andb]; [|destruct (vfsm sv va (di_ready i)); reflexivity].
  destruct (di_sample i =? 0); cbn [negb andb]; [destruct (vfsm sv va (di_ready i)); reflexivity|].
  destruct (c =? 8); [destruct (vfsm 1 va (di_ready i))|destruct (vfsm sv va (di_ready i))]; reflexivity.
Qed.

(* the low m bits of the byte (what temp holds after m data samples) *)
Definition lowbits (b m : Z) : Z := Z.land b (Z.ones m).

Lemma lowbits_facts b : 0 <= b < 256 ->
  lowbits b 0 = 0 /\ lowbits b 8 = b /\
  forall c, 0 <= c <= 7 -> Z.lor (lowbits b c) (Z.shiftl (bit b c) c) = lowbits b (c + 1).
Proof.
  intros Hb.
  assert (H : forallb (fun k => let b := Z.of_nat k in (lowbits b 0 =? 0) && (lowbits b 8 =? b) &&
                 forallb (fun j => let c := Z.of_nat j in Z.lor (lowbits b c) (Z.shiftl (bit b c) c) =? lowbits b (c + 1)) (seq 0 8)) (seq 0 256) = true)
    by (vm_compute; reflexivity).
  rewrite forallb_forall in H. specialize (H (Z.to_nat b) ltac:(apply in_seq; lia)). cbv zeta in H.
  rewrite Z2Nat.id in H by lia. apply andb_prop in H as [H H3]. apply andb_prop in H as [H1 H2].
  apply Z.eqb_eq in H1, H2. repeat split; auto. intros c Hc.
  rewrite forallb_forall in H3. specialize (H3 (Z.to_nat c) ltac:(apply in_seq; lia)). cbv zeta in H3.
  rewrite Z2Nat.id in H3 by lia. now apply Z.eqb_eq.
Qed.

Definition des_rx (d : des) : Z * Z * Z * Z :=
  (UARTDeserializer_s_state (d_fsm d), UARTDeserializer_s_count (d_fsm d), UARTDeserializer_s_temp (d_fsm d), d_desync d).

(* receive FSM after m sample instants of the frame of byte b *)
Definition desrx (d : des) (m b : Z) : Prop :=
  let '(k, c, tmp, ds) := des_rx d in
  ds = 0 /\ (if m =? 0 then k = 0 else (k = 2 /\ c = m - 1 /\ tmp = lowbits b (m - 1))).

Definition ridle (n : Z) (c : cgr) (d : des) : Prop :=
  g_fsm c = mkfsm 0 /\ g_active c = 0 /\ cgr_bits n c /\ UARTDeserializer_s_state (d_fsm d) = 0 /\ d_desync d = 0.

Definition RInv (n : Z) (g : ghost) (c : cgr) (d : des) : Prop :=
  match g with
  | GL b k r =>
      if (k =? 0) && (r =? 0) then ridle n c d /\ g_zrx c = 1
      else synced n (if r =? 0 then 2 * n - 1 else r - 1) c /\ desrx d (k + (if n + 2 <=? r then 1 else 0)) b
  | GT b u r sp t =>
      if u <=? n + 1 then synced n (if u =? 0 then 2 * n - 1 else u - 1) c /\ desrx d 9 b
      else if u =? n + 2 then synced n (n + 1) c /\ UARTDeserializer_s_state (d_fsm d) = 0 /\ d_desync d = 1
      else ridle n c d
  end.

(* ---- the receive half of ClockGenerationAndRecovery, one clock *)
Lemma cdiv_step_bits n q r : 1 <= n -> 0 <= cd_q q < n -> isbit (cd_clk q) -> isbit r ->
  0 <= cd_q (cdiv_step n q r) < n /\ isbit (cd_clk (cdiv_step n q r)).
Proof.
  intros Hn Hq Hc Hr. unfold cdiv_step, mc_carry. cbn [cd_q cd_clk].
  assert (Bcar : isbit (if cd_q q =? n - 1 then 1 else 0)) by (destruct (cd_q q =? n - 1); auto).
  rewrite mc_step_ref, treg_step_bits by auto. split.
  - destruct ((r =? 1) || (cd_q q =? n - 1)) eqn:E; [lia|]. apply orb_false_elim in E as [_ E]. apply Z.eqb_neq in E. lia.
  - destruct (r =? 1); auto. destruct (_ =? 1); auto. destruct Hc as [-> | ->]; auto.
Qed.

Lemma cgr_sample_idle n c : cgr_bits n c -> g_active c = 0 -> cgr_sample c = 0.
Proof.
  intros (Bq & Bc & Bs & Bz & Ba) Ha. unfold cgr_sample. rewrite Ha, edge_pos_bits by auto.
  rewrite and1_bits; auto; [lia|]. destruct Bc as [-> | ->]; destruct Bs as [-> | ->]; cbn; auto.
Qed.

(* idle and no falling edge seen: stays idle *)
Lemma cgr_idle_step n c rx d0 : 1 <= n -> cgr_bits n c -> g_fsm c = mkfsm 0 -> g_active c = 0 -> isbit rx ->
  (rx = 1 \/ g_zrx c = 0) ->
  let c' := cgr_step n c rx d0 in
  g_fsm c' = mkfsm 0 /\ g_active c' = 0 /\ cgr_bits n c' /\ g_zrx c' = rx.
Proof.
  intros Hn (Bq & Bc & Bs & Bz & Ba) Hf Ha Brx Hno c'. subst c'.
  assert (Hstart : cgr_start c rx = 0).
  { unfold cgr_start. rewrite Ha, edge_neg_bits by auto. change (not1 0) with 1.
    rewrite and1_bits; auto.
    - destruct Hno as [-> | ->]; lia.
    - destruct Brx as [-> | ->]; destruct Bz as [-> | ->]; cbn; auto. }
  unfold cgr_step. rewrite Hstart, Hf, fsm_ref. cbn [Z.eqb].
  cbn [g_fsm g_active g_zrx g_rx g_zsamp upd ClockSyncFSM_o_active].
  destruct (cdiv_step_bits n (g_rx c) 0 Hn Bq Bc isbit0) as [Q C].
  unfold cgr_bits. cbn [g_rx g_zsamp g_zrx g_active]. rewrite !edge_step_bits by auto. repeat split; auto; lia.
Qed.

(* idle and a falling edge: resynchronised at phase 0 *)
Lemma cgr_start_step n c d0 : 1 <= n -> cgr_bits n c -> g_fsm c = mkfsm 0 -> g_active c = 0 -> g_zrx c = 1 ->
  synced n 0 (cgr_step n c 0 d0).
Proof.
  intros Hn (Bq & Bc & Bs & Bz & Ba) Hf Ha Hz.
  assert (Hstart : cgr_start c 0 = 1) by (unfold cgr_start; rewrite Ha, Hz; reflexivity).
  unfold cgr_step, synced. rewrite Hstart, Hf, fsm_ref. cbn [Z.eqb Pos.eqb].
  cbn [g_fsm g_active g_zrx g_rx g_zsamp upd ClockSyncFSM_o_active].
  refine (conj eq_refl (conj eq_refl (conj _ _))).
  - rewrite edge_step_bits; auto.
  - apply div_phase_reset; auto.
Qed.

(* synchronised and desync high: back to idle *)
Lemma cgr_stop_step n p c rx : 1 <= n -> synced n p c -> isbit rx ->
  let c' := cgr_step n c rx 1 in
  g_fsm c' = mkfsm 0 /\ g_active c' = 0 /\ cgr_bits n c' /\ g_zrx c' = rx.
Proof.
  intros Hn (Hf & Ha & Bz & Hd) Brx c'. subst c'.
  destruct (div_phase_bits n p _ _ Hn Hd) as (Bq & Bc & Bs).
  assert (Hstart : cgr_start c rx = 0).
  { unfold cgr_start. rewrite Ha, edge_neg_bits by auto. change (not1 1) with 0.
    rewrite and1_bits; auto; [lia|]. destruct Brx as [-> | ->]; destruct Bz as [-> | ->]; cbn; auto. }
  unfold cgr_step. rewrite Hstart, Hf, fsm_ref. cbn [Z.eqb Pos.eqb].
  cbn [g_fsm g_active g_zrx g_rx g_zsamp upd ClockSyncFSM_o_active].
  destruct (cdiv_step_bits n (g_rx c) 0 Hn Bq Bc isbit0) as [Q C].
  unfold cgr_bits. cbn [g_rx g_zsamp g_zrx g_active]. rewrite !edge_step_bits by auto. repeat split; auto; lia.
Qed.

Lemma synced_sample n p c : 1 <= n -> synced n p c -> cgr_sample c = (if p =? n then 1 else 0).
Proof. intros Hn H. exact (proj2 (synced_step n p c 0 Hn H isbit0)). Qed.

Lemma isbit_lvl b k : isbit (lvl b k).
Proof.
  unfold lvl, bit. destruct (k =? 0); auto. pose proof (land1_range (Z.shiftr b (k - 1))). unfold isbit. lia.
Qed.
Lemma isbit_gline g : isbit (gline g).
Proof. destruct g; cbn [gline]; auto using isbit_lvl. Qed.

Definition gcompletes (n : Z) (g : ghost) : bool := match g with GT _ u _ _ _ => u =? n + 1 | _ => false end.
Definition gbyte (g : ghost) : Z := match g with GL b _ _ => b | GT b _ _ _ _ => b end.

Lemma des_mk (d : des) : d = mkdes (UARTDeserializer_s_state (d_fsm d)) (UARTDeserializer_s_count (d_fsm d)) (UARTDeserializer_s_state_v (d_fsm d))
                                  (UARTDeserializer_s_temp (d_fsm d)) (d_valid d) (d_v d) (d_desync d).
Proof. destruct d as [[? ? ? ?] ? ? ?]. reflexivity. Qed.

Lemma rinv_step n g s cg d valid v ready :
  2 <= n -> gser n g s -> RInv n g cg d ->
  let i := {| di_rx := gline g; di_ready := ready; di_sample := cgr_sample cg |} in
  RInv n (gstep n g valid v) (cgr_step n cg (gline g) (d_desync d)) (des_step d i)
  /\ completes (UARTDeserializer_s_state (d_fsm d)) (UARTDeserializer_s_count (d_fsm d)) (cgr_sample cg) = gcompletes n g
  /\ (gcompletes n g = true -> UARTDeserializer_s_temp (d_fsm d) = gbyte g).
Proof.
  intros Hn Hg HR i. subst i. rewrite (des_mk d) at 2. rewrite des_step_split. cbv zeta. cbn [di_rx di_ready di_sample].
  set (k := UARTDeserializer_s_state (d_fsm d)) in *. set (c := UARTDeserializer_s_count (d_fsm d)) in *.
  set (tmp := UARTDeserializer_s_temp (d_fsm d)) in *. set (ds := d_desync d) in *.
  assert (Hn1 : 1 <= n) by lia.
  destruct g as [b kk r | b u r sp t]; cbn [gser RInv gline gstep gcompletes gbyte] in *.
  - (* a frame level is on the line *)
    destruct Hg as (Hb & Hk & Hr & _). destruct (lowbits_facts b Hb) as (L0 & L8 & Lstep).
    destruct ((kk =? 0) && (r =? 0)) eqn:E00.
    + (* the falling edge is seen at this clock *)
      apply andb_prop in E00 as [Ek Er]. apply Z.eqb_eq in Ek, Er. subst kk r.
      destruct HR as ((Hf & Ha & Hbits & Hdk & Hds) & Hz).
      change (lvl b 0) with 0. replace (0 =? 2 * n - 1) with false by (symmetry; apply Z.eqb_neq; lia).
      cbn [RInv]. change ((0 =? 0) && (0 + 1 =? 0)) with false. cbv iota.
      change (0 + 1 =? 0) with false. cbv iota. replace (0 + 1 - 1) with 0 by lia.
      rewrite (cgr_sample_idle n cg Hbits Ha).
      fold k in Hdk. fold ds in Hds. rewrite Hdk. unfold completes. cbn [Z.eqb andb]. split; [|split; [reflexivity|discriminate]].
      split; [apply cgr_start_step; auto|].
      unfold desrx, des_rx, rxK, rxC, rxT, rxD. cbn. zdec. auto.
    + (* synchronised *)
      destruct HR as (Hs & Hd). unfold desrx, des_rx in Hd. fold k c tmp ds in Hd. destruct Hd as (Hds & Hd).
      rewrite Hds. destruct (synced_step n _ cg (lvl b kk) Hn1 Hs (isbit_lvl b kk)) as [Hs' Hsm]. rewrite Hsm.
      assert (Hcomp : completes k c (if (if r =? 0 then 2 * n - 1 else r - 1) =? n then 1 else 0) = false).
      { unfold completes. destruct (Z.eqb_spec (kk + (if n + 2 <=? r then 1 else 0)) 0) as [E|E].
        - rewrite Hd. reflexivity.
        - destruct Hd as (-> & -> & _). destruct (Z.eqb_spec (if r =? 0 then 2 * n - 1 else r - 1) n) as [Es|Es]; cbn [Z.eqb Pos.eqb negb andb]; [|reflexivity].
          apply Z.eqb_neq. destruct (Z.eqb_spec r 0); destruct (Z.leb_spec (n + 2) r); lia. }
      rewrite Hcomp. split; [|split; [reflexivity|discriminate]].
      assert (Hadv : adv n (if r =? 0 then 2 * n - 1 else r - 1) = r) by (unfold adv; zbool; lia).
      rewrite Hadv in Hs'.
      assert (Hdes : forall m', m' = kk + (if n + 2 <=? r + 1 then 1 else 0) ->
                desrx (mkdes (rxK k c (lvl b kk) (if (if r =? 0 then 2 * n - 1 else r - 1) =? n then 1 else 0))
                             (rxC k c (if (if r =? 0 then 2 * n - 1 else r - 1) =? n then 1 else 0))
                             (fst (vfsm (UARTDeserializer_s_state_v (d_fsm d)) (d_valid d) ready))
                             (rxT k c tmp (lvl b kk) (if (if r =? 0 then 2 * n - 1 else r - 1) =? n then 1 else 0))
                             (snd (vfsm (UARTDeserializer_s_state_v (d_fsm d)) (d_valid d) ready)) (d_v d)
                             (rxD k c 0 (if (if r =? 0 then 2 * n - 1 else r - 1) =? n then 1 else 0))) m' b).
      { intros m' ->. unfold desrx, des_rx. cbn [d_fsm d_desync mkdes UARTDeserializer_s_state UARTDeserializer_s_count UARTDeserializer_s_temp].
        destruct (Z.eqb_spec (if r =? 0 then 2 * n - 1 else r - 1) n) as [Es|Es].
        - (* a sample instant: r = n + 1 *)
          assert (r = n + 1) by (destruct (Z.eqb_spec r 0); lia). subst r.
          replace (n + 2 <=? n + 1) with false in * by (symmetry; apply Z.leb_gt; lia).
          replace (n + 2 <=? n + 1 + 1) with true by (symmetry; apply Z.leb_le; lia).
          rewrite Z.add_0_r in *. destruct (Z.eqb_spec kk 0) as [E0|E0].
          + subst kk. rewrite Hd. unfold rxK, rxC, rxT, rxD, lvl. cbn. rewrite L0. auto.
          + destruct Hd as (Ek & Ec & Et). unfold rxK, rxC, rxT, rxD. rewrite Ek, Ec, Et. cbn [Z.eqb Pos.eqb].
            replace (kk - 1 =? 8) with false by (symmetry; apply Z.eqb_neq; lia).
            replace (kk + 1 =? 0) with false by (symmetry; apply Z.eqb_neq; lia).
            replace (kk + 1 - 1) with (kk - 1 + 1) by lia. unfold lvl. replace (kk =? 0) with false by (symmetry; apply Z.eqb_neq; lia).
            rewrite Lstep by lia. auto.
        - (* no sample instant *)
          assert (r <> n + 1) by (destruct (Z.eqb_spec r 0); lia).
          replace (n + 2 <=? r + 1) with (n + 2 <=? r) by (destruct (Z.leb_spec (n + 2) r); destruct (Z.leb_spec (n + 2) (r + 1)); lia).
          destruct (Z.eqb_spec (kk + (if n + 2 <=? r then 1 else 0)) 0) as [E|E].
          + rewrite Hd. unfold rxK, rxD. cbn. auto.
          + destruct Hd as (Ek & Ec & Et). unfold rxK, rxC, rxT, rxD. rewrite Ek. cbn. auto. }
      destruct (Z.eqb_spec r (2 * n - 1)) as [Er|Er].
      * subst r. destruct (Z.eqb_spec kk 8) as [E8|E8].
        -- subst kk. cbn [RInv]. replace (0 <=? n + 1) with true by (symmetry; apply Z.leb_le; lia). cbn [Z.eqb].
           split; [exact Hs'|]. apply Hdes. replace (n + 2 <=? 2 * n - 1 + 1) with true by (symmetry; apply Z.leb_le; lia). lia.
        -- cbn [RInv]. replace ((kk + 1 =? 0) && (0 =? 0)) with false by (symmetry; apply andb_false_iff; left; apply Z.eqb_neq; lia).
           cbn [Z.eqb]. split; [exact Hs'|]. apply Hdes.
           replace (n + 2 <=? 2 * n - 1 + 1) with true by (symmetry; apply Z.leb_le; lia).
           replace (n + 2 <=? 0) with false by (symmetry; apply Z.leb_gt; lia). lia.
      * cbn [RInv]. replace ((kk =? 0) && (r + 1 =? 0)) with false by (symmetry; apply andb_false_iff; right; apply Z.eqb_neq; lia).
        replace (r + 1 =? 0) with false by (symmetry; apply Z.eqb_neq; lia). replace (r + 1 - 1) with r by lia.
        split; [exact Hs'|]. apply Hdes. reflexivity.
  - (* the line is high: stop bit, then idle *)
    destruct Hg as (Hb & Hu & Hr & Hur & _ & Hsp). destruct (lowbits_facts b Hb) as (L0 & L8 & Lstep).
    assert (Hnext : (sp = 3 /\ 2 * n + 1 <= u /\ gstep n (GT b u r sp t) valid v = GL t 0 0) \/
                    (exists r' sp' t', gstep n (GT b u r sp t) valid v = GT b (u + 1) r' sp' t')).
    { cbn [gstep]. destruct Hsp as [[-> H]|[[-> H]|[[-> H]|[[-> H]|[-> H]]]]]; cbn [Z.eqb Pos.eqb].
      - right. destruct (r =? 2 * n - 2); eauto.
      - right. eauto.
      - right. destruct (valid =? 0); eauto.
      - right. destruct (r =? 2 * n - 2); eauto.
      - left. repeat split; auto; lia. }
    cbn [gstep] in Hnext.
    destruct (Z.leb_spec u (n + 1)) as [Hu1|Hu1].
    + (* waiting for the stop sample / taking it *)
      destruct HR as (Hs & Hd). unfold desrx, des_rx in Hd. fold k c tmp ds in Hd. change (9 =? 0) with false in Hd. cbv iota in Hd.
      destruct Hd as (Hds & Hdk & Hdc & Hdt). replace (9 - 1) with 8 in * by lia. rewrite L8 in Hdt.
      destruct Hnext as [(-> & H3 & _) | (r' & sp' & t' & ->)]; [lia|].
      rewrite Hds, Hdk, Hdc, Hdt.
      destruct (synced_step n _ cg 1 Hn1 Hs isbit1) as [Hs' Hsm]. rewrite Hsm.
      assert (Hadv : adv n (if u =? 0 then 2 * n - 1 else u - 1) = u) by (unfold adv; zbool; lia).
      rewrite Hadv in Hs'. cbn [RInv].
      destruct (Z.eqb_spec u (n + 1)) as [E|E].
      * subst u. replace (n + 1 =? 0) with false by (symmetry; apply Z.eqb_neq; lia). replace (n + 1 - 1) with n by lia.
        rewrite Z.eqb_refl. unfold completes. cbn [Z.eqb Pos.eqb negb andb]. split; [|split; [reflexivity|reflexivity]].
        replace (n + 1 + 1 <=? n + 1) with false by (symmetry; apply Z.leb_gt; lia).
        replace (n + 1 + 1 =? n + 2) with true by (symmetry; apply Z.eqb_eq; lia).
        split; [exact Hs'|]. cbn. auto.
      * replace ((if u =? 0 then 2 * n - 1 else u - 1) =? n) with false by (symmetry; apply Z.eqb_neq; destruct (Z.eqb_spec u 0); lia).
        unfold completes. cbn [Z.eqb Pos.eqb negb andb]. split; [|split; [reflexivity|discriminate]].
        replace (u + 1 <=? n + 1) with true by (symmetry; apply Z.leb_le; lia).
        replace (u + 1 =? 0) with false by (symmetry; apply Z.eqb_neq; lia). replace (u + 1 - 1) with u by lia.
        split; [exact Hs'|]. unfold desrx, des_rx. cbn. rewrite L8. auto.
    + replace (u <=? n + 1) with false in HR by (symmetry; apply Z.leb_gt; lia).
      replace (u =? n + 1) with false by (symmetry; apply Z.eqb_neq; lia).
      destruct (Z.eqb_spec u (n + 2)) as [E|E].
      * (* the desync pulse: back to idle *)
        subst u. destruct HR as (Hs & Hdk & Hds). fold k in Hdk. fold ds in Hds.
        destruct Hnext as [(-> & H3 & _) | (r' & sp' & t' & ->)]; [lia|].
        rewrite Hds, Hdk. rewrite (synced_sample n _ cg Hn1 Hs).
        replace (n + 1 =? n) with false by (symmetry; apply Z.eqb_neq; lia).
        unfold completes. cbn [Z.eqb andb]. split; [|split; [reflexivity|discriminate]].
        cbn [RInv]. replace (n + 2 + 1 <=? n + 1) with false by (symmetry; apply Z.leb_gt; lia).
        replace (n + 2 + 1 =? n + 2) with false by (symmetry; apply Z.eqb_neq; lia).
        destruct (cgr_stop_step n _ cg 1 Hn1 Hs isbit1) as (F & A & B & _).
        unfold ridle. cbn. exact (conj F (conj A (conj B (conj eq_refl eq_refl)))).
      * (* idle *)
        destruct HR as (Hf & Ha & Hbits & Hdk & Hds). fold k in Hdk. fold ds in Hds. rewrite Hds, Hdk.
        rewrite (cgr_sample_idle n cg Hbits Ha). unfold completes. cbn [Z.eqb andb]. split; [|split; [reflexivity|discriminate]].
        destruct (cgr_idle_step n cg 1 0 Hn1 Hbits Hf Ha isbit1 (or_introl eq_refl)) as (F & A & B & Z1).
        destruct Hnext as [(-> & H3 & ->) | (r' & sp' & t' & ->)]; cbn [RInv].
        -- change ((0 =? 0) && (0 =? 0)) with true. cbv iota. unfold ridle. cbn.
           exact (conj (conj F (conj A (conj B (conj eq_refl eq_refl)))) Z1).
        -- replace (u + 1 <=? n + 1) with false by (symmetry; apply Z.leb_gt; lia).
           replace (u + 1 =? n + 2) with false by (symmetry; apply Z.eqb_neq; lia).
           unfold ridle. cbn. exact (conj F (conj A (conj B (conj eq_refl eq_refl)))).
Qed.

(* ------------------------------------------------------------------ hand-over FSM and the byte bookkeeping *)
Definition HInv (hc pb : Z) (d : des) : Prop :=
  let sv := UARTDeserializer_s_state_v (d_fsm d) in
  (hc = 2 /\ sv = 0 /\ d_valid d = 0) \/ (hc = 0 /\ sv = 1 /\ d_valid d = 0 /\ d_v d = pb) \/ (hc = 1 /\ sv = 2 /\ d_valid d = 1 /\ d_v d = pb).
Definition hpend (hc pb : Z) : list Z := if hc <? 2 then [pb] else [].

Lemma hinv_step hc pb sv va v (comp : bool) b ready :
  HInv hc pb (mkdes 0 0 sv 0 va v 0) ->
  (comp = true -> hc = 2 \/ (hc = 1 /\ ready <> 0)) ->
  let sv' := fst (vfsm (if comp then 1 else sv) va ready) in
  let va' := snd (vfsm (if comp then 1 else sv) va ready) in
  let v' := if comp then b else v in
  let hc' := hnext hc comp ready in
  let pb' := if comp then b else pb in
  let dl := if py_truth va && py_truth ready then [v] else [] in
  forall k c tmp ds, HInv hc' pb' (mkdes k c sv' tmp va' v' ds)
  /\ hpend hc pb ++ (if comp then [b] else []) = dl ++ hpend hc' pb'.
Proof.
  unfold HInv, hpend, hnext, vfsm, py_truth. cbn [d_fsm d_valid d_v mkdes UARTDeserializer_s_state_v].
  intros H Hl. cbv zeta. intros k c tmp ds.
  destruct comp.
  - destruct (Hl eq_refl) as [-> | [-> Hr]].
    + destruct H as [(_ & -> & ->) | [(? & _) | (? & _)]]; try lia. cbn [Z.eqb Pos.eqb Z.ltb Z.compare Pos.compare Pos.compare_cont negb andb app].
      destruct (ready =? 0); cbn [fst snd Z.add Z.min Z.compare Pos.compare Pos.compare_cont Z.ltb Pos.add app]; split; auto; tauto.
    + destruct H as [(? & _) | [(? & _) | (_ & -> & -> & ->)]]; try lia.
      apply Z.eqb_neq in Hr. rewrite Hr. cbn. split; auto. tauto.
  - destruct H as [(-> & -> & ->) | [(-> & -> & -> & ->) | (-> & -> & -> & ->)]]; cbn [Z.eqb Pos.eqb negb andb];
      destruct (ready =? 0); cbn; split; auto; tauto.
Qed.

(* bytes accepted by the serializer and not yet completed by the deserializer *)
Definition ginflight (n : Z) (g : ghost) : list Z :=
  match g with
  | GL b _ _ => [b]
  | GT b u _ sp t => (if u <=? n + 1 then [b] else []) ++ (if (sp =? 2) || (sp =? 3) then [t] else [])
  end.

Lemma inflight_step n g s valid v : 2 <= n -> gser n g s ->
  ginflight n g ++ (if py_truth (gready g) && py_truth valid then [v] else [])
  = (if gcompletes n g then [gbyte g] else []) ++ ginflight n (gstep n g valid v).
Proof.
  intros Hn Hg. destruct g as [b k r | b u r sp t]; cbn [gser ginflight gready gcompletes gbyte gstep] in *.
  - change (py_truth 0) with false. cbn [andb app]. rewrite ?app_nil_r.
    destruct (r =? 2 * n - 1); [destruct (k =? 8)|]; cbn [ginflight]; try reflexivity.
    replace (0 <=? n + 1) with true by (symmetry; apply Z.leb_le; lia). reflexivity.
  - destruct Hg as (Hb & Hu & Hr & Hur & _ & Hsp). unfold py_truth.
    destruct Hsp as [[-> H]|[[-> H]|[[-> H]|[[-> H]|[-> H]]]]]; cbn [Z.eqb Pos.eqb negb andb orb app].
    + rewrite ?app_nil_r. destruct (Z.eqb_spec u (n + 1)).
      * subst u. replace (n + 1 <=? n + 1) with true by (symmetry; apply Z.leb_le; lia).
        destruct (r =? 2 * n - 2); cbn [ginflight Z.eqb Pos.eqb orb]; replace (n + 1 + 1 <=? n + 1) with false by (symmetry; apply Z.leb_gt; lia); reflexivity.
      * destruct (r =? 2 * n - 2); cbn [ginflight Z.eqb Pos.eqb orb app]; rewrite ?app_nil_r;
          destruct (Z.leb_spec u (n + 1)); destruct (Z.leb_spec (u + 1) (n + 1)); try reflexivity; lia.
    + rewrite ?app_nil_r. cbn [ginflight Z.eqb Pos.eqb orb app]. rewrite ?app_nil_r.
      destruct (Z.eqb_spec u (n + 1)); destruct (Z.leb_spec u (n + 1)); destruct (Z.leb_spec (u + 1) (n + 1)); try reflexivity; lia.
    + replace (u =? n + 1) with false by (symmetry; apply Z.eqb_neq; lia).
      replace (u <=? n + 1) with false by (symmetry; apply Z.leb_gt; lia).
      destruct (valid =? 0); cbn [negb ginflight Z.eqb Pos.eqb orb app];
        replace (u + 1 <=? n + 1) with false by (symmetry; apply Z.leb_gt; lia); reflexivity.
    + replace (u =? n + 1) with false by (symmetry; apply Z.eqb_neq; lia).
      replace (u <=? n + 1) with false by (symmetry; apply Z.leb_gt; lia).
      destruct (r =? 2 * n - 2); cbn [negb ginflight Z.eqb Pos.eqb orb app];
        replace (u + 1 <=? n + 1) with false by (symmetry; apply Z.leb_gt; lia); reflexivity.
    + replace (u =? n + 1) with false by (symmetry; apply Z.eqb_neq; lia).
      replace (u <=? n + 1) with false by (symmetry; apply Z.leb_gt; lia). reflexivity.
Qed.

Lemma rinv_ds n g c d : RInv n g c d ->
  d_desync d = match g with GT _ u _ _ _ => if u =? n + 2 then 1 else 0 | _ => 0 end.
Proof.
  destruct g as [b k r | b u r sp t]; cbn [RInv]; intros H.
  - destruct ((k =? 0) && (r =? 0)).
    + destruct H as ((_ & _ & _ & _ & H) & _). exact H.
    + destruct H as (_ & H). unfold desrx, des_rx in H. tauto.
  - destruct (Z.leb_spec u (n + 1)).
    + destruct H as (_ & H). unfold desrx, des_rx in H. replace (u =? n + 2) with false by (symmetry; apply Z.eqb_neq; lia). tauto.
    + destruct (u =? n + 2); [tauto|]. destruct H as (_ & _ & _ & _ & H). exact H.
Qed.

Lemma gstep_completes n g s valid v : 2 <= n -> gser n g s ->
  match gstep n g valid v with GT _ u _ _ _ => u =? n + 2 | _ => false end = gcompletes n g.
Proof.
  intros Hn Hg. destruct g as [b k r | b u r sp t]; cbn [gser gstep gcompletes] in *.
  - destruct (r =? 2 * n - 1); [destruct (k =? 8)|]; try reflexivity. apply Z.eqb_neq; lia.
  - destruct Hg as (Hb & Hu & Hr & Hur & _ & Hsp).
    assert (E : (u + 1 =? n + 2) = (u =? n + 1)) by (destruct (Z.eqb_spec (u + 1) (n + 2)); destruct (Z.eqb_spec u (n + 1)); lia).
    destruct Hsp as [[-> H]|[[-> H]|[[-> H]|[[-> H]|[-> H]]]]]; cbn [Z.eqb Pos.eqb].
    + destruct (r =? 2 * n - 2); exact E.
    + exact E.
    + destruct (valid =? 0); exact E.
    + destruct (r =? 2 * n - 2); exact E.
    + symmetry; apply Z.eqb_neq; lia.
Qed.

(* ------------------------------------------------------------------ the invariant of the whole link and its step *)
Definition LInv (n : Z) (g : ghost) (hc pb : Z) (L : link) : Prop :=
  TInv n g (l_ser L) (l_cgr L) /\ RInv n g (l_cgr L) (l_des L) /\ HInv hc pb (l_des L).

Lemma linv_step n g hc pb L i :
  2 <= n -> 0 <= li_v i < 256 -> LInv n g hc pb L ->
  let comp := gcompletes n g in
  (comp = true -> hc = 2 \/ (hc = 1 /\ li_ready i <> 0)) ->
  let hc' := hnext hc comp (li_ready i) in
  let pb' := if comp then gbyte g else pb in
  LInv n (gstep n g (li_valid i) (li_v i)) hc' pb' (link_step n L i)
  /\ link_accept L i = (if py_truth (gready g) && py_truth (li_valid i) then [li_v i] else [])
  /\ hpend hc pb ++ (if comp then [gbyte g] else []) = link_deliver L i ++ hpend hc' pb'
  /\ (d_desync (l_des (link_step n L i)) =? 1) = comp.
Proof.
  intros Hn Hv (HT & HR & HH) comp Hlegal hc' pb'.
  destruct (tinv_div n g _ _ (s_tx (l_ser L)) (d_desync (l_des L)) Hn HT) as [Hpulse Hdiv'].
  destruct (tinv_ser n g _ _ (li_valid i) (li_v i) Hn HT Hv) as (Htx & Hrdy & Hser').
  destruct HT as [_ Hg].
  destruct (rinv_step n g _ _ _ (li_valid i) (li_v i) (li_ready i) Hn Hg HR) as (HR' & Hcomp & Htmp).
  rewrite Htx in Hdiv'. unfold LInv, TInv, link_step. cbn [l_ser l_cgr l_des]. rewrite Hpulse, Htx.
  assert (Hgr : g_r (gstep n g (li_valid i) (li_v i)) = rnext n (g_r g)).
  { apply g_r_gstep.
    - destruct g; cbn [gser g_r] in *; tauto.
    - destruct g as [|b u r sp t]; [exact I|]. cbn [gser] in Hg. destruct Hg as (_ & _ & _ & _ & _ & Hsp).
      split; [intros ->; lia | lia]. }
  (* hand-over part *)
  rewrite (des_mk (l_des L)) in HH.
  pose proof (hinv_step hc pb (UARTDeserializer_s_state_v (d_fsm (l_des L))) (d_valid (l_des L)) (d_v (l_des L)) comp (gbyte g) (li_ready i)) as Hh.
  assert (HH0 : HInv hc pb (mkdes 0 0 (UARTDeserializer_s_state_v (d_fsm (l_des L))) 0 (d_valid (l_des L)) (d_v (l_des L)) 0)) by exact HH.
  specialize (Hh HH0 Hlegal). cbv zeta in Hh.
  split; [|split; [|split]].
  - split; [|split].
    + split; [rewrite Hgr; exact Hdiv' | exact Hser'].
    + exact HR'.
    + rewrite (des_mk (l_des L)) at 1. rewrite des_step_split. cbv zeta. cbn [di_rx di_ready di_sample].
      rewrite Hcomp. fold comp.
      assert (Hb : (if comp then Wire_prepare 8 (UARTDeserializer_s_temp (d_fsm (l_des L))) else d_v (l_des L)) = (if comp then gbyte g else d_v (l_des L))).
      { destruct comp eqn:E; [|reflexivity]. rewrite (Htmp E). rewrite prep_trunc, trunc_small; [reflexivity|lia|].
        destruct g; cbn [gser gbyte] in *; change (2 ^ 8) with 256; tauto. }
      rewrite Hb. apply Hh.
  - unfold link_accept. now rewrite Hrdy.
  - unfold link_deliver. exact (proj2 (Hh 0 0 0 0)).
  - rewrite (rinv_ds n _ _ _ HR'). pose proof (gstep_completes n g _ (li_valid i) (li_v i) Hn Hg) as E. fold comp in E.
    destruct (gstep n g (li_valid i) (li_v i)); [rewrite <- E; reflexivity|]. rewrite <- E. destruct (_ =? n + 2); reflexivity.
Qed.

(* what the wires show: clock_desync is high after this edge iff the ghost says a frame completes at it (no consumer hypothesis needed) *)
Lemma link_comp_obs n g hc pb L i :
  2 <= n -> 0 <= li_v i < 256 -> LInv n g hc pb L ->
  (d_desync (l_des (link_step n L i)) =? 1) = gcompletes n g.
Proof.
  intros Hn Hv (HT & HR & _).
  destruct (tinv_ser n g _ _ (li_valid i) (li_v i) Hn HT Hv) as (Htx & _ & _). destruct HT as [_ Hg].
  destruct (rinv_step n g _ _ _ (li_valid i) (li_v i) (li_ready i) Hn Hg HR) as (HR' & _ & _).
  unfold link_step. cbn [l_des]. rewrite Htx.
  rewrite (rinv_ds n _ _ _ HR'). pose proof (gstep_completes n g _ (li_valid i) (li_v i) Hn Hg) as E.
  destruct (gstep n g (li_valid i) (li_v i)); [rewrite <- E; reflexivity|]. rewrite <- E. destruct (_ =? n + 2); reflexivity.
Qed.

Lemma inflight_le1 n g s : 2 <= n -> gser n g s -> (length (ginflight n g) <= 1)%nat.
Proof.
  intros Hn Hg. destruct g as [b k r | b u r sp t]; cbn [ginflight gser] in *; [cbn; lia|].
  destruct Hg as (_ & _ & _ & _ & _ & Hsp). rewrite app_length.
  destruct Hsp as [[-> H]|[[-> H]|[[-> H]|[[-> H]|[-> H]]]]]; cbn [Z.eqb Pos.eqb orb length];
    destruct (Z.leb_spec u (n + 1)); cbn [length]; lia.
Qed.

Lemma linv_run n : 2 <= n -> forall ins g hc pb L,
  LInv n g hc pb L -> Forall (fun i => 0 <= li_v i < 256) ins -> keeps_up hc (link_events n L ins) ->
  exists g' hc' pb', LInv n g' hc' pb' (final (link_step n) L ins) /\ hc' = hc_run hc (link_events n L ins) /\
    hpend hc pb ++ ginflight n g ++ link_accepted n L ins = link_delivered n L ins ++ hpend hc' pb' ++ ginflight n g'.
Proof.
  intros Hn. induction ins as [|i ins IH]; intros g hc pb L HI Hvs Hk.
  - exists g, hc, pb. cbn. rewrite !app_nil_r. auto.
  - inversion Hvs as [|? ? Hv Hvs']; subst. cbn [link_events keeps_up] in Hk. cbv zeta in Hk.
    rewrite (link_comp_obs n g hc pb L i Hn Hv HI) in Hk. destruct Hk as [Hlegal Hk].
    destruct (linv_step n g hc pb L i Hn Hv HI Hlegal) as (HI' & Hacc & Hdl & _).
    destruct (IH _ _ _ _ HI' Hvs' Hk) as (g' & hc' & pb' & HF & Hhc & Heq).
    exists g', hc', pb'. split; [exact HF|]. split.
    { cbn [link_events hc_run]. cbv zeta. rewrite (link_comp_obs n g hc pb L i Hn Hv (conj (conj (proj1 (proj1 HI)) (proj2 (proj1 HI))) (proj2 HI))). exact Hhc. }
    cbn [link_accepted link_delivered]. rewrite Hacc.
    destruct HI as ((_ & Hg) & _).
    pose proof (inflight_step n g _ (li_valid i) (li_v i) Hn Hg) as Hin.
    rewrite (app_assoc (ginflight n g)), Hin, <- !app_assoc, (app_assoc (hpend hc pb)), Hdl, <- !app_assoc.
    f_equal. exact Heq.
Qed.

(* ---- power-up *)
Lemma linv_boot n i0 : 2 <= n ->
  LInv n (GT 0 (3 * n + 3) (n - 1) 1 0) 2 0 (link_step n link_init i0)
  /\ link_accept link_init i0 = [] /\ link_deliver link_init i0 = []
  /\ (d_desync (l_des (link_step n link_init i0)) =? 1) = false.
Proof.
  intros Hn. unfold LInv, TInv, link_step, link_init. cbn [l_ser l_cgr l_des ser_init s_tx des_init d_desync].
  assert (Hn1 : 1 <= n) by lia.
  change (cgr_pulse cgr_init) with 0. change (cgr_sample cgr_init) with 0.
  split; [|split; [|split]].
  - split; [|split].
    + split.
      * cbn [g_r]. destruct (cgr_step_tx n cgr_init 0 0) as [E1 E2]. rewrite E1, E2.
        assert (H0 : div_phase n 0 (g_tx cgr_init) (g_zpos cgr_init)).
        { unfold div_phase. cbn [g_tx g_zpos cgr_init cd_q cd_clk]. change (0 =? 0) with true. cbv iota.
          destruct (Z.ltb_spec 0 n); [|lia]. repeat split; auto; lia. }
        destruct (div_phase_step n 0 _ _ Hn1 H0) as [Hs _].
        replace (ptf n (n - 1)) with (adv n 0); [exact Hs|]. unfold adv, ptf. zbool; lia.
      * cbn [gser]. repeat split; try lia.
    + cbn [RInv]. replace (3 * n + 3 <=? n + 1) with false by (symmetry; apply Z.leb_gt; lia).
      replace (3 * n + 3 =? n + 2) with false by (symmetry; apply Z.eqb_neq; lia).
      assert (Hb : cgr_bits n cgr_init) by (unfold cgr_bits; cbn; repeat split; auto; lia).
      destruct (cgr_idle_step n cgr_init 0 0 Hn1 Hb eq_refl eq_refl isbit0 (or_intror eq_refl)) as (F & A & B & _).
      unfold ridle. refine (conj F (conj A (conj B _))).
      change des_init with (mkdes 0 0 0 0 0 0 0). rewrite des_step_split. cbn. auto.
    + change des_init with (mkdes 0 0 0 0 0 0 0). rewrite des_step_split. unfold HInv. cbn. auto.
  - reflexivity.
  - reflexivity.
  - change des_init with (mkdes 0 0 0 0 0 0 0). rewrite des_step_split. reflexivity.
Qed.

(* ---- link_delivers (safety): at every moment, the bytes accepted so far are the bytes delivered so far followed by the (at most two)
   bytes still in the pipeline: nothing is lost, duplicated, altered or reordered *)
Lemma link_delivers_safety n ins :
  2 <= n -> Forall (fun i => 0 <= li_v i < 256) ins -> keeps_up 2 (link_events n link_init ins) ->
  exists pend, link_accepted n link_init ins = link_delivered n link_init ins ++ pend /\ (length pend <= 2)%nat.
Proof.
  intros Hn Hvs Hk. destruct ins as [|i0 ins]; [exists []; cbn; auto|].
  inversion Hvs as [|? ? Hv0 Hvs']; subst.
  destruct (linv_boot n i0 Hn) as (HI & Ha & Hd & Hc).
  cbn [link_events keeps_up] in Hk. cbv zeta in Hk. rewrite Hc in Hk. destruct Hk as [_ Hk].
  assert (Hh : hnext 2 false (li_ready i0) = 2) by (unfold hnext; destruct (li_ready i0 =? 0); reflexivity).
  rewrite Hh in Hk.
  destruct (linv_run n Hn ins _ _ _ _ HI Hvs' Hk) as (g' & hc' & pb' & HF & _ & Heq).
  cbn [link_accepted link_delivered]. rewrite Ha, Hd. cbn [app].
  exists (hpend hc' pb' ++ ginflight n g'). split.
  - rewrite <- Heq. cbn [hpend ginflight]. replace (3 * n + 3 <=? n + 1) with false by (symmetry; apply Z.leb_gt; lia). reflexivity.
  - destruct HF as ((_ & Hg) & _). rewrite app_length. pose proof (inflight_le1 n g' _ Hn Hg).
    unfold hpend. destruct (hc' <? 2); cbn [length]; lia.
Qed.

(* ------------------------------------------------------------------ progress: with the producer quiet, the pipeline drains *)
(* number of clocks until the serializer is back in READY with nothing on the line and the receive side idle *)
Definition ustar (n : Z) : Z := Z.max (2 * n) (n + 3).
Definition rank (n : Z) (g : ghost) : Z :=
  match g with
  | GL b k r => (9 - k) * (2 * n) - r + ustar n
  | GT b u r sp t =>
      if (sp =? 5) || (sp =? 0) then ustar n - u
      else if sp =? 1 then Z.max 0 (n + 3 - u)
      else if sp =? 2 then (if r <=? 2 * n - 2 then 2 * n - 1 - r else 2 * n) + 1 + 9 * (2 * n) + ustar n
      else 9 * (2 * n) + ustar n + 1
  end.

Lemma rank_step n g s v : 2 <= n -> gser n g s ->
  0 <= rank n g <= 22 * n + 4 /\
  rank n (gstep n g 0 v) = Z.max 0 (rank n g - 1) /\
  (rank n g = 0 -> ginflight n g = [] /\ gcompletes n g = false).
Proof.
  intros Hn Hg. destruct g as [b k r | b u r sp t]; cbn [gser rank gstep ginflight gcompletes] in *.
  - destruct Hg as (Hb & Hk & Hr & _).
    assert (Hk9 : k = 0 \/ k = 1 \/ k = 2 \/ k = 3 \/ k = 4 \/ k = 5 \/ k = 6 \/ k = 7 \/ k = 8) by lia.
    destruct (Z.eqb_spec r (2 * n - 1)) as [Er|Er].
    + destruct (Z.eqb_spec k 8) as [E8|E8]; cbn [rank Z.eqb Pos.eqb orb]; unfold ustar.
      * subst k. repeat split; try lia; try (intros; exfalso; lia).
      * destruct Hk9 as [-> | [-> | [-> | [-> | [-> | [-> | [-> | [-> | ->]]]]]]]]; repeat split; try lia; try (intros; exfalso; lia).
    + cbn [rank]. unfold ustar.
      destruct Hk9 as [-> | [-> | [-> | [-> | [-> | [-> | [-> | [-> | ->]]]]]]]]; repeat split; try lia; try (intros; exfalso; lia).
  - destruct Hg as (Hb & Hu & Hr & Hur & _ & Hsp). unfold rnext.
    destruct Hsp as [[-> H]|[[-> H]|[[-> H]|[[-> H]|[-> H]]]]]; cbn [Z.eqb Pos.eqb orb].
    + destruct (Z.eqb_spec r (2 * n - 2)); cbn [rank Z.eqb Pos.eqb orb]; unfold ustar; repeat split; try lia; try (intros; exfalso; lia).
    + cbn [rank Z.eqb Pos.eqb orb]. unfold ustar. repeat split; try lia; try (intros; exfalso; lia).
    + cbn [rank Z.eqb Pos.eqb orb app]. unfold ustar. repeat split; try lia.
      all: try (replace (u <=? n + 1) with false by (symmetry; apply Z.leb_gt; lia); reflexivity).
      all: try (apply Z.eqb_neq; lia).
    + destruct (Z.eqb_spec r (2 * n - 2)); cbn [rank Z.eqb Pos.eqb orb]; unfold ustar; zbool; repeat split; try lia; try (intros; exfalso; lia).
    + cbn [rank]. unfold ustar. repeat split; try lia; try (intros; exfalso; lia).
Qed.

(* one clock: the invariant and the bookkeeping equation together *)
Lemma linv_step_book n g hc pb L i :
  2 <= n -> 0 <= li_v i < 256 -> LInv n g hc pb L ->
  (gcompletes n g = true -> hc = 2 \/ (hc = 1 /\ li_ready i <> 0)) ->
  let g' := gstep n g (li_valid i) (li_v i) in
  let hc' := hnext hc (gcompletes n g) (li_ready i) in
  let pb' := if gcompletes n g then gbyte g else pb in
  LInv n g' hc' pb' (link_step n L i) /\
  (forall X Y, hpend hc' pb' ++ ginflight n g' ++ X = Y ->
               hpend hc pb ++ ginflight n g ++ link_accept L i ++ X = link_deliver L i ++ Y).
Proof.
  intros Hn Hv HI Hlegal g' hc' pb'.
  destruct (linv_step n g hc pb L i Hn Hv HI Hlegal) as (HI' & Hacc & Hdl & _). split; [exact HI'|].
  intros X Y <-. rewrite Hacc. destruct HI as ((_ & Hg) & _).
  pose proof (inflight_step n g _ (li_valid i) (li_v i) Hn Hg) as Hin.
  rewrite (app_assoc (ginflight n g)), Hin, <- !app_assoc, (app_assoc (hpend hc pb)), Hdl, <- !app_assoc. reflexivity.
Qed.

Lemma rank_zero n g s : 2 <= n -> gser n g s -> rank n g = 0 ->
  ginflight n g = [] /\ match g with GT _ u _ _ _ => (u =? n + 2) = false | GL _ _ _ => False end.
Proof.
  intros Hn Hg H0. split; [exact (proj1 (proj2 (proj2 (rank_step n g s 0 Hn Hg)) H0))|].
  destruct g as [b k r | b u r sp t]; cbn [gser rank] in *; unfold ustar in *.
  - destruct Hg as (_ & Hk & Hr & _).
    assert (Hk9 : k = 0 \/ k = 1 \/ k = 2 \/ k = 3 \/ k = 4 \/ k = 5 \/ k = 6 \/ k = 7 \/ k = 8) by lia.
    destruct Hk9 as [-> | [-> | [-> | [-> | [-> | [-> | [-> | [-> | ->]]]]]]]]; lia.
  - destruct Hg as (_ & Hu & Hr & _ & _ & Hsp). apply Z.eqb_neq.
    destruct Hsp as [[-> H]|[[-> H]|[[-> H]|[[-> H]|[-> H]]]]]; cbn [Z.eqb Pos.eqb orb] in H0; zbool; lia.
Qed.

(* the producer is quiet: the rank goes down by one per clock *)
Definition quiet_in (i : link_in) : Prop := li_valid i = 0 /\ 0 <= li_v i < 256.

Lemma linv_drain n : 2 <= n -> forall quiet g hc pb L,
  LInv n g hc pb L -> Forall quiet_in quiet -> keeps_up hc (link_events n L quiet) ->
  exists g' hc' pb', LInv n g' hc' pb' (final (link_step n) L quiet) /\ hc' = hc_run hc (link_events n L quiet) /\
    rank n g' = Z.max 0 (rank n g - Z.of_nat (length quiet)) /\
    hpend hc pb ++ ginflight n g ++ link_accepted n L quiet = link_delivered n L quiet ++ hpend hc' pb' ++ ginflight n g'.
Proof.
  intros Hn. induction quiet as [|i q IH]; intros g hc pb L HI Hq Hk.
  - exists g, hc, pb. cbn. rewrite !app_nil_r. pose proof (proj2 (proj1 HI)) as Hg.
    pose proof (proj1 (rank_step n g _ 0 Hn Hg)). split; [exact HI|]. split; [reflexivity|]. split; [lia|reflexivity].
  - inversion Hq as [|? ? [Hva Hv] Hq']; subst. cbn [link_events keeps_up hc_run] in *. cbv zeta in Hk.
    rewrite (link_comp_obs n g hc pb L i Hn Hv HI) in *. destruct Hk as [Hlegal Hk].
    destruct (linv_step_book n g hc pb L i Hn Hv HI Hlegal) as (HI' & Hbook).
    destruct (IH _ _ _ _ HI' Hq' Hk) as (g' & hc' & pb' & HF & Hhc & Hrk & Heq).
    exists g', hc', pb'. split; [exact HF|]. split; [exact Hhc|]. split.
    + pose proof (proj2 (proj1 HI)) as Hg. destruct (rank_step n g _ (li_v i) Hn Hg) as (Hr0 & Hr1 & _).
      rewrite Hva in Hrk. rewrite Hr1 in Hrk. rewrite Hrk. cbn [length]. lia.
    + cbn [link_accepted link_delivered]. rewrite <- app_assoc. apply Hbook. exact Heq.
Qed.

Lemma linv_run2 n : 2 <= n -> forall ins quiet g hc pb L,
  LInv n g hc pb L -> Forall (fun i => 0 <= li_v i < 256) ins -> Forall quiet_in quiet ->
  keeps_up hc (link_events n L (ins ++ quiet)) ->
  exists g' hc' pb', LInv n g' hc' pb' (final (link_step n) L (ins ++ quiet)) /\ hc' = hc_run hc (link_events n L (ins ++ quiet)) /\
    rank n g' <= Z.max 0 (22 * n + 4 - Z.of_nat (length quiet)) /\
    hpend hc pb ++ ginflight n g ++ link_accepted n L (ins ++ quiet) = link_delivered n L (ins ++ quiet) ++ hpend hc' pb' ++ ginflight n g'.
Proof.
  intros Hn. induction ins as [|i ins IH]; intros quiet g hc pb L HI Hvs Hq Hk.
  - cbn [app] in *. destruct (linv_drain n Hn quiet g hc pb L HI Hq Hk) as (g' & hc' & pb' & HF & Hhc & Hrk & Heq).
    exists g', hc', pb'. split; [exact HF|]. split; [exact Hhc|]. split; [|exact Heq]. pose proof (proj2 (proj1 HI)) as Hg.
    pose proof (proj1 (rank_step n g _ 0 Hn Hg)). lia.
  - inversion Hvs as [|? ? Hv Hvs']; subst. cbn [app link_events keeps_up hc_run final fold_left] in *. cbv zeta in Hk.
    rewrite (link_comp_obs n g hc pb L i Hn Hv HI) in *. destruct Hk as [Hlegal Hk].
    destruct (linv_step_book n g hc pb L i Hn Hv HI Hlegal) as (HI' & Hbook).
    destruct (IH quiet _ _ _ _ HI' Hvs' Hq Hk) as (g' & hc' & pb' & HF & Hhc & Hrk & Heq).
    exists g', hc', pb'. split; [exact HF|]. split; [exact Hhc|]. split; [exact Hrk|].
    cbn [link_accepted link_delivered]. rewrite <- app_assoc. apply Hbook. exact Heq.
Qed.

(* ------------------------------------------------------------------ link_delivers *)
Lemma link_accepted_app n a : forall L b, link_accepted n L (a ++ b) = link_accepted n L a ++ link_accepted n (final (link_step n) L a) b.
Proof. induction a as [|i a IH]; intros L b; cbn [app link_accepted final fold_left]; [reflexivity|]. rewrite IH, app_assoc. reflexivity. Qed.
Lemma link_events_app n a : forall L b, link_events n L (a ++ b) = link_events n L a ++ link_events n (final (link_step n) L a) b.
Proof. induction a as [|i a IH]; intros L b; cbn [app link_events final fold_left]; [reflexivity|]. cbv zeta. now rewrite IH. Qed.
Lemma hc_run_app e1 : forall hc e2, hc_run hc (e1 ++ e2) = hc_run (hc_run hc e1) e2.
Proof. induction e1 as [|[c r] e1 IH]; intros hc e2; cbn [app hc_run]; auto. Qed.
Lemma link_accepted_quiet n q : forall L, Forall quiet_in q -> link_accepted n L q = [].
Proof.
  induction q as [|i q IH]; intros L H; [reflexivity|]. inversion H as [|? ? [Hva _] H']; subst.
  cbn [link_accepted]. rewrite IH by assumption. unfold link_accept. rewrite Hva. change (py_truth 0) with false. now rewrite andb_false_r.
Qed.

(* general pacing: the consumer keeps up (>= 2 ready edges between consecutive completions) and, at the end, has been ready at two edges
   since the last completion; the producer ends with at least 12 bit periods + 8 clocks without offering anything.
   Then every accepted byte has been delivered: same values, same order, exactly once. *)
Lemma link_delivers_lemma n ins quiet :
  2 <= n -> Forall (fun i => 0 <= li_v i < 256) ins -> Forall quiet_in quiet -> 24 * n + 8 <= Z.of_nat (length quiet) ->
  let evs := link_events n link_init (ins ++ quiet) in
  keeps_up 2 evs -> hc_run 2 evs = 2 ->
  link_delivered n link_init (ins ++ quiet) = link_accepted n link_init (ins ++ quiet)
  /\ link_accepted n link_init (ins ++ quiet) = link_accepted n link_init ins.
Proof.
  intros Hn Hvs Hq Hlen evs Hk Hhc. subst evs. split.
  2:{ rewrite link_accepted_app. rewrite (link_accepted_quiet n quiet _ Hq). apply app_nil_r. }
  assert (Hsplit : exists i0 ins' q', ins ++ quiet = i0 :: ins' ++ q' /\ Forall (fun i => 0 <= li_v i < 256) ins' /\ Forall quiet_in q'
                                  /\ 22 * n + 4 <= Z.of_nat (length q')).
  { destruct ins as [|i0 ins'].
    - destruct quiet as [|i0 q']; [cbn [length] in Hlen; lia|]. exists i0, [], q'. inversion Hq; subst. cbn [length] in Hlen. repeat split; auto. lia.
    - exists i0, ins', quiet. inversion Hvs; subst. repeat split; auto. lia. }
  destruct Hsplit as (i0 & ins' & q' & E & Hvs' & Hq' & Hlen'). rewrite E in *.
  destruct (linv_boot n i0 Hn) as (HI & Ha & Hd & Hc).
  cbn [link_events keeps_up hc_run] in Hk, Hhc. cbv zeta in Hk, Hhc. rewrite Hc in Hk, Hhc. destruct Hk as [_ Hk].
  assert (Hh : hnext 2 false (li_ready i0) = 2) by (unfold hnext; destruct (li_ready i0 =? 0); reflexivity).
  rewrite Hh in Hk, Hhc.
  destruct (linv_run2 n Hn ins' q' _ _ _ _ HI Hvs' Hq' Hk) as (g' & hc' & pb' & HF & Hhc' & Hrk & Heq).
  cbn [link_accepted link_delivered]. rewrite Ha, Hd. cbn [app].
  pose proof (proj2 (proj1 HF)) as Hg'. pose proof (proj1 (rank_step n g' _ 0 Hn Hg')) as Hr0.
  destruct (rank_zero n g' _ Hn Hg' ltac:(lia)) as [Hin _].
  rewrite Hhc in Hhc'. subst hc'. rewrite Hin in Heq. cbn [hpend Z.ltb Z.compare Pos.compare Pos.compare_cont app] in Heq.
  rewrite app_nil_r in Heq. rewrite <- Heq. cbn [ginflight].
  replace (3 * n + 3 <=? n + 1) with false by (symmetry; apply Z.leb_gt; lia). reflexivity.
Qed.

(* an always-ready consumer keeps up, and has taken everything one clock after a completion *)
Lemma keeps_up_ready evs : forall hc, hc = 1 \/ hc = 2 -> Forall (fun e => snd e <> 0) evs ->
  keeps_up hc evs /\ (hc_run hc evs = 1 \/ hc_run hc evs = 2).
Proof.
  induction evs as [|[c r] evs IH]; intros hc Hhc H; cbn [keeps_up hc_run]; [auto|].
  inversion H as [|? ? Hr H']; subst. cbn [snd] in Hr.
  assert (Hn : hnext hc c r = 1 \/ hnext hc c r = 2).
  { unfold hnext. apply Z.eqb_neq in Hr. rewrite Hr. destruct c; lia. }
  destruct (IH _ Hn H') as [K R]. split; [split; [intros _; destruct Hhc; [right; auto | left; auto] | exact K] | exact R].
Qed.

Lemma link_events_ready n ins : forall L, Forall (fun i => li_ready i <> 0) ins -> Forall (fun e => snd e <> 0) (link_events n L ins).
Proof. induction ins as [|i ins IH]; intros L H; cbn [link_events]; constructor; inversion H; subst; auto. Qed.

Lemma link_delivers_ready_lemma n ins quiet :
  2 <= n -> Forall (fun i => 0 <= li_v i < 256) ins -> Forall quiet_in quiet -> 24 * n + 8 <= Z.of_nat (length quiet) ->
  Forall (fun i => li_ready i <> 0) (ins ++ quiet) ->
  link_delivered n link_init (ins ++ quiet) = link_accepted n link_init (ins ++ quiet)
  /\ link_accepted n link_init (ins ++ quiet) = link_accepted n link_init ins.
Proof.
  intros Hn Hvs Hq Hlen Hrdy.
  pose proof (link_events_ready n (ins ++ quiet) link_init Hrdy) as Hev.
  destruct (keeps_up_ready _ 2 (or_intror eq_refl) Hev) as [Hk Hrun].
  apply link_delivers_lemma; auto.
  (* the last clock is not a completion: one clock earlier the pipeline is already empty *)
  destruct Hrun as [H1|H2]; [exfalso|exact H2].
  assert (Hq1 : exists q1 il, quiet = q1 ++ [il]).
  { destruct quiet as [|x q] using rev_ind; [cbn [length] in Hlen; lia|eauto]. }
  destruct Hq1 as (q1 & il & ->). rewrite app_length in Hlen. cbn [length] in Hlen.
  apply Forall_app in Hq as [Hq1 Hil]. inversion Hil as [|? ? [_ Hvil] _]; subst.
  rewrite app_assoc in H1, Hk, Hev. rewrite link_events_app, hc_run_app in H1.
  rewrite link_events_app in Hk, Hev. cbn [link_events hc_run] in H1. cbv zeta in H1.
  apply Forall_app in Hev as [Hev1 Hev2].
  destruct (keeps_up_ready _ 2 (or_intror eq_refl) Hev1) as [Hk1 Hrun1].
  (* state before the last clock *)
  assert (Hsplit : exists i0 ins' q', ins ++ q1 = i0 :: ins' ++ q' /\ Forall (fun i => 0 <= li_v i < 256) ins' /\ Forall quiet_in q'
                                  /\ 22 * n + 4 <= Z.of_nat (length q')).
  { destruct ins as [|i0 ins'].
    - destruct q1 as [|i0 q']; [cbn [length] in Hlen; lia|]. exists i0, [], q'. inversion Hq1; subst. cbn [length] in Hlen. repeat split; auto. lia.
    - exists i0, ins', q1. inversion Hvs; subst. repeat split; auto. lia. }
  destruct Hsplit as (i0 & ins' & q' & E & Hvs' & Hq' & Hlen').
  rewrite E in *.
  destruct (linv_boot n i0 Hn) as (HI & _ & _ & Hc).
  cbn [link_events keeps_up hc_run final fold_left] in *. cbv zeta in *. rewrite Hc in *. destruct Hk1 as [_ Hk1].
  assert (Hh : hnext 2 false (li_ready i0) = 2) by (unfold hnext; destruct (li_ready i0 =? 0); reflexivity).
  rewrite Hh in *.
  destruct (linv_run2 n Hn ins' q' _ _ _ _ HI Hvs' Hq' Hk1) as (g' & hc' & pb' & HF & Hhc' & Hrk & _).
  pose proof (proj2 (proj1 HF)) as Hg'. pose proof (rank_step n g' _ 0 Hn Hg') as (Hr0 & _ & Hz).
  destruct (Hz ltac:(lia)) as [_ Hnc].
  unfold final in HF. rewrite (link_comp_obs n g' hc' pb' _ il Hn Hvil HF), Hnc in H1.
  inversion Hev2 as [|? ? Hril _]; subst. cbn [snd] in Hril.
  unfold hnext in H1. apply Z.eqb_neq in Hril. rewrite Hril in H1. destruct Hrun1; lia.
Qed.
