(* C17: the serializer frames every byte as 8N1 for every baud pulse train. *)
From V Require Import Base.Bits Gen.WireOps Gen.Seq Model.Uart Spec.C17.

(* ---- generic facts about runs / final *)
Section RunFacts.
Context {S I : Type}.
Variable step : S -> I -> S.
Lemma runs_app s a b : runs step s (a ++ b) = runs step s a ++ runs step (final step s a) b.
Proof. revert s; induction a as [|i a IH]; intros s; cbn [runs final fold_left app]; [reflexivity|]. now rewrite IH. Qed.
Lemma final_app s a b : final step s (a ++ b) = final step (final step s a) b.
Proof. unfold final; apply fold_left_app. Qed.
Lemma runs_length s a : length (runs step s a) = length a.
Proof. revert s; induction a as [|i a IH]; intros s; cbn; auto. Qed.
End RunFacts.

(* ---- wire stores on 1-bit and 8-bit wires *)
Lemma prep_trunc w v : Wire_prepare w v = trunc w v.
Proof. reflexivity. Qed.
Lemma prep1_bit x : 0 <= x <= 1 -> Wire_prepare 1 x = x.
Proof. intros H. rewrite prep_trunc. apply trunc_small; lia. Qed.
Lemma land1_range t : 0 <= Z.land t 1 <= 1.
Proof.
  change 1 with (Z.ones 1) at 1 2. rewrite Z.land_ones by lia. change (2 ^ 1) with 2.
  pose proof (Z.mod_pos_bound t 2); lia.
Qed.

(* ---- a readable reference for one serializer step, and the (only) lemma that looks inside the generated function *)
Definition mkser (k c t x r : Z) : ser :=
  {| s_fsm := {| UARTSerializer_s_state := k; UARTSerializer_s_count := c; UARTSerializer_s_txv := t |}; s_tx := x; s_ready := r |}.

Definition ser_ref (k c t x r : Z) (valid v pulse : Z) : ser :=
  if k =? 0 then mkser 1 c t 1 1
  else if k =? 1 then (if valid =? 0 then mkser 1 c t x r else mkser 2 c v x 0)
  else if k =? 2 then mkser (if pulse =? 0 then 2 else 3) c t x r
  else if k =? 3 then mkser (if pulse =? 0 then 3 else 4) 7 t 0 r
  else if k =? 4 then
    (if pulse =? 0 then mkser 4 c t (Z.land t 1) r
     else if c =? 0 then mkser 5 c (Z.shiftr t 1) (Z.land t 1) r
     else mkser 4 (c - 1) (Z.shiftr t 1) (Z.land t 1) r)
  else if k =? 5 then mkser (if pulse =? 0 then 5 else 0) c t 1 r
  else mkser k c t x r.

Ltac split_ifs :=
  repeat match goal with
         | |- context [if ?c then _ else _] => let E := fresh "E" in destruct c eqn:E
         end.

Ltac eqb_subst :=
  repeat match goal with
         | H : (_ =? _) = true |- _ => apply Z.eqb_eq in H
         | H : (_ =? _) = false |- _ => apply Z.eqb_neq in H
         end; subst.

Lemma ser_step_ref k c t x r i :
  ser_step (mkser k c t x r) i = ser_ref k c t x r (si_valid i) (si_v i) (si_pulse i).
Proof.
  unfold ser_step, ser_ref, mkser, UARTSerializer_clock, py_truth, py_shr.
  cbn [s_fsm s_tx s_ready UARTSerializer_s_state UARTSerializer_s_count UARTSerializer_s_txv].
  pose proof (prep1_bit (Z.land t 1) (land1_range t)) as Hb.
  pose proof (prep1_bit 0 ltac:(lia)) as H0. pose proof (prep1_bit 1 ltac:(lia)) as H1.
  split_ifs; cbn [upd UARTSerializer_o_tx UARTSerializer_o_ready negb] in *;
    rewrite ?Hb, ?H0, ?H1; try reflexivity; try discriminate; eqb_subst; try reflexivity; try lia.
Qed.

(* ---- one baud interval: g edges without pulse, then the edge with the pulse *)
Lemma split_pulse ins g rest :
  map si_pulse ins = (repeat 0 g ++ [1]) ++ rest ->
  exists a i b, ins = (a ++ [i]) ++ b /\ map si_pulse a = repeat 0 g /\ si_pulse i = 1 /\ map si_pulse b = rest.
Proof.
  intros H. apply map_eq_app in H as (ai & b & -> & Hai & Hb).
  apply map_eq_app in Hai as (a & i1 & -> & Ha & Hi).
  destruct i1 as [|i [|? ?]]; cbn in Hi; try discriminate. injection Hi as Hi.
  exists a, i, b; auto.
Qed.

Lemma phase_gen (s m nx : ser) a i g :
  (forall j, si_pulse j = 0 -> ser_step s j = m) -> (forall j, si_pulse j = 0 -> ser_step m j = m) ->
  (forall j, si_pulse j = 1 -> ser_step s j = nx) -> (forall j, si_pulse j = 1 -> ser_step m j = nx) ->
  map si_pulse a = repeat 0 g -> si_pulse i = 1 ->
  runs ser_step s (a ++ [i]) = repeat m g ++ [nx] /\ final ser_step s (a ++ [i]) = nx.
Proof.
  intros Hs0 Hm0 Hs1 Hm1 Ha Hi.
  assert (Hm : forall g a, map si_pulse a = repeat 0 g ->
             runs ser_step m (a ++ [i]) = repeat m g ++ [nx] /\ final ser_step m (a ++ [i]) = nx).
  { clear a g Ha. induction g as [|g IH]; intros [|j a] Ha; cbn in Ha; try discriminate.
    - cbn. rewrite Hm1 by assumption. auto.
    - injection Ha as Hj Ha. cbn [app runs final fold_left repeat]. rewrite Hm0 by assumption.
      destruct (IH a Ha) as [R F]. unfold final in F. rewrite R, F. auto. }
  destruct g as [|g]; destruct a as [|j a]; cbn in Ha; try discriminate.
  - cbn. rewrite Hs1 by assumption. auto.
  - injection Ha as Hj Ha. cbn [app runs final fold_left repeat]. rewrite Hs0 by assumption.
    destruct (Hm g a Ha) as [R F]. unfold final in F. rewrite R, F. auto.
Qed.

Lemma repeat_snoc {A} (x : A) g : repeat x g ++ [x] = repeat x (S g).
Proof. now rewrite <- repeat_cons. Qed.

Lemma z1_ne0 : (1 =? 0) = false. Proof. reflexivity. Qed.

(* the four kinds of interval *)
Lemma phase_wait c t a i g :
  map si_pulse a = repeat 0 g -> si_pulse i = 1 ->
  runs ser_step (mkser 2 c t 1 0) (a ++ [i]) = repeat (mkser 2 c t 1 0) g ++ [mkser 3 c t 1 0]
  /\ final ser_step (mkser 2 c t 1 0) (a ++ [i]) = mkser 3 c t 1 0.
Proof.
  apply phase_gen; intros j Hj; rewrite ser_step_ref, Hj; reflexivity.
Qed.

Lemma phase_start c t x a i g :
  map si_pulse a = repeat 0 g -> si_pulse i = 1 ->
  runs ser_step (mkser 3 c t x 0) (a ++ [i]) = repeat (mkser 3 7 t 0 0) g ++ [mkser 4 7 t 0 0]
  /\ final ser_step (mkser 3 c t x 0) (a ++ [i]) = mkser 4 7 t 0 0.
Proof.
  apply phase_gen; intros j Hj; rewrite ser_step_ref, Hj; reflexivity.
Qed.

Lemma phase_bit c t x a i g :
  map si_pulse a = repeat 0 g -> si_pulse i = 1 ->
  let nx := if c =? 0 then mkser 5 c (Z.shiftr t 1) (Z.land t 1) 0 else mkser 4 (c - 1) (Z.shiftr t 1) (Z.land t 1) 0 in
  runs ser_step (mkser 4 c t x 0) (a ++ [i]) = repeat (mkser 4 c t (Z.land t 1) 0) g ++ [nx]
  /\ final ser_step (mkser 4 c t x 0) (a ++ [i]) = nx.
Proof.
  intros Ha Hi nx. subst nx.
  apply phase_gen; auto; intros j Hj; rewrite ser_step_ref, Hj; unfold ser_ref; cbn [Z.eqb Pos.eqb];
    destruct (c =? 0); reflexivity.
Qed.

Lemma phase_stop c t x a i g :
  map si_pulse a = repeat 0 g -> si_pulse i = 1 ->
  runs ser_step (mkser 5 c t x 0) (a ++ [i]) = repeat (mkser 5 c t 1 0) g ++ [mkser 0 c t 1 0]
  /\ final ser_step (mkser 5 c t x 0) (a ++ [i]) = mkser 0 c t 1 0.
Proof.
  apply phase_gen; intros j Hj; rewrite ser_step_ref, Hj; reflexivity.
Qed.

(* the data bits the shift register presents, in order *)
Fixpoint bits_from (t : Z) (m : nat) : list Z :=
  match m with O => [] | S m' => Z.land t 1 :: bits_from (Z.shiftr t 1) m' end.

Lemma pulses_cons g gs : pulses (g :: gs) = (repeat 0 g ++ [1]) ++ pulses gs.
Proof. reflexivity. Qed.

Lemma map_repeat {A B} (f : A -> B) x g : map f (repeat x g) = repeat (f x) g.
Proof. induction g; cbn; congruence. Qed.

Lemma data_phase gs : forall c t x ins,
  Z.of_nat (length gs) = c + 1 -> map si_pulse ins = pulses gs ->
  map s_tx (runs ser_step (mkser 4 c t x 0) ins) = hold (map S gs) (bits_from t (length gs))
  /\ map s_ready (runs ser_step (mkser 4 c t x 0) ins) = repeat 0 (length ins)
  /\ (gs <> [] -> exists t' x', final ser_step (mkser 4 c t x 0) ins = mkser 5 0 t' x' 0).
Proof.
  induction gs as [|g gs IH]; intros c t x ins Hc Hp.
  - destruct ins; cbn in Hp; try discriminate. cbn. repeat split; auto. congruence.
  - rewrite pulses_cons in Hp. apply split_pulse in Hp as (a & i & b & -> & Ha & Hi & Hb).
    destruct (phase_bit c t x a i g Ha Hi) as [R F].
    rewrite runs_app, F, R, !map_app, !map_repeat. cbn [map length hold bits_from].
    cbn [length] in Hc.
    assert (La : length a = g) by (rewrite <- (map_length si_pulse), Ha; apply repeat_length).
    destruct (c =? 0) eqn:E.
    + apply Z.eqb_eq in E. destruct gs; [|cbn [length] in Hc; lia].
      destruct b; cbn in Hb; try discriminate.
      cbn [runs map s_tx s_ready mkser hold bits_from length app]. rewrite !app_nil_r, repeat_snoc.
      rewrite F. subst c.
      repeat split; eauto.
      rewrite app_length, La. cbn [length]. rewrite repeat_snoc. f_equal. lia.
    + apply Z.eqb_neq in E.
      destruct (IH (c - 1) (Z.shiftr t 1) (Z.land t 1) b ltac:(lia) Hb) as (T & Rd & Fn).
      rewrite T, Rd. cbn [s_tx s_ready mkser]. rewrite <- app_assoc. cbn [app].
      repeat split.
      * rewrite <- repeat_snoc, <- app_assoc. reflexivity.
      * rewrite !app_length, La. cbn [length]. rewrite repeat_snoc, <- repeat_app. f_equal. lia.
      * intros _. rewrite final_app, F. apply Fn. destruct gs; [cbn in Hc; lia | discriminate].
Qed.

Lemma bits_from_8 b : bits_from b 8 = map (bit b) [0; 1; 2; 3; 4; 5; 6; 7].
Proof.
  cbn [bits_from map]. unfold bit. rewrite !Z.shiftr_shiftr by lia. cbn [Z.add Pos.add Pos.succ].
  rewrite Z.shiftr_0_r. reflexivity.
Qed.

(* ser_frame: from acceptance in the READY state, for ANY eleven baud intervals (any phase g0, any spacing, gap 0 included),
   whatever valid / v do during the frame:
   the tx wire after each edge is  1 (acceptance edge), 1 for the g0+1 edges up to the first pulse, then start 0, b0..b7, stop 1,
   each held for exactly one baud interval (g_k + 1 clocks), then 1; ready is low from the acceptance edge until the edge
   after the stop interval, where the serializer is back in the READY state. *)
Lemma ser_frame_lemma b cnt txv gaps i0 ins il :
  length gaps = 11%nat -> si_valid i0 <> 0 -> si_v i0 = b -> map si_pulse ins = pulses gaps ->
  let tr := runs ser_step (ser_ready_state cnt txv) (i0 :: ins ++ [il]) in
  map s_tx tr = 1 :: hold (map S gaps) (1 :: frame8n1 b) ++ [1]
  /\ map s_ready tr = 0 :: repeat 0 (length ins) ++ [1]
  /\ exists c t, final ser_step (ser_ready_state cnt txv) (i0 :: ins ++ [il]) = ser_ready_state c t.
Proof.
  intros Hlen Hv Hb Hp tr. subst tr.
  change (ser_ready_state cnt txv) with (mkser 1 cnt txv 1 1).
  assert (S0 : ser_step (mkser 1 cnt txv 1 1) i0 = mkser 2 cnt b 1 0).
  { rewrite ser_step_ref. unfold ser_ref. cbn [Z.eqb Pos.eqb]. apply Z.eqb_neq in Hv. now rewrite Hv, Hb. }
  change (final ser_step (mkser 1 cnt txv 1 1) (i0 :: ins ++ [il])) with (final ser_step (ser_step (mkser 1 cnt txv 1 1) i0) (ins ++ [il])).
  cbn [runs]. rewrite S0. clear S0 Hv Hb i0.
  destruct gaps as [|g0 [|g1 gs]]; try discriminate Hlen.
  rewrite !pulses_cons in Hp.
  apply split_pulse in Hp as (a0 & i0 & r0 & -> & Ha0 & Hi0 & Hp).
  apply split_pulse in Hp as (a1 & i1 & r1 & -> & Ha1 & Hi1 & Hp).
  assert (Hgs : exists gd g10, gs = gd ++ [g10] /\ length gd = 8%nat).
  { exists (removelast gs), (last gs 0%nat). split.
    - apply app_removelast_last. destruct gs; discriminate.
    - cbn in Hlen. pose proof (app_removelast_last (l := gs) 0%nat ltac:(destruct gs; discriminate)) as E.
      apply (f_equal (@length nat)) in E. rewrite app_length in E. cbn in E. lia. }
  destruct Hgs as (gd & g10 & -> & Hgd).
  unfold pulses in Hp. rewrite map_app, concat_app in Hp. fold (pulses gd) in Hp. cbn [map concat] in Hp.
  rewrite app_nil_r in Hp.
  apply map_eq_app in Hp as (bd & bs & -> & Hbd & Hbs).
  rewrite <- (app_nil_r (repeat 0 g10 ++ [1])) in Hbs.
  apply split_pulse in Hbs as (a10 & i10 & r10 & -> & Ha10 & Hi10 & Hr10).
  destruct r10; [|discriminate]. rewrite app_nil_r.
  destruct (phase_wait cnt b a0 i0 g0 Ha0 Hi0) as [R0 F0].
  destruct (phase_start cnt b 1 a1 i1 g1 Ha1 Hi1) as [R1 F1].
  destruct (data_phase gd 7 b 0 bd ltac:(lia) Hbd) as (Td & Rd & Fd).
  destruct Fd as (t' & x' & Fd); [destruct gd; discriminate|].
  destruct (phase_stop 0 t' x' a10 i10 g10 Ha10 Hi10) as [R10 F10].
  assert (L0 : length a0 = g0) by (rewrite <- (map_length si_pulse), Ha0; apply repeat_length).
  assert (L1 : length a1 = g1) by (rewrite <- (map_length si_pulse), Ha1; apply repeat_length).
  assert (L10 : length a10 = g10) by (rewrite <- (map_length si_pulse), Ha10; apply repeat_length).
  assert (A4 : forall A B C D E : list ser_in, (A ++ B ++ C ++ D) ++ E = A ++ B ++ C ++ D ++ E)
    by (intros; now rewrite <- !app_assoc).
  rewrite A4. clear A4.
  rewrite (runs_app _ _ (a0 ++ [i0])), (final_app _ _ (a0 ++ [i0])), F0, R0.
  rewrite (runs_app _ _ (a1 ++ [i1])), (final_app _ _ (a1 ++ [i1])), F1, R1.
  rewrite (runs_app _ _ bd), (final_app _ _ bd), Fd.
  rewrite (runs_app _ _ (a10 ++ [i10])), (final_app _ _ (a10 ++ [i10])), F10, R10.
  cbn [runs final fold_left]. rewrite ser_step_ref. unfold ser_ref. cbn [Z.eqb].
  cbn [map]. rewrite !map_app, Td, Rd, !map_repeat. cbn [map s_tx s_ready mkser].
  assert (Hh : forall ds xs d x, length ds = length xs -> hold (ds ++ [d]) (xs ++ [x]) = hold ds xs ++ repeat x d).
  { induction ds as [|d0 ds IH]; intros [|y xs] d x Hl; cbn in Hl; try discriminate; cbn [hold app].
    - now rewrite app_nil_r.
    - rewrite IH by lia. now rewrite app_assoc. }
  repeat split.
  - f_equal. rewrite !repeat_snoc. unfold frame8n1, frame_head. rewrite Hgd, bits_from_8.
    cbn [map hold app].
    change [bit b 0; bit b 1; bit b 2; bit b 3; bit b 4; bit b 5; bit b 6; bit b 7; 1]
      with ([bit b 0; bit b 1; bit b 2; bit b 3; bit b 4; bit b 5; bit b 6; bit b 7] ++ [1]).
    rewrite Hh by (rewrite map_length, Hgd; reflexivity).
    rewrite <- !app_assoc, <- (repeat_snoc 1 (S g10)). reflexivity.
  - f_equal. rewrite !app_length, L0, L1, L10. cbn [length].
    rewrite !repeat_snoc, !app_assoc, <- !repeat_app. f_equal. f_equal. lia.
  - exists 0, t'. reflexivity.
Qed.
