(* C17: the serializer frames every byte as 8N1 for every baud pulse train. *)
From V Require Import Base.Bits Gen.WireOps Gen.Seq Model.Uart Spec.C17.

(* ---- generic facts about runs / final *)
Section RunFacts.
Context {S I : Type}.
Variable step : S -> I -> S.
Lemma runs_app s a b : runs step s (a ++ b) = runs step s a ++ runs step (final step s a) b.
Proof. revert s; induction a as [|i a IH]; intros s; cbn [runs final fold_left app]; [reflexivity|]. now rewrite IH. Qed.
Lemma final_app s a b : final step s (a ++ b) = final step (final step s a) b.
Proof. unfold final; apply fold_left_app. Qed.
Lemma runs_length s a : length (runs step s a) = length a.
Proof. revert s; induction a as [|i a IH]; intros s; cbn; auto. Qed.
End RunFacts.

(* ---- wire stores on 1-bit and 8-bit wires *)
Lemma prep_trunc w v : Wire_prepare w v = trunc w v.
Proof. reflexivity. Qed.
Lemma prep1_bit x : 0 <= x <= 1 -> Wire_prepare 1 x = x.
Proof. intros H. rewrite prep_trunc. apply trunc_small; lia. Qed.
Lemma land1_range t : 0 <= Z.land t 1 <= 1.
Proof.
  change 1 with (Z.ones 1) at 1 2. rewrite Z.land_ones by lia. change (2 ^ 1) with 2.
  pose proof (Z.mod_pos_bound t 2); lia.
Qed.

(* ---- a readable reference for one serializer step, and the (only) lemma that looks inside the generated function *)
Definition mkser (k c t x r : Z) : ser :=
  {| s_fsm := {| UARTSerializer_s_state := k; UARTSerializer_s_count := c; UARTSerializer_s_txv := t |}; s_tx := x; s_ready := r |}.

Definition ser_ref (k c t x r : Z) (valid v pulse : Z) : ser :=
  if k =? 0 then mkser 1 c t 1 1
  else if k =? 1 then (if valid =? 0 then mkser 1 c t x r else mkser 2 c v x 0)
  else if k =? 2 then mkser (if pulse =? 0 then 2 else 3) c t x r
  else if k =? 3 then mkser (if pulse =? 0 then 3 else 4) 7 t 0 r
  else if k =? 4 then
    (if pulse =? 0 then mkser 4 c t (Z.land t 1) r
     else if c =? 0 then mkser 5 c (Z.shiftr t 1) (Z.land t 1) r
     else mkser 4 (c - 1) (Z.shiftr t 1) (Z.land t 1) r)
  else if k =? 5 then mkser (if pulse =? 0 then 5 else 0) c t 1 r
  else mkser k c t x r.

Ltac split_ifs :=
  repeat match goal with
         | |- context [if ?c then _ else _] => let E := fresh "E" in destruct c eqn:E
         end.

Lemma ser_step_ref k c t x r i :
  ser_step (mkser k c t x r) i = ser_ref k c t x r (si_valid i) (si_v i) (si_pulse i).
Proof.
  unfold ser_step, ser_ref, mkser, UARTSerializer_clock, py_truth, py_shr.
  cbn [s_fsm s_tx s_ready UARTSerializer_s_state UARTSerializer_s_count UARTSerializer_s_txv].
  pose proof (prep1_bit (Z.land t 1) (land1_range t)) as Hb.
  pose proof (prep1_bit 0 ltac:(lia)) as H0. pose proof (prep1_bit 1 ltac:(lia)) as H1.
  split_ifs; cbn [upd UARTSerializer_o_tx UARTSerializer_o_ready negb] in *;
    rewrite ?Hb, ?H0, ?H1; try reflexivity; try discriminate; try lia.
Show. 
Abort.
