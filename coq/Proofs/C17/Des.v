(* C17: the deserializer decodes every correctly sampled frame and hands the byte over exactly once. *)
From V Require Import Base.Bits Gen.WireOps Gen.Seq Model.Uart Spec.C17 Proofs.C17.Ser.

Definition mkdes (k c sv tmp va v ds : Z) : des :=
  {| d_fsm := {| UARTDeserializer_s_state := k; UARTDeserializer_s_count := c;
                 UARTDeserializer_s_state_v := sv; UARTDeserializer_s_temp := tmp |};
     d_valid := va; d_v := v; d_desync := ds |}.

(* hand-off FSM: (state_v, valid wire) after an edge *)
Definition vfsm (sv va ready : Z) : Z * Z :=
  if sv =? 1 then (if ready =? 0 then (1, va) else (2, 1))
  else if sv =? 2 then (if ready =? 0 then (2, va) else (0, 0))
  else (sv, va).

Definition des_ref (k c sv tmp va v ds : Z) (rx ready sample : Z) : des :=
  if k =? 0 then
    let '(sv', va') := vfsm sv va ready in
    mkdes (if negb (sample =? 0) && (rx =? 0) then 2 else 0) 0 sv' 0 va' v 0
  else if k =? 2 then
    if sample =? 0 then let '(sv', va') := vfsm sv va ready in mkdes 2 c sv' tmp va' v ds
    else if c =? 8 then let '(sv', va') := vfsm 1 va ready in mkdes 0 c sv' tmp va' (Wire_prepare 8 tmp) 1
    else let '(sv', va') := vfsm sv va ready in mkdes 2 (c + 1) sv' (Z.lor tmp (Z.shiftl rx c)) va' v ds
  else let '(sv', va') := vfsm sv va ready in mkdes k c sv' tmp va' v ds.

(* the only lemma that looks inside the generated UARTDeserializer_clock *)
Lemma des_step_ref k c sv tmp va v ds i :
  des_step (mkdes k c sv tmp va v ds) i = des_ref k c sv tmp va v ds (di_rx i) (di_ready i) (di_sample i).
Proof.
  unfold des_step, des_ref, vfsm, mkdes, UARTDeserializer_clock, py_truth, py_shl.
  cbn [d_fsm d_valid d_v d_desync UARTDeserializer_s_state UARTDeserializer_s_count UARTDeserializer_s_state_v UARTDeserializer_s_temp].
  pose proof (prep1_bit 0 ltac:(lia)) as H0. pose proof (prep1_bit 1 ltac:(lia)) as H1.
  split_ifs; cbn [upd UARTDeserializer_o_valid UARTDeserializer_o_v UARTDeserializer_o_clock_desync negb andb] in *;
    rewrite ?H0, ?H1; try reflexivity; try discriminate; eqb_subst; try reflexivity; try lia.
Qed.

Notation shown := (presents di_rx di_sample).

(* temp after the data samples xs taken from count c on *)
Fixpoint acc (tmp c : Z) (xs : list Z) : Z :=
  match xs with [] => tmp | x :: r => acc (Z.lor tmp (Z.shiftl x c)) (c + 1) r end.

Lemma acc_byte b : 0 <= b < 256 -> acc 0 0 (map (bit b) [0; 1; 2; 3; 4; 5; 6; 7]) = b.
Proof.
  intros Hb.
  assert (H : forallb (fun k => acc 0 0 (map (bit (Z.of_nat k)) [0; 1; 2; 3; 4; 5; 6; 7]) =? Z.of_nat k) (seq 0 256) = true)
    by (vm_compute; reflexivity).
  rewrite forallb_forall in H. specialize (H (Z.to_nat b)).
  rewrite Z2Nat.id in H by lia. apply Z.eqb_eq, H, in_seq. lia.
Qed.

Lemma vfsm_0 va r : vfsm 0 va r = (0, va).
Proof. reflexivity. Qed.

(* quiet: valid low, v unchanged, desync low *)
Definition quiet (v : Z) (s : des) : Prop := d_valid s = 0 /\ d_v s = v /\ d_desync s = 0.

Lemma xfer_none k c sv tmp v ds i : des_xfer (mkdes k c sv tmp 0 v ds) i = [].
Proof. reflexivity. Qed.

(* data samples *)
Lemma des_data xs ins : shown xs ins -> forall c tmp v, 0 <= c -> c + Z.of_nat (length xs) <= 8 ->
  let s := mkdes 2 c 0 tmp 0 v 0 in
  final des_step s ins = mkdes 2 (c + Z.of_nat (length xs)) 0 (acc tmp c xs) 0 v 0
  /\ Forall (quiet v) (runs des_step s ins) /\ des_transfers s ins = [].
Proof.
  induction 1 as [|i ins xs Hi Hsh IH|i ins x xs Hi Hx Hsh IH]; intros c tmp v Hc Hlen s; subst s.
  - cbn. rewrite Z.add_0_r. auto.
  - cbn [final fold_left runs des_transfers]. rewrite xfer_none, des_step_ref. unfold des_ref. cbn [Z.eqb Pos.eqb].
    rewrite Hi, vfsm_0. cbn [Z.eqb].
    destruct (IH c tmp v Hc Hlen) as (F & Q & T). repeat split; auto.
    constructor; auto. repeat split.
  - cbn [length] in Hlen. cbn [final fold_left runs des_transfers]. rewrite xfer_none, des_step_ref. unfold des_ref. cbn [Z.eqb Pos.eqb].
    rewrite Hi, vfsm_0, Hx. cbn [Z.eqb]. destruct (c =? 8) eqn:E; [apply Z.eqb_eq in E; lia|].
    destruct (IH (c + 1) (Z.lor tmp (Z.shiftl x c)) v ltac:(lia) ltac:(lia)) as (F & Q & T).
    cbn [acc length]. unfold final in F. rewrite F. repeat split; auto.
    + f_equal. lia.
    + constructor; auto. repeat split.
Qed.

(* idle wait, start sample, data samples *)
Lemma des_head ins : forall xs, shown (0 :: xs) ins -> Z.of_nat (length xs) <= 8 -> forall c tmp v ds,
  let s := mkdes 0 c 0 tmp 0 v ds in
  final des_step s ins = mkdes 2 (Z.of_nat (length xs)) 0 (acc 0 0 xs) 0 v 0
  /\ Forall (quiet v) (runs des_step s ins) /\ des_transfers s ins = [].
Proof.
  induction ins as [|i ins IH]; intros xs Hsh Hlen c tmp v ds s; subst s; inversion Hsh; subst.
  - cbn [final fold_left runs des_transfers]. rewrite xfer_none, des_step_ref. unfold des_ref. cbn [Z.eqb].
    match goal with H : di_sample i = 0 |- _ => rewrite H end. rewrite vfsm_0. cbn [Z.eqb negb andb].
    destruct (IH xs ltac:(assumption) Hlen 0 0 v 0) as (F & Q & T). repeat split; auto.
    constructor; auto. repeat split.
  - cbn [final fold_left runs des_transfers]. rewrite xfer_none, des_step_ref. unfold des_ref. cbn [Z.eqb].
    match goal with H : di_sample i = 1 |- _ => rewrite H end.
    match goal with H : di_rx i = 0 |- _ => rewrite H end. rewrite vfsm_0. cbn [Z.eqb negb andb Pos.eqb].
    destruct (des_data xs ins ltac:(assumption) 0 0 v ltac:(lia) ltac:(lia)) as (F & Q & T).
    unfold final in F. rewrite F. repeat split; auto. constructor; auto. repeat split.
Qed.

(* ---- hand-over.  need: samples still required before the receive FSM can complete another frame *)
Definition need (k c : Z) : Z := if k =? 0 then 10 else 9 - c.
Definition rx_ok (k c ds : Z) : Prop := (k = 0 \/ (k = 2 /\ 0 <= c <= 8 /\ ds = 0)).

(* transfers expected from hand-off state sv when the consumer is ready at nr of the coming edges *)
Definition handed (sv v : Z) (nr : nat) : list Z :=
  if sv =? 1 then (if (2 <=? nr)%nat then [v] else [])
  else if sv =? 2 then (if (1 <=? nr)%nat then [v] else [])
  else [].

Definition calm (v : Z) (s : des) : Prop := d_v s = v /\ d_desync s = 0.

Lemma nhigh_cons {I} (f : I -> Z) i l : nhigh f (i :: l) = ((if (f i =? 0)%Z then 0 else 1) + nhigh f l)%nat.
Proof. unfold nhigh. cbn [filter]. destruct (f i =? 0); reflexivity. Qed.

Lemma handoff rest : forall k c sv tmp va v ds,
  rx_ok k c ds -> Z.of_nat (nhigh di_sample rest) < need k c ->
  ((sv = 0 /\ va = 0) \/ (sv = 1 /\ va = 0) \/ (sv = 2 /\ va = 1)) ->
  let s := mkdes k c sv tmp va v ds in
  des_transfers s rest = handed sv v (nhigh di_ready rest)
  /\ Forall (calm v) (runs des_step s rest).
Proof.
  induction rest as [|i rest IH]; intros k c sv tmp va v ds Hk Hn Hsv s; subst s.
  - cbn. unfold handed. destruct Hsv as [[-> ->]|[[-> ->]|[-> ->]]]; auto.
  - cbn [des_transfers runs]. rewrite des_step_ref. rewrite !nhigh_cons in *.
    unfold des_xfer, py_truth. cbn [d_valid d_v mkdes].
    assert (Hnext : forall k' c' tmp' ds' sv' va',
               rx_ok k' c' ds' -> Z.of_nat (nhigh di_sample rest) < need k' c' ->
               ((sv' = 0 /\ va' = 0) \/ (sv' = 1 /\ va' = 0) \/ (sv' = 2 /\ va' = 1)) ->
               des_transfers (mkdes k' c' sv' tmp' va' v ds') rest = handed sv' v (nhigh di_ready rest)
               /\ Forall (calm v) (runs des_step (mkdes k' c' sv' tmp' va' v ds') rest)).
    { intros; apply IH; auto. }
    unfold des_ref, need, rx_ok, vfsm, handed in *.
    destruct Hk as [-> | (-> & Hc & ->)]; cbn [Z.eqb Pos.eqb] in *.
    + (* receive FSM idle *)
      destruct Hsv as [[-> ->]|[[-> ->]|[-> ->]]]; cbn [Z.eqb Pos.eqb negb andb app];
        destruct (di_ready i =? 0) eqn:Er; destruct (di_sample i =? 0) eqn:Es; cbn [negb andb];
        try destruct (di_rx i =? 0) eqn:Ex;
        match goal with
        | |- context [mkdes ?k' ?c' ?sv' ?tmp' ?va' v ?ds'] =>
            destruct (Hnext k' c' tmp' ds' sv' va') as (T & Q);
              [unfold rx_ok; lia | cbn [Z.eqb Pos.eqb]; lia | auto | ]
        end; rewrite T; (split; [| constructor; [split; reflexivity | exact Q]]);
        cbn [Z.eqb Pos.eqb Nat.add];
        repeat match goal with |- context [(?a <=? ?b)%nat] => destruct (Nat.leb_spec a b) end; try reflexivity; try lia.
    + (* receiving *)
      destruct (di_sample i =? 0) eqn:Es.
      * destruct Hsv as [[-> ->]|[[-> ->]|[-> ->]]]; cbn [Z.eqb Pos.eqb negb andb app];
        destruct (di_ready i =? 0) eqn:Er; cbn [negb andb];
        match goal with
        | |- context [mkdes ?k' ?c' ?sv' ?tmp' ?va' v ?ds'] =>
            destruct (Hnext k' c' tmp' ds' sv' va') as (T & Q);
              [unfold rx_ok; lia | cbn [Z.eqb Pos.eqb]; lia | auto | ]
        end; rewrite T; (split; [| constructor; [split; reflexivity | exact Q]]);
        cbn [Z.eqb Pos.eqb Nat.add];
        repeat match goal with |- context [(?a <=? ?b)%nat] => destruct (Nat.leb_spec a b) end; try reflexivity; try lia.
      * destruct (c =? 8) eqn:E8; [apply Z.eqb_eq in E8; lia|]. apply Z.eqb_neq in E8.
        destruct Hsv as [[-> ->]|[[-> ->]|[-> ->]]]; cbn [Z.eqb Pos.eqb negb andb app];
        destruct (di_ready i =? 0) eqn:Er; cbn [negb andb];
        match goal with
        | |- context [mkdes ?k' ?c' ?sv' ?tmp' ?va' v ?ds'] =>
            destruct (Hnext k' c' tmp' ds' sv' va') as (T & Q);
              [unfold rx_ok; lia | cbn [Z.eqb Pos.eqb]; lia | auto | ]
        end; rewrite T; (split; [| constructor; [split; reflexivity | exact Q]]);
        cbn [Z.eqb Pos.eqb Nat.add];
        repeat match goal with |- context [(?a <=? ?b)%nat] => destruct (Nat.leb_spec a b) end; try reflexivity; try lia.
Qed.

Lemma Forall_map_repeat {A} (P : A -> Prop) (f : A -> Z) x l : (forall a, P a -> f a = x) -> Forall P l -> map f l = repeat x (length l).
Proof. intros H; induction 1; cbn; f_equal; auto. Qed.

Lemma transfers_app s a b : des_transfers s (a ++ b) = des_transfers s a ++ des_transfers (final des_step s a) b.
Proof. revert s; induction a as [|i a IH]; intros s; cbn [des_transfers app final fold_left]; [reflexivity|]. now rewrite IH, app_assoc. Qed.

(* the deserializer is idle: receive FSM in IDLE, nothing pending for the consumer, valid low *)
Definition des_idle (s : des) : Prop :=
  UARTDeserializer_s_state (d_fsm s) = 0 /\ UARTDeserializer_s_state_v (d_fsm s) = 0 /\ d_valid s = 0.

(* des_frame *)
Lemma des_frame_lemma b s pre ic rest :
  0 <= b < 256 -> des_idle s ->
  shown (frame_head b) pre ->            (* sample instants present start, b0..b7 (rx arbitrary in between) *)
  di_sample ic = 1 ->                    (* the sample instant inside the stop bit (its level is not examined) *)
  (nhigh di_sample rest <= 9)%nat ->     (* afterwards: fewer sample instants than a further frame needs *)
  let ins := pre ++ ic :: rest in
  des_transfers s ins = (if (2 <=? nhigh di_ready (ic :: rest))%nat then [b] else [])
  /\ map d_desync (runs des_step s ins) = repeat 0 (length pre) ++ 1 :: repeat 0 (length rest)
  /\ map d_v (runs des_step s ins) = repeat (d_v s) (length pre) ++ repeat b (S (length rest))
  /\ map d_valid (runs des_step s pre) = repeat 0 (length pre).
Proof.
  intros Hb (Hk & Hsv & Hva) Hpre Hic Hrest ins. subst ins.
  destruct s as [[k c sv tmp] va v ds]. cbn in Hk, Hsv, Hva. subst k sv va. cbn [d_v].
  change (Build_des (Build_UARTDeserializer_state 0 c 0 tmp) 0 v ds) with (mkdes 0 c 0 tmp 0 v ds).
  destruct (des_head pre _ Hpre ltac:(cbn; lia) c tmp v ds) as (F & Q & T).
  rewrite map_length in F. cbn [length] in F. change (Z.of_nat 8) with 8 in F. rewrite (acc_byte b Hb) in F.
  rewrite transfers_app, runs_app, T, F. cbn [app des_transfers runs].
  rewrite xfer_none, des_step_ref. unfold des_ref. cbn [Z.eqb Pos.eqb]. rewrite Hic. cbn [Z.eqb].
  rewrite prep_trunc, trunc_small by (change (2 ^ 8) with 256; lia).
  rewrite !map_app. cbn [map app].
  rewrite (Forall_map_repeat (quiet v) d_desync 0 _ ltac:(intros a (_ & _ & H); exact H) Q).
  rewrite (Forall_map_repeat (quiet v) d_v v _ ltac:(intros a (_ & H & _); exact H) Q).
  rewrite (Forall_map_repeat (quiet v) d_valid 0 _ ltac:(intros a (H & _ & _); exact H) Q).
  rewrite !runs_length, nhigh_cons.
  assert (Hh : forall sv va, ((sv = 1 /\ va = 0) \/ (sv = 2 /\ va = 1)) ->
     des_transfers (mkdes 0 8 sv b va b 1) rest = handed sv b (nhigh di_ready rest)
     /\ Forall (calm b) (runs des_step (mkdes 0 8 sv b va b 1) rest)).
  { intros sv va H. apply handoff; [left; reflexivity | unfold need; cbn [Z.eqb]; lia | tauto]. }
  unfold vfsm. cbn [Z.eqb Pos.eqb].
  destruct (di_ready ic =? 0) eqn:Er.
  - destruct (Hh 1 0 ltac:(auto)) as (Th & Qh). cbn [d_desync d_v mkdes]. rewrite Th.
    rewrite (Forall_map_repeat (calm b) d_desync 0 _ ltac:(intros a (_ & H); exact H) Qh).
    rewrite (Forall_map_repeat (calm b) d_v b _ ltac:(intros a (H & _); exact H) Qh).
    rewrite !runs_length. unfold handed. cbn [Z.eqb Pos.eqb Nat.add repeat]. auto.
  - destruct (Hh 2 1 ltac:(auto)) as (Th & Qh). cbn [d_desync d_v mkdes]. rewrite Th.
    rewrite (Forall_map_repeat (calm b) d_desync 0 _ ltac:(intros a (_ & H); exact H) Qh).
    rewrite (Forall_map_repeat (calm b) d_v b _ ltac:(intros a (H & _); exact H) Qh).
    rewrite !runs_length. unfold handed. cbn [Z.eqb Pos.eqb repeat].
    repeat split; auto.
Qed.
