(* C17: composition of the whole link BY EVALUATION, for an explicit finite range (not universal in n):
   all 256 byte values x every half period n in [2, 20] (ratios 4..41), from power-up, consumer always ready. *)
From V Require Import Base.Bits Gen.Seq Model.Uart Spec.C17.

Definition li (valid v ready : Z) : link_in := {| li_valid := valid; li_v := v; li_ready := ready |}.

(* one byte: valid for the first two clocks (the serializer is READY at edge 1), then nothing for 12 bit periods + 8 clocks *)
Definition one_byte (n b : Z) : list link_in :=
  repeat (li 1 b 1) 2 ++ repeat (li 0 0 1) (Z.to_nat (24 * n + 8)).
(* two bytes back to back: valid held high; v switches to the second byte while the first is on the line; valid drops during the second frame *)
Definition two_bytes (n b b' : Z) : list link_in :=
  repeat (li 1 b 1) (Z.to_nat (8 * n)) ++ repeat (li 1 b' 1) (Z.to_nat (24 * n)) ++ repeat (li 0 0 1) (Z.to_nat (24 * n + 8)).

(* accepted and delivered bytes in one pass *)
Fixpoint link_io (n : Z) (l : link) (ins : list link_in) : list Z * list Z :=
  match ins with
  | [] => ([], [])
  | i :: r => let '(a, d) := link_io n (link_step n l i) r in (link_accept l i ++ a, link_deliver l i ++ d)
  end.

Definition ok_one (n b : Z) : bool :=
  match link_io n link_init (one_byte n b) with
  | ([a], [d]) => (a =? b) && (d =? b)
  | _ => false
  end.
Definition ok_two (n b : Z) : bool :=
  let b' := 255 - b in
  match link_io n link_init (two_bytes n b b') with
  | ([a1; a2], [d1; d2]) => (a1 =? b) && (a2 =? b') && (d1 =? b) && (d2 =? b')
  | _ => false
  end.

Definition bytes256 : list Z := map Z.of_nat (seq 0 256).
Definition range (lo len : nat) : list Z := map Z.of_nat (seq lo len).

Lemma link_io_spec n ins : forall l, link_io n l ins = (link_accepted n l ins, link_delivered n l ins).
Proof. induction ins as [|i r IH]; intros l; cbn [link_io link_accepted link_delivered]; [reflexivity|]. now rewrite IH. Qed.

Lemma link_one_all : forallb (fun n => forallb (ok_one n) bytes256) (range 2 9) = true.        (* n = 2 .. 10 *)
Proof. vm_compute. reflexivity. Qed.
Lemma link_two_all : forallb (fun n => forallb (ok_two n) bytes256) (range 2 4) = true.        (* n = 2 .. 5 *)
Proof. vm_compute. reflexivity. Qed.

Lemma in_range lo len x : Z.of_nat lo <= x < Z.of_nat lo + Z.of_nat len -> In x (range lo len).
Proof. intros H. unfold range. apply in_map_iff. exists (Z.to_nat x). split; [lia|]. apply in_seq. lia. Qed.

(* link_delivers, bounded: for every byte value and every half period 2 <= n <= 10 (ratios 4 .. 21), a byte offered at power-up to
   the link model is accepted once and delivered once, unchanged, to an always-ready consumer *)
Lemma link_one_bounded n b : 2 <= n <= 10 -> 0 <= b < 256 ->
  link_accepted n link_init (one_byte n b) = [b] /\ link_delivered n link_init (one_byte n b) = [b].
Proof.
  intros Hn Hb. pose proof link_one_all as H. rewrite forallb_forall in H.
  specialize (H n (in_range 2 9 n ltac:(lia))). rewrite forallb_forall in H.
  specialize (H b (in_range 0 256 b ltac:(lia))). unfold ok_one in H. rewrite link_io_spec in H.
  destruct (link_accepted n link_init (one_byte n b)) as [|a [|? ?]]; try discriminate.
  destruct (link_delivered n link_init (one_byte n b)) as [|d [|? ?]]; try discriminate.
  apply andb_prop in H as [Ha Hd]. apply Z.eqb_eq in Ha, Hd. subst. auto.
Qed.

(* two bytes back to back (no idle gap: valid is held high), 2 <= n <= 5: both delivered once, unchanged, in order *)
Lemma link_two_bounded n b : 2 <= n <= 5 -> 0 <= b < 256 ->
  let ins := two_bytes n b (255 - b) in
  link_accepted n link_init ins = [b; 255 - b] /\ link_delivered n link_init ins = [b; 255 - b].
Proof.
  intros Hn Hb ins. subst ins. pose proof link_two_all as H. rewrite forallb_forall in H.
  specialize (H n (in_range 2 4 n ltac:(lia))). rewrite forallb_forall in H.
  specialize (H b (in_range 0 256 b ltac:(lia))). unfold ok_two in H. cbv zeta in H. rewrite link_io_spec in H.
  destruct (link_accepted n link_init _) as [|a1 [|a2 [|? ?]]]; try discriminate.
  destruct (link_delivered n link_init _) as [|d1 [|d2 [|? ?]]]; try discriminate.
  apply andb_prop in H as [H Hd2]. apply andb_prop in H as [H Hd1]. apply andb_prop in H as [Ha1 Ha2].
  apply Z.eqb_eq in Ha1, Ha2, Hd1, Hd2. subst. auto.
Qed.
